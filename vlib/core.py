"""Orchestrator shared by every property check (see DESIGN.md section 2.1/2.2).

One check =
  1. refuse forbidden constructs in coq/, `make` the Coq development (full .vo build),
     re-compile Props/<id>.v to read the `Print Assumptions` answer of every theorem;
  2. rebuild the Go harness against /repo's working tree;
  3. replay corpus + known-finding witnesses, then generated cases, on the implementation;
  4. evaluate the model on the same cases inside Coq (`vm_compute`) and diff;
  5. evaluate the property oracle on the implementation's observations;
  6. violation protocol, evidence file, exit code.
"""
import hashlib
import json
import os
import re
import subprocess
import sys
import time

VERIF = os.environ.get('VERIF_ROOT') or os.path.dirname(os.path.dirname(os.path.abspath(__file__)))
REPO = os.environ.get('VERIF_REPO', '/repo')
COQ = os.path.join(VERIF, 'coq')
BUILD = os.path.join(VERIF, 'build')
EVID = os.path.join(VERIF, 'evidence')
HQ = os.path.join(BUILD, 'hq')

# DISABLE_KWALLET / DBUS_SESSION_BUS_ADDRESS: the keyring library the Cosmos SDK links (99designs/keyring) opens a D-Bus
# session bus in two init() functions; without a bus address that auto-launches one dbus-daemon per harness process,
# which is never reaped.  An address nobody listens on makes both fail silently, as they do on a machine without D-Bus.
GOENV = dict(os.environ, GOFLAGS='-mod=mod', GOPROXY='off', GOSUMDB='off', GOTOOLCHAIN='local',
             CGO_ENABLED=os.environ.get('CGO_ENABLED', '1'), DISABLE_KWALLET='1',
             DBUS_SESSION_BUS_ADDRESS='unix:path=/nonexistent/verif-no-dbus')

FORBIDDEN = re.compile(
    r'\b(Admitted|admit|Axiom|Axioms|Parameter|Parameters|Conjecture|Conjectures|Hypothesis|Hypotheses|Variables?)\b'
    r'|Unset\s+Guard|bypass_check|type-in-type|impredicative-set|Admit\s+Obligations|Unset\s+Universe\s+Checking|Unset\s+Positivity')

# axioms of the standard library that a theorem may depend on (named in the trusted base when present)
ALLOWED_AXIOMS = {
    'functional_extensionality_dep', 'FunctionalExtensionality.functional_extensionality_dep',
    'propositional_extensionality', 'proof_irrelevance', 'classic', 'Eqdep.Eq_rect_eq.eq_rect_eq',
    'JMeq_eq', 'JMeq.JMeq_eq', 'eq_rect_eq', 'ClassicalDedekindReals.sig_forall_dec',
    'ClassicalDedekindReals.sig_not_dec',
}


def sh(cmd, timeout=3600, cwd=None, env=None, inp=None):
    p = subprocess.run(cmd, shell=isinstance(cmd, str), cwd=cwd, env=env, input=inp,
                       stdout=subprocess.PIPE, stderr=subprocess.PIPE, timeout=timeout, text=True)
    return p.returncode, p.stdout, p.stderr


class CheckFailure(Exception):
    """A correspondence or proof obligation could not be checked."""

    def __init__(self, what, detail):
        super().__init__(what)
        self.what = what
        self.detail = detail


# ---------------------------------------------------------------- Coq side
def scan_forbidden():
    """Section-local Variable/Hypothesis are allowed (inside Section ... End); everything
    else in FORBIDDEN is refused.  Returns list of offending 'file:line: text'."""
    bad = []
    for root, _, files in os.walk(COQ):
        if '/Run' in root:
            continue
        for f in files:
            if not f.endswith('.v'):
                continue
            path = os.path.join(root, f)
            depth = 0
            txt = open(path).read()
            txt = strip_comments(txt)
            for i, line in enumerate(txt.split('\n'), 1):
                if re.match(r'\s*Section\s+\w+', line):
                    depth += 1
                for m in FORBIDDEN.finditer(line):
                    w = m.group(0)
                    if depth > 0 and re.fullmatch(r'Variables?|Hypothesis|Hypotheses', w):
                        continue
                    bad.append('%s:%d: %s' % (os.path.relpath(path, VERIF), i, line.strip()[:120]))
                if re.match(r'\s*End\s+\w+\s*\.', line) and depth > 0:
                    depth -= 1
    return bad


def strip_comments(txt):
    out = []
    depth = 0
    i = 0
    n = len(txt)
    while i < n:
        if txt.startswith('(*', i):
            depth += 1
            i += 2
        elif txt.startswith('*)', i) and depth > 0:
            depth -= 1
            i += 2
        else:
            if depth == 0:
                out.append(txt[i])
            elif txt[i] == '\n':
                out.append('\n')
            i += 1
    return ''.join(out)


def coq_build():
    rc, o, e = sh([os.path.join(VERIF, 'bin/mkcoqproject')])
    if rc != 0:
        raise CheckFailure('coq:_CoqProject', o + e)
    rc, o, e = sh('timeout 3000 make -j16 2>&1', cwd=COQ, timeout=3100)
    if rc != 0:
        m = re.findall(r'File "\./([^"]+)", line (\d+)', o)
        raise CheckFailure('coq:build ' + (':'.join(m[-1]) if m else ''), o[-3000:])


def props_assumptions(pid):
    """Compile Props/<pid>.v afresh and parse theorem names and their assumptions."""
    src = os.path.join(COQ, 'Props', pid + '.v')
    txt = strip_comments(open(src).read())
    theorems = re.findall(r'^\s*(?:Theorem|Corollary)\s+(\w+)', txt, re.M)
    rc, o, e = sh(['timeout', '900', 'coqc', '-Q', '.', 'HV', '-w', '-all', os.path.join('Props', pid + '.v')], cwd=COQ, timeout=1000)
    if rc != 0:
        raise CheckFailure('coq:Props/%s.v' % pid, (o + e)[-3000:])
    # Output of Print Assumptions comes in the order of the commands.
    printed = re.findall(r'^\s*Print\s+Assumptions\s+(\w+)\s*\.', txt, re.M)
    blocks = re.split(r'(?=Closed under the global context|Axioms:)', o)
    blocks = [b for b in blocks if b.startswith('Closed under') or b.startswith('Axioms:')]
    res = {}
    for name, b in zip(printed, blocks):
        if b.startswith('Closed'):
            res[name] = []
        else:
            res[name] = re.findall(r'^([A-Za-z_][\w.\']*)\s*:', b[len('Axioms:'):], re.M)
    return theorems, res, len(printed) == len(blocks)


# ---------------------------------------------------------------- Go side
def go_build():
    os.makedirs(BUILD, exist_ok=True)
    rc, o, e = sh([os.path.join(VERIF, 'bin/mkgomod')])
    if rc != 0:
        raise CheckFailure('harness:go.mod', o + e)
    rc, o, e = sh(['timeout', '3000', 'go', 'build', '-tags', 'verif', '-o', HQ, '.'], cwd=os.path.join(VERIF, 'harness'),
                  env=GOENV, timeout=3100)
    if rc != 0:
        raise CheckFailure('harness:build', (o + e)[-4000:])


def run_driver(driver, seed=1, n=10, tier='quick', replay=None, args=None, timeout=3000):
    cmd = ['timeout', str(timeout), HQ, driver, '-seed', str(seed), '-n', str(n), '-tier', tier]
    if replay:
        cmd += ['-replay', replay]
    if args:
        cmd += ['-arg', ','.join('%s=%s' % kv for kv in args.items())]
    rc, o, e = sh(cmd, timeout=timeout + 60, env=GOENV)
    cases = []
    for line in o.split('\n'):
        line = line.strip()
        if line.startswith('{'):
            try:
                cases.append(json.loads(line))
            except Exception:
                pass
    if rc != 0:
        raise CheckFailure('harness:run %s' % driver, 'exit %d\n%s\n%s' % (rc, e[-3000:], o[-500:]))
    return cases


# ---------------------------------------------------------------- model evaluation in Coq
def coq_eval(pid, header, lists, cases, shard=400, tag=''):
    """lists: {listname: {'type': coq type of one case, 'check': function : list case -> list nat}}
    Returns the set of indices (into `cases`) where model and implementation differ."""
    rundir = os.path.join(COQ, 'Run')
    os.makedirs(rundir, exist_ok=True)
    by_list = {}
    for idx, c in enumerate(cases):
        if not c.get('coq'):
            continue
        by_list.setdefault(c.get('coq_list') or 'cases', []).append(idx)
    jobs = []
    for lname, idxs in by_list.items():
        if lname not in lists:
            raise CheckFailure('corr:%s unknown case list %s' % (pid, lname), '')
        sz = lists[lname].get('shard', shard)
        for k in range(0, len(idxs), sz):
            part = idxs[k:k + sz]
            fn = 'cases_%s%s_%s_%d' % (pid, tag, lname, k // sz)
            body = [header, '',
                    'Definition the_cases : list (%s) := [' % lists[lname]['type'],
                    ';\n'.join('  ' + cases[i]['coq'] for i in part), '].',
                    'Definition M := Eval vm_compute in (%s the_cases).' % lists[lname]['check'],
                    'Print M.']
            with open(os.path.join(rundir, fn + '.v'), 'w') as fh:
                fh.write('\n'.join(body) + '\n')
            jobs.append((fn, part))
    procs = []
    bad = set()
    maxpar = 12
    pending = list(jobs)
    running = []
    outputs = {}
    while pending or running:
        while pending and len(running) < maxpar:
            fn, part = pending.pop(0)
            p = subprocess.Popen(['timeout', '1500', 'coqc', '-Q', '.', 'HV', '-w', '-all', 'Run/%s.v' % fn], cwd=COQ,
                                 stdout=subprocess.PIPE, stderr=subprocess.PIPE, text=True)
            running.append((p, fn, part))
        p, fn, part = running.pop(0)
        o, e = p.communicate()
        outputs[fn] = (p.returncode, o, e, part)
    for fn, (rc, o, e, part) in outputs.items():
        if rc != 0:
            raise CheckFailure('corr:%s model evaluation failed (%s)' % (pid, fn), (o + e)[-3000:])
        flat = ' '.join(o.split())
        m = re.search(r'M = (.*?) : list', flat)
        if not m:
            raise CheckFailure('corr:%s cannot parse model output (%s)' % (pid, fn), flat[-2000:])
        val = m.group(1).strip()
        if val in ('[]', 'nil'):
            continue
        for tok in re.findall(r'\d+', val):
            k = int(tok)
            if k < len(part):
                bad.add(part[k])
    for fn in outputs:
        for ext in ('.v', '.vo', '.vok', '.vos', '.glob'):
            try:
                os.remove(os.path.join(rundir, fn + ext))
            except OSError:
                pass
        try:
            os.remove(os.path.join(rundir, '.' + fn + '.aux'))
        except OSError:
            pass
    return bad


# ---------------------------------------------------------------- known findings
def load_findings(pid):
    path = os.path.join(VERIF, 'known_findings.json')
    if not os.path.exists(path):
        return []
    data = json.load(open(path))
    return [f for f in data.get('findings', []) if f.get('property') == pid]


# ---------------------------------------------------------------- shrinking
def shrink(driver, case, field='ops', args=None, is_bad=None, max_rounds=40):
    """Greedy delta debugging over the list input[field]; `is_bad(case)` decides
    whether a candidate still fails the same way (default: oracle fails)."""
    if is_bad is None:
        is_bad = lambda c: not c['oracle_ok']
    inp = case['input']
    if not isinstance(inp, dict) or not isinstance(inp.get(field), list):
        return case
    best = case
    tmp = os.path.join(BUILD, 'shrink_%d.jsonl' % os.getpid())
    rounds = 0
    chunk = max(1, len(inp[field]) // 2)
    while chunk >= 1 and rounds < max_rounds:
        rounds += 1
        ops = best['input'][field]
        cands = []
        for start in range(0, len(ops), chunk):
            cand = dict(best['input'])
            cand[field] = ops[:start] + ops[start + chunk:]
            if cand[field]:
                cands.append(cand)
        if not cands:
            break
        with open(tmp, 'w') as fh:
            for c in cands:
                fh.write(json.dumps({'input': c}) + '\n')
        try:
            res = run_driver(driver, replay=tmp, args=args, timeout=600)
        except CheckFailure:
            break
        hit = next((r for r in res if is_bad(r)), None)
        if hit is not None:
            best = hit
            chunk = min(chunk, max(1, len(best['input'][field]) // 2))
        else:
            if chunk == 1:
                break
            chunk //= 2
    try:
        os.remove(tmp)
    except OSError:
        pass
    return best


# ---------------------------------------------------------------- the check
def write_replay(pid, seed, payload, suffix=''):
    d = os.path.join(EVID, 'replay')
    os.makedirs(d, exist_ok=True)
    path = os.path.join(d, '%s-%s%s.json' % (pid, seed, suffix))
    with open(path, 'w') as fh:
        json.dump(payload, fh, indent=1, default=str)
    return path


def run_check(P, argv):
    """P is the property configuration dict (see vlib/props_*.py)."""
    t0 = time.time()
    pid = P['id']
    tier = os.environ.get('VERIF_TIER') or 'quick'
    replay_path = None
    i = 0
    while i < len(argv):
        if argv[i] == '--tier':
            tier = argv[i + 1]
            i += 2
        elif argv[i] == '--replay':
            replay_path = argv[i + 1]
            i += 2
        else:
            i += 1
    if tier not in ('quick', 'thorough'):
        tier = 'quick'
    try:
        seed = int(os.environ.get('VERIF_SEED', '1'))
    except ValueError:
        seed = 1
    os.makedirs(EVID, exist_ok=True)

    violations = []      # (line suffix, replay path)
    known_lines = []
    notes = []
    cov = {'obligations': 0, 'discharged': 0, 'evaluations': 0, 'distinct_nontrivial': 0,
           'traces_validated_against_impl': 0, 'samples': [], 'distribution': {}, 'model_mismatches': 0,
           'oracle_failures': 0, 'known_finding_hits': 0}
    theorems, assum = [], {}

    def finish():
        cov['checker_cmd'] = 'make -C coq (coqc 8.16.1, full .vo build) && coqc Props/%s.v (Print Assumptions); ' \
                             'correspondence: build/hq %s | coqc Run/cases_%s_*.v (vm_compute)' % (
                                 pid, ','.join(d['name'] for d in P['drivers']), pid)
        cov['trusted_base'] = P.get('trusted_base', [])
        cov['rule'] = P.get('rule', '')
        cov['theorems'] = [{'name': t, 'axioms': assum.get(t)} for t in theorems]
        cov['notes'] = notes
        ev = {'property_id': pid, 'tier': tier, 'seed': seed, 'level': 'proof', 'coverage': cov,
              'assumptions': P.get('assumptions', []), 'wall_s': round(time.time() - t0, 2),
              'violations': len(violations)}
        with open(os.path.join(EVID, pid + '.json'), 'w') as fh:
            json.dump(ev, fh, indent=1, default=str)
        for l in known_lines:
            print(l)
        if violations:
            for suffix, path in violations:
                print('VIOLATION property=%s replay=%s%s' % (pid, path, (' ' + suffix) if suffix else ''))
            sys.stdout.flush()
            sys.exit(1)
        print('OK property=%s tier=%s seed=%d obligations=%d/%d cases=%d nontrivial=%d wall=%.1fs' % (
            pid, tier, seed, cov['discharged'], cov['obligations'], cov['evaluations'], cov['distinct_nontrivial'],
            time.time() - t0))
        sys.exit(0)

    def broken(what, detail, theorems_affected=None):
        path = write_replay(pid, seed, {
            'property': pid, 'kind': 'obligation-not-checked', 'what_no_longer_checks': what,
            'theorems_resting_on_it': theorems_affected if theorems_affected is not None else theorems,
            'detail': detail[-6000:] if isinstance(detail, str) else detail, 'seed': seed, 'tier': tier}, '-broken')
        violations.append(('no-failing-input-found', path))

    # 1. Coq
    try:
        bad = scan_forbidden()
        if bad:
            raise CheckFailure('coq:forbidden construct', '\n'.join(bad))
        coq_build()
        theorems, assum, complete = props_assumptions(pid)
        cov['obligations'] = len(theorems)
        ok = 0
        for t in theorems:
            ax = assum.get(t)
            if ax is not None and all(a in ALLOWED_AXIOMS or a.split('.')[-1] in ALLOWED_AXIOMS for a in ax):
                ok += 1
        cov['discharged'] = ok
        if ok != len(theorems) or not complete:
            raise CheckFailure('coq:Props/%s.v assumptions' % pid, json.dumps(assum))
    except CheckFailure as cf:
        broken(cf.what, cf.detail)
        finish()

    # 2. harness
    try:
        go_build()
    except CheckFailure as cf:
        broken(cf.what + ' (the correspondence between model and /repo cannot be run)', cf.detail)
        finish()

    # 3-5. per driver
    all_cases = []
    try:
        for D in P['drivers']:
            dname = D['name']
            args = D.get('args')
            cases = []
            if replay_path:
                # a replay file written by write_replay names the driver whose input it holds
                try:
                    rdrv = json.load(open(replay_path)).get('driver')
                except Exception:
                    rdrv = None
                if rdrv and rdrv != dname and any(d['name'] == rdrv for d in P['drivers']):
                    continue
                cases += run_driver(dname, replay=replay_path, args=args)
            else:
                cdir = os.path.join(VERIF, 'corpus', pid)
                if os.path.isdir(cdir):
                    for f in sorted(os.listdir(cdir)):
                        if f.endswith('.jsonl') and (f.startswith(dname + '.') or len(P['drivers']) == 1):
                            cs = run_driver(dname, replay=os.path.join(cdir, f), args=args)
                            for c in cs:
                                c['id'] = 'corpus:%s:%s' % (f, c['id'])
                            cases += cs
                n = D['n'][tier]
                batch = D.get('batch', 4000)
                k = 0
                while k < n:
                    m = min(batch, n - k)
                    cases += run_driver(dname, seed=seed * 1000003 + k, n=m, tier=tier, args=args,
                                        timeout=D.get('timeout', 3000))
                    k += m
            for c in cases:
                c['_driver'] = dname
            all_cases += cases
    except CheckFailure as cf:
        broken(cf.what, cf.detail)
        finish()

    cov['evaluations'] = len(all_cases)
    keys = set()
    dist = {}
    for c in all_cases:
        for t in c.get('tags') or []:
            dist[t] = dist.get(t, 0) + 1
        if c.get('nontrivial'):
            keys.add(hashlib.sha1((c.get('key') or c['id']).encode()).hexdigest())
    cov['distinct_nontrivial'] = len(keys)
    cov['distribution'] = dict(sorted(dist.items()))
    for c in all_cases[:1] + all_cases[len(all_cases) // 2:len(all_cases) // 2 + 1]:
        cov['samples'].append({'id': c['id'], 'driver': c['_driver'], 'input': c['input'], 'oracle_ok': c['oracle_ok']})

    # model evaluation
    try:
        mism = coq_eval(pid, P['coq_header'], P['lists'], all_cases)
    except CheckFailure as cf:
        broken(cf.what, cf.detail)
        finish()
    cov['traces_validated_against_impl'] = sum(1 for c in all_cases if c.get('coq')) - len(mism)
    cov['model_mismatches'] = len(mism)

    findings = load_findings(pid)
    known = {f['class']: f for f in findings if f.get('status') == 'known'}

    # oracle failures
    obl_fails = [c for c in all_cases if not c['oracle_ok'] and c.get('obligation')]
    fails = [c for c in all_cases if not c['oracle_ok'] and not c.get('obligation')]
    cov['oracle_failures'] = len(fails)
    cov['obligation_failures'] = len(obl_fails)
    reported_known = set()
    new_fail = None
    idx_of = {id(c): i for i, c in enumerate(all_cases)}
    for c in fails:
        cl = c.get('class') or ''
        # a listed finding is recognised by its class AND by the implementation still behaving as the
        # faithful model (*_impl) predicts; any other failure inside the class is a new violation
        if cl in known and idx_of[id(c)] not in mism:
            cov['known_finding_hits'] += 1
            if cl not in reported_known:
                reported_known.add(cl)
                known_lines.append('KNOWN-FINDING: property=%s %s [%s]' % (pid, known[cl]['what_fails'], cl))
            continue
        if new_fail is None:
            new_fail = c
    # cases inside a known class must behave as recorded (impl model) or as the spec: a model
    # mismatch inside a known class with the oracle holding means the defect was repaired -> silent.
    mism_real = []
    for i in sorted(mism):
        c = all_cases[i]
        if (c.get('class') or '') in known and c['oracle_ok']:
            notes.append('case %s in known class %s now satisfies the property (defect repaired?)' % (c['id'], c['class']))
            continue
        if not c['oracle_ok'] and (c.get('class') or '') not in known:
            continue  # reported as an oracle failure below
        if not c['oracle_ok']:
            continue
        mism_real.append(c)

    if new_fail is not None:
        D = next(d for d in P['drivers'] if d['name'] == new_fail['_driver'])
        small = new_fail
        if D.get('shrink_field'):
            cl0 = new_fail.get('class') or ''
            small = shrink(new_fail['_driver'], new_fail, D['shrink_field'], D.get('args'),
                           is_bad=lambda r: (not r['oracle_ok']) and (r.get('class') or '') not in known)
        path = write_replay(pid, seed, {
            'property': pid, 'kind': 'property-violated-on-implementation', 'driver': new_fail['_driver'],
            'input': small['input'], 'implementation_observed': small.get('obs'),
            'property_demands': small.get('oracle_msg'), 'original_case': new_fail['id'],
            'seed': seed, 'tier': tier,
            'replay_cmd': '/verif/bin/check %s --replay <this file>' % pid})
        violations.append(('', path))
    elif mism_real or obl_fails:
        # correspondence broken while the property held on every sampled input: search harder
        found = None
        sb = P.get('search', {})
        try:
            for D in P['drivers']:
                for r in range(sb.get('rounds', 4)):
                    cs = run_driver(D['name'], seed=seed * 7919 + 104729 * (r + 1), n=sb.get('n', D['n']['quick'] * 3),
                                    tier='thorough', args=D.get('args'), timeout=D.get('timeout', 3000))
                    cov['evaluations'] += len(cs)
                    for c in cs:
                        if not c['oracle_ok'] and not c.get('obligation') and (c.get('class') or '') not in known:
                            c['_driver'] = D['name']
                            found = c
                            break
                    if found:
                        break
                if found:
                    break
        except CheckFailure as cf:
            notes.append('search tier failed: ' + cf.what)
        if found:
            D = next(d for d in P['drivers'] if d['name'] == found['_driver'])
            small = shrink(found['_driver'], found, D['shrink_field'], D.get('args'),
                           is_bad=lambda r: (not r['oracle_ok']) and (r.get('class') or '') not in known) if D.get('shrink_field') else found
            path = write_replay(pid, seed, {
                'property': pid, 'kind': 'property-violated-on-implementation', 'driver': found['_driver'],
                'input': small['input'], 'implementation_observed': small.get('obs'),
                'property_demands': small.get('oracle_msg'), 'found_by': 'search after correspondence mismatch',
                'seed': seed, 'tier': tier})
            violations.append(('', path))
        elif not mism_real:
            c = obl_fails[0]
            path = write_replay(pid, seed, {
                'property': pid, 'kind': 'obligation-not-discharged',
                'what_no_longer_checks': 'obligation:%s/%s/%s — %s' % (pid, c['_driver'], c['id'], c.get('oracle_msg')),
                'theorems_resting_on_it': theorems, 'input': c['input'], 'observed': c.get('obs'),
                'seed': seed, 'tier': tier}, '-obligation')
            violations.append(('no-failing-input-found', path))
        else:
            c = mism_real[0]
            path = write_replay(pid, seed, {
                'property': pid, 'kind': 'correspondence-broken',
                'what_no_longer_checks': 'corr:%s/%s/%s — the Coq model and the implementation disagree on this input' % (pid, c['_driver'], c['id']),
                'theorems_resting_on_it': theorems, 'input': c['input'], 'implementation_observed': c.get('obs'),
                'n_mismatching_cases': len(mism_real), 'seed': seed, 'tier': tier}, '-corr')
            violations.append(('no-failing-input-found', path))
    finish()
