P = {
    'id': 'C14',
    'design_ref': 'DESIGN.md section 5 (C14)',
    'level_text': 'Coq theorems about the executable transcription of x/bank/keeper/keeper.go BurnCoins (over the SDK bank primitives '
                  'send / burn / mint and the FeePool community pool, all denominations): a burn by gov, bonded_tokens_pool or '
                  'not_bonded_tokens_pool (exactly these names) leaves every supply unchanged, adds exactly the amount x 10^18 to the '
                  'community pool and exactly the amount to the distribution module account, touches no third account; a burn by any '
                  'other module is the ordinary burn (supply and module balance minus the amount, pool and distribution account '
                  'untouched); failed calls change nothing; over ALL histories of burns / mints / sends from any state: pool growth = '
                  '10^18 x sum of redirected amounts = distribution-account growth (absent other traffic on that account), supply '
                  'changes only by ordinary burns and mints, supply = sum of balances and pool <= distribution balance are preserved. '
                  'Second model (one denomination, the FeePool as a stored value that every writer reads, updates and writes back): over '
                  'ALL sequences of redirected burns, MsgFundCommunityPool, community-pool spends, remainders booked by distribution hooks / '
                  'withdrawals, AllocateTokens, ordinary burns, mints, plain sends and block boundaries, in any interleaving from any state: '
                  'supply changes only by ordinary burns (and mints); community pool = initial + 10^18 x (sum redirected + sum donated - sum '
                  'spent) + sum of booked remainders, independent of the order (permutation theorem); the distribution account receives every '
                  'redirected coin and covers community pool + outstanding rewards; a BurnCoins that memoises the decoded FeePool per block '
                  'height is refuted (loses a donation, or the remainder a staking hook books between two burns of ONE slash). '
                  'The model is compared on every run with the real application: slashes of bonded / unbonding / redelegated stake '
                  '(StakingKeeper.Slash, double-sign evidence through the evidence BeginBlocker, downtime through the slashing '
                  'BeginBlocker), vetoed / quorum-failing / under-deposited / passing proposals with multi-denomination deposits through '
                  'the gov EndBlocker, EVM SetBalance burns and mints, direct burns by the other module accounts, interleaved at ONE block height and '
                  'across heights with MsgFundCommunityPool, MsgCommunityPoolSpend (gov authority), reward and commission withdrawals, '
                  'delegation changes (hook remainders) and the distribution BeginBlocker; after EVERY event supply, community pool, '
                  'distribution module account and outstanding rewards are compared with an exact expectation',
    'level_note': 'trusted: Coq kernel + vm_compute, std++; the hand-written model (tied to /repo only by the sampled correspondence run). '
                  'Which bank keeper instance the staking and gov keepers hold (app/app.go) is not modelled: it is observed by driving '
                  'the application\'s own StakingKeeper / GovKeeper / SlashingKeeper / EvidenceKeeper. SDK staking slash arithmetic, gov '
                  'tally, bank store and module-account permissions are modelled or observed, not verified; no axioms',
    'technique': 'Coq proof (per-call exactness + accounting by induction over bank-call histories and over event sequences around the '
                 'stored FeePool) + differential correspondence and exact per-event property oracle on real slash / proposal / burn / '
                 'community-pool events at one height and across heights',
    'drivers': [
        {'name': 'burns', 'n': {'quick': 60, 'thorough': 2000}, 'shrink_field': 'ops', 'batch': 500},
    ],
    'coq_header': 'From HV Require Import Dao.LedgerModel Bank.BurnModel.\nFrom Coq Require Import ZArith NArith List.\nImport ListNotations.',
    'lists': {'cases': {'type': 'hcase', 'check': 'mismatches', 'shard': 8}},
    'search': {'rounds': 4, 'n': 300},
    'rule': 'a case is an explicit SEQUENCE of 40-95 operations over explicit block heights on a forked real app ("hold": the next '
            'operation happens at the same height; a fifth of the cases has one operation per height, the others blocks of 2-10 events): fund 12 '
            'users, set staking/slashing/gov params, create 2-4 validators, delegate, allocate fees (pending rewards with fractional parts), '
            'then a random mix of delegate / undelegate / redelegate / staking end-block / Slash (fractions 0..1, infraction height 0..40 '
            'blocks back, reported power exact or arbitrary) / double-sign evidence / downtime / submit-deposit-vote-gov-end-block with '
            'random burn flags (veto / quorum / prevote) and 1-3 deposit denominations / EVM burn and mint / direct module burns (with and '
            'without Burner permission, at balance+1) / MsgFundCommunityPool / community-pool spend with the gov authority / delegator '
            'reward and validator commission withdrawal / distribution BeginBlocker (AllocateTokens); 16% of the steps are a block '
            '[redirected burn; 1-3 pool writers or an ordinary burn; redirected burn] at one height or a double-sign slash of a validator '
            'with a fresh unbonding delegation and a redelegation whose destination has pending rewards. After EVERY event: supply, '
            'community pool and distribution account against the exact expectation (redirected X: supply 0, pool + X x 10^18 + what the '
            'distribution hooks of the same event booked = coins in - payouts - growth of outstanding rewards, account + X - payouts; '
            'donation Y: pool and account + Y; spend Z: - Z; ordinary burn: supply - amount, pool and account untouched), and '
            'distribution account >= community pool + outstanding rewards. Each case is evaluated by both Coq models: the bank view per '
            'event and the whole history as one event sequence per denomination (final supply, pool, account, outstanding, balances). '
            'Every case runs in its own range of heights of the process. non-trivial = at least one event redirected a positive amount; '
            'distinct = distinct op lists',
    'trusted_base': [
        'Coq 8.16.1 kernel incl. vm_compute (no native_compute); std++ 1.8.0 gmap',
        'axioms: none (Print Assumptions: closed under the global context for every theorem of Props/C14.v)',
        'correspondence harness harness/burns.go + vlib/core.py (generator, snapshots, oracle, shrinker)',
        'modelled, not verified: SDK bank SendCoins / BurnCoins / MintCoins, module-account permissions (maccPerms), DecCoins addition; '
        'observed, not modelled: staking Slash / SlashUnbondingDelegation / SlashRedelegation amounts, gov Tally and deposit refunds, '
        'reward amounts and truncation remainders of x/distribution (enter the models as measured event arguments), '
        'and the keeper wiring of app/app.go',
    ],
    'assumptions': [
        'a failing bank call leaves no state behind (callers abort the transaction or panic; the harness runs each event on a cache context)',
        'during Slash / evidence / downtime handling nothing but BurnCoins moves coins out of the bonded and not-bonded pools; during the gov '
        'EndBlocker the gov module account only refunds depositors or burns (proposals carry no messages in the generated histories)',
        'during a slash users are credited only by the distribution hooks (reward payouts); what x/distribution books into the community '
        'pool during an event equals coins received - payouts - growth of the outstanding rewards (its own bookkeeping, SDK 0.47 '
        'withdrawDelegationRewards / IncrementValidatorPeriod / AfterValidatorRemoved / AllocateTokens)',
    ],
}
