P = {
    'id': 'C12',
    'design_ref': 'DESIGN.md section 5 (C12), section 6 (F2)',
    'level_text': 'Coq theorems over all message histories (any accounts incl. sender = recipient, any ratios/amounts, malformed '
                  'coins): sum of shares = recorded total = module balance, exact holder index, exact effect of fund and of the '
                  'three transfer kinds, failed message has no effect; the model is the executable Gallina transcription of '
                  'x/ucdao keeper + msg server and is compared with the real message router on generated histories on every run',
    'level_note': 'trusted: Coq kernel + vm_compute, std++; the hand-written model (tied to /repo only by the sampled correspondence run); '
                  'bank SendCoinsFromAccountToModule, baseapp atomicity, store/codec are modelled not verified; no axioms',
    'technique': 'Coq proof (invariant by induction over message histories) + differential correspondence against the real msg server',
    'drivers': [
        {'name': 'dao', 'n': {'quick': 300, 'thorough': 12000}, 'shrink_field': 'ops', 'batch': 3000},
    ],
    'coq_header': 'From HV Require Import Dao.LedgerModel.\nFrom Coq Require Import ZArith NArith List.\nImport ListNotations.',
    'lists': {'cases': {'type': 'list (op * obs)', 'check': 'mismatches true', 'shard': 30}},
    'search': {'rounds': 4, 'n': 1500},
    'rule': 'a case is a history of 6-15 messages (mint/enable/fund/transfer-all/-ratio/-amount over 4 accounts and 4 '
            'denominations, sender = recipient in 1/4 of transfers, ~6% malformed coins) run through the application '
            'message router on a fresh real app; non-trivial = at least two fund/transfer messages succeeded; distinct = '
            'distinct op lists',
    'trusted_base': [
        'Coq 8.16.1 kernel incl. vm_compute (no native_compute); std++ 1.8.0 gmap/gset',
        'axioms: none (Print Assumptions: closed under the global context for every theorem of Props/C12.v)',
        'correspondence harness /verif/harness/dao.go + vlib/core.py (generator, canonicaliser, oracle, shrinker)',
        'modelled, not verified: bank escrow transfer (SendCoinsFromAccountToModule), baseapp message atomicity '
        '(cache context written back only on success), KV store and codec',
    ],
    'assumptions': [
        'nothing but Fund credits the DAO module account (module accounts are blocked recipients)',
        'a failed message leaves no state behind (baseapp runMsgs semantics, reproduced by the harness with CacheContext)',
    ],
}
