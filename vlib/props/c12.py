P = {
    'id': 'C12',
    'drivers': [
        {'name': 'dao', 'n': {'quick': 300, 'thorough': 12000}, 'shrink_field': 'ops', 'batch': 3000},
    ],
    'coq_header': 'From HV Require Import Dao.LedgerModel.\nFrom Coq Require Import ZArith NArith List.\nImport ListNotations.',
    'lists': {'cases': {'type': 'list (op * obs)', 'check': 'mismatches true', 'shard': 250}},
    'search': {'rounds': 4, 'n': 1500},
    'rule': 'a case is a history of 6-15 messages (mint/enable/fund/transfer-all/-ratio/-amount over 4 accounts and 4 '
            'denominations, sender = recipient in 1/4 of transfers, ~6% malformed coins) run through the application '
            'message router on a fresh real app; non-trivial = at least two fund/transfer messages succeeded; distinct = '
            'distinct op lists',
    'trusted_base': [
        'Coq 8.16.1 kernel incl. vm_compute (no native_compute); std++ 1.8.0 gmap/gset',
        'axioms: none (Print Assumptions: closed under the global context for every theorem of Props/C12.v)',
        'correspondence harness /verif/harness/dao.go + vlib/core.py (generator, canonicaliser, oracle, shrinker)',
        'modelled, not verified: bank escrow transfer (SendCoinsFromAccountToModule), baseapp message atomicity '
        '(cache context written back only on success), KV store and codec',
    ],
    'assumptions': [
        'nothing but Fund credits the DAO module account (module accounts are blocked recipients)',
        'a failed message leaves no state behind (baseapp runMsgs semantics, reproduced by the harness with CacheContext)',
    ],
}
