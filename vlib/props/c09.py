P = {
    'id': 'C09',
    'design_ref': 'DESIGN.md section 5 (C09), section 6 (F1, K1)',
    'level_text': 'Coq theorems over all period lists (zero-length periods, simultaneous events, differing start times, any number '
                  'of denominations), all read times and all message histories: ReadSchedule is the step function of the periods '
                  'ended by t (monotone, zero up to the start, total from the end on; vested+unvested = locked+unlocked = original, '
                  'never negative); DisjunctPeriods is the union of both schedules\' release events (no hypothesis on the lengths), '
                  'ConjunctPeriods their pointwise minimum; ComputeClawback takes exactly the unvested amount and caps the lockup '
                  'schedule at the vested amount; only the recorded funder claws back, the bank delta of account and destination is '
                  'exactly the unvested amount; merge through create and (after fix F1) through ConvertIntoVestingAccount is the '
                  'union.  The model is the executable Gallina transcription of x/vesting/types/schedule.go, '
                  'clawback_vesting_account.go and the x/vesting message server, compared with the real functions and the real '
                  'message router on generated cases on every run',
    'level_note': 'trusted: Coq kernel + vm_compute, std++; the hand-written model (tied to /repo only by the sampled correspondence '
                  'run); int64 overflow is not modelled; bank SendCoins, baseapp atomicity, store/codec and the staking queries of '
                  'addGrant are modelled/observed, not verified; "a clawback leaves a valid account" is refuted on the class K1 '
                  '(clawback before the first vesting event) and proved outside it',
    'technique': 'Coq proof (induction over period lists for the two-pointer merges, invariant over message histories) + '
                 'differential correspondence against the real schedule functions, account methods and msg server',
    'drivers': [
        # one driver, three kinds of cases chosen per case (quick 45/25/30 %, thorough 62/31/7 % pure/account/history);
        # -arg kind=pure|acc|hist forces one kind.  Go side: ~1 ms per case, single process.
        {'name': 'vesting', 'n': {'quick': 900, 'thorough': 32000}, 'shrink_field': 'ops', 'batch': 4000},
    ],
    'coq_header': 'From HV Require Import Base.Coins Vesting.ScheduleModel Vesting.KeeperModel.\n'
                  'From Coq Require Import ZArith NArith List.\nImport ListNotations.',
    'lists': {
        'pure': {'type': 'pure_in * pure_obs', 'check': 'pure_mismatches', 'shard': 60},
        'acc': {'type': 'acc_in * acc_obs', 'check': 'acc_mismatches', 'shard': 25},
        'hist': {'type': 'list (op * kobs)', 'check': 'kmismatches true', 'shard': 25},
    },
    'search': {'rounds': 4, 'n': 3000},
    'rule': 'three kinds of cases. pure: (startA, startB, A, B) with 0-6 periods each, 1-3 denominations, amounts up to 2^120, '
            '35% zero-length periods, event times of B colliding with A on purpose, equal/differing starts, 5% a negative length, '
            '15% an end/total inconsistent with the periods; ReadSchedule/ReadPastPeriodCount at every event boundary -1/0/+1 of '
            'inputs and outputs, DisjunctPeriods, ConjunctPeriods, AlignSchedules; non-trivial = both lists non-empty. '
            'acc: a ClawbackVestingAccount from independent lockup and vesting splits of one total (15% invalid, 25% with delegated '
            'amounts, 10% overwritten end time), a fresh account per call; all read methods, LockedCoins, ComputeClawback and '
            'Validate of its result at every boundary -1/0/+1; non-trivial = Validate() passes and a read time lies strictly '
            'inside (start, end). hist: 5-12 messages (fund, MsgSend, create, create --merge, ConvertIntoVestingAccount with and '
            'without merge, clawback by funder / non-funder / explicit, own and blocked destination, update funder, convert back; '
            '~6% malformed schedules) through the application message router on a copy-on-write view of a real app at chosen '
            'block times (before start, between/at events, after end; not necessarily monotone); non-trivial = at least one '
            'successful merge or a successful clawback of a non-zero amount. distinct = distinct inputs. The demand "a clawback '
            'leaves a valid account" on an input of the known class K1 is reported as a separate record <id>/k1 (same input, no '
            'model term), so the main record of every input keeps the model comparison and all other demands',
    'trusted_base': [
        'Coq 8.16.1 kernel incl. vm_compute (no native_compute); std++ 1.8.0 gmap',
        'axioms: none (Print Assumptions: closed under the global context for every theorem of Props/C09.v)',
        'correspondence harness /verif/harness/vesting.go + vlib/core.py (generator, canonicaliser, reference step function '
        'refEv with big.Int, oracle, shrinker)',
        'modelled, not verified: bank SendCoins (locked-coins check, recipient account creation), baseapp message atomicity '
        '(cache context written back only on success), KV store and codec, account number assignment',
    ],
    'assumptions': [
        'int64 overflow of times and lengths is not modelled (times and lengths are Z in the model, below 2^41 in the harness)',
        'the staking amounts read by addGrant / ApplyVestingSchedule (bonded + unbonding of the target) are observed inputs of '
        'the operation (0 in the generated histories: no delegations are made)',
        'bank SendCoins is modelled (balance - LockedCoins must cover the amount; recipient account created); blocked '
        'addresses = module accounts (index 5 = fee_collector in the harness)',
        'period amounts are valid sdk.Coins (sorted, positive); invalid coins are rejected by ValidateBasic with ErrInvalidCoins '
        'before the modelled code',
        'a failed message leaves no state behind (baseapp runMsgs semantics, reproduced by the harness with CacheContext)',
    ],
}
