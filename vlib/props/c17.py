P = {
    'id': 'C17',
    'design_ref': 'DESIGN.md section 5 (C17), section 6 (K2)',
    'level_text': 'Coq theorems for ALL inputs (unbounded integers): CalculateBaseFee equals the three-branch EIP-1559 function of '
                  '(parent base fee, stored gas figure g, target T = gas limit / elasticity, denominator, integer part of the minimum gas '
                  'price) for every parameter set, height and gas limit (configured, unlimited = MaxUint64, absent); increase >= 1; never '
                  'below the minimum in the decrease branch; unchanged at target; monotone in g when min <= base (refuted otherwise: K2); '
                  'base >= min is invariant over all block sequences; the gas figure is exactly max(floor(wanted x multiplier), used); '
                  'for ALL lists of delivered transactions the declared gas the ante decorator accumulates is the plain sum of the gas limits of '
                  'the transactions that passed the ante handler (no cap; uint64 wrap only above 2^64, refuted beyond), the stored figure is '
                  'max(floor(sum x multiplier), used), monotone in every declared gas limit, and a block with sum x multiplier > T raises the '
                  'next base fee by >= 1 (a running total capped at the block gas limit is refuted: 5 x 8e6 under 20e6). '
                  'The Gallina model is compared with the real keeper (CalculateBaseFee, BeginBlock, EndBlock) and with real blocks of signed '
                  'transactions delivered through BaseApp under a finite consensus MaxGas on generated cases on every run',
    'level_note': 'trusted: Coq kernel + vm_compute; the hand-written model of eip1559.go / abci.go and of cosmossdk.io/math LegacyDec '
                  '(both tied to the real code only by the sampled correspondence run, declib driver included); params/consensus-params '
                  'storage, the transient store and the block gas meter are driven (kind "real": produced by the real ante handlers and BaseApp; '
                  'the model takes per transaction the declared gas, the reported gas used and whether the ante handler passed); no axioms',
    'technique': 'Coq proof (arithmetic over Z, induction over block sequences) + differential correspondence against the real fee market keeper',
    'drivers': [
        {'name': 'feemarket', 'n': {'quick': 2000, 'thorough': 200000}, 'batch': 20000, 'shrink_field': 'blocks'},
        {'name': 'declib', 'n': {'quick': 400, 'thorough': 20000}, 'batch': 20000},
    ],
    'coq_header': 'From HV Require Import Base.Dec Feemarket.BaseFeeModel.\nFrom Coq Require Import ZArith NArith List.\nImport ListNotations.',
    'lists': {
        'calc': {'type': 'calc_case', 'check': 'calc_mismatches', 'shard': 2500},
        'gas': {'type': 'gas_case', 'check': 'gas_mismatches', 'shard': 5000},
        'seq': {'type': 'seq_case', 'check': 'seq_mismatches', 'shard': 1000},
        'real': {'type': 'real_case', 'check': 'real_mismatches', 'shard': 400},
        'decops': {'type': 'N * Z * Z * Z', 'check': 'dec_mismatches', 'shard': 5000},
    },
    'search': {'rounds': 3, 'n': 6000},
    'rule': 'feemarket driver, per 20 cases: 14 "calc" (one parameter set — denominator, elasticity, Block.MaxGas incl. -1/0/absent, base fee '
            'up to 2^200, minimum gas price below/at/above the base fee and fractional, enable height — with CalculateBaseFee evaluated at '
            '5-9 stored gas figures: the main one, its neighbours, T-1/T/T+1, 0, random), 4 "gas" (EndBlock for wanted/used/multiplier incl. '
            'the MaxInt64 guards), 1 "seq" (4-12 blocks BeginBlock+EndBlock; 2 in three of four rounds of the thorough tier), 1 "real" (a fresh '
            'application with consensus Block.MaxGas 2e6..40e6 or -1, MinGasMultiplier 0/0.2/0.5/1/other, elasticity 1-4, denominator, NoBaseFee, '
            'EnableHeight, MinGasPrice below/at/above the base fee; 2-5 blocks BeginBlock, DeliverTx, EndBlock, Commit of 0-10 signed transactions: '
            'bank sends with 1-4 messages, Ethereum transfers / gas burning contract calls / several MsgEthereumTx per transaction, declared gas '
            'totals at floor(total x mult) = T-1/T/T+1, = limit, limit+1.., 2 x limit, up to 7 x limit with every transaction below the limit, gas '
            'used small or up to the block gas limit, failures in the ante handler — sequence, fee, gas above the limit, out of gas, undecodable — '
            'and in execution, declared gas 2^63-1 under unlimited block gas; after every block the stored figure and the next base fee against '
            'the formula evaluated from the delivered transactions); declib: one LegacyDec call each.  non-trivial = the input lies '
            'in the domain of the formula (enabled, base >= 0, elasticity, T, denominator > 0) resp. of the gas rule; distinct = distinct inputs',
    'trusted_base': [
        'Coq 8.16.1 kernel incl. vm_compute (no native_compute)',
        'axioms: none (Print Assumptions: closed under the global context for every theorem of Props/C17.v)',
        'correspondence harness harness/feemarket.go, harness/declib.go + vlib/core.py (generator, oracle)',
        'modelled, not verified: big.Int.Div as Z.div for positive divisors, LegacyDec (Base/Dec.v), uint64 gas figures as Z; '
        'driven, not modelled: params store, consensus params in the context, transient gas wanted, block gas meter; in "real" histories '
        'the ante handlers, BaseApp.runTx and the block gas meter are the real ones, observed per transaction (gas limit, reported gas used, '
        'sender sequence advanced = ante handler passed)',
    ],
    'assumptions': [
        'guards stated in the theorems: ElasticityMultiplier > 0, target T > 0, BaseFeeChangeDenominator > 0 (the Go code divides by zero '
        'otherwise: out-of-domain observation, compared with the model, not a violation)',
        'monotonicity needs 0 <= base and MinGasPrice.TruncateInt() <= base (known finding K2 otherwise)',
        'the minimum gas price acts through its integer part (TruncateInt): with a fractional minimum the fee can end less than one unit below it',
        'block theorems: gas limits and gas used >= 0 and the declared gas of the block <= MaxUint64 (the running total is a uint64 addition '
        'without guard: C17_declared_sum_wrap_refuted; reachable only with unlimited block gas, a transaction may declare at most 2^63-1)',
    ],
}
