P = {
    'id': 'C08',
    'design_ref': 'DESIGN.md section 5 (C08)',
    'level_text': 'Coq theorems about the executable transcription of ClawbackVestingAccount.LockedCoins / ReadSchedule, the SDK debit rule '
                  'subUnlockedCoins, Haqq\'s delegation guard + DelegateCoins/TrackDelegation, TrackUndelegation, transferClawback and addGrant, '
                  'for all lockup/vesting schedules, block times and operation histories (credit, debit, delegate, undelegate, payout, slash, '
                  'time, clawback, grant merge): the code\'s locked formula equals max(original - unlockedVested - trackedDelegated, unvested) '
                  '(clamped at 0 for ill-formed accounts), is antitone in time; a debit above balance - locked always fails and every successful '
                  'debit leaves balance >= locked whatever the state before; the eth ante pre-check is sound w.r.t. the debit rule; a delegation '
                  'never exceeds balance - unvested; "unvested coins are never delegated" holds after ALL histories; "balance >= locked" holds '
                  'after all histories that do not merge a grant after a slash (partial) and is refuted for those (finding, reproduced on /repo). '
                  'The model is compared on every run with the real application over 13 spend paths, 3 delegation paths, 3 validator-creation paths, undelegation, unbonding '
                  'completion, slashing, clawback and grant merges, with amounts at spendable-1/0/+1. '
                  'Account kind (vesting / plain EthAccount) and the account-type messages are part of the model and of the histories: '
                  'MsgConvertVestingAccount succeeds only for a vesting account whose SCHEDULE has nothing unvested and nothing locked up '
                  '(GetVestingCoins = 0 and GetLockedUpCoins = original - unlocked = 0, whatever is delegated), at any point of any history; '
                  'once a schedule locks nothing it locks nothing at any later time (monotone unlocking), so "balance >= locked" and '
                  '"unvested never delegated" survive conversion to a plain account, conversion back (ApplyVestingSchedule: DelegatedFree := '
                  'bonded + unbonding), merges, funder updates and clawbacks by the current funder, over all histories (the K11 exclusion '
                  'unchanged); with the guard computed from the bank-facing LockedCoins instead (locked - min(delegated, lockedUpVested)) the '
                  'history [delegate all; convert; undelegate; payout; send] empties an account whose schedule still locks everything (refuted). '
                  'MsgConvertIntoVestingAccount{Stake} is an operation of the model: the schedule part (conversion of a plain account / merge by the '
                  'funder), then delegateVestedCoins = stakingKeeper.Delegate called DIRECTLY (no validateDelegationAmountNotUnvested on this path: '
                  'only balance >= amount, then TrackDelegation) with the vested part of the grant carried by the message (ReadSchedule over the '
                  'message\'s own periods); proved: whenever no unvested coin was delegated before, a successful stake message is the schedule message '
                  'followed by an ordinary delegation that Haqq\'s guard accepts (the missing guard is implied), so "unvested never delegated" and '
                  '"balance >= locked" (K11 exclusion unchanged) hold over all histories containing it; staking the account-wide vested amount of '
                  'the merged schedule instead delegates freshly deposited unvested coins once earlier vested coins were spent (refuted with witness: '
                  'balance 250 < unvested 750, the funder\'s clawback fails). '
                  'Validator creation is an operation of the model on three routes (MsgCreateValidator through the message router, inside authz '
                  'MsgExec, through the staking precompile\'s createValidator in an Ethereum transaction signed by the account): on every route the '
                  'code hands the message to Haqq\'s staking message-server wrapper, so the step is validateDelegationAmountNotUnvested followed by '
                  'the SDK\'s DelegateCoins + TrackDelegation — proved equal to the ordinary guarded delegation of the self-bond; a successful '
                  'self-bond is positive and at most balance - unvested, anything above is refused on every route, a refusal changes nothing; '
                  '"unvested never delegated" and "balance >= locked" (K11 exclusion unchanged) hold over all histories mixing validator creation '
                  'with every other operation; with the Cosmos SDK\'s own message server behind the precompile the account\'s own Ethereum '
                  'transaction bonds a wholly unvested grant (refuted with witness: balance 0 < unvested 750, the funder\'s clawback fails)',
    'level_note': 'trusted: Coq kernel + vm_compute; the hand-written single-denomination model (tied to /repo only by the sampled correspondence '
                  'run, two denominations side by side); the merged (DisjunctPeriods) and capped (ConjunctPeriods) schedules are inputs of the '
                  'model, checked for well-formedness and monotonicity at use (their exact construction is property C09); SDK staking shares/'
                  'tokens arithmetic and unbonding queue enter as observed figures; go-ethereum interpreter, authz dispatch, gov/dao/erc20 '
                  'keepers are only driven, not modelled; IBC transfer is not driven (no channel can be mocked cheaply); for a converted '
                  'account the model keeps the discarded vesting record as a ghost (the code has dropped it); MsgConvertIntoVestingAccount '
                  '{Stake:true}: the merged schedule is an input as for every merge, the model checks at use that at the block time it has vested at '
                  'least old vested + vested part of the grant (C09: union of events); validator creation: only the bank / tracking side of '
                  'MsgCreateValidator is modelled; the staking module\'s own refusals (a validator of the operator or with the consensus key '
                  'exists, commission / description / MinSelfDelegation checks) are not: the harness issues the model step only for an account '
                  'that is not a validator yet, with parameters the staking module accepts; no axioms',
    'technique': 'Coq proof (invariants by induction over operation histories, closed-form of the locked amount) + differential '
                 'correspondence and property oracle with an independent big.Int reference of the schedule',
    'drivers': [
        {'name': 'locked', 'n': {'quick': 400, 'thorough': 6000}, 'shrink_field': 'ops', 'batch': 1500},
    ],
    'coq_header': 'From HV Require Import Vesting.LockModel.\nFrom Coq Require Import ZArith NArith List.\nImport ListNotations.',
    'lists': {'cases': {'type': 'lk_case', 'check': 'lk_mismatches', 'shard': 15}},
    'search': {'rounds': 4, 'n': 600},
    'rule': 'a case = one clawback vesting account (created by MsgCreateClawbackVestingAccount, or an EthAccount with optional prior '
            'delegation converted by MsgConvertIntoVestingAccount) with random 1-4 vesting and 0-3 lockup periods in 1-2 denominations, start '
            'before/after the block time, optional free coins, optional ERC20 pair for the second denomination, then 18-31 operations at '
            'chosen block times: spend attempts (MsgSend, MsgMultiSend, authz-exec MsgSend, eth value transfer incl. the ante vesting decorator, '
            'contract-internal transfer through the script contract, UC DAO MsgFund, gov MsgDeposit, ERC20 ConvertCoin, MsgSend through the '
            'ERC20 route, cosmos fee deduction decorator, eth fee deduction) at spendable-1/0/+1/half/one, delegations (MsgDelegate, authz exec, '
            'staking precompile) at delegatable-1/0/+1, validator creation = the self-bond of MsgCreateValidator (through the router, inside '
            'authz MsgExec under a generic grant, through the staking precompile\'s createValidator hand-packed into an Ethereum transaction '
            'signed by the account) at delegatable-1/0/+1/half/one/the whole balance, undelegate (from the genesis validator or of the '
            'self-bond), staking end-block (unbonding completion), time advance, Slash, credit, '
            'grant merge (by the funder / a foreign signer), clawback (current / stale funder), MsgConvertVestingAccount, '
            'MsgConvertIntoVestingAccount (plain -> vesting, merge, wrong signer; with Stake in half of them), MsgUpdateVestingFunder; '
            'the account may also be created by MsgConvertIntoVestingAccount on an address without account, and by the converting message '
            'with Stake; 25 % of the cases are stake histories: first grant started in the past, block time steered into / behind its '
            'schedule, the coins earlier grants have vested left alone / spent / half spent / delegated / delegated and unbonding / unbonded '
            'and spent, then MsgConvertIntoVestingAccount with Merge (88 %) and Stake (90 %) carrying a grant that is not / partly / fully '
            'vested at the block time with a deposit of the same or a larger size, then the funder\'s clawback, spends at spendable / '
            'spendable+1, delegations at delegatable+1, undelegation, unbonding maturity, conversion to a plain account and a stake message '
            'onto it (with / without delegations), second round on the merged schedule; 15 % of the cases are validator histories: account '
            'created / converted / new, block time steered before the start of the schedule / to its start / inside it / to the vesting end / '
            'between the ends / behind both, the vested coins left alone / half or fully delegated / half or fully spent / with an undelegation in '
            'flight / free coins on top, then the self-bond over one route at delegatable+1 or the whole balance (then again over the other two '
            'routes) or at delegatable / -1 / half / one (then a second validator of the same operator), then delegation at delegatable+1, spend '
            'at spendable+1, the funder\'s clawback, undelegation of the self-bond + unbonding maturity, a later attempt, a merged grant and an '
            'attempt above, conversion to a plain account and validator creation by it; 2 % of the operations of the general mix are validator '
            'creations; 30 % of the cases are '
            'account-type histories: block time steered before / at / between / after the vesting end and the lock-up end of the schedule in '
            'the input, none / half / all-but-one / all of the delegatable amount delegated, optional undelegation in flight, clawback, '
            'merged grant, slash, funder change, then MsgConvertVestingAccount, undelegation, staking end-block after the unbonding time, '
            'spends at spendable / spendable+1 over the spend paths, delegations, conversion back into a vesting account, second round. '
            'Oracle: balance >= max(original - unlockedVested - tracked, unvested) after every successful non-delegation transaction (stake '
            'messages and the state left by the creating message included); after EVERY successful operation (delegations over the three '
            'paths, stake messages, merges, clawbacks, payouts, time, slashes) the unvested amount of the stored schedule (reference '
            'evaluation) is still in the bank balance, i.e. nothing bonded or unbonding is an unvested coin, whoever requested the '
            'delegation — a validator creation included: it succeeds only with a self-bond covered by balance - unvested, its validator then '
            'holds exactly that self-bond; a refused stake message (nothing of this grant vested, no merge flag, foreign signer) is replayed on the model '
            'with the schedule the message would have produced and must be refused there too; a '
            'successful MsgConvertVestingAccount at block time t requires original - unlocked(t) = 0 and original - vested(t) = 0 in both '
            'denominations (reference evaluation of the stored schedule); if it succeeds otherwise the discarded schedule stays an '
            'obligation (tracked delegation continued by the SDK rules) that every later transaction is checked against, reported '
            'separately; the Coq model (kind, funder, convert guard from the schedule) is evaluated on the same histories incl. refused '
            'operations; after a successful merge (create with Merge, or convert-into with Merge) the merged vesting and lockup schedules are compared with the account before plus the grant AS SIGNED at every event time (own step-function reader): a merge that alters the schedules of the grant is reported even when the stored schedule is self-consistent; non-trivial = at least one successful spend and three successful spends/delegations; distinct = distinct inputs',
    'trusted_base': [
        'Coq 8.16.1 kernel incl. vm_compute (no native_compute)',
        'axioms: none (Print Assumptions: closed under the global context for every theorem of Props/C08.v)',
        'correspondence harness harness/locked.go + vlib/core.py (generator, reference schedule evaluation, oracle, shrinker)',
        'modelled, not verified: that the message router, authz MsgExec and the staking precompile hand MsgCreateValidator to Haqq\'s staking '
        'message-server wrapper (sampled on every run over the three routes at delegatable / delegatable+1)',
        'modelled, not verified: SDK bank subUnlockedCoins / DelegateCoins / UndelegateCoins, BaseVestingAccount.TrackUndelegation, the '
        'account keeper storing an EthAccount in place of the vesting record (plain accounts: no locked amount, no tracking); inputs of '
        'the model: merged / capped schedules (C09), the staking module\'s bonded and unbonding figures, matured unbonding payouts',
    ],
    'assumptions': [
        'every account debit of the application goes through the SDK bank keeper\'s subUnlockedCoins (sampled over 13 paths; IBC transfer not driven)',
        'sdk.Coins arithmetic is per denomination; LockedCoins\' all-denominations reset on a negative result cannot fire for well-formed accounts (lk_raw_nonneg)',
        'a failed message leaves no state behind (baseapp semantics, reproduced with cache contexts)',
        'the property is read as: a clawback vesting account may stop being one (MsgConvertVestingAccount) only when its lock-up and vesting '
        'schedules are done, whatever is delegated; otherwise coins still locked by the schedule could leave a plain account',
    ],
}
