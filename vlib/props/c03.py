P = {
    'id': 'C03',
    'design_ref': 'DESIGN.md section 5 (C18 / C03), section 4 (Base/Rlp.v), section 10',
    'level_text': 'Coq theorems: (1) the bytes an Ethereum signer hashes determine type, replay protection, chain id and every signed field '
                  '(from the injectivity of RLP as go-ethereum writes it); (2) a nonce/sequence state machine shared by the Ethereum, Cosmos and '
                  'legacy EIP-712 routes, for ANY hash / recovery / verification functions: over all histories of submissions (valid, replayed, '
                  'out of order, any verdict of the unmodelled checks) every (account, nonce) is accepted at most once and an accepted transaction '
                  'is rejected ever after; replay-protected transactions of another chain id and unprotected ones (AllowUnprotectedTxs = false) are '
                  'refused; a correctly signed transaction at the right nonce is accepted; (2b) the same for Cosmos transactions carrying SEVERAL '
                  'MsgEthereumTx (step_eth_tx = the two ante loops: authenticate every message, then per message nonce = CURRENT sequence, +1; all or '
                  'nothing): over all histories each (account, nonce) executes at most once, also within one transaction; a transaction containing a '
                  'duplicated, replayed, stale or out-of-order message is rejected as a whole without effect; acceptance is characterised exactly '
                  '(nonce of message k = sequence at the start + earlier messages of the same sender) and in-order batches, senders interleaved, are '
                  'accepted; the one-message transaction is the old machine; (2c) a signed Ethereum message executes ONLY through the Ethereum route: a Cosmos '
                  'transaction that merely carries signed MsgEthereumTx (inside authz.MsgExec alone / behind plain messages / nested / beside other inner '
                  'messages / wrapped by another signer, as a plain message of an ordinary or EIP-712-signed Cosmos transaction, inside a wrapper behind the '
                  'Ethereum extension option) is a submission kind of its own (Wrapped) whose acceptance rule is never: over ALL histories mixing '
                  'Ethereum-route and wrapped submissions no carried message -- executed before, not yet executed, future or used nonce -- is executed '
                  'by a wrapped submission, which is rejected without effect, everything that executes was submitted on the Ethereum route at the '
                  'account\'s current sequence, wrapped submissions are inert (deleting them changes nothing), and every (account, nonce) still executes '
                  'at most once; (2d) contract creations inside multi-message Ethereum transactions: the execution phase is part of the model (after the '
                  'ante loops advanced the sequence by k, a successful creation with nonce m writes max(sequence, m + 1), as x/evm ApplyMessageWithConfig '
                  'does since commit f9ff121): it is a no-op whatever the flags, sequence = n + k after every accepted transaction, at most once over all '
                  'histories; the rule of the code before that commit (m + 1) is REFUTED by the witness [tx [create n; call n+1]; tx [call n+1]] (the call '
                  'executes twice, the sequence ends at n + 1); (2e) events: histories that mix submissions, wrapped submissions, transactions with '
                  'creations and account-type operations (conversion into a vesting account by a third party, merge, conversion back -- a transaction of '
                  'its own signers that leaves its target\'s sequence alone): sequences never decrease, at most once, a message executed once is never '
                  'executed again whatever lies between; (2f) the message as it travels: a MsgEthereumTx carries Data and two self-reported texts, Hash and From '
                  '(emsg of TxCodec/EthTxModel.v); the validation binds Hash to Data (ValidateBasic recomputes it from the conversion of Data) and demands an '
                  'empty From, and who a message is authenticated as, the nonce compared with the sequence and what executes are functions of Data alone, '
                  'computed afresh at every use (auth_emsg): for given Data at most one (Hash, From) pair passes and the account is the same whatever is '
                  'claimed; a Cosmos transaction containing one message whose Hash text is not the hash of its own Data (the hash of an executed or merely '
                  'validated transaction, of another account\'s, any text) or whose From text is not empty is refused as a whole without effect, for every '
                  'state, whatever stands beside it and whatever was validated or executed before; at most once over all histories of messages whatever '
                  'they claim; on messages as FromEthereumTx writes them the machine of messages is the machine of transactions; a process-wide memo '
                  '"Hash text -> converted transaction" consulted by the self-reported Hash (NOT the code) is REFUTED: T executes, then T\'s Data with the '
                  'nonce set to the new sequence, from which no account is recovered, executes T a second time (memo_replays_refuted); (3) *_partial: under explicit premises ECDSA '
                  'unforgeability and Keccak collision resistance, a transaction executes on behalf of an account only if that account\'s key holder '
                  'signed exactly its content, chain id and current sequence -- hence single-field mutations and foreign-chain signatures do not; message k of an '
                  'accepted transaction executes for an account only if that account\'s key holder signed exactly the content of its DATA, and a message whose '
                  'Data has a content nobody signed poisons the whole transaction whatever its Hash and From texts claim. '
                  'The machine is compared on every run with the real ante handler (all routes, every single-field mutation, chain-id variants, '
                  'replays), with real DeliverTx block histories, and with multi-message Ethereum transactions (built with /repo\'s testutil/tx.PrepareEthTx) '
                  'through the real ante handler and real DeliverTx, executions counted on the recipients\' balances, and with histories in which already '
                  'executed / fresh / future / used-nonce signed messages are carried by every kind of wrapper through the real ante handler and real DeliverTx, '
                  'with batches that contain contract creations (deploying, failing, storing init code) and the re-delivery of all their messages alone and '
                  'in sub-batches, and with account-type operations (x/vesting MsgConvertIntoVestingAccount / merge / MsgConvertVestingAccount) followed by '
                  'the re-delivery of old signed bytes of all routes, and with messages FORGED from transactions the same process has executed / checked before '
                  '(Data changed with the old V, R, S kept, foreign Hash texts, From texts; alone, inside multi-message envelopes, inside wrappers) through '
                  'the real ValidateBasic, ante handler, CheckTx and DeliverTx',
    'level_note': 'partial: ECDSA (secp256k1 sign/recover/verify) and Keccak-256 are NOT modelled -- they enter the theorems as arbitrary functions '
                  'and the negative direction carries unforgeability / collision resistance as named premises; the correspondence run uses the real '
                  'ones and feeds the model what they answered (recovered sender; which sign doc a signature was made over). Cosmos / EIP-712 routes '
                  'are modelled at the level of the sign-doc tuple (chain id, account number, sequence, body): sign-bytes and typed-data construction '
                  '(SIGN_MODE_DIRECT, amino JSON, ethereum/eip712) are sampled, not modelled. Fees, funds, gas and message validity are an arbitrary '
                  'boolean per submission. The wrapped routes are modelled by their verdict only (never): RejectMessagesDecorator, AuthzLimiterDecorator and '
                  'the type assertions of the Ethereum ante chain are compared with it on every run, not transcribed. No axioms',
    'technique': 'Coq proof (state-machine invariant over all histories; RLP injectivity) + differential correspondence against the real ante handler and DeliverTx',
    'drivers': [
        {'name': 'sigs', 'n': {'quick': 240, 'thorough': 5000}, 'batch': 1000, 'shrink_field': 'txs'},
    ],
    'coq_header': 'From Coq Require Import Ascii String.\nFrom Coq Require Import ZArith NArith List.\n'
                  'From HV Require Import TxCodec.EthTxModel Ante.SigModel.\nImport ListNotations.\nLocal Open Scope string_scope.',
    'lists': {'cases': {'type': 'list hist', 'check': 'mismatches_groups', 'shard': 40}},
    'search': {'rounds': 3, 'n': 600},
    'rule': 'one mutation case in five runs in the ZERO-FEE regime (fee market without base fee, minimum gas price 0, every transaction of the case offers gas price 0: no rule about signatures or sequences may lean on the fee; the empty-fee envelope mutant is then the canonical envelope and is left out); five cases in twelve: one signed transaction of one route (eth legacy / access-list / dynamic-fee, cosmos direct / amino, EIP-712 via '
            'Web3 extension / via the ethsecp256k1 key) on a real app through the real ante handler: every single-field mutation on its own branch of '
            'the state (eth: nonce, prices, gas, to, value, data, access list, chain id field or V, V/R/S tweaks, s-malleation, type change, ten '
            'envelope fields; cosmos: message, memo, fee, gas, timeout, signer-info sequence and key, signature bytes, extension fields), the same '
            'content signed for haqq_54211-3, for another account number or sequence, unprotected, then original / replay / next nonces / replays; '
            'for ~45% of the eth mutants the stranger account the altered signature recovers to is funded so that the mutant IS accepted -- for '
            'that stranger. One case in six: a block history through real DeliverTx (2-3 accounts, 3-5 nonces each, all routes mixed, in-order / '
            'duplicate / ahead submissions, a block boundary). One case in six (kind multi, explicit script in the input): a fresh chain, 2-3 senders, '
            '5-9 Cosmos transactions of 1-4 MsgEthereumTx (legacy / access-list / dynamic-fee mixed) through the real ante handler and real DeliverTx: '
            'in-order batch of one sender 16%, two senders interleaved 12%, single 6%, the same signed tx twice 14%, same-nonce replacement pair 9%, '
            'gap / future nonce 8%, reversed 5%, a message executed earlier alone or beside a fresh one 12%, duplicate behind another sender 10%, '
            'recipient altered after signing (stranger unfunded / funded) 8%; a block boundary in half of them; every signed message pays a private '
            'recipient, so executions are counted on balances. One case in twelve (kind wrapped, taken from the mutation cases, explicit script in the '
            'input, same runner): a fresh chain, 2-3 senders, a first Ethereum-route transaction that executes, then 5-9 steps: Ethereum-route '
            'transactions 24%, ordinary Cosmos transactions of the senders (their sequence moves on the Cosmos route) 8%, and 68% Cosmos transactions '
            'that CARRY signed MsgEthereumTx -- a message executed earlier (the replay) 48%, not yet executed with the current nonce 22%, future nonce '
            '12%, another transaction over a used nonce 8%, a replay beside a current one 10% -- placed among 0-2 plain inner MsgSend at any position, '
            'as plain messages (depth 0, 18%) or inside 1 / 2 / 3 nested authz.MsgExec (47 / 20 / 15%), behind 0 / 1 / 2 / 3 plain MsgSend '
            '(40 / 35 / 15 / 10%), followed by one more in 25%, signed by the message\'s own signer or (35%) by another account, half of those with a '
            'generic authz grant for MsgEthereumTx stored directly in the keeper, signed SIGN_MODE_DIRECT 60%, amino-JSON 12%, EIP-712 via Web3 '
            'extension 10% / via the ethsecp256k1 key 10% (where the sign mode cannot render the transaction: the route\'s envelope around a direct '
            'signature), or unsigned behind the Ethereum extension option 8%; all through the real ante handler and real DeliverTx. Oracle for a '
            'carrier: no carried message that was executed before, or whose nonce is not its signer\'s sequence at submission, is executed (private '
            'recipient\'s balance), none twice, nobody but the carrier\'s own signer pays or loses a sequence number, a carrier the ante handler '
            'refuses has no effect. Two multi cases in five (seed mod 5 < 2) are creation scripts: 1-2 senders, 2-3 rounds of a batch of 1-4 messages '
            '-- call 45% / creation with init code 0x00 30% / 0xfe (fails) 10% / a constructor that stores a slot 15% at every position, at least one '
            'creation in 85% -- followed by the re-delivery of every message alone, every proper suffix and prefix and a random sub-batch, in random '
            'order; a creation counts as executed when it stands in an accepted transaction (cross-checked with the contract account at '
            'CreateAddress(sender, nonce)); oracle as for all multi cases: at most once, only at the current sequence, sequence = n + k after an '
            'accepted transaction. A quarter of the Ethereum transactions of the block histories are creations. One case in twelve (kind accountops, '
            'from the mutation cases, same runner, explicit script): 2-3 accounts, a victim (sequence 0 in 60%) executes 2-4 transactions on random '
            'routes (Ethereum single / pair, 20% creations; Cosmos direct / amino / EIP-712 ext / key signed over explicit sequences), then 1-3 rounds '
            'of an account-type operation against the victim (MsgConvertIntoVestingAccount by another account through a direct / amino / EIP-712 '
            'signed transaction, then merge or MsgConvertVestingAccount back), the re-delivery of EVERY old signed transaction of the victim in random '
            'order and 1-2 fresh ones; oracle: no sequence ever decreases, a signed Cosmos / EIP-712 transaction executes at most once and only at the '
            'sequence it was signed over, the Ethereum oracle as before. FORGED FOLLOW-UPS (process history as an input): every eth mutation case ends, '
            'after its main line has validated and executed original .. last for the signer in THIS process, with 14 forged messages, each on its own '
            'branch of the final state through ValidateBasic + the real ante handler: Data of the original (or of the last executed transaction) with the '
            'nonce set to the signer\'s current sequence, alone or with value / recipient / gas changed too, the old V, R, S kept, under the Hash text of '
            'the original, of the last executed transaction, a recomputed or a random one; value changed under the original\'s Hash text; a From text naming '
            'the signer; a fresh transaction of the other account under the original\'s Hash text / with a From text naming the signer; oracle: none '
            'executes on behalf of the signer (sequence, balance). The envelope mutants env-hash-field / env-from-set and all of these are recorded as SEthMsg '
            '(hash_bound, from_empty): the model refuses them by its own rule, the errors "invalid tx hash" / "invalid From" count as modelled checks. One case '
            'in twelve (kind forged, from the mutation cases, the runner of kind multi, explicit script): a fresh chain, 2-3 senders, a first genuine '
            'transaction, then 6-10 steps: genuine Ethereum-route transactions 16%, a genuine transaction that is only CHECKED (ValidateBasic + ante in CheckTx '
            'mode on a discarded branch, and the application\'s real CheckTx once a block was committed; it may be delivered later) 10%, and 74% Cosmos '
            'transactions with messages forged from a transaction that was executed (65%), only checked (15%) or never shown to the node (20%): nonce := the '
            'victim\'s sequence at that point under the Hash text of the transaction as signed 30%, with a second field (value / recipient / gas / payload) '
            'changed 8%, one field changed and the nonce kept 8%, Hash recomputed 10%, Hash text of another earlier transaction of any account over changed '
            'Data 10% / over Data as signed 10%, a From text naming the victim 8%, Data as signed with a From text 6%, random Hash text 10%; placed alone '
            '50%, behind / before a genuine message of the victim 14 / 8%, beside a genuine message of another sender 10%, two forgeries in one envelope 10%, '
            'carried by a Cosmos transaction (plain message or 1-2 nested authz.MsgExec, own or another signer) 8%; a block boundary in half of them; '
            'all through the real ante handler and real DeliverTx in ONE process without re-creating the application. Oracle (as for all multi cases, '
            'computed from each message\'s DATA: the account its V, R, S recover to over Data, Data\'s nonce, recipient, value, cost): a message whose Data '
            'nobody signed (the recovered stranger cannot pay) or that was executed before makes the whole Cosmos transaction fail without effect; nobody\'s '
            'sequence moves and nobody pays unless a message whose Data he signed at his then-current sequence executes; every signed Data at most once; '
            'correctly signed Data at the current sequence under a Hash / From text that is not its own may be refused (not judged) but, if served, only on '
            'behalf of the signer of Data; a transaction that was only checked changes nothing. Non-trivial = at least one acceptance and more than three submissions; distinct = distinct seeds',
    'trusted_base': [
        'Coq 8.16.1 kernel incl. vm_compute (no native_compute)',
        'axioms: none (Print Assumptions: closed under the global context for every theorem of Props/C03.v)',
        'explicit premises of the *_partial theorems: ECDSA existential unforgeability; Keccak-256 collision resistance on signing preimages / sign docs',
        'correspondence harness harness/sigs.go + vlib/core.py; go-ethereum types.SignTx / types.Sender and /repo/testutil/tx signing helpers as the '
        'cryptographic oracle (who a signature recovers to, which sign doc it was made over)',
        'modelled, not verified: x/auth SigVerificationDecorator, IncrementSequenceDecorator, SetPubKeyDecorator, sign-mode handlers, '
        'ethereum/eip712 typed-data construction, protobuf decoding, baseapp (ante writes kept only on success); fees / funds / gas / validity '
        'checks are an arbitrary boolean (one per Cosmos transaction)',
        'multi-message cases: /repo testutil/tx.PrepareEthTx builds the Cosmos envelope; one execution of a signed message = its value arriving '
        'once at its private recipient address',
        'wrapped cases: cosmos-sdk x/authz MsgExec / keeper.SaveGrant and /repo testutil/tx PrepareCosmosTx / CreateEIP712CosmosTx build and sign the '
        'carriers; modelled by their verdict only: RejectMessagesDecorator, AuthzLimiterDecorator (disabled message types), the message type '
        'assertions of the Ethereum ante decorators, authz keeper DispatchActions',
        'forged messages: the two facts about the self-reported texts the model looks at (Hash text = go-ethereum\'s hash of the converted Data; From '
        'text empty) are computed by the harness; MsgEthereumTx.ValidateBasic and EthValidateBasicDecorator are compared with claims_ok on every run '
        '(error texts "invalid tx hash" / "invalid From"); /repo testutil/tx.PrepareEthTx builds the envelope (From texts are written after it)',
        'creations: the nonce rule of x/evm ApplyMessageWithConfig is transcribed (max(nonce before, m + 1), kept only when the EVM execution '
        'succeeds); the EVM itself (whether a creation succeeds) enters as the recorded flag create_ok; account-type operations: x/vesting '
        'ApplyVestingSchedule / ConvertVestingAccount are modelled by their effect on sequences only (none on the target)',
    ],
    'assumptions': [
        'ECDSA unforgeability and Keccak collision resistance (premises of the *_partial theorems only)',
        'the ante handler\'s state writes are discarded when it fails and kept when it succeeds (baseapp.runTx; reproduced by the harness with CacheContext)',
        'AllowUnprotectedTxs = false for the cross-chain claim on pre-EIP-155 signatures (with true they are chain-independent by construction: observed, not judged)',
        'a signature with s replaced by n-s covers the same content; go-ethereum refuses it (observed), acceptance would not be judged',
    ],
}
