_COMMON_TB = [
    'Coq 8.16.1 kernel incl. vm_compute (no native_compute); std++ 1.8.0 gmap/gset',
    'axioms: none (Print Assumptions: closed under the global context)',
    'correspondence harness harness/evmexec.go + harness/asm.go (hand-assembled generic script contract, call-tree '
    'encoder, tracer that records which frames failed, reference accounting, metamorphic oracle) + vlib/core.py',
    'modelled, not verified: go-ethereum interpreter (only CALL/SSTORE/LOG/BALANCE/REVERT/SELFDESTRUCT of the script contract are used), '
    'SDK staking/distribution/authz/bank keepers (their effect on balances, delegations, rewards, withdraw address, grants is '
    'transcribed in Evm/ExecModel.v and sampled), the ICS-20 precompile is exercised with transfer of the bond denomination over one open channel (escrow; transfer grants; no relaying), the bank / werc20 precompiles and redelegate / cancelUnbondingDelegation are not exercised by this driver, gas is not modelled '
    '(gas price 0, ample gas limit)',
]

P = {
    'id': 'C16',
    'design_ref': 'DESIGN.md section 5 (C02/C05/C16), section 6 (K4, K5, K6, K9)',
    'drivers': [
        {'name': 'evmexec', 'n': {'quick': 500, 'thorough': 20000}, 'args': {'prop': 'C16'}, 'batch': 5000},
        {'name': 'evmquery', 'n': {'quick': 150, 'thorough': 5000}, 'batch': 5000},
    ],
    'coq_header': 'From HV Require Import Evm.ExecModel.\nFrom Coq Require Import ZArith NArith List.\nImport ListNotations.',
    'lists': {'cases': {'type': 'ecase * list Z * eobs', 'check': 'mismatches', 'shard': 50}},
    'search': {'rounds': 3, 'n': 2000},
    'rule': 'a case is a random setup (balances, delegations, allocated rewards, withdraw addresses, staking and ICS-20 transfer grants of the signer) '
            'plus one Ethereum transaction: either EOA -> staking/distribution/ICS-20 precompile or EOA -> script contract running a '
            'random call tree (depth <= 3) of SSTORE / LOG / BALANCE / CALL with value / precompile calls (delegate, undelegate, withdraw, setWithdrawAddress, '
            'claimRewards, ICS-20 transfer) / SELFDESTRUCT (a fifth of the cases self-destruct-heavy: few contracts called repeatedly) / REVERT with catching and '
            'propagating callers, executed by the real EvmKeeper.ApplyTransaction; non-trivial = the transaction succeeded; '
            'distinct = distinct (setup, program)',
    'trusted_base': _COMMON_TB,
    'assumptions': ['gas price 0, so no fee enters the balance equations', 'one validator, no slashing (tokens = shares)'],
    'level_text': 'Coq theorem: for every method, argument and state the Cosmos-side effect and success/failure of an owner call equal the native message (before the final StateDB commit); refutation witness K6 for the whole-transaction statement. Every run executes, on forks of the same state, the precompile transaction and the native message through the real message router and diffs balances, delegations, unbondings, rewards, withdraw addresses, grants; the model is compared with the implementation on the same cases',
    'level_note': 'partial: interpreter and SDK keepers are modelled not verified; the read-only methods (staking delegation / unbondingDelegation / validator, bank balances / totalSupply / supplyOf) are compared with keeper state by the evmquery driver (no model: they are projections); ICS-20: transfer of the bond denomination only',
    'technique': 'Coq proof over a StateDB/precompile model + differential correspondence on generated EVM call trees',
}
