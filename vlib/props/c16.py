_COMMON_TB = [
    'Coq 8.16.1 kernel incl. vm_compute (no native_compute); std++ 1.8.0 gmap/gset',
    'axioms: none (Print Assumptions: closed under the global context)',
    'correspondence harness harness/stakestates.go (script interpreter over the real keepers, two-fork runner, full store diff) + '
    'harness/stakecreate.go (number expressions and address-string kinds for every argument, createValidator against MsgCreateValidator) + '
    'harness/stakequery.go (questions through the EVM and through the gRPC query router, ABI-shaped field-by-field comparison) + '
    'harness/evmexec.go + harness/asm.go (hand-assembled generic script contract, call-tree '
    'encoder, tracer that records which frames failed, reference accounting, metamorphic oracle) + vlib/core.py',
    'modelled, not verified: go-ethereum interpreter (only CALL/SSTORE/LOG/BALANCE/REVERT/SELFDESTRUCT/CREATE of the script contract are used; constructors run scripts through a DELEGATECALL into a library copy of the interpreter), '
    'SDK staking/distribution/authz/bank keepers (their effect on balances, delegations, rewards, withdraw address, grants is '
    'transcribed in Evm/ExecModel.v and sampled), the ICS-20 precompile is exercised with transfer of the bond denomination over one open channel (escrow; transfer grants; no relaying), the bank / werc20 precompiles, createValidator and redelegate / cancelUnbondingDelegation are not exercised by the evmexec driver (the stakestates driver runs them), gas is not modelled '
    '(gas price 0, ample gas limit)',
]

P = {
    'id': 'C16',
    'design_ref': 'DESIGN.md section 5 (C02/C05/C16), section 6 (K4, K5, K6, K9)',
    'drivers': [
        {'name': 'evmexec', 'n': {'quick': 500, 'thorough': 20000}, 'args': {'prop': 'C16'}, 'batch': 5000},
        {'name': 'evmquery', 'n': {'quick': 150, 'thorough': 5000}, 'batch': 5000},
        {'name': 'stakestates', 'n': {'quick': 1500, 'thorough': 40000}, 'batch': 5000, 'shrink_field': 'script'},
        {'name': 'stakequery', 'n': {'quick': 400, 'thorough': 10000}, 'batch': 4000, 'shrink_field': 'script'},
    ],
    'coq_header': 'From HV Require Import Staking.StakeModel.\nFrom HV Require Import Staking.CreateValModel.\nFrom HV Require Import Evm.ExecModel.\nFrom Coq Require Import ZArith NArith List.\nImport ListNotations.',
    'lists': {'cases': {'type': 'ecase * list Z * eobs', 'check': 'mismatches', 'shard': 50},
              'stake': {'type': 'scase', 'check': 'stake_mismatches', 'shard': 400},
              'create': {'type': 'ccase', 'check': 'create_mismatches', 'shard': 400},
              'squery': {'type': 'qcase', 'check': 'query_mismatches', 'shard': 150}},
    'search': {'rounds': 3, 'n': 2000},
    'rule': 'a case is a random setup (balances, delegations, allocated rewards, withdraw addresses, staking and ICS-20 transfer grants of the signer) '
            'plus one Ethereum transaction: either EOA -> staking/distribution/ICS-20 precompile or EOA -> script contract running a '
            'random call tree (depth <= 3) of SSTORE / LOG / BALANCE / CALL with value / precompile calls (delegate, undelegate, withdraw, setWithdrawAddress, '
            'claimRewards, ICS-20 transfer) / SELFDESTRUCT (a fifth of the cases self-destruct-heavy: few contracts called repeatedly) / CREATE with a scripted constructor (value, reverting, code-less, self-destructing constructors; CREATE addresses funded beforehand; a seventh of the cases creation-heavy) / zero-value calls to module accounts / REVERT with catching and '
            'propagating callers, executed by the real EvmKeeper.ApplyTransaction; non-trivial = the transaction succeeded; '
            'distinct = distinct (setup, program).  stakestates: a case is (signer, script, call): the script (explicit list of '
            'delegate / undelegate / redelegate / empty-validator / jail / unjail / slash / end-block / advance-time / reward / '
            'set-withdraw-address / disable-withdraw-address operations, run through the real keepers on three validators) builds an '
            'unusual staking / distribution state; the call (one of delegate, undelegate, redelegate, cancelUnbondingDelegation, '
            'withdrawDelegatorRewards, setWithdrawAddress, claimRewards, withdrawValidatorCommission, ICS-20 transfer, createValidator) is run by the signer on two forks of that state: as an '
            'Ethereum transaction through EvmKeeper.ApplyTransaction and as the native message(s) through the message router; the oracle '
            'compares success/failure and a full key/value diff of every persistent store except the EVM module\'s own (signer '
            'sequence masked); non-trivial = both routes succeeded.  ARGUMENT VALUES are a dimension of every method: each number is an expression '
            'resolved on the state the script built (0, dust, whole delegation +-1, whole balance +1, entry balance +1, 2^63-1, 2^63, 2^64-1, 2^64, 2^64+1, 2^127, 2^128, '
            '2^255, 2^256-2, 2^256-1, and a valid amount with bits set above bit 63 / 127 / 254: all+2^64, bal+2^128, ...; a tenth of the amounts need more than 64 bits); each validator / '
            'withdrawer argument is a STRING given to both routes (an operator address with or without a record, a malformed string, a bech32 string with a foreign prefix, the empty '
            'string, an account-prefix address, the address in upper case); ICS-20 receiver empty / over-long, memo over-long, timeout zero / passed / 2^64-1.  createValidator (a seventh of the cases; signer = caller = delegator, '
            'the only caller the method accepts since F10): a valid argument set (description, three commission rates with 18 decimals, minimum self-delegation, value, operator address, fresh '
            'ed25519 consensus key) with zero to two arguments moved to a boundary or out of range: each rate 0, 1, MinCommissionRate-1 (the script sets the parameter in half of the cases), the maximum rate +1, 10^18 +1, '
            'the powers of two above and a valid rate plus 2^64 / 2^65 / 2^100 / 2^128 / 2^200 / 2^255, all three rates shifted by the same high bits; minimum self-delegation 0 / value+1 / huge; value 0 / balance+1 / '
            '2^64 (a valid amount that needs 65 bits) / huge; description empty, each field at and above its length limit; operator address of another validator / malformed / foreign / empty / account prefix / upper case; '
            'consensus key of an existing validator / 31, 33, 0 bytes; signer already an operator; against the native MsgCreateValidator with the same integers (a rate x is the LegacyDec x / 10^18) and strings; the full store '
            'diff compares the validator record (commission, description, minimum self-delegation), the delegation, distribution records, balances and pools.  stakequery: a case is (script, questions): the script (the same '
            'operations; generator: two to six delegations of several delegators with odd amounts (dust, 10^18 + a little, arbitrary '
            '18-digit numbers) on one to three validators, one to three slashes by assorted fractions (1 bp .. 100 %, 5 %, 33.33 %) with '
            'unbondings, redelegations, rewards and further delegations in between and afterwards, jailed / unbonding / unbonded '
            'validators, matured entries; a third of the cases take the stakestates scenarios) builds the state; every question is '
            'asked as an Ethereum call of the staking precompile (ApplyMessage) and as the native gRPC query through the '
            'application\'s GRPCQueryRouter: delegation and unbondingDelegation for every account (six actors, a stranger) x every '
            'validator (three, an address without a record, a malformed string), validator for each, validators by status with '
            'limit / offset / reverse / count-total and followed next keys, redelegation and redelegations for every (delegator, '
            'source, destination), by delegator and by source validator with paging (181 questions per state, plus random paging '
            'questions); the oracle: where the native query answers, the call succeeds and every field is equal (shares and '
            'commission as 10^18-scaled integers, balances, denomination, addresses, consensus key, status, jailed, heights, '
            'completion / unbonding times, unbonding ids, entry order, next key, total); where it says not-found the precompile '
            'fails or reports the empty answer; other native errors demand nothing; non-trivial = some native query answered; '
            'distribution tags say whether a reported delegation is worth a whole number of tokens or a fraction below / from one half',
    'trusted_base': _COMMON_TB,
    'assumptions': ['gas price 0, so no fee enters the balance equations',
                    'evmexec / evmquery: one validator, no slashing (tokens = shares); stakestates: three validators, slashing, jailing, '
                    'unbonding, emptied validators, full entry lists',
                    'stakestates: the auth accounts of the precompile addresses exist (as after any earlier call on a live chain); the block '
                    'proposer is a bonded validator; ante handler not run on either route (no fee, no sequence increment)',
                    'Staking/StakeModel.v does not model the 315-bit LegacyDec overflow panic (compared on amounts up to 2^256-1)',
                    'an argument no native message can carry demands nothing: cancelUnbondingDelegation with a creation height from 2^63 (MsgCancelUnbondingDelegation holds an int64) is run and recorded '
                    '(tag cancel:height+2^64:...; on the pinned tree the precompile reads the low 64 bits), a consensus key that is not base64 is not generated',
                    'withdrawValidatorCommission with the operator address in upper case (valid bech32, the native message is accepted; the precompile panics on the pinned tree) is run and recorded '
                    '(tag commission:upper-case-operator-address:...), not demanded: reported as a candidate finding, switch ssDemandUpperCaseOperator in harness/stakestates.go',
                    'stakequery: the questions are Ethereum calls from an EOA (ApplyMessage without commit); the native side is the '
                    'application\'s own gRPC query router on the same context; a list method called with an offset > 0 is refused by the '
                    'precompile on the pinned tree (the ABI-decoded page key is empty but not nil, the SDK refuses key and offset together) '
                    'while the native query answers: recorded (tag page:offset-refused-by-precompile), not demanded'],
    'level_text': 'Coq theorem: for every method, argument and state the Cosmos-side effect and success/failure of an owner call equal the native message (before the final StateDB commit); refutation witness K6 for the whole-transaction statement. Every run executes, on forks of the same state, the precompile transaction and the native message through the real message router and diffs balances, delegations, unbondings, rewards, withdraw addresses, grants; the model is compared with the implementation on the same cases. Staking share arithmetic (Staking/StakeModel.v: validator tokens / shares / status, SharesFromTokens / TokensFromShares with LegacyDec truncation, first delegation to an empty validator, last share takes all tokens, max-entries rule, operator jailing, removal of an unbonded validator): theorems that the owner\'s precompile route (decoding, identity rule, message, Delegate event computed after the message, mirror + final commit) equals the native route in success and resulting numbers for all states and amounts, delegation to an emptied validator succeeds with shares = tokens, round-trip bounds; driver stakestates compares both routes on unusual states by a full store diff and the model\'s numbers with both routes.  createValidator (Staking/CreateValModel.v: MsgCreateValidator.ValidateBasic, CommissionRates.Validate, the message server\'s checks, NewMsgCreateValidator with the conversion of a uint256 rate as a parameter): theorems that with the identity conversion (LegacyNewDecFromBigIntWithPrec) the signer\'s call equals the native message for every state and ALL uint256 arguments and accepts exactly what the native message accepts, what an accepted creation satisfies and does, that another caller is refused, and - for the low-64-bits conversion (big.Int.Int64) - that it is the identity below 2^63, agrees with the code wherever the native message accepts, and is refuted by rates 2^64 + a valid set (and by one rate alone); the model is compared with both routes on every createValidator case (list create).  Read-only method delegation: Staking/StakeModel.v states the truncation rule (balance = TruncateInt(TokensFromShares(shares))) for the native query and the precompile; theorems: the precompile reports exactly the native shares and balance for every validator record and delegation (any tokens / shares, i.e. after any slashes), (0,0) exactly when the query says not-found, balance between floor(shares*tokens/total) and that + 1 and equal to the floor unless the quotient is within 10^-18/2 of the next integer, integer part of the shares at rate one, and a refutation of the rounded (RoundInt) variant with a two-delegator 5 % slash witness; driver stakequery compares all six read-only staking methods with the native gRPC queries field by field over slashed / in-flight states and the delegation answers of both routes with the model (list squery)',
    'level_note': 'partial: interpreter and SDK keepers are modelled not verified; redelegate / cancelUnbondingDelegation / distribution methods in unusual states and with out-of-range arguments are covered by the differential store comparison only (no model of their arithmetic); createValidator: success / failure, commission, minimum self-delegation, tokens, shares and balance are modelled, description text, consensus key and the distribution records are compared by the store diff only; the read-only staking methods are compared with the native gRPC queries by the stakequery driver (model: delegation only; unbondingDelegation / validator(s) / redelegation(s) are projections, compared field by field without a model) and, on one healthy validator, with keeper state by the evmquery driver together with bank balances / totalSupply / supplyOf; ICS-20: transfer of the bond denomination only',
    'technique': 'Coq proof over a StateDB/precompile model + differential correspondence on generated EVM call trees',
}
