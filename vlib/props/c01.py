P = {
    'id': 'C01',
    'design_ref': 'DESIGN.md section 5 (C01), section 10',
    'level_text': 'PARTIAL. Coq theorems for the logic by which the state machine is independent of process-local order and '
                  'configuration: StateDB.Commit (the ExecModel commit that C02 ties to the real keeper) writes the same state for ANY '
                  'enumeration order of the dirty-account map and of the dirty storage keys because of the sort, and provably not without '
                  'it; module-account / blocked-address / precompile registries are sets and look-up tables; the Go map of the DAO export '
                  'is an index only; a block is a fold of steps in which the DeliverTx branch of the modelled ante functions and the '
                  'TPS-counting DeliverTx wrapper ignore every node-local input, hence replicas agree over all histories. That the real '
                  'application has no other dependence is sampled: independently constructed replicas (different node-local settings, one '
                  'in a separate OS process) on random block histories of really signed transactions must give byte-identical responses '
                  'and app hashes; every range-over-map, go statement, wall-clock read and dynamic precompile registration in the '
                  'state-machine packages must be discharged automatically or by the reviewed list corpus/C01/map_range_sites.json. '
                  'The replicas also live different PROCESS HISTORIES named by the input (ABCI queries incl. eth_call / estimateGas / '
                  'trace / Simulate, CheckTx, restarts from the database, construction order and throw-away applications), the genesis '
                  'varies staking HistoricalEntries, and an environment-probe contract makes tx data, gas and state depend on BLOCKHASH '
                  'of recent and pruned heights and on every other environment opcode. For BLOCKHASH the dependence on block inputs only '
                  'is a theorem: GetHashFn over TrackHistoricalInfo is transcribed, any interleaving of queries / CheckTx / restarts '
                  'leaves two replicas with the same historical info after every block, the available heights are characterised exactly '
                  '(max 1 (n-e+1) <= req < n, n-req <= 256), and the zero / non-zero pattern the probe observed is compared with that '
                  'model for every history. The FEE-MARKET REGIME is a dimension of the histories: x/feemarket genesis parameters (base fee '
                  'from 0 and the natural floor 7 up to 1e12, denominator 1..2^32-1, elasticity 1..10, MinGasPrice, MinGasMultiplier, NoBaseFee, '
                  'EnableHeight), the consensus Block.MaxGas (-1 and finite values that put generated blocks above and below the gas target) '
                  'and parameter operations on both on the way, with fees that follow the fee market; that the base fee (rewritten by every '
                  'BeginBlock) depends on the block inputs only is a theorem over all interleavings of blocks with queries / CheckTx / restarts '
                  '/ further application objects, the block step being the block of the C17 model; a process-global "1" of the minimum step '
                  '(the shared-value variant) provably breaks the agreement; every BeginBlock of the leading replica is re-evaluated by '
                  'calc_base_fee inside Coq',
    'level_note': 'partial by nature: Go map iteration order, goroutine scheduling, IAVL hashing and the wall clock cannot be exhibited '
                  'in Coq; the theorems are about hand-written models (commit: shared with C02 and tied there; registries / DAO export: '
                  'tied by the registries driver; ante functions: transcribed, tied only through the replica run with different '
                  'minimum-gas-prices / max-tx-gas-wanted); everything below the keepers is sampled only; no axioms',
    'technique': 'Coq proof (permutation invariance through sorting / sets / look-ups; induction over blocks) + N-replica differential '
                 'execution of random block histories + typed source scan of order / scheduling / clock sites with a reviewed '
                 'classification file; replicas with explicit, replayable process-history perturbations and an '
                 'environment-probe contract; Coq model of the BLOCKHASH environment function evaluated on the observed pattern; '
                 'fee-market regimes (tiny base fee, finite block gas, minimum-step increases before and after restarts) with the C17 '
                 'base-fee model evaluated on every block',
    'drivers': [
        {'name': 'mapscan', 'n': {'quick': 1, 'thorough': 1}},
        {'name': 'replicas', 'n': {'quick': 64, 'thorough': 800}, 'shrink_field': 'blocks', 'batch': 12, 'timeout': 3000},
        {'name': 'registries', 'n': {'quick': 160, 'thorough': 3000}, 'batch': 2000},
        {'name': 'upgrade175', 'n': {'quick': 0, 'thorough': 3}, 'timeout': 3000},
    ],
    'coq_header': 'From HV Require Import Feemarket.BaseFeeModel App.FeeReplicaModel App.DeterminismModel App.ReplicaCaseModel.\n'
                  'From Coq Require Import ZArith NArith List.\nImport ListNotations.',
    'lists': {'sites': {'type': 'N', 'check': 'site_mismatches', 'shard': 400},
              'regs': {'type': 'rcase', 'check': 'rmismatches', 'shard': 100},
              'rep': {'type': 'rep_case', 'check': 'rep_mismatches', 'shard': 40}},
    'search': {'rounds': 2, 'n': 40},
    'rule': 'replicas: a case is one block history (quick 15 blocks / 2 replicas, thorough 40 blocks / 3 replicas; every 4th history '
            'adds a replica in a separate OS process whose environment differs: TZ 14 h ahead, Turkish locale, no home directory, GOMAXPROCS=1; replica 1 runs with the access_list EVM tracer option) generated as for C15 (really signed Cosmos and Ethereum transactions incl. '
            'precompile call trees, batches of 2-3 Ethereum messages in one transaction of which some are invalid in different ways (unprotected, zeroed signature value, foreign chain id: the result must name the first), gov, staking, slashing, vesting, liquid vesting, DAO, ERC20; absent validators, evidence, time steps '
            'of seconds to days and jumps into the hours around a new year; occasionally the v1.7.5 upgrade) plus: complete CometBFT-like headers (so that stored headers hash), '
            'staking HistoricalEntries drawn from {0,1,2,3,5,10000}, the environment-probe contract (harness/envprobe.go: BLOCKHASH of '
            'NUMBER-k for 13 fixed k up to 257 and of the heights in calldata, NUMBER, TIMESTAMP, COINBASE, CHAINID, BASEFEE, GASLIMIT, '
            'DIFFICULTY, SELFBALANCE, ORIGIN, GASPRICE; digest and every asked hash stored and returned) deployed by the first '
            'transaction and called at various heights incl. already pruned ones, and per-replica perturbations between the blocks '
            '(bhBlock.pre / bhInput.proc, harness/replica_perturb.go: ethcall, estimategas, trace, simulate, bankq, stakingq, evmq, '
            'checktx-next, checktx-junk, restart, construct; construction order and throw-away instances), two scripted shapes in 3 of 4 '
            'histories with 2 <= HistoricalEntries (a height evaluated by a query on one replica, or by a transaction followed by a '
            'restart of one replica, while its header is kept, and again by a transaction after it was pruned); '
            'FEE-MARKET REGIME (harness/feeregime.go; bhGenesis.fee, param operations on feemarket / consensus): 36 % of the histories keep the '
            'defaults (base fee 1e9, Block.MaxGas -1: no block is ever above the gas target), 34 % start at a base fee of 0..100 (incl. the natural '
            'floor 7) with Block.MaxGas 6M..16M, elasticity 1..4, denominator 2 / 8 / 50, MinGasMultiplier 0.1 / 0.5 / 1, MinGasPrice 0 / 0.5 / 1 / 3, '
            '30 % draw every parameter from a wide set (base fee 0..1e12, denominator 1..4294967295, elasticity 1..10, MinGasMultiplier 0..1, '
            'MinGasPrice 0..2.5e9, NoBaseFee, EnableHeight 0 / 3 / 6, Block.MaxGas -1 / 3M..40M); such histories also change the feemarket '
            'parameters and Block.MaxGas on the way through the real MsgUpdateParams handlers (ElasticityMultiplier 0 and MaxGas 0 are not generated: '
            'division by zero in BeginBlock on every node alike); 2-4 blocks of a history are HEAVY (explicit filler transactions until the gas figure '
            'max(wanted x multiplier, used) is above the target), 1-3 are QUIET (empty); the fee of every generated transaction is gas x max(base fee, '
            'MinGasPrice) of the state it is built on (dynamic-fee transactions: tip lifted to MinGasPrice); in 60 % of these histories one replica is '
            'restarted from its database, or sees a throw-away application take a minimum step of its own in the same process, between the first two '
            'heavy blocks; every throw-away application runs a tiny-base-fee chain over a block above its target; tags fee:* name the branches of the '
            'base-fee update the history took (decrease, decrease-zero-delta, decrease-to-min-gas-price, unchanged, increase, increase-min-step = '
            'base x (gas - target) / target / denominator truncated to 0, disabled, enable-height), how often the minimum step and whether a restart / '
            'construction lay between two of them; list rep: per history (BLOCKHASH answers: (HistoricalEntries, [(context height, asked word, answer '
            'non-zero)]) from delivered probe calls and eth_call answers vs hash_fn (hist_after e _ cur); base fee: for every BeginBlock of the leading '
            'replica (parameters read, height, Block.MaxGas, stored gas figure of the parent, base fee stored) vs calc_base_fee of the C17 model); '
            'compared after every block: BeginBlock response, every '
            'ResponseDeliverTx (code, codespace, data, gas wanted / used, events in order; log / info excluded as documented '
            'non-deterministic), EndBlock response incl. validator updates, app hash; non-trivial = at least 5 accepted transactions of '
            '3 kinds; a divergence names the height, the block index of the replay and the transaction; corpus witnesses: the two '
            'BLOCKHASH shapes, the 256-block window, a restart directly before a block with a transaction refused before the ante '
            'handler (found by this driver on /repo before e83669d: GasUsed and app hash depended on the restart), and base fee 7 / Block.MaxGas 8M / '
            'denominator 50 with four minimum-step increases, two replicas restarted and a throw-away application in between (a divergence at a '
            'BeginBlock response names both base fees). mapscan: one case per site (typed scan with go/types over export data of `go list`). registries: DAO export / '
            'sorted precompile keys / blocked addresses vs the model, and a metamorphic run of the real StateDB (same final values, '
            'differently ordered journals, incl. a failing blocked-address credit) whose store fingerprints must agree. upgrade175: the '
            'real v1.7.5 handler run several times on forks of one state with hundreds of liquid-token holders must write the same state',
    'trusted_base': [
        'Coq 8.16.1 kernel incl. vm_compute (no native_compute); std++ 1.8.0 gmap / sorting',
        'axioms: none (Print Assumptions: closed under the global context for every theorem of Props/C01.v)',
        'harness: harness/blocks.go, blockgen.go, blockparams.go, feeregime.go, replicas.go, replica_perturb.go, envprobe.go, asm.go, mapscan.go (go/parser + go/types, export data from `go list -export`), '
        'registries.go, upgrade175.go + vlib/core.py; the replicas share one OS process except the separate-process replica',
        'reviewed by hand: corpus/C01/map_range_sites.json (5 entries); the automatic site rules of mapscan.go',
        'not verified, sampled only: Go runtime map order and scheduling, CometBFT (the harness plays its role: header, votes, '
        'evidence, validator-set delay), baseapp, IAVL / store, SDK keepers, go-ethereum interpreter',
    ],
    'assumptions': [
        'replicas receive identical block inputs (header incl. the canonical app hash, votes, evidence, transaction bytes)',
        'a perturbation of the in-process replicas shares the operating-system process with the other in-process replicas; only the '
        'separate-process replica (every 4th history, and every replay) has its own package-level state',
        'the BLOCKHASH model abstracts a header hash to non-zero; HistoricalEntries is constant within a history (no generated '
        'transaction changes staking params)',
        'log and info strings of responses are not consensus data (CometBFT excludes them from the results hash)',
        'fee market: the harness plays CometBFT and hands the application the Block.MaxGas it stored itself (x/consensus); parameter sets that halt '
        'every node alike (ElasticityMultiplier 0, gas target 0) are outside the generated domain; the in-process "restart" perturbation opens a '
        'new application object in the SAME operating-system process, package-level state of the process is fresh only in the separate-process '
        'replica (which runs the whole history in one process of its own)',
        'the node-local settings varied are: minimum-gas-prices, home, inv-check-period, IAVL cache size, inter-block cache, pruning, '
        'evm max-tx-gas-wanted, trace; index-events is not varied because it legitimately sets the `index` flag of returned events',
    ],
}
