P = {
    'id': 'C11',
    'design_ref': 'DESIGN.md section 5 (C11), section 6 (F1)',
    'level_text': 'Coq theorems (Props/C11.v, 22, all closed under the global context) over all lockup schedules, amounts and '
                  'block times and over all histories of set-up / liquidate / transfer / partial and full redeem / failing messages '
                  'across any number of holders: C11_split_exact (per period left + moved = original, both >= 0, moved total = '
                  'requested, lengths kept), C11_split_error_guard, C11_split_no_panic, C11_split_residue_lt_n, C11_split_time, '
                  'C11_liquidate_time_split (liquid schedule + remaining schedule = original schedule at every time, absolute '
                  'event times kept through CurrentPeriodShift), C11_backing (sum of liquid supplies = module escrow, supply = sum '
                  'of holdings), C11_schedule_sums_to_supply, C11_accounts_stay_valid, C11_redeem_exact_amount, '
                  'C11_redeem_no_early_unlock (recipient ordinary / existing vesting account with earlier or later start / self), '
                  'C11_denom_schedule_only_shrinks, C11_disjunct_is_union, C11_redeem_no_early_unlock_refuted for the merge-start '
                  'computation before commit 83e9993 (finding F1) with C11_merge_start_agree; the model is the executable Gallina '
                  'transcription of x/liquidvesting/types/schedule.go, keeper/msg_server.go, keeper/denom.go and of the part of '
                  'x/vesting that Redeem reaches (ReadSchedule, DisjunctPeriods, NewClawbackVestingAccount, addGrant), compared on '
                  'every run with the real pure functions and with the real message router (incl. ERC20 conversion through the EVM)',
    'level_note': 'trusted: Coq kernel + vm_compute, std++; the hand-written model (tied to /repo only by the sampled correspondence run); '
                  'bank transfers / mint / burn, the erc20 token pair (ConvertCoin / ConvertERC20 / balanceOf), baseapp atomicity, '
                  'store/codec are modelled (a holder\'s tokens = bank coins + ERC20 balance), not verified; int64 / 256-bit '
                  'overflow of the Go number types is outside the model (amount * subtrahend >= 2^256 panics in '
                  'SubtractAmountFromPeriods; generated amounts stay below 2^125); no axioms',
    'technique': 'Coq proof (exact split lemmas, invariant by induction over message histories) + differential correspondence '
                 'against the real schedule functions and the real msg server',
    'drivers': [
        {'name': 'liquid', 'n': {'quick': 2400, 'thorough': 48000}, 'shrink_field': 'ops', 'batch': 4000},
    ],
    'coq_header': 'From HV Require Import Liquid.SplitModel Liquid.VestingLite Liquid.KeeperModel.\n'
                  'From Coq Require Import ZArith NArith List.\nImport ListNotations.',
    'lists': {
        'pure': {'type': 'pcase', 'check': 'pmismatches', 'shard': 200},
        'hist': {'type': 'list (op * obs)', 'check': 'mismatches true', 'shard': 25},
    },
    'search': {'rounds': 4, 'n': 4000},
    'rule': 'driver liquid emits 7 pure cases per history. A pure case is one call of the real SubtractAmountFromPeriods (half '
            'of them; 0-12 periods, amounts small / many zero / near 2^120 / all equal / one huge + many tiny, lengths zero / '
            'small / up to 2^36, sub = total, 1, 0, total-1, total+1, random; ~20% with 1-2 further denominations in the '
            'periods), ExtractUpcomingPeriods + ExtractPastPeriods (read time at every event boundary -1/0/+1, before start, '
            'after end), ReplacePeriodsTail or CurrentPeriodShift; non-trivial = the call returned a result (for sub: no '
            'error). A history is 6-14 ops (set-up: vesting account with lockup schedule of 1-6 periods, free funds, module '
            'params; messages: MsgLiquidate, MsgRedeem at chosen block times, transfer of liquid tokens by bank MsgSend or '
            'ERC20-to-coin conversion + MsgMultiSend) over 4 accounts on a fresh fork of a real app, amounts at 2^20 / 2^64 / '
            '2^120 scale, generated online from the implementation\'s own state; non-trivial = at least one liquidation and one '
            'redeem or transfer succeeded; distinct = distinct inputs',
    'trusted_base': [
        'Coq 8.16.1 kernel incl. vm_compute (no native_compute); std++ 1.8.0 gmap',
        'axioms: none (Print Assumptions: closed under the global context for every theorem of Props/C11.v)',
        'correspondence harness harness/liquid.go + vlib/core.py (generator, canonicaliser, oracle, shrinker)',
        'modelled, not verified: bank send / mint / burn and supply, locked-coin check of the bank on a vesting account, the erc20 '
        'module (token pair registration, ConvertCoin, ConvertERC20, balanceOf through the EVM), baseapp message atomicity '
        '(cache context written back only on success), KV store and codec',
        'projection: the Coq model of SubtractAmountFromPeriods carries only the split denomination of every period; that other '
        'denominations are copied untouched to the decreased list and are absent from the moved list is checked by the Go oracle '
        'on the real function (multi-denomination inputs), not proved; the keeper model has aISLM-only vesting accounts',
    ],
    'assumptions': [
        'only Liquidate / Redeem move aISLM of the liquidvesting module account and mint / burn aLIQUID<n> (module accounts are blocked recipients)',
        'a holder\'s liquid tokens are bank coins plus the ERC20 balance of the registered pair; conversion between the two is value preserving',
        'nothing is delegated from the accounts involved; every address already has an (Eth) account',
        'amounts fit the 256 bits of math.Int also when multiplied pairwise (aISLM supply is below 2^97), times fit int64',
        'a failed message leaves no state behind (baseapp runMsgs semantics, reproduced by the harness with CacheContext)',
    ],
}
