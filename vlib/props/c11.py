P = {
    'id': 'C11',
    'design_ref': 'DESIGN.md section 5 (C11), section 6 (F1)',
    'level_text': 'Coq theorems (Props/C11.v, 28, all closed under the global context) over all lockup schedules, amounts and '
                  'block times and over all histories of set-up / liquidate / transfer / partial and full redeem / failing messages '
                  'across any number of holders: C11_split_exact (per period left + moved = original, both >= 0, moved total = '
                  'requested, lengths kept), C11_split_error_guard, C11_split_no_panic, C11_split_residue_lt_n, C11_split_time, '
                  'C11_liquidate_time_split (liquid schedule + remaining schedule = original schedule at every time, absolute '
                  'event times kept through CurrentPeriodShift), C11_backing (sum of liquid supplies = module escrow, supply = sum '
                  'of holdings), C11_schedule_sums_to_supply, C11_accounts_stay_valid, C11_redeem_exact_amount, '
                  'C11_redeem_no_early_unlock (recipient ordinary / existing vesting account with earlier or later start / self), '
                  'C11_denom_schedule_only_shrinks, C11_disjunct_is_union, C11_redeem_no_early_unlock_refuted for the merge-start '
                  'computation before commit 83e9993 (finding F1) with C11_merge_start_agree; over time, for redeems into EXISTING '
                  'vesting accounts: C11_merge_keeps_both_locked (for all accounts, grants and times GetLockedUpCoins / LockedCoins of the '
                  'merged account >= what the own lockup still holds + what the redeemed share still holds at its original absolute times, '
                  'in particular after the end of the account\'s own schedule), C11_merge_end_rule_refuted (end := max(old end, new vesting '
                  'end) frees a longer share at the old end through ReadSchedule\'s t >= end shortcut), C11_no_early_unlock_obligations '
                  '(over all histories incl. probes: obligations written down independently of the account records = locked by the lockup '
                  'schedule <= GetLockedUpCoins <= LockedCoins, from the last redeem on), C11_two_tokens_same_account (short token then long '
                  'token into one fresh account), C11_merge_bank_locked_partial with C11_merge_bank_locked_unvested_refuted (the bank\'s '
                  'LockedCoins also keeps the own unvested coins only while the own vesting is not behind the own lockup); the model is the executable Gallina '
                  'transcription of x/liquidvesting/types/schedule.go, keeper/msg_server.go, keeper/denom.go and of the part of '
                  'x/vesting that Redeem reaches (ReadSchedule, DisjunctPeriods, NewClawbackVestingAccount, addGrant), compared on '
                  'every run with the real pure functions and with the real message router (incl. ERC20 conversion through the EVM) '
                  'and, at every message and probe time, with LockedCoins of the real accounts',
    'level_note': 'trusted: Coq kernel + vm_compute, std++; the hand-written model (tied to /repo only by the sampled correspondence run); '
                  'bank transfers / mint / burn, the erc20 token pair (ConvertCoin / ConvertERC20 / balanceOf), baseapp atomicity, '
                  'store/codec are modelled (a holder\'s tokens = bank coins + ERC20 balance), not verified; int64 / 256-bit '
                  'overflow of the Go number types is outside the model (amount * subtrahend >= 2^256 panics in '
                  'SubtractAmountFromPeriods; generated amounts stay below 2^125); no axioms',
    'technique': 'Coq proof (exact split lemmas, invariant by induction over message histories) + differential correspondence '
                 'against the real schedule functions and the real msg server',
    'drivers': [
        {'name': 'liquid', 'n': {'quick': 2400, 'thorough': 48000}, 'shrink_field': 'ops', 'batch': 4000},
    ],
    'coq_header': 'From HV Require Import Liquid.SplitModel Liquid.VestingLite Liquid.KeeperModel.\n'
                  'From Coq Require Import ZArith NArith List.\nImport ListNotations.',
    'lists': {
        'pure': {'type': 'pcase', 'check': 'pmismatches', 'shard': 200},
        'hist': {'type': 'list (op * obs)', 'check': 'mismatches true', 'shard': 25},
    },
    'search': {'rounds': 3, 'n': 2400},
    'rule': 'driver liquid emits 7 pure cases per history. A pure case is one call of the real SubtractAmountFromPeriods (half '
            'of them; 0-12 periods, amounts small / many zero / near 2^120 / all equal / one huge + many tiny, lengths zero / '
            'small / up to 2^36, sub = total, 1, 0, total-1, total+1, random; ~20% with 1-2 further denominations in the '
            'periods), ExtractUpcomingPeriods + ExtractPastPeriods (read time at every event boundary -1/0/+1, before start, '
            'after end), ReplacePeriodsTail or CurrentPeriodShift; non-trivial = the call returned a result (for sub: no '
            'error). A history is 6-14 ops (set-up: vesting account with lockup schedule of 1-6 periods, free funds, module '
            'params; messages: MsgLiquidate, MsgRedeem at chosen block times, transfer of liquid tokens by bank MsgSend or '
            'ERC20-to-coin conversion + MsgMultiSend) over 4 accounts on a fresh fork of a real app, amounts at 2^20 / 2^64 / '
            '2^120 scale, generated online from the implementation\'s own state, closed by a probe op: the block time advances '
            'explicitly over every event boundary -1/0/+1 of every account and denom, every account end and beyond). Every second history is a '
            'scenario: two source accounts whose schedules end at different / equal times, one token cut from each (sometimes a third), '
            'redeemed partially / fully in either order into ONE target that is fresh, the holder, a liquidator, or a pre-existing vesting '
            'account ending before / between / with / after the tokens (own lockup over or running, 12% own vesting running), sometimes '
            'delegating or clawed back in between (delegate / clawback ops: oracle only, the Coq term is the prefix before them), probes '
            'between the redeems and over all boundaries at the end; times only move forward. Time oracle (independent of the model and of '
            'the account records): obligations = + the set-up lockup schedule (the op itself), - every liquidated token\'s recorded schedule, '
            '+ every redeemed share (difference of the token\'s record before / after, at the token\'s start); after every op and at every '
            'probe time, for every account that received a share: (balance - spendable) + bonded + unbonding >= sum of the unreleased parts, '
            'on the real bank / staking keepers, with executed bank sends on a fork (spendable+1 must fail, spendable may succeed). Not '
            'demanded (tagged candidate:*, demanded with -arg strict=1): targets whose OWN vesting is still running (the bank additionally '
            'held their unvested coins) and accounts clawed back while it was. non-trivial = at least one liquidation and one '
            'redeem or transfer succeeded; distinct = distinct inputs',
    'trusted_base': [
        'Coq 8.16.1 kernel incl. vm_compute (no native_compute); std++ 1.8.0 gmap',
        'axioms: none (Print Assumptions: closed under the global context for every theorem of Props/C11.v)',
        'correspondence harness harness/liquid.go, harness/liquid_time.go (obligation oracle on the real bank / staking keepers, '
        'executed sends on a fork, scenario generator) + vlib/core.py (generator, canonicaliser, oracle, shrinker)',
        'modelled, not verified: bank send / mint / burn and supply, locked-coin check of the bank on a vesting account, the erc20 '
        'module (token pair registration, ConvertCoin, ConvertERC20, balanceOf through the EVM), baseapp message atomicity '
        '(cache context written back only on success), KV store and codec',
        'projection: the Coq model of SubtractAmountFromPeriods carries only the split denomination of every period; that other '
        'denominations are copied untouched to the decreased list and are absent from the moved list is checked by the Go oracle '
        'on the real function (multi-denomination inputs), not proved; the keeper model has aISLM-only vesting accounts',
    ],
    'assumptions': [
        'only Liquidate / Redeem move aISLM of the liquidvesting module account and mint / burn aLIQUID<n> (module accounts are blocked recipients)',
        'a holder\'s liquid tokens are bank coins plus the ERC20 balance of the registered pair; conversion between the two is value preserving',
        'in the modelled part of a history nothing is delegated from the accounts involved (delegations and clawbacks occur only in the '
        'oracle-only suffix); every address already has an (Eth) account',
        'block time does not decrease (obligations are checked from the latest block time seen on)',
        'amounts fit the 256 bits of math.Int also when multiplied pairwise (aISLM supply is below 2^97), times fit int64',
        'a failed message leaves no state behind (baseapp runMsgs semantics, reproduced by the harness with CacheContext)',
    ],
}
