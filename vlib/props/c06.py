P = {
    'id': 'C06',
    'design_ref': 'DESIGN.md section 5 (C06)',
    'level_text': 'placeholder',
    'level_note': 'placeholder',
    'technique': 'Coq proof (hand-written induction over the rose tree of messages) + differential correspondence against the real decorators and ante handlers',
    'drivers': [
        {'name': 'ante_route', 'n': {'quick': 2000, 'thorough': 20000}, 'batch': 2500},
    ],
    'coq_header': 'From HV Require Import Ante.RouteModel.\nFrom Coq Require Import NArith List.\nImport ListNotations.',
    'lists': {'cases': {'type': 'input * list N', 'check': 'mismatches', 'shard': 400}},
    'search': {'rounds': 3, 'n': 3000},
    'rule': 'placeholder',
    'trusted_base': [],
    'assumptions': [],
}
