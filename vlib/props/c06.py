P = {
    'id': 'C06',
    'design_ref': 'DESIGN.md section 5 (C06)',
    'level_text': 'Coq theorems over ALL message trees (MsgExec/MsgGrant wrappers to any depth and width, MsgEthereumTx and the '
                  'authz-barred types at any position; induction principle for the rose tree written by hand), all extension-option '
                  'lists and all signing states: the authz limiter accepts exactly the well-formed trees without blocked content '
                  'that never reach nesting level 7 (soundness, completeness, the cap as a theorem: 6 nested or 6 sibling MsgExec '
                  'always rejected, 5 in total never), a transaction accepted on the Cosmos or EIP-712 route contains no '
                  'MsgEthereumTx anywhere, the Ethereum route accepts only MsgEthereumTx with exactly one option, an unknown '
                  'extension option is rejected on every route.  The model is the executable Gallina transcription of '
                  'NewAnteHandler, RejectMessagesDecorator, AuthzLimiterDecorator.checkDisabledMsgs (level arithmetic included), '
                  'the option checks of each chain and the eth decorators\' type assertion; it is compared on every run with the '
                  'real decorators, with ante.NewAnteHandler(options) and with the handler wired into the app',
    'level_note': 'trusted: Coq kernel + vm_compute; the hand-written model (tied to /repo only by the sampled correspondence run); '
                  'fee deduction, signature/nonce verification and gas accounting are not modelled (they enter as "how the harness '
                  'signed the transaction"); only CheckTx and DeliverTx with simulate=false are driven (ReCheckTx and simulation skip '
                  'the option-count tests); message execution paths that do not pass the ante handler (governance proposals, ICA host) '
                  'are outside the property; no axioms',
    'technique': 'Coq proof (hand-written induction over the rose tree of messages) + differential correspondence against the real '
                 'decorators and ante handlers',
    'drivers': [
        {'name': 'ante_route', 'n': {'quick': 3000, 'thorough': 20000}, 'shrink_field': 'msgs', 'batch': 5000},
        {'name': 'ante_route_opts', 'n': {'quick': 1, 'thorough': 1}},
        {'name': 'ante_route_exh', 'n': {'quick': 1, 'thorough': 1}, 'shrink_field': 'msgs'},
    ],
    'coq_header': 'From HV Require Import Ante.RouteModel.\nFrom Coq Require Import NArith List.\nImport ListNotations.',
    'lists': {'cases': {'type': 'input * list N', 'check': 'mismatches', 'shard': 500}},
    'search': {'rounds': 3, 'n': 4000},
    'rule': 'a case is one transaction = (message tree, extension options, non-critical options, signing kind, disabled list of '
            'the stand-alone limiter); ante_route: random trees (depth <= 10, width <= 5 (8 for the wide shapes), <= 40 nodes; '
            'chains around the cap, wide-not-deep shapes, Ethereum-style transactions; MsgEthereumTx, MsgCreateVestingAccount, '
            'grants of disabled urls at every position; ~10% malformed shapes: undecoded Any inside MsgExec, MsgGrant without '
            'authorization, empty MsgExec); ante_route_opts: every option list of length <= 3 over {E,W,D,U,Ex,Wx,Dx} x 3 signing '
            'kinds; ante_route_exh: every tree with <= 4 nodes (quick) / <= 5 nodes over {eth, vesting, send, grant eth, grant '
            'send, exec} and exactly 6 nodes over {eth, send, grant vesting, exec} (thorough).  Each case runs 6 observations on the '
            'real code: RejectMessagesDecorator, AuthzLimiterDecorator, NewAnteHandler and the app-wired handler in CheckTx and '
            'DeliverTx.  non-trivial = the limiter or the full handler accepted; distinct = distinct inputs',
    'trusted_base': [
        'Coq 8.16.1 kernel incl. vm_compute (no native_compute); no std++ needed',
        'axioms: none (Print Assumptions: closed under the global context for every theorem of Props/C06.v)',
        'correspondence harness harness/ante_route.go + vlib/core.py (generator, error-enum canonicaliser by errors.Is + message text, '
        'oracle by an independent recursive walk of the generated tree); the wired handler is read from BaseApp.anteHandler by reflection',
        'modelled, not verified: everything behind the prefix decorators (SetUpContext, ValidateBasic, fee deduction, signature and '
        'nonce verification, IBC redundancy, gas wanted) is summarised by the signing kind; protobuf Any packing/unpacking',
    ],
    'assumptions': [
        'the chain parameters of the harness: London enabled, feemarket MinGasPrice = 0 (so EthMinGasPriceDecorator and '
        'EthMempoolFeeDecorator pass every transaction on; with other parameters they repeat the MsgEthereumTx type assertion earlier)',
        '"extension option" means TxBody.extension_options; non_critical_extension_options are ignored by definition '
        '(theorem C06_non_critical_options_ignored_off_eth_route states exactly that)',
        'messages reach execution only through the ante handler (DeliverTx); authz grants are only created by MsgGrant in a transaction',
    ],
}
