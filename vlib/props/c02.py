_COMMON_TB = [
    'Coq 8.16.1 kernel incl. vm_compute (no native_compute); std++ 1.8.0 gmap/gset',
    'axioms: none (Print Assumptions: closed under the global context)',
    'correspondence harness harness/evmexec.go + harness/asm.go (hand-assembled generic script contract, call-tree '
    'encoder, tracer that records which frames failed, reference accounting, metamorphic oracle) + vlib/core.py',
    'modelled, not verified: go-ethereum interpreter (only CALL/SSTORE/LOG/BALANCE/REVERT/SELFDESTRUCT/CREATE of the script contract are used; constructors run scripts through a DELEGATECALL into a library copy of the interpreter), '
    'SDK staking/distribution/authz/bank keepers (their effect on balances, delegations, rewards, withdraw address, grants is '
    'transcribed in Evm/ExecModel.v and sampled), the ICS-20 precompile is exercised with transfer of the bond denomination over one open channel (escrow; transfer grants; no relaying), the bank / werc20 precompiles and redelegate / cancelUnbondingDelegation are not exercised by this driver, gas is not modelled '
    '(gas price 0, ample gas limit)',
]

P = {
    'id': 'C02',
    'design_ref': 'DESIGN.md section 5 (C02/C05/C16), section 6 (K4, K5, K6, K9, K15), section 13',
    'drivers': [
        {'name': 'evmexec', 'n': {'quick': 500, 'thorough': 20000}, 'args': {'prop': 'C02'}, 'batch': 5000},
    ],
    'coq_header': 'From HV Require Import Evm.ExecModel.\nFrom Coq Require Import ZArith NArith List.\nImport ListNotations.',
    'lists': {'cases': {'type': 'ecase * list Z * eobs', 'check': 'mismatches', 'shard': 50}},
    'search': {'rounds': 3, 'n': 2000},
    'rule': 'a case is a random setup (balances, delegations, allocated rewards, withdraw addresses, staking and ICS-20 transfer grants of the signer) '
            'plus one Ethereum transaction: either EOA -> staking/distribution/ICS-20 precompile or EOA -> script contract running a '
            'random call tree (depth <= 3) of SSTORE / LOG / BALANCE / CALL with value / precompile calls (delegate, undelegate, withdraw, setWithdrawAddress, '
            'claimRewards, ICS-20 transfer) / SELFDESTRUCT (a fifth of the cases self-destruct-heavy: few contracts called repeatedly) / CREATE with a scripted constructor (value, reverting, code-less, self-destructing constructors; CREATE addresses funded beforehand; a seventh of the cases creation-heavy) / reward withdraw addresses without an account (6% of the setups), with the pattern [look at the address; precompile call that pays rewards to it; send value to it] / storage writes that restore the pre-transaction value inside a failing nested frame of the same contract (re-entered directly or through another contract; 5% of the bodies) / zero-value calls to module accounts / REVERT with catching and '
            'propagating callers, executed by the real EvmKeeper.ApplyTransaction, in 40% of the cases not as the first transaction of its block (block log counter 1..7, transaction index 1..3 set before); observed besides the state: the logs of the transaction response (emitters in order, compared with the run without the failed frames; count compared with the model; log index = block log counter + position, transaction index, block log counter afterwards); non-trivial = the transaction succeeded; '
            'distinct = distinct (setup, program)',
    'trusted_base': _COMMON_TB,
    'assumptions': ['gas price 0, so no fee enters the balance equations', 'one validator, no slashing (tokens = shares)'],
    'level_text': 'Coq theorems about the StateDB/journal/commit model and the precompile mirror discipline: exact supply-delta '
                  'formula for every program (self-destructed contracts included: exactly their bank balance is burned), conservation for every pure program (CREATE included) without SELFDESTRUCT, refutation witnesses for each '
                  'known finding class; the model is compared with the real keeper on generated call trees on every run, and the '
                  'property itself (supply unchanged apart from the sanctioned burn of self-destructed contracts; balances = before + received - paid) is evaluated on the real run',
    'level_note': 'partial: the theorem is about the model; interpreter, SDK keepers and gas are outside it (see trusted base)',
    'technique': 'Coq proof over a StateDB/precompile model + differential correspondence on generated EVM call trees',
}
