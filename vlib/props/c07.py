P = {
    'id': 'C07',
    'design_ref': 'DESIGN.md section 5 (C07), section 6 (K2)',
    'level_text': 'placeholder',
    'level_note': 'placeholder',
    'technique': 'Coq proof + differential correspondence against real DeliverTx',
    'drivers': [
        {'name': 'fees', 'n': {'quick': 1500, 'thorough': 60000}, 'shrink_field': 'txs', 'batch': 5000},
    ],
    'coq_header': 'From HV Require Import Fees.FeeModel.\nFrom Coq Require Import ZArith NArith List.\nImport ListNotations.',
    'lists': {'cases': {'type': 'fcase', 'check': 'mismatches', 'shard': 150}},
    'search': {'rounds': 4, 'n': 4000},
    'rule': 'placeholder',
    'trusted_base': [],
    'assumptions': [],
}
