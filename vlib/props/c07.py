P = {
    'id': 'C07',
    'design_ref': 'DESIGN.md section 5 (C07), section 6 (K2)',
    'level_text': 'Coq theorems for all gas limits, prices, fee caps, tips, base fees, min-gas-price and multiplier values, '
                  'transaction types, execution outcomes and message counts: a transaction that passes either ante chain '
                  'declares (and, on the eth route, is charged up front) at least gasLimit x minGasPrice in the EVM denomination; '
                  'no Ethereum message passes with fee cap < base fee; gasUsed = max(floor(mult x limit), consumed - min(counter, consumed/q)) '
                  'is within [that, gasLimit]; deduction - refund = gasUsed x effective price = fee collector delta, per message, per '
                  'multi-message transaction and summed over any history; for every list of messages and every assignment of signers '
                  'to them (signer model deliver_eth_s: deduction from and refund to the signer of each message) every signer\'s net '
                  'payment is exactly the sum of gasUsed x effective price over the messages it signed - a function of its own '
                  '(message, gas used) pairs only, invariant under permutation, zero for an account that signed nothing - and the '
                  'signers\' payments add up to the collector\'s gain; the variant that accumulates the fees of consecutive messages and '
                  'never clears the pending amount is refuted on [A, B]; when one account signs every message the signer model and the '
                  'single-sender model provably agree; hard error keeps the whole limit charged (per signer: of its '
                  'own messages); link to C17 '
                  '(paid >= floor on both routes when base >= minGasPrice) with a machine-checked counterexample without the guard. '
                  'The model is the executable Gallina transcription of the fee decorators of both routes, VerifyFee, GasToRefund, the '
                  'min-gas-used rule, RefundGas and ApplyTransaction; it is compared on every run with real BaseApp.DeliverTx (and the real '
                  'ante chain in CheckTx mode) on generated transactions: Ethereum transactions with the signer model (per-signer net '
                  'payments of three watched accounts), and additionally with the single-sender model when one account signs every message',
    'level_note': 'trusted: Coq kernel + vm_compute, std++ (decidable equality of the observation record only); the hand-written model, tied '
                  'to /repo only by the sampled correspondence run; go-ethereum gas accounting enters as data (gas consumed, refund counter, '
                  'vm error per message, measured by a tracer on a fork of the deliver state); bank transfers (DeductFees, '
                  'SendCoinsFromModuleToAccount), baseapp ante/message atomicity, signature checks and SDK gas metering of Cosmos '
                  'transactions are not modelled; no axioms',
    'technique': 'Coq proof (arithmetic of the fee rules, induction over message lists with a signer per message and over transaction histories) + differential '
                 'correspondence against real DeliverTx',
    'drivers': [
        {'name': 'fees', 'args': {'strict': '1'}, 'n': {'quick': 3000, 'thorough': 60000}, 'shrink_field': 'txs', 'batch': 6000},
    ],
    'coq_header': 'From HV Require Import Fees.FeeModel.\nFrom Coq Require Import ZArith NArith List.\nImport ListNotations.',
    'lists': {'cases': {'type': 'fcase', 'check': 'mismatches', 'shard': 250}},
    'search': {'rounds': 4, 'n': 6000},
    'rule': 'a case is 1-3 transactions delivered in one block on a fresh fork of a committed real application with the feemarket '
            'parameters of the case (MinGasPrice 0 / fractional / integral / 1e9, base fee disabled / below / at / above it, '
            'MinGasMultiplier 0 / 0.5 / 1 / 18-digit): Ethereum transactions of 1-5 legacy / access-list / dynamic-fee messages '
            'signed by 1-3 different accounts A, B, C in any interleaving (A; AB; ABA; AAB; ABC; BABA ...), each message with its own '
            'gas limit, price / fee cap / tip '
            '(transfer, storage set / clear for refunds, revert, log, create, failing create; gas limit below / at / just above the '
            'intrinsic gas or generous; price, fee cap and tip at the acceptance thresholds -1/0/+1, 60 % of the multi-message '
            'transactions lifted over them as a whole; balance of every signer ample or around the exact up-front cost of its own '
            'messages; oracle per signer: net payment = sum of gasUsed x effectiveGasPrice over its own executed messages, '
            'non-signers pay nothing, collector delta = sum over all messages, a refused transaction charges nobody) and Cosmos bank sends (fee around ceil(minGasPrice x gas) and base fee x gas, four denomination shapes, '
            'dynamic-fee extension option absent / 0 / small / negative); non-trivial = at least one transaction passed the ante '
            'chain; distinct = distinct inputs',
    'trusted_base': [
        'Coq 8.16.1 kernel incl. vm_compute (no native_compute); std++ 1.8.0 (EqDecision of the observation record)',
        'axioms: none (Print Assumptions: closed under the global context for every theorem of Props/C07.v)',
        'correspondence harness harness/fees.go, fees_gen.go + vlib/core.py (generator, tracer run on a fork for the raw EVM '
        'figures, canonicaliser of ABCI codes into 5 classes, oracle; value moved is attributed to a signer through the vm-error flag '
        'of the real MsgEthereumTxResponse and cross-checked against the recipients\' balance increase; "ante passed" = some '
        'signer\'s sequence moved); the uncommitted deliver state of BaseApp is dropped between '
        'cases through reflection on its unexported field',
        'modelled, not verified: go-ethereum gas accounting (data), intrinsic gas (go-ethereum core.IntrinsicGas, data), bank '
        'transfers, baseapp atomicity (ante effects kept, message effects dropped on error), ClaimStakingRewardsIfNecessary '
        '(sender has no delegations), London active (base fee never nil), block gas limit not reached',
    ],
    'assumptions': [
        'feemarket parameters pass Params.Validate: MinGasPrice >= 0, BaseFee >= 0, 0 <= MinGasMultiplier <= 1',
        'the EVM reports gas consumed <= gas limit and a non-negative refund counter',
        'signers have no delegations (no staking rewards to claim) and are plain accounts; recipients differ from the signers and the fee collector',
        'first sentence read on the fee a transaction declares; on the Cosmos route the fee charged (min(base + tip, floor(fee/gas)) x gas) '
        'reaches the floor only when base fee >= minGasPrice (C17 invariant) - cases outside are tagged feemarket:base-below-min-gas-price',
    ],
}
