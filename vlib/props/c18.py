P = {
    'id': 'C18',
    'design_ref': 'DESIGN.md section 5 (C18 / C03), section 4 (Base/Rlp.v)',
    'level_text': 'Coq theorems for all legacy (EIP-155 and pre-155), access-list and dynamic-fee transactions: FromEthereumTx followed '
                  'by AsTransaction is the identity on every field whenever wrapping succeeds, and it succeeds exactly under the 256-bit '
                  'bounds the code enforces; hence equal RLP preimages and, for ANY hash and recovery function, the same hash (= the '
                  'recorded Hash field) and the same sender under every signer; fee / cost / effective price / effective fee / effective '
                  'cost of the message equal go-ethereum\'s for nil and every non-negative base fee (dynamic-fee with nil base fee: the Go '
                  'code panics, stated as a theorem and recorded as an observation); RLP as go-ethereum writes it is proved injective and '
                  'prefix-free via a verified decoder. The model is compared on every run with the real '
                  'FromEthereumTx/BuildTx/TxEncoder/TxDecoder/AsTransaction and, byte for byte, with go-ethereum\'s signing and hash preimages',
    'level_note': 'trusted: Coq kernel + vm_compute; the hand-written model (tied to /repo by the sampled correspondence run); protobuf/Any/TxRaw '
                  'encoding, the decimal wire form of sdkmath.Int and the EIP-55 checksum casing are not modelled (sampled: every generated '
                  'transaction goes through the real encoder and decoder); Keccak and ECDSA enter as arbitrary functions; no axioms',
    'technique': 'Coq proof (round-trip identities, RLP injectivity via a decoder) + differential correspondence against the real codec and go-ethereum',
    'drivers': [
        {'name': 'txcodec', 'n': {'quick': 600, 'thorough': 12000}, 'batch': 4000},
    ],
    'coq_header': 'From Coq Require Import Ascii String.\nFrom Coq Require Import ZArith NArith List.\n'
                  'From HV Require Import Base.Bytes TxCodec.EthTxModel.\nImport ListNotations.\nLocal Open Scope string_scope.',
    'lists': {'cases': {'type': 'eth_tx * obs', 'check': 'mismatches', 'shard': 50},
              'big': {'type': 'eth_tx * obs', 'check': 'mismatches', 'shard': 1},
              'unwraps': {'type': 'unwrap_case', 'check': 'mismatches_unwrap', 'shard': 25},
              'bigunwraps': {'type': 'unwrap_case', 'check': 'mismatches_unwrap', 'shard': 1}},
    'search': {'rounds': 4, 'n': 3000},
    'rule': 'a case is one Ethereum transaction (type, signer chain id, nonce, prices, gas, To or creation, value, data, access list, key; '
            'amounts nil/zero/boundary/2^256-1/beyond 256 bits; data 0..65537 bytes; access lists with repeated addresses and empty key '
            'lists, up to 330 entries; 12% with arbitrary unsigned/malformed V,R,S) signed with go-ethereum and passed through '
            'FromEthereumTx, BuildTx, TxEncoder, TxDecoder, AsTransaction; non-trivial = the whole round trip completed (the wrap was not '
            'refused for a value above 256 bits); distinct = distinct inputs',
    'trusted_base': [
        'Coq 8.16.1 kernel incl. vm_compute (no native_compute)',
        'axioms: none (Print Assumptions: closed under the global context for every theorem of Props/C18.v)',
        'correspondence harness harness/txcodec.go + vlib/core.py (generator, oracle; go-ethereum types.SignTx, rlp.EncodeToBytes, '
        'MarshalBinary as the reference for signing, preimages and figures)',
        'modelled, not verified: nothing between TxData and TxData (protobuf / Any / TxRaw bytes, BuildTx, TxEncoder, TxDecoder are '
        'exercised on every case but not modelled); EIP-55 casing of Address.Hex enters as an arbitrary function; Keccak-256 and ECDSA '
        'recovery enter the theorems as arbitrary functions',
    ],
    'assumptions': [
        'a go-ethereum transaction has 20-byte addresses, 32-byte storage keys and non-negative V, R, S (facts of the Go types / of RLP decoding)',
        'the effective-price comparison with a nil base fee is not applied to dynamic-fee transactions (EffectiveGasPrice(nil) panics there; '
        'a nil base fee means London is inactive and the ante handler refuses dynamic-fee transactions)',
        'transactions whose gasPrice*gas exceeds 256 bits are outside the domain: BuildTx panics and ValidateBasic refuses them (both checked)',
    ],
}
