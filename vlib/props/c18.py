P = {
    'id': 'C18',
    'design_ref': 'DESIGN.md section 5 (C18 / C03), section 4 (Base/Rlp.v)',
    'level_text': 'Coq theorems for all legacy (EIP-155 and pre-155), access-list and dynamic-fee transactions: FromEthereumTx followed '
                  'by AsTransaction is the identity on every field whenever wrapping succeeds, and it succeeds exactly under the 256-bit '
                  'bounds the code enforces; hence equal RLP preimages and, for ANY hash and recovery function, the same hash (= the '
                  'recorded Hash field) and the same sender under every signer; fee / cost / effective price / effective fee / effective '
                  'cost of the message equal go-ethereum\'s for nil and every non-negative base fee (dynamic-fee with nil base fee: the Go '
                  'code panics, stated as a theorem and recorded as an observation); RLP as go-ethereum writes it is proved injective and '
                  'prefix-free via a verified decoder. Unwrapping is also modelled as what it is in the code, a lookup by hash '
                  '(UnwrapEthereumMsg): for ALL envelopes (any number of messages, arbitrary recorded Hash and From texts) and all '
                  'requested hashes, a successful lookup returns a member whose Ethereum hash is the requested one with its recorded hash '
                  'refreshed to it, a lookup fails exactly when no member has the requested hash, the answer does not depend on the '
                  'recorded Hash / From fields, and an envelope containing the wrapped transaction A asked for hash(A) answers A; a '
                  'one-message fast path that skips the hashing is refuted by a witness. The model is compared on every run with the real '
                  'FromEthereumTx/BuildTx/TxEncoder/TxDecoder/AsTransaction/UnwrapEthereumMsg and, byte for byte, with go-ethereum\'s '
                  'signing and hash preimages',
    'level_note': 'trusted: Coq kernel + vm_compute; the hand-written model (tied to /repo by the sampled correspondence run); protobuf/Any/TxRaw '
                  'encoding, the decimal wire form of sdkmath.Int and the EIP-55 checksum casing are not modelled (sampled: every generated '
                  'transaction goes through the real encoder and decoder); Keccak and ECDSA enter as arbitrary functions; no axioms',
    'technique': 'Coq proof (round-trip identities, RLP injectivity via a decoder) + differential correspondence against the real codec and go-ethereum',
    'drivers': [
        {'name': 'txcodec', 'n': {'quick': 600, 'thorough': 12000}, 'batch': 4000, 'shrink_field': 'lookups'},
    ],
    'coq_header': 'From Coq Require Import Ascii String.\nFrom Coq Require Import ZArith NArith List.\n'
                  'From HV Require Import Base.Bytes TxCodec.EthTxModel.\nImport ListNotations.\nLocal Open Scope string_scope.',
    'lists': {'cases': {'type': 'eth_tx * obs', 'check': 'mismatches', 'shard': 50},
              'big': {'type': 'eth_tx * obs', 'check': 'mismatches', 'shard': 1},
              'unwraps': {'type': 'unwrap_case', 'check': 'mismatches_unwrap', 'shard': 25},
              'bigunwraps': {'type': 'unwrap_case', 'check': 'mismatches_unwrap', 'shard': 1}},
    'search': {'rounds': 4, 'n': 3000},
    'rule': 'a case is one Ethereum transaction (type, signer chain id, nonce, prices, gas, To or creation, value, data, access list, key; '
            'amounts nil/zero/boundary/2^256-1/beyond 256 bits; data 0..65537 bytes; access lists with repeated addresses and empty key '
            'lists, up to 330 entries; 12% with arbitrary unsigned/malformed V,R,S) signed with go-ethereum and passed through '
            'FromEthereumTx, BuildTx, TxEncoder, TxDecoder, AsTransaction (a message that validates must record the canonical hash text: the same message with the digits in upper case, without 0x, inside junk or with a suffix must not validate); non-trivial = the whole round trip completed (the wrap was not '
            'refused for a value above 256 bits); distinct = distinct inputs. Every transaction that wraps is, in a second case, the target of '
            'lookups by hash (about 55 per transaction, explicit in the input): envelopes [A], [A,B]/[B,A], permutations of {A,B,C} and '
            '{A,B,C,D} (B,C,D short transactions of the same generator; 10% with A twice) are built (one message: the real BuildTx), encoded with '
            'the real TxEncoder, decoded with the real TxDecoder and handed to the real UnwrapEthereumMsg with the requested hash in {hash(A), '
            'hash of every other member, hash of a transaction not in the envelope, the zero hash, a member\'s hash with one bit flipped}; '
            'the same with the recorded Hash of a member forged before encoding (to another member\'s hash, two members swapped, to a foreign '
            'hash, every member to the foreign hash, to the empty string, to arbitrary text) and with a member\'s From forged. Oracle per '
            'lookup: a returned message has AsTransaction().Hash() = the REQUESTED hash, recorded Hash = its Ethereum hash, and the sender '
            '(real signer), all fields and the fee / cost / effective price / effective fee / effective cost figures of the original '
            'transaction with that hash, and GetSender(chain id) and GetSigners() of the returned message and, afterwards, of every member of the decoded envelope and of the reused message objects are the go-ethereum signer of that message; the hash of a member must be found; a hash no member has must be refused. The model (unwrap_scan) is '
            'compared on found / not found, the position of the member returned and the Hash and From of every member after the call (in '
            'the quick tier on the lookups of every third generated transaction and on the whole corpus; in the thorough tier on all); '
            'non-trivial = some lookup of the case was answered and some refused',
    'trusted_base': [
        'Coq 8.16.1 kernel incl. vm_compute (no native_compute)',
        'axioms: none (Print Assumptions: closed under the global context for every theorem of Props/C18.v)',
        'correspondence harness harness/txcodec.go + vlib/core.py (generator, oracle; go-ethereum types.SignTx, rlp.EncodeToBytes, '
        'MarshalBinary as the reference for signing, preimages and figures)',
        'in the lookup cases the hash function of the model is the finite graph {model\'s hash preimage of pool transaction i -> '
        'tx.Hash() observed}; that the preimage is the byte string go-ethereum hashes is checked by the per-transaction cases',
        'modelled, not verified: nothing between TxData and TxData (protobuf / Any / TxRaw bytes, BuildTx, TxEncoder, TxDecoder are '
        'exercised on every case but not modelled); EIP-55 casing of Address.Hex enters as an arbitrary function; Keccak-256 and ECDSA '
        'recovery enter the theorems as arbitrary functions',
    ],
    'assumptions': [
        'a go-ethereum transaction has 20-byte addresses, 32-byte storage keys and non-negative V, R, S (facts of the Go types / of RLP decoding)',
        'the effective-price comparison with a nil base fee is not applied to dynamic-fee transactions (EffectiveGasPrice(nil) panics there; '
        'a nil base fee means London is inactive and the ante handler refuses dynamic-fee transactions)',
        'transactions whose gasPrice*gas exceeds 256 bits are outside the domain: BuildTx panics and ValidateBasic refuses them (both checked)',
        'envelopes consist of MsgEthereumTx only (UnwrapEthereumMsg refuses a transaction as soon as it meets another message type: not exercised); '
        'a message whose To / access-list text is not well-formed hex (never written by FromEthereumTx: C18_roundtrip_fields) is outside the '
        'model of the lookup',
    ],
}
