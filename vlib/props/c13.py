P = {
    'id': 'C13',
    'design_ref': 'DESIGN.md section 5 (C13), section 6 (F3)',
    'level_text': 'Coq theorems for ALL inputs and block histories (unbounded integers): the amount minted by a block is '
                  'round(bonded x rc/100 x (ts - prev)/year) evaluated with the exact LegacyDec steps of MintAndAllocate, with an explicit '
                  'bound against the exact rational; the year is the Gregorian year of the block time (Go\'s Year() modelled as '
                  'civil-from-days and proved equal to the calendar) and its length follows the leap rule; the supply is never lifted above '
                  'max(supply, maxSupply); the crossing block mints exactly the remainder and disables; nothing is minted when disabled, on '
                  'the first block, for elapsed <= 0; everything goes to the fee collector; over any history total minted <= headroom. '
                  'The Gallina model is compared with the real EndBlocker on a real app on generated cases on every run',
    'level_note': 'trusted: Coq kernel + vm_compute; the hand-written model of x/coinomics/keeper/{abci,inflation,mint_info}.go, of '
                  'cosmossdk.io/math LegacyDec (Base/Dec.v) and of time.absDate (all tied to the real code only by the sampled '
                  'correspondence run, declib and year cases included); bank MintCoins/SendCoinsFromModuleToModule/GetSupply, staking '
                  'TotalBondedTokens and the params subspace are driven, not modelled; no axioms',
    'technique': 'Coq proof (fixed-point arithmetic over Z, calendar arithmetic, induction over block histories) + differential '
                 'correspondence against the real coinomics keeper',
    'drivers': [
        {'name': 'coinomics', 'n': {'quick': 1000, 'thorough': 60000}, 'shrink_field': 'blocks', 'batch': 10000},
        {'name': 'declib', 'n': {'quick': 600, 'thorough': 20000}, 'batch': 20000},
    ],
    'coq_header': 'From HV Require Import Base.Dec Coinomics.MintModel.\nFrom Coq Require Import ZArith NArith List.\nImport ListNotations.',
    'lists': {
        'hist': {'type': 'mint_case', 'check': 'mismatches', 'shard': 150},
        'years': {'type': 'Z * Z', 'check': 'year_mismatches', 'shard': 5000},
        'decops': {'type': 'N * Z * Z * Z', 'check': 'dec_mismatches', 'shard': 5000},
    },
    'search': {'rounds': 3, 'n': 4000},
    'rule': 'coinomics driver, per 25 cases: 20 histories of 1-8 blocks (supply and bonded pool set with real bank operations; block times '
            'at year boundaries 2023/24/25, 2100, 2400, leap days, the epoch, year 0/1, random; elapsed 0, negative, 1 ms .. more than a year; '
            'bonded 0 .. 2^120; coefficient 0, 10^-18, 7.8, 100, large, negative; max supply at landing point -1/0/+1, at/below the supply, 0, '
            'mainnet; disabled / first block; parameter changes between blocks incl. minting switched off and on again — about 70 re-activations per quick run), '
            'the oracle is history-aware: the reference time of a block is the PREVIOUS BLOCK\'s time and a block that follows a block with minting off is a first block '
            'after activation whatever the store holds (F11: /repo before 81b5da1 minted for the whole disabled period there), 1 history at the edge of the 315-bit decimal range (panic '
            'expected by the model), 4 year-only cases (Year() over the whole int64 ms range); declib: one LegacyDec call each. '
            'non-trivial = at least one block minted a formula amount or the remainder; distinct = distinct inputs',
    'trusted_base': [
        'Coq 8.16.1 kernel incl. vm_compute (no native_compute)',
        'axioms: none (Print Assumptions: closed under the global context for every theorem of Props/C13.v)',
        'correspondence harness harness/coinomics.go, harness/declib.go + vlib/core.py (generator, oracle, shrinker)',
        'modelled, not verified: LegacyDec arithmetic (Base/Dec.v), Go time.absDate / UnixMilli (MintModel.year_of_days); '
        'driven, not modelled: bank mint/send/supply, staking TotalBondedTokens (= bonded pool balance), params subspace, KV store',
    ],
    'assumptions': [
        'supply of the mint denom changes only through the coinomics mint within a history (other mints/burns are outside the model)',
        'a LegacyDec overflow (values beyond 315 bits: bonded or supply above about 5.7e76) panics in EndBlock; theorems are about blocks that complete',
        'block time is taken in UTC (sdk.Context.WithBlockTime/WithBlockHeader normalise to UTC)',
    ],
}
