P = {
    'id': 'C15',
    'design_ref': 'DESIGN.md section 5 (C15), section 10',
    'level_text': 'PARTIAL. Coq theorems for all sequences of the coin-moving operations of Haqq\'s own modules (coinomics mint, '
                  'redirected and plain module burns, DAO fund, liquidate, redeem, ERC20 conversions, EVM SetBalance, sends / mints), '
                  'each transcribed as the bank primitives its Go code calls: sum of balances = supply per denomination and no negative '
                  'balance are preserved; the redirected burn keeps "community pool + outstanding <= distribution account" (exact '
                  'effect proved). User level: Haqq\'s bank MsgSend / MsgMultiSend and the x/erc20 parameter EnableErc20 (part of the model '
                  'state, changed by a parameter operation) are part of the step function: a send to a blocked address (module account, '
                  'precompile address) is refused under both values of the parameter; for ALL histories of user operations the module '
                  'accounts (but the erc20 escrow), the community pool, the outstanding rewards and the supply are unchanged (so the '
                  'distribution account still EQUALS pool + outstanding and the pools hold what they held), and in ALL mixed histories '
                  'every property over that view preserved by the module operations is preserved (module accounts change only through '
                  'module operations); the variant with the recipient check behind the "ERC20 disabled" early return is refuted. The SDK\'s staking / distribution / governance invariants themselves are NOT proved: every registered '
                  'invariant route is evaluated after every EndBlock and every Commit of random mixed block histories on the real '
                  'application (really signed Cosmos and Ethereum transactions; governance parameter changes through the real MsgUpdateParams '
                  'handlers inside the blocks; user transactions naming module accounts and precompile addresses as recipients before and '
                  'after them, which must be refused), and the model is compared with the real keepers and the real bank message server on '
                  'generated operation sequences on every run',
    'level_note': 'partial: the theorem covers the bank/supply invariant and the Haqq side of the distribution-account invariant in a '
                  'hand-written model (tied to /repo by the sampled bankops correspondence); the SDK invariants (bonded / not-bonded '
                  'pools vs validator records, delegator shares, outstanding rewards, reference counts, gov deposits) are sampled only '
                  'by the block-history run; trusted: Coq kernel + vm_compute, std++, the Go harness; no axioms',
    'technique': 'Coq proof (invariant preserved by every primitive and by every composition, by induction over operation sequences) '
                 '+ differential correspondence on operation sequences (module operations, signed bank messages, the x/erc20 parameter) + '
                 'crisis-keeper invariant routes after every block of random block histories (transactions, parameter changes, blocked '
                 'recipients) on the real application, with the rule "no user transaction credits a blocked address" checked per transaction',
    'drivers': [
        {'name': 'invariants', 'n': {'quick': 60, 'thorough': 600}, 'shrink_field': 'blocks', 'batch': 12,
         'args': {'blocks': '20'}, 'timeout': 3000},
        {'name': 'bankops', 'n': {'quick': 300, 'thorough': 12000}, 'shrink_field': 'ops', 'batch': 5000},
    ],
    'coq_header': 'From HV Require Import Bank.InvariantModel.\nFrom Coq Require Import ZArith NArith List.\nImport ListNotations.',
    'lists': {'ops': {'type': 'case', 'check': 'mismatches', 'shard': 40},
              'hist': {'type': 'hcase', 'check': 'hmismatches', 'shard': 400}},
    'search': {'rounds': 3, 'n': 60},
    'rule': 'invariants: a case is one block history (quick: 20 blocks, thorough: 40) of 0-6 transactions per block on a fresh real '
            'application with 2-4 validators: really signed Cosmos transactions (vesting grants also in several denominations at once — the further coins vesting first — with and without the Stake option; bank send, delegate / undelegate / redelegate / cancel '
            'unbonding, withdraw rewards / commission, set withdraw address, fund community pool, create validator, unjail, gov submit / '
            'deposit / vote incl. a RegisterCoin proposal — deposits and community-pool fundings in SEVERAL denominations: the native coin, '
            'the test coin, liquid tokens, and in most histories an IBC voucher and two coins that sort before / after the others, all held '
            'since genesis; sometimes a min deposit in two denominations; the three gov burn switches are on (one of them off in some '
            'histories), voting moods and a scripted proposal make deposits end vetoed / without quorum / dropped below the minimum, so that '
            'deposits of several denominations are burned = redirected to the community pool, also denominations new to the pool —, vesting conversion / clawback, liquidate / redeem, DAO fund / transfer, ERC20 '
            'convert both ways, authz grant / exec, bank multi-send) and really signed Ethereum transactions (transfers, script-contract call trees — rarely ending in SELFDESTRUCT of the script contract, whose delegations and unbonding entries stay behind — with '
            'nested calls, reverts and calls into the staking / distribution precompiles, direct precompile calls), block time steps of '
            'seconds to days (coinomics minting), absent validators (downtime slashing), double-sign evidence, occasionally the v1.7.5 '
            'upgrade; PARAMETER OPERATIONS inside the blocks ({"k":"param"}: the module\'s current parameters with the listed keys '
            'overwritten go through the real MsgUpdateParams handler of the message router with the governance authority as signer — erc20 '
            'EnableErc20 / EnableEVMHook, evm EnableCall / EnableCreate / a subset of the implemented precompiles, bank DefaultSendEnabled and '
            'per-denomination SendEnabled (MsgSetSendEnabled), staking unbonding time / max entries / historical entries, distribution '
            'withdraw_addr_enabled / community tax, gov burn switches, slashing fractions; coinomics and liquidvesting switches and amounts by a '
            'ParameterChangeProposal inside MsgExecLegacyContent; some with an unknown key, refused as a whole; earlier changes are put back '
            'later; two thirds of the histories run in a FEE-MARKET REGIME other than the default (harness/feeregime.go, shared with C01: x/feemarket '
            'genesis parameters incl. base fees of 0..100 and MinGasPrice, a finite consensus Block.MaxGas with blocks filled above the gas target '
            'and empty ones, feemarket / consensus parameter operations on the way; fees of the generated transactions follow max(base fee, MinGasPrice))), and after each of them a sweep of user transactions that name a BLOCKED ADDRESS (each of the 13 module accounts and 6 '
            'precompile addresses, the four accounts with an equality invariant — distribution, bonded, not-bonded, gov — most often) as '
            'recipient / withdraw address / delegator: MsgSend (several denominations), MsgMultiSend, Ethereum transfers and script-contract calls '
            'with value, set-withdraw-address then withdraw, liquidvesting liquidate / redeem, erc20 convert both ways, DAO transfers, vesting '
            'conversion, authz exec, community-pool spend; ORACLE beside the invariant routes: an accepted transaction after which its named '
            'blocked recipient holds more coins than before (for the fee collector: other than the fee coin, or an accepted plain send) is a '
            'violation, reported with height, position, kind, signer, recipient and the parameters changed so far; the parameter operations and '
            'the sends / multi-sends to blocked addresses of every history go to the model as (uop, accepted) terms (list hist, hmismatches: '
            'a message the step function refuses in every state must not have been accepted); all 12 registered invariant routes are evaluated on the deliver state after EndBlock and on the committed store after '
            'Commit; non-trivial = at least 5 accepted transactions of at least 3 kinds; distinct = distinct histories. bankops: a case is '
            'a sequence of 4-9 operations on a copy-on-write fork of a prepared real application (governance holds deposits in five '
            'denominations); about a quarter of the operations are user level: the x/erc20 parameter through the real MsgUpdateParams handler, '
            'MsgSend and MsgMultiSend through the real bank message server (message router), half of them to blocked addresses, some of a '
            'denomination with a token pair (converted and moved as ERC20 tokens while the module is enabled); an accepted message to a blocked '
            'address is an oracle failure and a model mismatch; burns through the Haqq bank keeper take one coin or a coin LIST of 0-5 denominations (valid, one coin not '
            'covered, a zero amount, a denomination twice); besides the comparison with the model the registered invariant '
            'distribution/module-account must survive every operation that does not pay the distribution account directly, and a refused '
            'burn must be refused by the model too; non-trivial = at least two accepted',
    'trusted_base': [
        'Coq 8.16.1 kernel incl. vm_compute (no native_compute); std++ 1.8.0 gmap',
        'axioms: none (Print Assumptions: closed under the global context for every theorem of Props/C15.v)',
        'harness: harness/blocks.go (genesis, signing, ABCI driver, CometBFT-style validator-set tracking), blockgen.go (generator), '
        'blockparams.go (parameter operations, blocked-address actors, their generator), invariants.go, bankops.go + vlib/core.py',
        'not verified, sampled only: Cosmos-SDK staking / distribution / gov / slashing / evidence keepers and their registered invariants, '
        'baseapp, go-ethereum interpreter, precompiles, IAVL',
        'modelled, tied by the bankops correspondence: SDK bank SendCoins / MintCoins / BurnCoins, Haqq bank BurnCoins override, coinomics '
        'MintAndAllocate, ucdao Fund, liquidvesting Liquidate / Redeem, erc20 ConvertCoin / ConvertERC20 (native coin pairs), evm SetBalance; '
        'Haqq bank message server Send (recipient check, branch on EnableErc20, conversion of a paired denomination) and MultiSend, x/erc20 UpdateParams',
    ],
    'assumptions': [
        'parameter operations change only the keys listed in harness/blockparams.go (denominations, chain config, extra EIPs, validator count, '
        'periods of governance stay as at genesis); the unbonding time is never set below 10 s (see the assumption on validator-set changes); '
        'ucdao keeps its parameters in its own store and has no message to change them: not varied',
        'a message is signed by a user key: the sender of a modelled MsgSend / MsgMultiSend is not a blocked address (signed_by_user)',
        'coin lists reach the bank in the order of their denomination strings (sdk.NewCoins / validated messages); the model checks the '
        'rest of Coins.Validate (positive amounts, no denomination twice), the harness presents every list in that order',
        'the histories use unbonding times of seconds; a validator that left the set keeps voting for two blocks as in CometBFT, and the '
        'harness does not let block time jump over the unbonding time during those two blocks (on a real chain the unbonding time is weeks)',
        'at least two validators are never targeted by downtime / evidence (an empty validator set halts CometBFT and is not a block input)',
        'known findings K3-K9 (precompile calls that mint or burn) change the total supply through the bank, so the bank invariant still '
        'holds after them; they are reported under C02 / C05 / C16, not here',
    ],
}
