P = {
    'id': 'C10',
    'design_ref': 'DESIGN.md section 5 (C10), section 6 (K7)',
    'level_text': 'Coq theorems about an executable model of the erc20 keeper (four conversion branches with their post-condition '
                  'balance checks and the Approval monitor, MintingEnabled, self-destructed-contract handling, the '
                  'transfer-to-module EVM hook (per log of the receipt: single transfers and transactions of a token-holding contract '
                  'that makes a list of transfers, also on other registered pairs), the bank MsgSend wrapper, the IBC receive/ack/timeout callbacks, toggle, params) '
                  'in which the token contract is an oracle (Section variable): honest token (OpenZeppelin ledger): backing '
                  'invariant over all histories (coin-origin: totalSupply <= escrow with escrow - totalSupply = tokens burned by '
                  'holders; token-origin: coin supply <= balanceOf(module)); hook exactness for one and for several Transfer-to-module '
                  'logs in one receipt (the contract receives exactly the sum of the amounts it transferred); '
                  'multi-contract receipts (world = per token contract its pair state; every log carries its emitting contract and the hook '
                  'looks the pair up by that contract): a log of an unregistered or disabled contract changes no pair; a log changes only its '
                  'own pair, by exactly its amount; over ALL log sequences (induction) the pair of contract p ends where p\'s own hook ends on '
                  'the sub-sequence of p\'s logs, so erasing the ignored logs gives the same state and every coin-origin pair stays backed '
                  'whatever any contract logs; a whole transaction of transfer / transferFrom calls on any mix of contracts (unregistered ones: '
                  'ARBITRARY token behaviour) keeps every registered pair of either origin backed; refutation witness for a pair lookup that is '
                  'memoised across logs and not reset on a registry miss ([A; B; B]); '
                  'SPELLINGS: every address / token identifier reaches the chain as a string; the conversion functions of the model take '
                  'resolved actors and the step function of the correspondence (step_sp) takes the operation plus the spelling of its '
                  'string fields: any two spellings the parsing accepts give the same state and result (= step of the resolved operation), '
                  'every hex spelling (letter case, checksum, 0x / 0X / none) and upper-case bech32 are accepted, a refused spelling fails '
                  'without effect (or the callback never reads the string), the backing invariant holds over all histories of written '
                  'messages, the delayed-malicious token is refused in every accepted spelling; refutation witness for an Approval monitor '
                  'that compares the contract address as a string; '
                  'ANY token: every message conversion and the wrapper '
                  'is exact on the bank side and witnessed by the balance the token reports, or fails without effect; every coin '
                  'creation is witnessed in the semantics without log-driven mint; refutation witnesses for the two findings. '
                  'The model is compared with the real keeper / message router / ApplyTransaction on generated histories on '
                  'every run and the property itself is evaluated on the real observations',
    'level_note': 'partial: the theorems are about the model; the EVM interpreter, the compiled token bytecode, bank keeper and '
                  'baseapp/IBC-core atomicity are outside it (see trusted base); one pair per history (pairs are independent by '
                  'construction: distinct denomination, distinct contract); the multi-contract model (6 contracts) is evaluated on every script '
                  'transaction that does not call a non-ledger token of the pair under test; five other contracts are observed for frame violations',
    'technique': 'Coq proof over a state-passing token-oracle model (invariant by induction over histories; case analysis for '
                 'any-token exactness) + differential correspondence against the real code with honest, compiled-malicious '
                 'and hand-assembled tokens',
    'drivers': [
        {'name': 'erc20', 'n': {'quick': 450, 'thorough': 12000}, 'shrink_field': 'ops', 'batch': 6000},
    ],
    'coq_header': 'From HV Require Import Erc20.PegModel.\nFrom Coq Require Import ZArith NArith List.\nImport ListNotations.',
    'lists': {'cases': {'type': 'N * list (spell * op * obs) * list mcase', 'check': 'mismatches', 'shard': 60}},
    'search': {'rounds': 3, 'n': 2500},
    'rule': 'a case is one token pair (coin-origin with the module\'s own ERC20MinterBurnerDecimals deployed by RegisterCoin; or '
            'token-origin with: the compiled honest token, ERC20DirectBalanceManipulation, ERC20MaliciousDelayed, a hand-assembled '
            'constant-balance token, the 20-byte fake-Transfer-log token of K7, a hand-assembled "chameleon" ledger token whose '
            'transfer() mode can be switched mid-history: honest / log-only / returns false / extra Approval / credit without debit '
            '/ topic-less log / no return data / revert, and which can self-destruct) plus a history of 8-20 operations: fund, '
            'one signed transaction to a script contract that holds tokens and CALLs token.transfer(to, x) several times (same pair '
            'twice or more, other recipients, tolerated reverting calls, calls to the tokens of the two bystander pairs: two '
            'registered pairs in one receipt), or a scripted SEQUENCE of token.transfer(to, x) / token.transferFrom(holder, to, x) calls '
            '(holders have given the contract an infinite allowance) on SEVERAL token contracts of different registration status in one '
            'transaction: the pair\'s own token, a registered enabled coin-origin and a token-origin pair, a registered DISABLED coin-origin '
            'pair, an UNREGISTERED honest ERC20 (the compiled ERC20MinterBurnerDecimals, has burn), an UNREGISTERED hand-assembled token that '
            'only emits Transfer(from, to, x) logs; palette of 2-3 contracts per transaction, 2-6 calls, the same contract often again '
            '(adjacent and non-adjacent: A B B, A B A B, B B A ...), to = module address (78%) / another actor, amounts 0 / 1..70 / more than '
            'held; for every such transaction the world before, the calls, the RECEIPT\'s logs (emitting contract, registered?, from, to, '
            'amount) and the world after are printed into the Coq case and the multi-contract model is evaluated on them, '
            'MsgConvertCoin, MsgConvertERC20 (message router), signed Ethereum transactions transfer/burn/mint/mode/kill/unknown '
            'through EvmKeeper.ApplyTransaction (PostTxProcessing hook), bank MsgSend (wrapper), MsgTransfer without channel, '
            'ToggleConversion, SetParams, keeper OnRecvPacket / OnAcknowledgementPacket / OnTimeoutPacket after the ICS-20 credit, '
            'EQUIVALENT SPELLINGS of every string field, chosen per message (22% of the string-carrying messages on the honest kinds, '
            '34% on the misbehaving tokens; own random stream, so the histories are the ones generated before): hex address fields '
            '(MsgConvertCoin.Receiver, MsgConvertERC20.ContractAddress and Sender) as EIP-55 / lower case / upper-case digits / mixed '
            'case with a wrong checksum / lower case without 0x / EIP-55 without 0x / 0X + upper case / 38 digits (not an address); '
            'bech32 fields (MsgConvertCoin.Sender, MsgConvertERC20.Receiver, bank MsgSend from and to, MsgTransfer sender, receiver of a '
            'received ICS-20 packet, refunded sender of an acknowledged / timed-out packet) as lower case / UPPER CASE / another prefix '
            '(cosmos1...) / the hex address / mixed case; the token of ToggleConversion and of the MsgTransfer wrapper as the '
            'denomination / the contract address in each of the seven hex spellings / 38 digits / the denomination in another letter '
            'case (a different denomination); the Coq case carries the spelling (record spell) next to every operation and the model '
            'predicts acceptance and error code; ORACLE for a message in a non-canonical spelling: the same message in canonical '
            'spelling is run first on a discarded copy of the same state; if the spelled message is accepted the canonical one must be '
            'accepted too with an identical state afterwards (all observables), and a spelling that beyond doubt denotes the same address '
            '(hex case / checksum / prefix, denomination or contract address) must not be refused where the canonical one succeeds; '
            'the peg and exactness clauses are evaluated on it unchanged; after EVERY step the TokenPair gRPC query is asked by '
            'denomination and by the contract address in the seven hex spellings and must answer the same pair (not found for all when '
            'the pair is gone); corpus/C10/spellings.jsonl (runs first): every spelling of every string field of cc / ce / send / toggle / '
            'recv / ack / timeout / ibcsend on every token kind, the chameleon in every transfer mode, '
            'keeper-level SendCoins; amounts 0 / 1 / balance / balance+1 / 2^128, 2^255, 2^256-1 / random; after every step: '
            'totalSupply and balanceOf of 8 actors (the script contract included) through real EVM calls, coin supply, escrow, bank balances, registry, params, '
            'five other token contracts (registry flags, coin supply, totalSupply, coin and token balances of the 8 actors in each one\'s '
            '(would-be) denomination: exact expected effect when the transaction called them: a conversion of exactly x for `from` when the '
            'contract is a registered enabled pair and the transfer goes to the module address, a plain token transfer otherwise, so a '
            'transfer of an unregistered or disabled contract\'s token to the module address changes no coin, escrow or supply of any '
            'denomination and every actor\'s coins move only by the conversions of registered pairs; frame otherwise; a transaction without a '
            'call on the pair\'s own token leaves the pair untouched whatever its token is) and the base denomination; non-trivial = at least one conversion (message, hook, wrapper or IBC) '
            'succeeded; distinct = distinct (kind, op list)',
    'trusted_base': [
        'Coq 8.16.1 kernel incl. vm_compute (no native_compute); std++ 1.8.0 gmap',
        'axioms: none (Print Assumptions: closed under the global context for every theorem of Props/C10.v)',
        'correspondence harness harness/erc20.go (+ asm.go assembler and script contract, common.go, evmexec.go base environment) + vlib/core.py: '
        'generator, hand-assembled token bytecode, canonicaliser (error kinds to a 10-value enum), oracle, shrinker; the spelling '
        'functions pegSpellHex / pegSpellBech / pegSpellToken (string forms of one address) and the table of accepted spellings '
        'spell_ok of PegModel.v (a transcription of common.IsHexAddress, sdk.AccAddressFromBech32, utils.GetHaqqAddressFromBech32 and '
        'GetTokenPairID, compared with the real parsers on every run)',
        'modelled, not verified: go-ethereum interpreter and the compiled Solidity tokens (their behaviour enters as the oracle '
        'instances honest_token / preset_token / cham_token ..., sampled by the correspondence), bank keeper '
        '(SendCoins, MintCoins, BurnCoins, blocked addresses), baseapp message atomicity and IBC-core acknowledgement '
        'atomicity (reproduced by the harness with CacheContext), gas (price 0), ICS-20 escrow/mint below the middleware '
        '(played by the harness), MsgTransfer beyond its inner ConvertERC20 (no channel in the harness: always fails, checked to '
        'leave no effect), vesting locks (no vesting accounts), send-enabled flags (default), approve and finite allowances (transferFrom is '
        'modelled under the infinite allowance the harness sets up: it then equals a transfer of `from`; compared on every run: logs and balances), ERC20 precompiles '
        '(RegisterERC20Extensions is never called in the pinned tree)',
    ],
    'assumptions': [
        'a failed message / callback leaves no state behind (baseapp runMsgs and IBC core run them on a cache written only on success)',
        'nobody can sign for the erc20 module account (no message or Ethereum transaction has it as signer)',
        'nothing but the erc20 module mints an erc20/<contract> denomination, and no other module sends coins of a pair '
        'denomination to the erc20 module account (bank MsgSend to it is blocked)',
        'gas price 0: no fee enters the balance equations',
    ],
}
