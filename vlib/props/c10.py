P = {
    'id': 'C10',
    'design_ref': 'DESIGN.md section 5 (C10), section 6 (K7)',
    'level_text': 'Coq theorems about an executable model of the erc20 keeper (four conversion branches with their post-condition '
                  'balance checks and the Approval monitor, MintingEnabled, self-destructed-contract handling, the '
                  'transfer-to-module EVM hook (per log of the receipt: single transfers and transactions of a token-holding contract '
                  'that makes a list of transfers, also on other registered pairs), the bank MsgSend wrapper, the IBC receive/ack/timeout callbacks, toggle, params) '
                  'in which the token contract is an oracle (Section variable): honest token (OpenZeppelin ledger): backing '
                  'invariant over all histories (coin-origin: totalSupply <= escrow with escrow - totalSupply = tokens burned by '
                  'holders; token-origin: coin supply <= balanceOf(module)); hook exactness for one and for several Transfer-to-module '
                  'logs in one receipt (the contract receives exactly the sum of the amounts it transferred); '
                  'ANY token: every message conversion and the wrapper '
                  'is exact on the bank side and witnessed by the balance the token reports, or fails without effect; every coin '
                  'creation is witnessed in the semantics without log-driven mint; refutation witnesses for the two findings. '
                  'The model is compared with the real keeper / message router / ApplyTransaction on generated histories on '
                  'every run and the property itself is evaluated on the real observations',
    'level_note': 'partial: the theorems are about the model; the EVM interpreter, the compiled token bytecode, bank keeper and '
                  'baseapp/IBC-core atomicity are outside it (see trusted base); one pair per history (pairs are independent by '
                  'construction: distinct denomination, distinct contract; two bystander pairs are observed for frame violations)',
    'technique': 'Coq proof over a state-passing token-oracle model (invariant by induction over histories; case analysis for '
                 'any-token exactness) + differential correspondence against the real code with honest, compiled-malicious '
                 'and hand-assembled tokens',
    'drivers': [
        {'name': 'erc20', 'n': {'quick': 450, 'thorough': 12000}, 'shrink_field': 'ops', 'batch': 6000},
    ],
    'coq_header': 'From HV Require Import Erc20.PegModel.\nFrom Coq Require Import ZArith NArith List.\nImport ListNotations.',
    'lists': {'cases': {'type': 'N * list (op * obs)', 'check': 'mismatches', 'shard': 60}},
    'search': {'rounds': 3, 'n': 2500},
    'rule': 'a case is one token pair (coin-origin with the module\'s own ERC20MinterBurnerDecimals deployed by RegisterCoin; or '
            'token-origin with: the compiled honest token, ERC20DirectBalanceManipulation, ERC20MaliciousDelayed, a hand-assembled '
            'constant-balance token, the 20-byte fake-Transfer-log token of K7, a hand-assembled "chameleon" ledger token whose '
            'transfer() mode can be switched mid-history: honest / log-only / returns false / extra Approval / credit without debit '
            '/ topic-less log / no return data / revert, and which can self-destruct) plus a history of 8-20 operations: fund, '
            'one signed transaction to a script contract that holds tokens and CALLs token.transfer(to, x) several times (same pair '
            'twice or more, other recipients, tolerated reverting calls, calls to the tokens of the two bystander pairs: two '
            'registered pairs in one receipt), '
            'MsgConvertCoin, MsgConvertERC20 (message router), signed Ethereum transactions transfer/burn/mint/mode/kill/unknown '
            'through EvmKeeper.ApplyTransaction (PostTxProcessing hook), bank MsgSend (wrapper), MsgTransfer without channel, '
            'ToggleConversion, SetParams, keeper OnRecvPacket / OnAcknowledgementPacket / OnTimeoutPacket after the ICS-20 credit, '
            'keeper-level SendCoins; amounts 0 / 1 / balance / balance+1 / 2^128, 2^255, 2^256-1 / random; after every step: '
            'totalSupply and balanceOf of 8 actors (the script contract included) through real EVM calls, coin supply, escrow, bank balances, registry, params, '
            'two bystander pairs (exact expected effect when the transaction called their tokens, frame otherwise) and the base denomination; non-trivial = at least one conversion (message, hook, wrapper or IBC) '
            'succeeded; distinct = distinct (kind, op list)',
    'trusted_base': [
        'Coq 8.16.1 kernel incl. vm_compute (no native_compute); std++ 1.8.0 gmap',
        'axioms: none (Print Assumptions: closed under the global context for every theorem of Props/C10.v)',
        'correspondence harness harness/erc20.go (+ asm.go assembler and script contract, common.go, evmexec.go base environment) + vlib/core.py: '
        'generator, hand-assembled token bytecode, canonicaliser (error kinds to a 10-value enum), oracle, shrinker',
        'modelled, not verified: go-ethereum interpreter and the compiled Solidity tokens (their behaviour enters as the oracle '
        'instances honest_token / preset_token / cham_token ..., sampled by the correspondence), bank keeper '
        '(SendCoins, MintCoins, BurnCoins, blocked addresses), baseapp message atomicity and IBC-core acknowledgement '
        'atomicity (reproduced by the harness with CacheContext), gas (price 0), ICS-20 escrow/mint below the middleware '
        '(played by the harness), MsgTransfer beyond its inner ConvertERC20 (no channel in the harness: always fails, checked to '
        'leave no effect), vesting locks (no vesting accounts), send-enabled flags (default), transferFrom/approve, ERC20 precompiles '
        '(RegisterERC20Extensions is never called in the pinned tree)',
    ],
    'assumptions': [
        'a failed message / callback leaves no state behind (baseapp runMsgs and IBC core run them on a cache written only on success)',
        'nobody can sign for the erc20 module account (no message or Ethereum transaction has it as signer)',
        'nothing but the erc20 module mints an erc20/<contract> denomination, and no other module sends coins of a pair '
        'denomination to the erc20 module account (bank MsgSend to it is blocked)',
        'gas price 0: no fee enters the balance equations',
    ],
}
