P = {
    'id': 'C10',
    'design_ref': 'DESIGN.md section 5 (C10), section 6 (K7)',
    'drivers': [
        {'name': 'erc20', 'n': {'quick': 600, 'thorough': 20000}, 'shrink_field': 'ops', 'batch': 5000},
    ],
    'coq_header': 'From HV Require Import Erc20.PegModel.\nFrom Coq Require Import ZArith NArith List.\nImport ListNotations.',
    'lists': {'cases': {'type': 'N * list (op * obs)', 'check': 'mismatches', 'shard': 50}},
    'search': {'rounds': 3, 'n': 2000},
    'rule': '',
    'trusted_base': [],
    'assumptions': [],
    'level_text': '',
    'level_note': '',
    'technique': '',
}
