P = {
    'id': 'C20',
    'design_ref': 'DESIGN.md section 5 (C20), section 10',
    'level_text': 'Coq theorems over an abstract node (db, mem) with restart = (db, rebuild db): the obligation on the code is the '
                  'definition mem_is_function_of_db (after every step the memory equals, on the part steps and queries read, what a '
                  'restart would rebuild from the database); invariant_gives_restart_equiv / restart_equiv: if every step preserves it, '
                  'then for all histories, all earlier and later restart points and all query lists a restarted node reports the same '
                  'height and app hash, answers queries identically and produces the same results and app hashes for ever after; the '
                  'converse witness latch_breaks_restart_refuted / latch_admits_no_relation (a once-per-process flag cleared by restart '
                  'whose first block prunes a stored parameter: concrete 2-block history, and no choice of observable part repairs it); '
                  'parameter updates as database writes commute with restart (kv_write / param_update / param_block_commutes_with_restart) '
                  'and params_node_restart_equiv for the Haqq node over the stored evm / fee market parameters; instance for Haqq\'s '
                  'in-memory fields (EVM chain id cache: overwritten by BeginBlock before any use; precompile registry: constant of '
                  'construction; tps counter: never read), refutations for run-time precompile registration and for the begin-block gas '
                  'that leaks into results (K16, with the repaired step proven restart-invariant); on every run a real application is '
                  'stopped and re-opened on the same database on several restart schedules along random histories that change the '
                  'parameters of every module through the real governance handlers, compared with the continuous node and with the '
                  'model\'s prediction of chain id cache, registry and stored parameters after every block; /repo\'s sources are scanned '
                  'for writers of and conditions on in-memory keeper fields and callers of the registry-changing functions',
    'level_note': 'partial: the theorem is about the logic (what must be rebuilt); the database, IAVL, baseapp and CometBFT replay are '
                  'outside the model and only sampled by the driver; a restart in the driver is a new app.NewHaqq on the same database, '
                  'not a new OS process',
    'technique': 'Coq proof (induction over blocks and restart points) + lock-step differential run of a continuous and restarted real nodes',
    'drivers': [
        {'name': 'restart', 'n': {'quick': 20, 'thorough': 300}, 'shrink_field': 'blocks', 'batch': 100, 'timeout': 3000},
    ],
    'coq_header': 'From HV Require Import App.RestartModel.\nFrom Coq Require Import ZArith NArith List.\nImport ListNotations.',
    'lists': {'cases': {'type': 'mem_case', 'check': 'mem_mismatches', 'shard': 40}},
    'search': {'rounds': 2, 'n': 20},
    'rule': 'a case is a history of 4-6 blocks (thorough: 4-10) of signed eth / cosmos transactions and in-block keeper calls (contract '
            'deployment and calls, calls of implemented / deactivated / unimplemented precompile addresses, staking precompile delegate, '
            'bank and eth transfers, vesting accounts, liquidation, DAO fund, token pair registration, software-upgrade plans with a '
            'registered no-op handler) and explicit parameter-update ops {"op":"params","mod":..,"p":{field: value}} executed by the '
            'module\'s MsgUpdateParams handler from the MsgServiceRouter with the gov authority (evm: random valid ActivePrecompiles '
            'lists incl. well-formed addresses without implementation and removed defaults, EnableCreate / EnableCall, '
            'AllowUnprotectedTxs, ExtraEIPs; feemarket: NoBaseFee, BaseFee incl. 0, MinGasPrice, MinGasMultiplier incl. 0 and 1, '
            'ElasticityMultiplier >= 1, BaseFeeChangeDenominator, EnableHeight; erc20, bank + send-enabled, staking, distribution, gov, '
            'slashing, auth, consensus) or the legacy ParameterChangeProposal handler (coinomics, liquidvesting, ibc transfer), now and '
            'then with a value the module rejects, followed in the same, the next and a later block by traffic the parameters gate; '
            'executed in lock-step by a continuous node, a node re-opened on the same database (MemDB object; goleveldb directory in '
            'every second thorough case) at every boundary (twice in a row at every third), a node that runs two blocks and is then '
            'restarted twice (thorough: also odd boundaries, every third boundary), and nodes opened on a copy of the database at 3 '
            'boundaries (the one right after and one block after the first parameter update first; thorough: all) that execute all '
            'following blocks and are restarted again two blocks later; compared: Info, ~130 state queries incl. the params queries '
            'of every module under the same header, every DeliverTx / EndBlock result, app hash and the stored evm / fee market '
            'parameters after every block; each history also yields cases for what a freshly started node answers through ABCI Query '
            'and CheckTx before its first block and for the gas reported for a transaction failing before the ante handler in the '
            'first block after a restart (own classes); plus one source-scan case; non-trivial = at least 3 successful operations and '
            '2 boundaries; distinct = distinct histories',
    'trusted_base': [
        'Coq 8.16.1 kernel incl. vm_compute; std++ 1.8.0 (tactics only); axioms: none',
        'correspondence harness harness/restart.go, restart_params.go, chain.go, genesis.go (history ops, query set) + vlib/core.py',
        'not modelled: cometbft-db / goleveldb, IAVL, baseapp state handling, CometBFT handshake and block replay, OS process state',
    ],
    'assumptions': [
        'the restarted binary is the same binary with the same node configuration (app options, home directory)',
        'no crash inside a block: the process stops after Commit',
    ],
}
