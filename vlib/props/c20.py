P = {
    'id': 'C20',
    'design_ref': 'DESIGN.md section 5 (C20), section 10',
    'level_text': 'Coq theorems over an abstract node (db, mem) with restart = (db, rebuild db): the obligation on the code is the '
                  'definition mem_is_function_of_db (after every step the memory equals, on the part steps and queries read, what a '
                  'restart would rebuild from the database); invariant_gives_restart_equiv / restart_equiv: if every step preserves it, '
                  'then for all histories, all earlier and later restart points and all query lists a restarted node reports the same '
                  'height and app hash, answers queries identically and produces the same results and app hashes for ever after; the '
                  'converse witness latch_breaks_restart_refuted / latch_admits_no_relation (a once-per-process flag cleared by restart '
                  'whose first block prunes a stored parameter: concrete 2-block history, and no choice of observable part repairs it); '
                  'parameter updates as database writes commute with restart (kv_write / param_update / param_block_commutes_with_restart) '
                  'and params_node_restart_equiv for the Haqq node over the stored evm / fee market parameters; instance for Haqq\'s '
                  'in-memory fields (EVM chain id cache: overwritten by BeginBlock before any use; precompile registry: constant of '
                  'construction; tps counter: never read), refutations for run-time precompile registration and for the begin-block gas '
                  'that leaks into results (K16, with the repaired step proven restart-invariant); the state of the operating-system PROCESS '
                  'as a third component (App/ProcRestartModel.v: node = (db, mem, proc); at a boundary the node keeps running, is re-opened '
                  'inside the process - proc kept - or is restarted as a new process - proc fresh): continuation_is_function_of_db_and_blocks '
                  '/ process_restart_equiv (if steps and queries read the memory only up to a relation every step re-establishes with '
                  'rebuild db and do not read the process state, two nodes on the same database give the same results, databases and query '
                  'answers for all following blocks whatever their process states and schedules of stops), the fee-market node as the '
                  'instance (fee_step_obligations, fee_process_restart_equiv: all block histories, all process states) and the converse '
                  'witness shared_one_breaks_process_restart_refuted / shared_one_reads_process_state (minimum step taken from a '
                  'process-global "one" updated in place: never stopped 7, 8, 16, re-opened in the process 7, 8, 16, restarted as a new '
                  'process 7, 8, 9); on every run a real application is '
                  'stopped and re-opened on the same database on several restart schedules along random histories that change the '
                  'parameters of every module through the real governance handlers, compared with the continuous node and with the '
                  'model\'s prediction of chain id cache, registry and stored parameters after every block; in a share of the histories the '
                  'restart is a real one - a child OS process opens a dump of the database taken at the boundary and executes all following '
                  'blocks - and every BeginBlock of every application instance is re-evaluated by the model\'s base-fee step; /repo\'s sources are scanned '
                  'for writers of and conditions on in-memory keeper fields and callers of the registry-changing functions',
    'level_note': 'partial: the theorem is about the logic (what must be rebuilt); the database, IAVL, baseapp and CometBFT replay are '
                  'outside the model and only sampled by the driver; most restarts in the driver are a new app.NewHaqq on the same database '
                  'inside the harness process (package-level state survives them); restarts as a new OS process (re-exec of the harness '
                  'binary on a dump of the database) are made at the boundaries the input flags: in every third generated history and in '
                  'every history of the low-base-fee regime',
    'technique': 'Coq proof (induction over blocks and restart points) + lock-step differential run of a continuous and restarted real nodes '
                 '(re-opened in the process, and restarted as separate OS processes)',
    'drivers': [
        {'name': 'restart', 'n': {'quick': 20, 'thorough': 300}, 'shrink_field': 'blocks', 'batch': 100, 'timeout': 3000},
    ],
    'coq_header': 'From HV Require Import Feemarket.BaseFeeModel App.FeeReplicaModel App.ProcRestartModel.\n'
                  'From HV Require Import App.RestartModel.\nFrom Coq Require Import ZArith NArith List.\nImport ListNotations.',
    'lists': {'cases': {'type': 'mem_case', 'check': 'mem_mismatches', 'shard': 40},
              'fees': {'type': 'fee_case', 'check': 'fee_mismatches', 'shard': 40}},
    'search': {'rounds': 2, 'n': 20},
    'rule': 'a case is a history of 4-6 blocks (thorough: 4-10) of signed eth / cosmos transactions and in-block keeper calls (contract '
            'deployment and calls, calls of implemented / deactivated / unimplemented precompile addresses, staking precompile delegate, '
            'bank and eth transfers, vesting accounts, liquidation, DAO fund, token pair registration, software-upgrade plans with a '
            'registered no-op handler) and explicit parameter-update ops {"op":"params","mod":..,"p":{field: value}} executed by the '
            'module\'s MsgUpdateParams handler from the MsgServiceRouter with the gov authority (evm: random valid ActivePrecompiles '
            'lists incl. well-formed addresses without implementation and removed defaults, EnableCreate / EnableCall, '
            'AllowUnprotectedTxs, ExtraEIPs; feemarket: NoBaseFee, BaseFee incl. 0, MinGasPrice, MinGasMultiplier incl. 0 and 1, '
            'ElasticityMultiplier >= 1, BaseFeeChangeDenominator, EnableHeight; erc20, bank + send-enabled, staking, distribution, gov, '
            'slashing, auth, consensus) or the legacy ParameterChangeProposal handler (coinomics, liquidvesting, ibc transfer), now and '
            'then with a value the module rejects, followed in the same, the next and a later block by traffic the parameters gate; '
            'FEE-MARKET REGIME (every fourth generated history; input field "fee"): x/feemarket genesis parameters with a base fee at or '
            'near its natural floor (0-10), denominator 2 / 8 / 50, elasticity 2-4, MinGasMultiplier 0.5 / 1, MinGasPrice 0 / 0.5 / 1 and '
            'a finite consensus Block.MaxGas of 3-8 million; two or three blocks made heavy by the op {"op":"gasburst","k":n,"v":gas} '
            '(n Ethereum transfers declaring gas that lifts the block\'s gas figure above the target), so that the following '
            'BeginBlocks take the increase branch, with these base fees its minimum step of 1, twice or more with restarts between '
            'the two steps (updates of the fee market\'s own and of the consensus block parameters are left out of these histories); '
            'executed in lock-step by a continuous node, a node re-opened on the same database (MemDB object; goleveldb directory in '
            'every second thorough case) at every boundary (twice in a row at every third), a node that runs two blocks and is then '
            'restarted twice (thorough: also odd boundaries, every third boundary), and nodes opened on a copy of the database at 3 '
            'boundaries (the one right after and one block after the first parameter update first; thorough: all) that execute all '
            'following blocks and are restarted again two blocks later; RESTART AS A NEW OPERATING-SYSTEM PROCESS at the boundaries the '
            'input flags ("proc": true on the block after the boundary; generated: in every third history the boundary after the first '
            'parameter update and / or a random one, in every history of the low-base-fee regime the boundary right after the block that '
            'took the first minimum step and often the one right before the block that takes the second): the continuous node\'s database '
            '(every key / value pair) and the run-time bookkeeping of the history are dumped to a file under os.MkdirTemp, the harness '
            'binary is re-executed (`hq restart-child`, same environment) and the child loads the dump into a fresh MemDB (thorough, every '
            'second case: a goleveldb directory of its own, closed and opened again), constructs the application, reports Info, the '
            'cached chain id, the stored parameters and the answers to the same ~130 queries under the same header, executes all following '
            'blocks from the recorded transaction bytes (building each transaction from its own state as well) and reports every block\'s '
            'results, app hash, store hashes, parameters and base-fee update, which the parent compares with the continuous node exactly '
            'as for an in-process restart (the child processes run beside the lock-step part of the next history); compared: Info, ~130 state queries incl. the params queries '
            'of every module under the same header, every DeliverTx / EndBlock result, app hash and the stored evm / fee market '
            'parameters after every block; each history also yields cases for what a freshly started node answers through ABCI Query '
            'and CheckTx before its first block and for the gas reported for a transaction failing before the ante handler in the '
            'first block after a restart (own classes), and a case that hands the base-fee update of every BeginBlock of every application '
            'instance (with the flag "ran in a process of its own") to the model (fee_case / check_fee: the stored value is the one '
            'calc_base_fee gives whatever the life of the process); plus one source-scan case; non-trivial = at least 3 successful operations and '
            '2 boundaries; distinct = distinct histories',
    'trusted_base': [
        'Coq 8.16.1 kernel incl. vm_compute; std++ 1.8.0 (tactics only); axioms: none',
        'correspondence harness harness/restart.go, restart_params.go, restart_fee.go, restart_proc.go, feeregime.go (regime type), '
        'feemarket.go (closed formula used for tags), chain.go, genesis.go (history ops, query set) + vlib/core.py',
        'not modelled: cometbft-db / goleveldb, IAVL, baseapp state handling, CometBFT handshake and block replay; the state of the '
        'OS process is modelled as an abstract component (what it consists of in the Go runtime and the imported packages is only '
        'sampled by the child-process restarts)',
    ],
    'assumptions': [
        'the restarted binary is the same binary with the same node configuration (app options, home directory)',
        'a restarted process gets the database as the key / value pairs the stopped node held (dump and reload, not the files of the stopped node)',
        'no crash inside a block: the process stops after Commit',
    ],
}
