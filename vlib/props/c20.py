P = {
    'id': 'C20',
    'design_ref': 'DESIGN.md section 5 (C20), section 10',
    'level_text': 'Coq theorem restart_equiv over an abstract node (db, mem) with restart = (db, rebuild db): if steps and queries read '
                  'memory only up to a relation R and every step keeps mem R-related to rebuild db, then for all histories, all sets of '
                  'restart points and all query lists the block results, app hashes, Info and query answers equal those of the node '
                  'that never stopped; instance for Haqq\'s in-memory fields (EVM chain id cache: overwritten by BeginBlock before any '
                  'use; precompile registry: constant of construction; tps counter: never read) and a refutation showing that run-time '
                  'precompile registration would break it; on every run a real application is stopped and re-opened on the same '
                  'database at every block boundary of random histories and compared with the continuous node, and /repo\'s sources are '
                  'scanned for writers of in-memory keeper fields and callers of the registry-changing functions',
    'level_note': 'partial: the theorem is about the logic (what must be rebuilt); the database, IAVL, baseapp and CometBFT replay are '
                  'outside the model and only sampled by the driver; a restart in the driver is a new app.NewHaqq on the same database, '
                  'not a new OS process',
    'technique': 'Coq proof (induction over blocks and restart points) + lock-step differential run of a continuous and restarted real nodes',
    'drivers': [
        {'name': 'restart', 'n': {'quick': 20, 'thorough': 300}, 'shrink_field': 'blocks', 'batch': 100, 'timeout': 3000},
    ],
    'coq_header': 'From HV Require Import App.RestartModel.\nFrom Coq Require Import ZArith NArith List.\nImport ListNotations.',
    'lists': {'cases': {'type': 'mem_case', 'check': 'mem_mismatches', 'shard': 40}},
    'search': {'rounds': 2, 'n': 20},
    'rule': 'a case is a history of 4-6 blocks (thorough: 4-10) of signed eth / cosmos transactions and in-block keeper calls (contract '
            'deployment and calls, staking precompile delegate, bank and eth transfers, vesting accounts, liquidation, DAO fund, token '
            'pair registration, EVM / fee market / other parameter changes, software-upgrade plans with a registered no-op handler) '
            'executed in lock-step by a continuous node, a node re-opened on the same database (MemDB object; goleveldb directory in '
            'every second thorough case) at every boundary, and nodes opened on a copy of the database at 3 (thorough: all) boundaries '
            'that execute all following blocks; compared: Info, ~100 state queries under the same header, every DeliverTx / EndBlock '
            'result and app hash; each history also yields two cases for what a freshly started node answers through ABCI Query and '
            'CheckTx before its first block (own classes); plus one source-scan case; non-trivial = at least 3 successful operations '
            'and 2 boundaries; distinct = distinct histories',
    'trusted_base': [
        'Coq 8.16.1 kernel incl. vm_compute; std++ 1.8.0 (tactics only); axioms: none',
        'correspondence harness harness/restart.go, chain.go, genesis.go (history ops, query set) + vlib/core.py',
        'not modelled: cometbft-db / goleveldb, IAVL, baseapp state handling, CometBFT handshake and block replay, OS process state',
    ],
    'assumptions': [
        'the restarted binary is the same binary with the same node configuration (app options, home directory)',
        'no crash inside a block: the process stops after Commit',
    ],
}
