P = {
    'id': 'C04',
    'design_ref': 'DESIGN.md section 5 (C04), known finding K10',
    'level_text': 'Coq theorems for all signers, callers, named accounts, grant stores, amounts and operation sequences: every '
                  'state-changing method of the staking, distribution and ICS-20 precompiles changes funds / stake / unbonding / '
                  'pending rewards / withdraw address / grants only of the transaction signer or of the immediate caller, every other '
                  'account can only receive (per call, per transaction with the StateDB write-back, per history); a staking or ICS-20 '
                  'spend by a caller that is not the signer succeeds only with a live StakeAuthorization / TransferAuthorization from '
                  'the signer to that caller for that message type that admits the validator / channel / receiver and covers the amount; '
                  'a limited grant goes down by exactly the amount, is deleted when exhausted, an unlimited one never changes, expired / '
                  'wrong-type / absent grants are unusable; over all sequences of approve / increase / decrease / revoke / native grant / '
                  'spend / time the amount spent never exceeds the amount granted - for the corrected order (Accept before the message); '
                  'for the code as it is the same holds outside the known-finding class K10, and K10 is a theorem (refutation witness). '
                  'ICS-20 grants with SEVERAL allocations: a successful approve stores exactly the allocations it names (every channel '
                  'exists, every channel and denomination holds the amount named for it, nothing leaks from one allocation into another); '
                  'an accepted transfer lowers the limit of its own (channel, denomination) by exactly the amount and leaves every other '
                  'one alone; over all sequences of approve (any number of allocations) / increaseAllowance / decreaseAllowance / revoke / '
                  'native grant / transfer / time, for every channel and denomination, spent <= granted and a limited allowance holds '
                  'granted - spent (corrected order; the code\'s order outside the K10 shape). '
                  'The model is compared with the real precompiles (EvmKeeper.ApplyTransaction through script contracts) on the full '
                  'identity x grant-state matrix and on random histories on every run; the property itself is evaluated on the real run',
    'level_note': 'trusted: Coq kernel + vm_compute, std++; the hand-written model of the precompiles, of x/authz Get/Save/DeleteGrant, of '
                  'StakeAuthorization.Accept / TransferAuthorization.Accept and of the Cosmos messages (tied to /repo only by the sampled '
                  'correspondence run); go-ethereum interpreter, SDK staking/distribution/bank/IBC keepers are modelled not verified; the '
                  'ERC-20 precompile is modelled for identity only (it is not registered in the application: RegisterERC20Extensions has '
                  'no caller) and its transferFrom is, by design, the one method whose asset owner is a third account (the granter of an '
                  'allowance to the caller); createValidator and withdrawValidatorCommission are checked for the identity decision only; '
                  'module accounts (staking pools, distribution) are not "accounts" of the property; no axioms',
    'technique': 'Coq proof (frame conditions per call / transaction / history, allowance state machine with ghost accounting) + '
                 'differential correspondence against the real precompiles + property oracle on before/after observations of all actors',
    'drivers': [
        {'name': 'precompile_auth', 'n': {'quick': 200, 'thorough': 6000}, 'batch': 100000, 'shrink_field': 'txs'},
    ],
    'coq_header': 'From HV Require Import Authz.IdentityModel Authz.AllowanceModel Authz.CallModel.\n'
                  'From Coq Require Import ZArith NArith List.\nImport ListNotations.\nLocal Open Scope Z_scope.',
    'lists': {
        'cases': {'type': 'hcase * list obs', 'check': 'mismatches', 'shard': 40},
        'idcases': {'type': 'method * N * N * N * bool', 'check': 'id_mismatches', 'shard': 2000},
    },
    'search': {'rounds': 3, 'n': 1500},
    'rule': 'three kinds of cases, all executed by the real EvmKeeper.ApplyTransaction on a fork of one real app (two bonded validators, '
            'TWO open IBC transfer channels (channel-0, channel-1, each with its own escrow account, both observed), three script '
            'contracts, signer O): (1) the identity matrix, enumerated in full on every '
            'run: method (delegate, undelegate, redelegate, cancelUnbondingDelegation, createValidator, approve, increaseAllowance, '
            'decreaseAllowance, revoke, setWithdrawAddress, withdrawDelegatorRewards, claimRewards, withdrawValidatorCommission, '
            'ICS-20 transfer / approve / revoke / increaseAllowance / decreaseAllowance) x caller (signer itself | contract | contract '
            'behind a forwarding contract) x named account (signer | caller | third EOA | third contract | the forwarding contract) x '
            'grant state (absent, expired, expiring in this very block, other message type, GenericAuthorization, validator outside the '
            'allow list / on the deny list, limit below / equal / above the amount, unlimited, never expiring, granted by a third '
            'account, granted to another contract; ICS-20: receiver list, other denomination, unbounded sentinel, allocation exhausted, '
            'grants with two allocations where the allocation of the channel of the spend is smaller / larger / used up / missing / '
            'next to an unbounded one, spends over channel-1 in both denominations); ICS-20 approve with ONE call carrying several '
            'allocations (two channels in either order, one and two coins per allocation, small next to 10^18 next to unbounded, a '
            'duplicate channel, a channel that does not exist) on every earlier grant state, increase / decrease on the second channel; '
            '(2) random histories of 4-9 transactions (1-3 calls each) mixing approve / increase / decrease / revoke by the signer '
            'directly and through contracts, spends by grantee contracts, distribution calls and time jumps up to past the one-year '
            'approval expiration; (3) ICS-20 histories (40 % of n more, their own PRNG stream) of 4-9 transactions: approve with 1-3 '
            'allocations over the two channels (1-2 denominations each, amounts 1..20 / 50..750 / 2000..11000 / 10^18 / unbounded, '
            'invalid ones included), increaseAllowance / decreaseAllowance / revoke, and transfers by the grantee contracts per channel '
            'and denomination whose amounts sit at and next to the limits of ANY allocation of the grantee\'s last approve, a few staking '
            'calls in between. Property oracle over a history, besides the frame and the per-spend grant clause: the running allowance '
            'per (grantee, message type) for staking and per (grantee, channel, denomination) for ICS-20 - approve (re)defines every '
            'pair as exactly the amount the call names (nothing for pairs it does not name), increase / decrease move one pair, revoke '
            'leaves nothing, a transfer that took effect is spent from the pair of its channel and denomination; spent > granted is a '
            'violation (this is what catches a stored grant that differs from the approved one; the model compares the stored grant '
            'itself, allocation by allocation, after every transaction). corpus/C04/ics_multi_allocation_approve.jsonl runs first. '
            'Every matrix cell also yields an identity-verdict case (did the identity check reject?). createValidator stakes the named '
            'account\'s coins and no authorization covers MsgCreateValidator: any effect of it by a caller that is not the signer is '
            'reported as a spend without a grant (F10: accepted by /repo before c43fab9). '
            'non-trivial = at least one precompile call succeeded (identity cases: always); distinct = distinct inputs',
    'trusted_base': [
        'Coq 8.16.1 kernel incl. vm_compute (no native_compute); std++ 1.8.0 gmap/gset',
        'axioms: none (Print Assumptions: closed under the global context for every theorem of Props/C04.v)',
        'correspondence harness harness/precompile_auth.go (generator, observation of all actors, tracer for per-call results, '
        'property oracle, class predicate) + harness/evmexec.go run/tracer + harness/asm.go script contract + vlib/core.py',
        'modelled, not verified: go-ethereum interpreter (CALL of the script contract only), x/authz keeper, StakeAuthorization.Accept, '
        'TransferAuthorization.Accept, SDK staking / distribution / bank messages and hooks (reward payout on every delegation change), '
        'ibc-go transfer (escrow) over two hand-written open channels (one connection, a never-expiring light client), StateDB commit (only the '
        "caller's cached balance is modelled; all values are zero); gas is not modelled (gas price 0, ample limit)",
    ],
    'assumptions': [
        'module accounts (bonded / not-bonded pool, distribution, ICS-20 escrow) are not accounts in the sense of the property; the '
        'escrow accounts of both channels are observed and only receive',
        'ICS-20 allowance accounting: what a single approve / increaseAllowance / decreaseAllowance call of the signer names is what '
        'the signer granted; the receiver allow list of an allocation is not part of the accounting (approve() does not store it); '
        'transactions with several precompile calls restart the accounting (their effects cannot be told apart from outside)',
        'two validators, both bonded, no slashing (one token per share); reward amounts are oracle inputs (observed before the history)',
        'at most 6 undelegations / redelegations per history (below the SDK entry caps); the IBC light client never expires',
        'a grant belongs to its granter; receiving a grant counts as receiving',
    ],
}
