P = {
    'id': 'C19',
    'design_ref': 'DESIGN.md section 5 (C19), section 6 (F3, K8)',
    'level_text': 'Coq theorems per Haqq module (evm, feemarket, erc20, liquidvesting, ucdao, coinomics, epochs): export (init (export s)) = '
                  'export s and every modelled query answers the same on s and on init (export s), for every state satisfying the '
                  "module's invariant (established by InitGenesis, preserved by the module's operations); ucdao and erc20: the whole "
                  'state incl. the rebuilt indexes is restored; evm: auth accounts carry a kind (eth / clawback vesting / base / module), '
                  'ExportGenesis is parameterised by the selection of kinds it visits, and for every selection that is sound and covers '
                  'the accounts holding code or storage (the interface EthAccountI does, in every state) init (export s) = s on the EVM '
                  'projection (parameters, storage and code of every address, whatever account kind sits there), export o init o export '
                  '= export and all code / storage queries agree, while the selection by the concrete type *EthAccount is refuted on a '
                  'reachable state (contract on a clawback vesting account); the storage of EVERY address survives export -> init '
                  'whatever the code of its account, stated separately for addresses without code (a creation whose constructor '
                  'stores and returns zero-length code leaves an account with the empty code hash and live storage: reachable in the '
                  'model through EvCreate with empty runtime, witness state with slot 0 -> 42), while an InitGenesis that skips the '
                  'exported accounts with empty code is refuted on that state (slot lost, export o init o export <> export); refutation witnesses for the pinned coinomics InitGenesis '
                  '(F3, fixed) and for epochs (K8, known); the models are the executable transcription of the InitGenesis/ExportGenesis '
                  'functions and are compared with a real export -> fresh app InitChain -> export on history-generated states on every '
                  'run, where the property itself (identical second document per Haqq module, identical answers of a query set that '
                  'covers Account / Code / every storage slot / eth_call of every address holding EVM state on either chain, exported '
                  'evm.accounts = exactly the holders of code or storage) is evaluated',
    'level_note': 'partial: the theorems are about the model; JSON/protobuf codecs, the KV store, the auth/bank genesis code of the SDK, '
                  'Keccak and sha256 (injectivity hypotheses) are outside it; the vesting schedules of vesting accounts are checked on '
                  'the real code only (they live in the SDK auth genesis), their EVM side (code hash, code, storage) is modelled; the '
                  'EVM invariant assumes that SSTORE happens at accounts implementing EthAccountI (a genesis BaseAccount at a CREATE '
                  'address violates it: C19_evm_base_account_storage_refuted, candidate finding)',
    'technique': 'Coq proof (per-module round trip and query equivalence under the module invariant) + differential correspondence: '
                 'the model predicts the second export of the real application from the first',
    'drivers': [
        {'name': 'genesis', 'n': {'quick': 40, 'thorough': 1500}, 'shrink_field': 'blocks', 'batch': 300, 'timeout': 3000},
    ],
    'coq_header': 'From HV Require Import Genesis.Common Genesis.SimpleModel Genesis.Erc20Model Genesis.DaoModel Genesis.EvmModel '
                  'Genesis.CaseModel.\nFrom Coq Require Import ZArith NArith List.\nImport ListNotations.',
    'lists': {'cases': {'type': 'gcase', 'check': 'mismatches true', 'shard': 12}},
    # the search after a correspondence break runs thorough-tier histories (about 0.65 s each): 2 x 20 keeps a failing quick
    # check below two minutes (3 x 150 took 290 s)
    'search': {'rounds': 2, 'n': 20},
    'rule': 'a case is a history of 3-7 blocks (thorough: 3-12) on a fresh real application (own MemDB, one bonded validator, six '
            'funded accounts) built from real BeginBlock / DeliverTx (signed eth and cosmos txs) / EndBlock / Commit: contract '
            'deployment and SSTOREs (incl. clearing); in 3 of 4 histories 1-3 scenarios that put EVM state on an account of a chosen '
            'type: the future CREATE address of a deployer (nonce offset 0-2) is first turned into a clawback vesting account '
            '(MsgCreateClawbackVestingAccount with five schedule shapes, MsgConvertIntoVestingAccount with and without an immediate '
            'delegation) or funded ahead (bank / eth transfer) or left unused, then a hand-assembled small contract (three code '
            'shapes, 0-3 constructor slots, optional endowment; EIGHT constructor endings: return the runtime / RETURN of length 0 / '
            'STOP without RETURN [both leave an account with nonce 1, NO code and the constructor\'s storage] / SELFDESTRUCT after '
            'storing / return one byte of code [the control] / REVERT after storing / CREATE a child that stores and returns no '
            'code or one byte, the child\'s address recorded in a slot) or a CREATE2 factory with creations that fail (store + REVERT '
            'while the new account has no balance) and then succeed at the same address or the script contract is created there, '
            'then SSTORE-changing calls (one slot; clear to zero; one call clearing or rewriting every constructor slot; calls with '
            'value to addresses with and without code); '
            'eth and bank transfers, delegation, clawback vesting accounts of three shapes, '
            'liquidation and redemption, DAO fund and ownership transfer (base and liquid denominations), RegisterCoin + ConvertCoin, '
            'conversion toggles, parameter changes of evm / feemarket / coinomics / liquidvesting / ucdao / erc20, day-long time jumps; '
            'then export -> fresh app InitChain at the exported height -> Commit -> export; every history yields two cases: the '
            'document + query comparison for all Haqq modules (+ vesting accounts in auth, bank; for every address with a non-empty '
            'code hash or a key under the EVM storage prefix on either chain -- so also the accounts with the empty code hash that '
            'hold storage: Account, Code, each storage slot, eth_call; the exported '
            'evm.accounts entries carrying code or storage must be exactly those addresses with exactly that code and storage) and the single field '
            'epochs.current_epoch_start_height (class K8); non-trivial = at least 3 operations succeeded over at least 2 blocks; '
            'distinct = distinct histories',
    'trusted_base': [
        'Coq 8.16.1 kernel incl. vm_compute (no native_compute); std++ 1.8.0 gmap/gset/sorting',
        'axioms: none (Print Assumptions: closed under the global context for every theorem of Props/C19.v); hypotheses stated in the '
        'theorems: Keccak and the token-pair id hash are injective, sorting the active precompiles is idempotent',
        'correspondence harness harness/genesis.go, genesis_evm.go, genesis_coq.go, chain.go, asm.go + vlib/core.py (history '
        'generator, EVM assembler, canonical JSON diff, enumeration of the holders of EVM state from the auth accounts\' Go types '
        'and the raw storage prefix, query set through the gRPC query router, interning of addresses / denominations / parameter sets)',
        'modelled, not verified: SDK auth and bank genesis (EthAccounts and vesting accounts live there), protobuf/JSON codecs, '
        'KV store iteration order (keys ranked by byte order), x/params validation (a predicate)',
    ],
    'assumptions': [
        'the auth module round-trips its accounts (account kinds and code hashes are an input of the EVM model)',
        'the second application is initialised at the exported height with the block time of the exporting chain',
        'non-Haqq modules (ibc, capability, ...) are not compared; those whose documents differ are recorded as an observation',
    ],
}
