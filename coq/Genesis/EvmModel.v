(** Genesis round trip (C19): EVM.
    Transcription of x/evm/genesis.go.  ExportGenesis walks the auth module's
    accounts, keeps those that implement the interface EthAccountI (the plain
    EthAccount AND the ClawbackVestingAccount: both carry a code hash; a
    BaseAccount or ModuleAccount does not), and for each emits (address, code
    stored under the account's code hash, all storage entries).  InitGenesis
    requires every listed address to be such an account of the (already
    imported) auth state whose code hash matches the code, then SetCode and
    SetState.  The auth accounts [auth : address -> (kind, code hash)] are an
    input of both functions (the auth module's own round trip is SDK code,
    outside this model).  The selection of the accounts to export is a
    parameter [sel] of [evm_export_sel]: the code selects by the interface
    ([implements_eth]); selecting by the concrete type *EthAccount
    ([concrete_eth]) is the shape that loses a vesting account's contract.
    Byte strings (code) are interned by the harness: 0 is the empty string;
    Keccak enters as the section variable [hash].  Definitions only. *)
From Coq Require Import ZArith NArith List Bool.
From stdpp Require Import gmap.
From HV Require Import Genesis.Common.
Import ListNotations.

(** the account types of the auth module, as far as the EVM can tell them apart *)
Inductive acc_kind := KEth | KClawback | KBase | KModule.
Global Instance acc_kind_eq_dec : EqDecision acc_kind.
Proof. solve_decision. Defined.
(** account.(haqqtypes.EthAccountI): has GetCodeHash / SetCodeHash *)
Definition implements_eth (k : acc_kind) : bool :=
  match k with KEth | KClawback => true | KBase | KModule => false end.
(** account.( *haqqtypes.EthAccount): the concrete type only *)
Definition concrete_eth (k : acc_kind) : bool :=
  match k with KEth => true | _ => false end.
(** an auth account as the EVM sees it: kind and code hash (the empty hash for kinds without one) *)
Notation auth_acc := (acc_kind * N)%type.

Record evm_acc := mk_ea { ea_addr : N; ea_code : N; ea_storage : list (N * N) }.
Global Instance evm_acc_eq_dec : EqDecision evm_acc.
Proof. solve_decision. Defined.
Record evm_state := mk_evm {
  ev_params : N;
  ev_codes : gmap N N;                (* code hash -> code *)
  ev_storage : gmap N (gmap N N)      (* address -> key -> value (32-byte words as numbers) *)
}.
Record evm_gen := mk_evmg { vg_params : N; vg_accounts : list evm_acc }.
Global Instance evm_gen_eq_dec : EqDecision evm_gen.
Proof. solve_decision. Defined.

Definition stor (s : evm_state) (a : N) : gmap N N := default ∅ (ev_storage s !! a).

Section Evm.
  Variable hash : N -> N.          (* Keccak256 on interned byte strings *)
  Variable valid : N -> bool.      (* Params.Validate *)
  Variable norm : N -> N.          (* SetParams sorts ActivePrecompiles before validating and storing *)

  Definition evm_export_sel (sel : acc_kind -> bool) (auth : gmap N auth_acc) (s : evm_state) : evm_gen :=
    mk_evmg (ev_params s)
      (map (fun ac : N * auth_acc => mk_ea ac.1 (default 0%N (ev_codes s !! ac.2.2)) (export_map (stor s ac.1)))
           (List.filter (fun ac : N * auth_acc => sel ac.2.1) (export_map auth))).
  (** ExportGenesis as it is: `account.(haqqtypes.EthAccountI)` *)
  Definition evm_export : gmap N auth_acc -> evm_state -> evm_gen := evm_export_sel implements_eth.

  (** the two panics of the account loop *)
  Definition acc_ok (auth : gmap N auth_acc) (acc : evm_acc) : bool :=
    match auth !! ea_addr acc with
    | None => false                                   (* "account not found" *)
    | Some (k, ch) =>
        implements_eth k                              (* "must be an EthAccount interface" *)
        && ((ea_code acc =? 0)%N || (hash (ea_code acc) =? ch)%N)   (* code hash mismatch *)
    end.

  (** SetCode(keccak(code), code): an empty code deletes the entry *)
  Definition codes_step (m : gmap N N) (acc : evm_acc) : gmap N N :=
    if (ea_code acc =? 0)%N then delete (hash 0%N) m else <[hash (ea_code acc) := ea_code acc]> m.

  (** SetState for every entry: values are 32-byte words, never "empty", so always a Set *)
  Definition set_state (a : N) (st : gmap N (gmap N N)) (kv : N * N) : gmap N (gmap N N) :=
    <[a := <[kv.1 := kv.2]> (default ∅ (st !! a))]> st.
  Definition stor_step (st : gmap N (gmap N N)) (acc : evm_acc) : gmap N (gmap N N) :=
    fold_left (set_state (ea_addr acc)) (ea_storage acc) st.

  (** InitGenesis; None = panic.  A panic aborts InitChain, so checking all
      accounts first and writing afterwards is observationally the Go loop.
      For EVERY listed account, whatever its code: SetCode(keccak(code), code)
      (a no-op delete for the empty code) and then SetState for every storage
      entry -- there is no "externally owned account" shortcut in the loop; only
      the code hash comparison is skipped for the empty code. *)
  Definition evm_init (auth : gmap N auth_acc) (g : evm_gen) : option evm_state :=
    if negb (valid (norm (vg_params g))) then None else
    if negb (forallb (acc_ok auth) (vg_accounts g)) then None else
    Some (mk_evm (norm (vg_params g))
                 (fold_left codes_step (vg_accounts g) ∅)
                 (fold_left stor_step (vg_accounts g) ∅)).

  (** NOT the code: the shape of a seeded defect.  An InitGenesis that takes an exported account with
      empty code for an externally owned account and `continue`s (after the two account checks)
      before SetCode and before the storage loop.  Kept beside [evm_init] for the refutation
      [C19_evm_skip_codeless_refuted]. *)
  Definition has_code (acc : evm_acc) : bool := negb (ea_code acc =? 0)%N.
  Definition evm_init_skip_codeless (auth : gmap N auth_acc) (g : evm_gen) : option evm_state :=
    if negb (valid (norm (vg_params g))) then None else
    if negb (forallb (acc_ok auth) (vg_accounts g)) then None else
    let accs := List.filter has_code (vg_accounts g) in
    Some (mk_evm (norm (vg_params g))
                 (fold_left codes_step accs ∅)
                 (fold_left stor_step accs ∅)).

  (** operations on (auth accounts, evm state) *)
  Inductive evm_op :=
  | EvCreate (a code : N)        (* contract creation at a: a new EthAccount, or an account that is already there with
                                    nonce 0 and the empty code hash -- of ANY kind, the EVM looks at nonce and code hash
                                    only; SetAccount records the new hash on the kinds that implement EthAccountI.
                                    [code = 0]: the constructor returned no code (RETURN of length 0 / STOP): the
                                    account exists afterwards (nonce 1) with the EMPTY code hash, and the SSTOREs of
                                    the constructor ([EvSStore] after it, as in StateDB.Commit) stay: an account
                                    without code and with storage, which is not an externally owned account *)
  | EvNewAcc (a : N) (k : acc_kind)  (* a new account with the empty code hash at an unused address: EOA, clawback vesting
                                    account (MsgCreateClawbackVestingAccount to a fresh address), base / module account *)
  | EvToVesting (a : N)          (* ConvertIntoVestingAccount of an EthAccount: refused for a contract *)
  | EvFromVesting (a : N)        (* ConvertVestingAccount: back to an EthAccount, the code hash is kept *)
  | EvSStore (a k v : N)         (* StateDB commit of one dirty slot (zero values are stored too); SetState checks nothing *)
  | EvDelete (a : N)             (* DeleteAccount: storage cleared, auth account removed, code left behind *)
  | EvSetParams (p : N).

  (** StateDB.Commit of a created account: keeper.SetCode(keccak(code), code) -- a creation whose
      constructor returns NO code (RETURN of length 0, or STOP) deletes the entry under the empty
      hash, i.e. changes nothing *)
  Definition with_code (s : evm_state) (code : N) : evm_state :=
    mk_evm (ev_params s)
           (if (code =? 0)%N then delete (hash 0%N) (ev_codes s) else <[hash code := code]> (ev_codes s))
           (ev_storage s).

  Definition evm_step (as_ : gmap N auth_acc * evm_state) (o : evm_op) : gmap N auth_acc * evm_state :=
    let '(auth, s) := as_ in
    match o with
    | EvCreate a code =>
        match auth !! a with
        | None => (<[a := (KEth, hash code)]> auth, with_code s code)
        | Some (k, ch) =>
            if negb (ch =? hash 0%N)%N then as_                       (* ErrContractAddressCollision *)
            else if implements_eth k then (<[a := (k, hash code)]> auth, with_code s code)
            else (auth, with_code s code)     (* SetCode stores the code; SetAccount has no code hash field to write *)
        end
    | EvNewAcc a k => if decide (is_Some (auth !! a)) then as_ else (<[a := (k, hash 0%N)]> auth, s)
    | EvToVesting a =>
        match auth !! a with
        | Some (KEth, ch) => if (ch =? hash 0%N)%N then (<[a := (KClawback, ch)]> auth, s) else as_
        | _ => as_
        end
    | EvFromVesting a =>
        match auth !! a with
        | Some (KClawback, ch) => (<[a := (KEth, ch)]> auth, s)
        | _ => as_
        end
    | EvSStore a k v =>
        if decide (is_Some (auth !! a))
        then (auth, mk_evm (ev_params s) (ev_codes s) (set_state a (ev_storage s) (k, v)))
        else as_
    | EvDelete a => (delete a auth, mk_evm (ev_params s) (ev_codes s) (delete a (ev_storage s)))
    | EvSetParams p =>
        if valid (norm p) then (auth, mk_evm (norm p) (ev_codes s) (ev_storage s)) else as_
    end.

  (** GetCode of an address: through the code hash of an account that has one *)
  Definition code_at (auth : gmap N auth_acc) (s : evm_state) (a : N) : N :=
    match auth !! a with
    | Some (k, ch) => if implements_eth k then default 0%N (ev_codes s !! ch) else 0%N
    | None => 0%N
    end.

  Inductive evm_query := EvQParams | EvQCode (a : N) | EvQStorage (a k : N) | EvQAccountStorage (a : N).
  Inductive evm_answer := EvAN (n : N) | EvAO (o : option N) | EvAL (l : list (N * N)).
  Definition evm_ask (auth : gmap N auth_acc) (q : evm_query) (s : evm_state) : evm_answer :=
    match q with
    | EvQParams => EvAN (ev_params s)
    | EvQCode a => EvAN (code_at auth s a)
    | EvQStorage a k => EvAO (stor s a !! k)
    | EvQAccountStorage a => EvAL (export_map (stor s a))
    end.
End Evm.
