(** Genesis round trip (C19): EVM.
    Transcription of x/evm/genesis.go.  ExportGenesis walks the auth module's
    accounts, keeps the EthAccounts, and for each emits (address, code stored
    under the account's code hash, all storage entries).  InitGenesis requires
    every listed address to be an EthAccount of the (already imported) auth
    state whose code hash matches the code, then SetCode and SetState.
    The auth accounts [auth : address -> code hash] are an input of both
    functions (the auth module's own round trip is SDK code, outside this model).
    Byte strings (code) are interned by the harness: 0 is the empty string;
    Keccak enters as the section variable [hash].  Definitions only. *)
From Coq Require Import ZArith NArith List Bool.
From stdpp Require Import gmap.
From HV Require Import Genesis.Common.
Import ListNotations.

Record evm_acc := mk_ea { ea_addr : N; ea_code : N; ea_storage : list (N * N) }.
Global Instance evm_acc_eq_dec : EqDecision evm_acc.
Proof. solve_decision. Defined.
Record evm_state := mk_evm {
  ev_params : N;
  ev_codes : gmap N N;                (* code hash -> code *)
  ev_storage : gmap N (gmap N N)      (* address -> key -> value (32-byte words as numbers) *)
}.
Record evm_gen := mk_evmg { vg_params : N; vg_accounts : list evm_acc }.
Global Instance evm_gen_eq_dec : EqDecision evm_gen.
Proof. solve_decision. Defined.

Definition stor (s : evm_state) (a : N) : gmap N N := default ∅ (ev_storage s !! a).

Section Evm.
  Variable hash : N -> N.          (* Keccak256 on interned byte strings *)
  Variable valid : N -> bool.      (* Params.Validate *)
  Variable norm : N -> N.          (* SetParams sorts ActivePrecompiles before validating and storing *)

  Definition evm_export (auth : gmap N N) (s : evm_state) : evm_gen :=
    mk_evmg (ev_params s)
      (map (fun ac => mk_ea ac.1 (default 0%N (ev_codes s !! ac.2)) (export_map (stor s ac.1)))
           (export_map auth)).

  (** the two panics of the account loop *)
  Definition acc_ok (auth : gmap N N) (acc : evm_acc) : bool :=
    match auth !! ea_addr acc with
    | None => false                                   (* "account not found" / not an EthAccount *)
    | Some ch => (ea_code acc =? 0)%N || (hash (ea_code acc) =? ch)%N   (* code hash mismatch *)
    end.

  (** SetCode(keccak(code), code): an empty code deletes the entry *)
  Definition codes_step (m : gmap N N) (acc : evm_acc) : gmap N N :=
    if (ea_code acc =? 0)%N then delete (hash 0%N) m else <[hash (ea_code acc) := ea_code acc]> m.

  (** SetState for every entry: values are 32-byte words, never "empty", so always a Set *)
  Definition set_state (a : N) (st : gmap N (gmap N N)) (kv : N * N) : gmap N (gmap N N) :=
    <[a := <[kv.1 := kv.2]> (default ∅ (st !! a))]> st.
  Definition stor_step (st : gmap N (gmap N N)) (acc : evm_acc) : gmap N (gmap N N) :=
    fold_left (set_state (ea_addr acc)) (ea_storage acc) st.

  (** InitGenesis; None = panic.  A panic aborts InitChain, so checking all
      accounts first and writing afterwards is observationally the Go loop. *)
  Definition evm_init (auth : gmap N N) (g : evm_gen) : option evm_state :=
    if negb (valid (norm (vg_params g))) then None else
    if negb (forallb (acc_ok auth) (vg_accounts g)) then None else
    Some (mk_evm (norm (vg_params g))
                 (fold_left codes_step (vg_accounts g) ∅)
                 (fold_left stor_step (vg_accounts g) ∅)).

  (** operations on (auth accounts, evm state) *)
  Inductive evm_op :=
  | EvCreate (a code : N)        (* contract creation: EthAccount with the code's hash + SetCode *)
  | EvNewEOA (a : N)             (* a new externally owned EthAccount (empty code hash) *)
  | EvSStore (a k v : N)         (* StateDB commit of one dirty slot (zero values are stored too) *)
  | EvDelete (a : N)             (* DeleteAccount: storage cleared, auth account removed, code left behind *)
  | EvSetParams (p : N).

  Definition evm_step (as_ : gmap N N * evm_state) (o : evm_op) : gmap N N * evm_state :=
    let '(auth, s) := as_ in
    match o with
    | EvCreate a code =>
        if (code =? 0)%N then as_ else
        (<[a := hash code]> auth, mk_evm (ev_params s) (<[hash code := code]> (ev_codes s)) (ev_storage s))
    | EvNewEOA a => if decide (is_Some (auth !! a)) then as_ else (<[a := hash 0%N]> auth, s)
    | EvSStore a k v =>
        if decide (is_Some (auth !! a))
        then (auth, mk_evm (ev_params s) (ev_codes s) (set_state a (ev_storage s) (k, v)))
        else as_
    | EvDelete a => (delete a auth, mk_evm (ev_params s) (ev_codes s) (delete a (ev_storage s)))
    | EvSetParams p =>
        if valid (norm p) then (auth, mk_evm (norm p) (ev_codes s) (ev_storage s)) else as_
    end.

  Inductive evm_query := EvQParams | EvQCode (a : N) | EvQStorage (a k : N) | EvQAccountStorage (a : N).
  Inductive evm_answer := EvAN (n : N) | EvAO (o : option N) | EvAL (l : list (N * N)).
  Definition evm_ask (auth : gmap N N) (q : evm_query) (s : evm_state) : evm_answer :=
    match q with
    | EvQParams => EvAN (ev_params s)
    | EvQCode a => EvAN (match auth !! a with Some ch => default 0%N (ev_codes s !! ch) | None => 0%N end)
    | EvQStorage a k => EvAO (stor s a !! k)
    | EvQAccountStorage a => EvAL (export_map (stor s a))
    end.
End Evm.
