(** Genesis round trip (property C19): what all module models share.

    A keeper store with keys [N] (the harness interns addresses, denominations,
    identifiers by their rank in store-key order) is a [gmap N V].  An
    ExportGenesis that iterates such a store produces the entries in key order:
    [export_map].  An InitGenesis that walks a list and calls [Set] for every
    entry is [import_map] (a left fold of inserts: later entries win, as in Go). *)
From Coq Require Import ZArith NArith List Lia.
From stdpp Require Import gmap sorting.
Import ListNotations.

Definition key_le {V} (x y : N * V) : Prop := (x.1 <= y.1)%N.
Global Instance key_le_dec {V} (x y : N * V) : Decision (key_le x y).
Proof. unfold key_le. apply _. Defined.

Definition export_map {V} (m : gmap N V) : list (N * V) :=
  merge_sort key_le (map_to_list m).

Definition import_map {V} (l : list (N * V)) : gmap N V :=
  fold_left (fun m kv => <[kv.1 := kv.2]> m) l ∅.

Lemma export_map_perm {V} (m : gmap N V) : export_map m ≡ₚ map_to_list m.
Proof. apply merge_sort_Permutation. Qed.

Lemma export_map_nodup {V} (m : gmap N V) : NoDup (export_map m).*1.
Proof.
  rewrite (fmap_Permutation fst _ _ (export_map_perm m)).
  apply NoDup_fst_map_to_list.
Qed.

Lemma elem_of_export_map {V} (m : gmap N V) k v :
  (k, v) ∈ export_map m <-> m !! k = Some v.
Proof. rewrite (export_map_perm m). apply elem_of_map_to_list. Qed.

Lemma fold_insert_union {V} (l : list (N * V)) (acc : gmap N V) :
  NoDup l.*1 -> (forall k, k ∈ l.*1 -> acc !! k = None) ->
  fold_left (fun m kv => <[kv.1 := kv.2]> m) l acc = list_to_map l ∪ acc.
Proof.
  revert acc. induction l as [|[k v] l IH]; intros acc Hnd Hfresh; simpl.
  - by rewrite (left_id_L ∅ (∪)).
  - inversion Hnd as [|? ? Hk Hnd']; subst.
    rewrite IH; [|done|].
    + rewrite <- insert_union_r.
      * by rewrite insert_union_l.
      * apply not_elem_of_list_to_map_1. exact Hk.
    + intros k' Hk'. rewrite lookup_insert_ne.
      * apply Hfresh. simpl. by right.
      * intros ->. by apply Hk.
Qed.

Lemma import_list_to_map {V} (l : list (N * V)) :
  NoDup l.*1 -> import_map l = list_to_map l.
Proof.
  intros Hnd. unfold import_map. rewrite fold_insert_union; [|done|].
  - by rewrite (right_id_L ∅ (∪)).
  - intros. apply lookup_empty.
Qed.

(** The heart of every module's round trip: importing what was exported gives
    the same store. *)
Theorem import_export_map {V} (m : gmap N V) : import_map (export_map m) = m.
Proof.
  rewrite import_list_to_map by apply export_map_nodup.
  rewrite (list_to_map_proper _ _ (export_map_nodup m) (export_map_perm m)).
  apply list_to_map_to_list.
Qed.

Lemma export_map_empty {V} : export_map (∅ : gmap N V) = [].
Proof. unfold export_map. by rewrite map_to_list_empty. Qed.

(** lookups on an imported list *)
Lemma import_map_lookup {V} (l : list (N * V)) k v :
  NoDup l.*1 -> (k, v) ∈ l -> import_map l !! k = Some v.
Proof.
  intros Hnd Hin. rewrite import_list_to_map by done.
  by apply elem_of_list_to_map_1.
Qed.

(** Sum of a list of integers, invariant under permutation (used for the DAO total). *)
Definition zsum (l : list Z) : Z := fold_right Z.add 0%Z l.
Lemma zsum_perm l1 l2 : l1 ≡ₚ l2 -> zsum l1 = zsum l2.
Proof. induction 1; simpl; lia. Qed.
Lemma zsum_app l1 l2 : zsum (l1 ++ l2) = (zsum l1 + zsum l2)%Z.
Proof. induction l1; simpl; lia. Qed.

(** Option bind used by the init functions that can panic. *)
Definition obind {A B} (o : option A) (f : A -> option B) : option B :=
  match o with Some a => f a | None => None end.

(** Whatever an import holds came from the list (no uniqueness needed). *)
Lemma fold_insert_elem {V} (l : list (N * V)) (acc : gmap N V) k v :
  fold_left (fun m kv => <[kv.1 := kv.2]> m) l acc !! k = Some v ->
  (k, v) ∈ l \/ acc !! k = Some v.
Proof.
  revert acc. induction l as [|[k' v'] l IH]; intros acc H; simpl in *.
  - by right.
  - apply IH in H as [H|H].
    + left. by right.
    + destruct (decide (k' = k)) as [->|Hne].
      * rewrite lookup_insert in H. inversion H; subst. left. by left.
      * rewrite lookup_insert_ne in H by done. by right.
Qed.
Lemma import_map_elem {V} (l : list (N * V)) k v :
  import_map l !! k = Some v -> (k, v) ∈ l.
Proof.
  intros H. apply fold_insert_elem in H as [H|H]; [done|].
  by rewrite lookup_empty in H.
Qed.

Lemma list_to_map_map_snd {A B} (f : A -> B) (l : list (N * A)) :
  (list_to_map (map (fun kv => (kv.1, f kv.2)) l) : gmap N B) = f <$> list_to_map l.
Proof.
  induction l as [|[k v] l IH]; simpl.
  - by rewrite fmap_empty.
  - by rewrite fmap_insert, IH.
Qed.

Lemma import_map_fmap {A B} (f : A -> B) (l : list (N * A)) :
  NoDup l.*1 ->
  import_map (map (fun kv => (kv.1, f kv.2)) l) = f <$> import_map l.
Proof.
  intros Hnd.
  assert (Hfst : (map (fun kv : N * A => (kv.1, f kv.2)) l).*1 = l.*1).
  { clear. induction l as [|[] l IH]; simpl; [done|]. by f_equal. }
  rewrite !import_list_to_map; [| done | by rewrite Hfst].
  apply list_to_map_map_snd.
Qed.

(** An InitGenesis loop that stores every record under a key computed from the record. *)
Lemma fold_left_keyed {A V} (k : A -> N) (v : A -> V) (l : list A) (acc : gmap N V) :
  fold_left (fun m x => <[k x := v x]> m) l acc
  = fold_left (fun m kv => <[kv.1 := kv.2]> m) (map (fun x => (k x, v x)) l) acc.
Proof. revert acc. induction l as [|x l IH]; intros acc; simpl; [done|]. apply IH. Qed.

Lemma import_keyed {A V} (k : A -> N) (v : A -> V) (l : list A) :
  fold_left (fun m x => <[k x := v x]> m) l ∅ = import_map (map (fun x => (k x, v x)) l).
Proof. apply fold_left_keyed. Qed.

(** when every stored record sits under its own key, re-keying the exported
    records reproduces the exported entries *)
Lemma rekey_export {V} (key : V -> N) (m : gmap N V) :
  (forall k x, m !! k = Some x -> key x = k) ->
  map (fun x => (key x, x)) (map snd (export_map m)) = export_map m.
Proof.
  intros Hk. rewrite map_map.
  rewrite <- (map_id (export_map m)) at 2.
  apply map_ext_in. intros [k x] Hin. simpl.
  apply elem_of_list_In, elem_of_export_map in Hin. by rewrite (Hk _ _ Hin).
Qed.

Lemma keyed_roundtrip {V} (key : V -> N) (m : gmap N V) :
  (forall k x, m !! k = Some x -> key x = k) ->
  fold_left (fun acc x => <[key x := x]> acc) (map snd (export_map m)) ∅ = m.
Proof.
  intros Hk. rewrite (import_keyed key (fun x => x)).
  rewrite (rekey_export key m Hk). apply import_export_map.
Qed.

Lemma elem_of_map_snd_export {V} (m : gmap N V) x :
  x ∈ map snd (export_map m) <-> exists k, m !! k = Some x.
Proof.
  rewrite elem_of_list_In, in_map_iff. split.
  - intros [[k y] [Heq Hin]]. simpl in Heq. subst. exists k.
    by apply elem_of_export_map, elem_of_list_In.
  - intros [k Hk]. exists (k, x). split; [done|].
    by apply elem_of_list_In, elem_of_export_map.
Qed.

Lemma nodup_map_snd_export {V} (m : gmap N V) (ident : V -> N) :
  (forall id p, m !! id = Some p -> ident p = id) ->
  NoDup (map snd (export_map m)).
Proof.
  intros H1.
  pose proof (NoDup_fmap_1 fst _ (export_map_nodup m)) as Hn.
  apply (NoDup_fmap_2_strong snd); [|exact Hn].
  intros [k1 x1] [k2 x2] Hin1 Hin2 Heq. simpl in Heq. subst x2.
  apply elem_of_export_map in Hin1, Hin2.
  apply H1 in Hin1, Hin2. congruence.
Qed.

(** A secondary index rebuilt from the exported records equals the stored index,
    provided the stored index was exact. *)
Lemma index_rebuild {V} (m : gmap N V) (ident key : V -> N) (idx : gmap N N) :
  (forall id p, m !! id = Some p -> ident p = id /\ idx !! key p = Some id) ->
  (forall k id, idx !! k = Some id -> exists p, m !! id = Some p /\ key p = k) ->
  fold_left (fun acc p => <[key p := ident p]> acc) (map snd (export_map m)) ∅ = idx.
Proof.
  intros H1 H2. rewrite (import_keyed key ident).
  set (l := map snd (export_map m)).
  assert (Hl : forall p, p ∈ l <-> exists id, m !! id = Some p) by apply elem_of_map_snd_export.
  assert (Hnd : NoDup (map (fun p => (key p, ident p)) l).*1).
  { replace ((map (fun p => (key p, ident p)) l).*1) with (key <$> l).
    2:{ clear. induction l; simpl; [done|]. by f_equal. }
    apply NoDup_fmap_2_strong.
    - intros p q Hp Hq Heq.
      apply Hl in Hp as [ip Hp]. apply Hl in Hq as [iq Hq].
      destruct (H1 _ _ Hp) as [Hip Hkp]. destruct (H1 _ _ Hq) as [Hiq Hkq].
      rewrite Heq in Hkp. assert (ip = iq) by congruence. subst iq. congruence.
    - apply (nodup_map_snd_export m ident). intros id p Hp. by apply H1. }
  apply map_eq. intros k.
  destruct (idx !! k) as [id|] eqn:E.
  - destruct (H2 _ _ E) as [p [Hp Hk]].
    apply import_map_lookup; [done|].
    apply elem_of_list_In, in_map_iff. exists p. split.
    + destruct (H1 _ _ Hp) as [Hid _]. by rewrite Hk, Hid.
    + apply elem_of_list_In, Hl. eauto.
  - destruct (import_map _ !! k) as [id|] eqn:E'; [|done].
    apply import_map_elem, elem_of_list_In, in_map_iff in E' as [p [Heq Hin]].
    inversion Heq; subst. apply elem_of_list_In, Hl in Hin as [id Hp].
    destruct (H1 _ _ Hp) as [_ Hidx]. congruence.
Qed.
Global Instance key_le_trans {V} : Transitive (@key_le V).
Proof. intros x y z. unfold key_le. lia. Qed.
Global Instance key_le_total {V} : Total (@key_le V).
Proof. intros x y. unfold key_le. lia. Qed.

Lemma sorted_unique_keys {V} (l1 l2 : list (N * V)) :
  StronglySorted key_le l1 -> StronglySorted key_le l2 -> NoDup l1.*1 -> l1 ≡ₚ l2 -> l1 = l2.
Proof.
  revert l2. induction l1 as [|x l1 IH]; intros l2 S1 S2 Hnd Hp.
  - by apply Permutation_nil_l in Hp.
  - destruct l2 as [|y l2]; [by apply Permutation_nil_r in Hp|].
    apply StronglySorted_inv in S1 as [S1 F1]. apply StronglySorted_inv in S2 as [S2 F2].
    assert (x = y) as ->.
    { assert (Hx : x ∈ y :: l2) by (rewrite <- Hp; left).
      assert (Hy : y ∈ x :: l1) by (rewrite Hp; left).
      apply elem_of_cons in Hx as [->|Hx]; [done|].
      apply elem_of_cons in Hy as [->|Hy]; [done|].
      rewrite Forall_forall in F1, F2.
      pose proof (F1 _ Hy) as A. pose proof (F2 _ Hx) as B. unfold key_le in A, B.
      assert (x.1 = y.1) as Hk by lia.
      (* x and y both occur in x :: l1 with the same key *)
      exfalso. simpl in Hnd. inversion Hnd as [|? ? Hnotin _]; subst.
      apply Hnotin. rewrite Hk. apply elem_of_list_fmap. by exists y. }
    f_equal. apply IH; try done.
    + simpl in Hnd. by inversion Hnd.
    + by apply Permutation_cons_inv in Hp.
Qed.

Lemma export_map_sorted {V} (m : gmap N V) : StronglySorted key_le (export_map m).
Proof. apply StronglySorted_merge_sort; apply _. Qed.

Lemma merge_sort_id {V} (l : list (N * V)) :
  StronglySorted key_le l -> NoDup l.*1 -> merge_sort key_le l = l.
Proof.
  intros S Hnd. apply sorted_unique_keys; [|done| |apply merge_sort_Permutation].
  - apply StronglySorted_merge_sort; apply _.
  - by rewrite (fmap_Permutation fst _ _ (merge_sort_Permutation key_le l)).
Qed.

Lemma sorted_map_keys {A B} (f : A -> B) (l : list (N * A)) :
  StronglySorted key_le l -> StronglySorted key_le (map (fun kv => (kv.1, f kv.2)) l).
Proof.
  induction 1 as [|x l S IH F]; simpl; constructor; [done|].
  apply Forall_forall. intros y Hy. rewrite Forall_forall in F.
  apply elem_of_list_In, in_map_iff in Hy as [z [<- Hz]]. unfold key_le; simpl.
  apply (F z). by apply elem_of_list_In.
Qed.
