(** Genesis round trip (C19): EVM — proofs.
    Everything is proved for an arbitrary selection [sel] of the account kinds
    that ExportGenesis visits, under the two hypotheses that matter:
    [sel_sound] (only kinds that InitGenesis accepts are exported) and
    [sel_covers] (every account that holds code or storage is selected).  The
    selection of the code, by the interface EthAccountI, satisfies both for
    every state; the selection by the concrete type *EthAccount violates the
    second as soon as a clawback vesting account holds a contract. *)
From Coq Require Import ZArith NArith List Bool Lia.
From stdpp Require Import gmap.
From HV Require Import Genesis.Common Genesis.EvmModel.
Import ListNotations.

Lemma nodup_fst_filter {V} (f : N * V -> bool) (l : list (N * V)) :
  NoDup l.*1 -> NoDup (List.filter f l).*1.
Proof.
  induction l as [|x l IH]; simpl; intros Hnd; [done|].
  inversion Hnd as [|? ? Hnotin Hnd']; subst.
  destruct (f x); simpl; [|by apply IH].
  constructor; [|by apply IH].
  intros Hin. apply Hnotin.
  apply elem_of_list_fmap in Hin as (y & -> & Hy).
  apply elem_of_list_fmap. exists y. split; [done|].
  apply elem_of_list_In in Hy. apply filter_In in Hy as [Hy _]. by apply elem_of_list_In.
Qed.

Section Evm.
  Variable hash : N -> N.
  Variable valid : N -> bool.
  Variable norm : N -> N.
  (** Keccak collision resistance, and sorting twice is sorting once *)
  Hypothesis hash_inj : forall x y, hash x = hash y -> x = y.
  Hypothesis norm_idem : forall p, norm (norm p) = norm p.

  Definition consistent (m : gmap N N) : Prop := forall h c, m !! h = Some c -> c <> 0%N /\ hash c = h.

  (** the account at [a] implements EthAccountI: it can carry a code hash *)
  Definition holds_evm (auth : gmap N auth_acc) (a : N) : Prop :=
    exists k ch, auth !! a = Some (k, ch) /\ implements_eth k = true.

  (** invariant of (auth accounts, evm state) *)
  Definition evm_wf (auth : gmap N auth_acc) (s : evm_state) : Prop :=
    consistent (ev_codes s) /\
    (forall a, stor s a <> ∅ -> holds_evm auth a) /\
    (valid (ev_params s) = true /\ norm (ev_params s) = ev_params s).

  (** ** the two hypotheses about the selection *)
  Definition sel_sound (sel : acc_kind -> bool) : Prop :=
    forall k, sel k = true -> implements_eth k = true.
  Definition sel_covers (sel : acc_kind -> bool) (auth : gmap N auth_acc) (s : evm_state) : Prop :=
    forall a k ch, auth !! a = Some (k, ch) -> implements_eth k = true ->
      stor s a <> ∅ \/ is_Some (ev_codes s !! ch) -> sel k = true.

  Lemma implements_sound : sel_sound implements_eth.
  Proof. by intros k. Qed.
  Lemma implements_covers auth s : sel_covers implements_eth auth s.
  Proof. by intros a k ch _ H _. Qed.

  (** ** the code store after the loop *)
  Lemma codes_step_consistent m acc : consistent m -> consistent (codes_step hash m acc).
  Proof.
    intros H h c. unfold codes_step. destruct (ea_code acc =? 0)%N eqn:E.
    - rewrite lookup_delete_Some. intros [_ Hc]. by apply H.
    - apply N.eqb_neq in E. rewrite lookup_insert_Some. intros [[<- <-]|[_ Hc]]; [done|by apply H].
  Qed.

  Lemma codes_fold_lookup l m h c :
    consistent m ->
    fold_left (codes_step hash) l m !! h = Some c <->
    m !! h = Some c \/ (c <> 0%N /\ hash c = h /\ exists acc, acc ∈ l /\ ea_code acc = c).
  Proof.
    revert m. induction l as [|acc l IH]; intros m Hm; simpl.
    - split; [by left|]. intros [H|(_ & _ & acc & Hin & _)]; [done|]. by apply elem_of_nil in Hin.
    - rewrite IH by (by apply codes_step_consistent). unfold codes_step at 1.
      destruct (ea_code acc =? 0)%N eqn:E.
      + apply N.eqb_eq in E. split.
        * intros [H|(Hc & Hh & acc' & Hin & Hcode)].
          -- apply lookup_delete_Some in H as [_ H]. by left.
          -- right. split; [done|]. split; [done|]. exists acc'. split; [by right|done].
        * intros [H|(Hc & Hh & acc' & Hin & Hcode)].
          -- left. apply lookup_delete_Some. split; [|done].
             intros <-. destruct (Hm _ _ H) as [Hc0 Hh]. apply hash_inj in Hh. congruence.
          -- apply elem_of_cons in Hin as [->|Hin]; [congruence|].
             right. split; [done|]. split; [done|]. eauto.
      + apply N.eqb_neq in E. split.
        * intros [H|(Hc & Hh & acc' & Hin & Hcode)].
          -- apply lookup_insert_Some in H as [[<- <-]|[_ H]]; [|by left].
             right. split; [done|]. split; [done|]. exists acc. split; [by left|done].
          -- right. split; [done|]. split; [done|]. exists acc'. split; [by right|done].
        * intros [H|(Hc & Hh & acc' & Hin & Hcode)].
          -- left. destruct (decide (hash (ea_code acc) = h)) as [Heq|Hne].
             ++ destruct (Hm _ _ H) as [_ Hh]. rewrite <- Heq in Hh. apply hash_inj in Hh. subst c.
                rewrite Heq. apply lookup_insert.
             ++ by rewrite lookup_insert_ne.
          -- apply elem_of_cons in Hin as [->|Hin].
             ++ left. subst c. rewrite <- Hh. apply lookup_insert.
             ++ right. split; [done|]. split; [done|]. eauto.
  Qed.

  (** ** the storage after the loop *)
  Lemma set_state_fold a entries st a' :
    default ∅ (fold_left (set_state a) entries st !! a')
    = if decide (a = a') then fold_left (fun m (kv : N * N) => <[kv.1 := kv.2]> m) entries (default ∅ (st !! a))
      else default ∅ (st !! a').
  Proof.
    revert st. induction entries as [|kv entries IH]; intros st; simpl.
    - by destruct (decide (a = a')) as [->|].
    - rewrite IH. destruct (decide (a = a')) as [->|Hne].
      + unfold set_state. by rewrite lookup_insert.
      + unfold set_state. by rewrite lookup_insert_ne.
  Qed.

  Lemma stor_fold_lookup (l : list evm_acc) st a :
    NoDup (map ea_addr l) ->
    default ∅ (fold_left stor_step l st !! a)
    = match list_find (fun acc => ea_addr acc = a) l with
      | Some (_, acc) => fold_left (fun m (kv : N * N) => <[kv.1 := kv.2]> m) (ea_storage acc) (default ∅ (st !! a))
      | None => default ∅ (st !! a)
      end.
  Proof.
    revert st. induction l as [|acc l IH]; intros st Hnd; simpl; [done|].
    inversion Hnd as [|? ? Hnotin Hnd']; subst.
    rewrite IH by done. unfold stor_step.
    destruct (decide (ea_addr acc = a)) as [Heq|Hne].
    - (* a is this account: no later account has the same address *)
      assert (list_find (fun acc0 => ea_addr acc0 = a) l = None) as ->.
      { apply list_find_None, Forall_forall. intros x Hx Hxa. apply Hnotin.
        rewrite Heq, <- Hxa. apply elem_of_list_In, in_map, elem_of_list_In, Hx. }
      simpl. rewrite set_state_fold. subst a. by rewrite decide_True.
    - simpl. destruct (list_find _ l) as [[i acc']|]; simpl; rewrite set_state_fold; by rewrite decide_False.
  Qed.

  (** ** round trip *)
  Definition exp_accs (sel : acc_kind -> bool) (auth : gmap N auth_acc) (s : evm_state) : list evm_acc :=
    map (fun ac : N * auth_acc => mk_ea ac.1 (default 0%N (ev_codes s !! ac.2.2)) (export_map (stor s ac.1)))
        (List.filter (fun ac : N * auth_acc => sel ac.2.1) (export_map auth)).

  Lemma exp_accs_addrs sel auth s :
    map ea_addr (exp_accs sel auth s) = (List.filter (fun ac : N * auth_acc => sel ac.2.1) (export_map auth)).*1.
  Proof. unfold exp_accs. rewrite map_map. simpl. done. Qed.

  Lemma elem_of_exp_accs sel auth s acc :
    acc ∈ exp_accs sel auth s <->
    exists a k ch, auth !! a = Some (k, ch) /\ sel k = true /\
      acc = mk_ea a (default 0%N (ev_codes s !! ch)) (export_map (stor s a)).
  Proof.
    unfold exp_accs. rewrite elem_of_list_In, in_map_iff. split.
    - intros [[a [k ch]] [<- Hin]]. apply filter_In in Hin as [Hin Hsel]. simpl in *.
      exists a, k, ch. split; [|done]. by apply elem_of_export_map, elem_of_list_In.
    - intros (a & k & ch & Ha & Hsel & ->). exists (a, (k, ch)). split; [done|].
      apply filter_In. split; [|done]. by apply elem_of_list_In, elem_of_export_map.
  Qed.

  (** looking an address up in the exported list: its entry if the account is selected, nothing otherwise *)
  Lemma exp_accs_find sel auth s a :
    match list_find (fun acc => ea_addr acc = a) (exp_accs sel auth s) with
    | Some (_, acc) => exists k ch, auth !! a = Some (k, ch) /\ sel k = true /\
                         acc = mk_ea a (default 0%N (ev_codes s !! ch)) (export_map (stor s a))
    | None => forall k ch, auth !! a = Some (k, ch) -> sel k = false
    end.
  Proof.
    destruct (list_find _ (exp_accs sel auth s)) as [[i acc]|] eqn:E.
    - apply list_find_Some in E as (Hi & Ha & _).
      apply elem_of_list_lookup_2, elem_of_exp_accs in Hi as (a' & k & ch & Hch & Hsel & ->).
      simpl in Ha. subst a'. eauto.
    - intros k ch Ha. destruct (sel k) eqn:Hsel; [|done]. exfalso.
      rewrite list_find_None, Forall_forall in E.
      apply (E (mk_ea a (default 0%N (ev_codes s !! ch)) (export_map (stor s a)))); [|done].
      apply elem_of_exp_accs. eauto 10.
  Qed.

  (** what InitGenesis makes of an exported document: the projection of the state that the
      EVM can observe -- parameters, the storage of every address, the code behind the code
      hash of every account that has one *)
  Lemma evm_init_export_obs sel auth s :
    sel_sound sel -> sel_covers sel auth s -> evm_wf auth s ->
    exists s', evm_init hash valid norm auth (evm_export_sel sel auth s) = Some s' /\
      ev_params s' = ev_params s /\
      (forall a, stor s' a = stor s a) /\
      (forall a k ch, auth !! a = Some (k, ch) -> implements_eth k = true ->
         default 0%N (ev_codes s' !! ch) = default 0%N (ev_codes s !! ch)) /\
      evm_wf auth s'.
  Proof.
    intros Hsound Hcov (Hc & Hs & Hv & Hn).
    unfold evm_init, evm_export_sel; simpl. fold (exp_accs sel auth s).
    rewrite Hn, Hv; simpl.
    assert (Hok : forallb (acc_ok hash auth) (exp_accs sel auth s) = true).
    { apply forallb_forall. intros acc Hin.
      apply elem_of_list_In, elem_of_exp_accs in Hin as (a & k & ch & Ha & Hsel & ->).
      unfold acc_ok; simpl. rewrite Ha, (Hsound _ Hsel). simpl.
      destruct (ev_codes s !! ch) as [c|] eqn:Ec; simpl; [|done].
      destruct (Hc _ _ Ec) as [_ Hh]. rewrite Hh, N.eqb_refl. apply orb_true_r. }
    rewrite Hok; simpl. eexists. split; [reflexivity|]. simpl.
    assert (Hnd : NoDup (map ea_addr (exp_accs sel auth s))).
    { rewrite exp_accs_addrs. apply nodup_fst_filter, export_map_nodup. }
    assert (Hstor : forall a, default ∅ (fold_left stor_step (exp_accs sel auth s) ∅ !! a) = stor s a).
    { intros a. rewrite stor_fold_lookup by done. rewrite lookup_empty; simpl.
      pose proof (exp_accs_find sel auth s a) as Hf.
      destruct (list_find _ (exp_accs sel auth s)) as [[i acc]|].
      - destruct Hf as (k & ch & _ & _ & ->). simpl. apply import_export_map.
      - (* not exported: then it holds no storage, or the selection would have had to cover it *)
        destruct (decide (stor s a = ∅)) as [->|Hne]; [done|]. exfalso.
        destruct (Hs _ Hne) as (k & ch & Ha & Himpl).
        pose proof (Hcov _ _ _ Ha Himpl (or_introl Hne)) as Hsel.
        rewrite (Hf _ _ Ha) in Hsel. done. }
    assert (Hcons0 : consistent (∅ : gmap N N)) by (intros h c H; by rewrite lookup_empty in H).
    assert (Hcode : forall a k ch, auth !! a = Some (k, ch) -> implements_eth k = true ->
       default 0%N (fold_left (codes_step hash) (exp_accs sel auth s) ∅ !! ch) = default 0%N (ev_codes s !! ch)).
    { intros a k ch Ha Himpl.
      destruct (ev_codes s !! ch) as [c|] eqn:Ec; simpl.
      - destruct (Hc _ _ Ec) as [Hc0 Hh].
        assert (Hsel : sel k = true).
        { apply (Hcov _ _ _ Ha Himpl). right. by rewrite Ec. }
        assert (fold_left (codes_step hash) (exp_accs sel auth s) ∅ !! ch = Some c) as ->; [|done].
        apply codes_fold_lookup; [done|]. right. split; [done|]. split; [done|].
        eexists. split; [apply elem_of_exp_accs; eauto 10|]. simpl. by rewrite Ec.
      - destruct (fold_left _ _ _ !! ch) as [c'|] eqn:E'; [|done]. exfalso.
        apply (proj1 (codes_fold_lookup _ _ _ _ Hcons0)) in E' as [E'|(Hc0 & Hh & acc & Hin & Hcode)]; [by rewrite lookup_empty in E'|].
        apply elem_of_exp_accs in Hin as (a' & k' & ch' & Ha' & _ & ->). simpl in Hcode.
        destruct (ev_codes s !! ch') as [c''|] eqn:Ec'; simpl in Hcode; [|congruence].
        subst c''. destruct (Hc _ _ Ec') as [_ Hh']. congruence. }
    split; [done|]. split; [exact Hstor|]. split; [exact Hcode|].
    split; [|split].
    - simpl. intros h c Hl. apply (proj1 (codes_fold_lookup _ _ _ _ Hcons0)) in Hl as [Hl|(Hc0 & Hh & _)]; [by rewrite lookup_empty in Hl|done].
    - intros a. unfold stor; simpl. rewrite Hstor. apply Hs.
    - simpl. done.
  Qed.

  (** exporting the re-imported state gives the same document *)
  Theorem evm_sel_export_init_export sel auth s :
    sel_sound sel -> sel_covers sel auth s -> evm_wf auth s ->
    evm_export_sel sel auth <$> evm_init hash valid norm auth (evm_export_sel sel auth s)
      = Some (evm_export_sel sel auth s).
  Proof.
    intros Hsound Hcov Hwf.
    destruct (evm_init_export_obs sel auth s Hsound Hcov Hwf) as (s' & -> & Hp & Hst & Hcd & _). simpl.
    f_equal. unfold evm_export_sel. rewrite Hp. f_equal.
    apply map_ext_in. intros [a [k ch]] Hin. simpl.
    apply filter_In in Hin as [Hin Hsel]. simpl in Hsel.
    apply elem_of_list_In, elem_of_export_map in Hin.
    rewrite (Hcd _ _ _ Hin (Hsound _ Hsel)), Hst. done.
  Qed.

  Lemma code_at_eq auth s s' :
    (forall a k ch, auth !! a = Some (k, ch) -> implements_eth k = true ->
       default 0%N (ev_codes s' !! ch) = default 0%N (ev_codes s !! ch)) ->
    forall a, code_at auth s' a = code_at auth s a.
  Proof.
    intros Hcd a. unfold code_at. destruct (auth !! a) as [[k ch]|] eqn:Ea; [|done].
    destruct (implements_eth k) eqn:Ek; [|done]. by apply (Hcd _ _ _ Ea).
  Qed.

  (** every query (parameters, code of an address, one storage slot, all storage
      of an address) answers the same *)
  Theorem evm_sel_query_equiv sel auth s q :
    sel_sound sel -> sel_covers sel auth s -> evm_wf auth s ->
    evm_ask auth q <$> evm_init hash valid norm auth (evm_export_sel sel auth s) = Some (evm_ask auth q s).
  Proof.
    intros Hsound Hcov Hwf.
    destruct (evm_init_export_obs sel auth s Hsound Hcov Hwf) as (s' & -> & Hp & Hst & Hcd & _). simpl.
    f_equal. destruct q as [|a|a k|a]; simpl.
    - by rewrite Hp.
    - by rewrite (code_at_eq _ _ _ Hcd).
    - by rewrite Hst.
    - by rewrite Hst.
  Qed.

  (** *** the selection of the code: by the interface, for ALL states *)
  Theorem evm_export_init_export auth s :
    evm_wf auth s ->
    evm_export auth <$> evm_init hash valid norm auth (evm_export auth s) = Some (evm_export auth s).
  Proof. apply evm_sel_export_init_export; [apply implements_sound|apply implements_covers]. Qed.

  Theorem evm_query_equiv auth s q :
    evm_wf auth s ->
    evm_ask auth q <$> evm_init hash valid norm auth (evm_export auth s) = Some (evm_ask auth q s).
  Proof. apply evm_sel_query_equiv; [apply implements_sound|apply implements_covers]. Qed.

  (** init (export s) = s on the EVM projection: parameters, the storage of every address,
      the code of every address -- whatever kind of account sits there *)
  Theorem evm_init_export_projection auth s :
    evm_wf auth s ->
    exists s', evm_init hash valid norm auth (evm_export auth s) = Some s' /\
      ev_params s' = ev_params s /\
      (forall a, stor s' a = stor s a) /\
      (forall a, code_at auth s' a = code_at auth s a).
  Proof.
    intros Hwf.
    destruct (evm_init_export_obs implements_eth auth s implements_sound (implements_covers auth s) Hwf)
      as (s' & Hi & Hp & Hst & Hcd & _).
    exists s'. split; [done|]. split; [done|]. split; [done|]. by apply code_at_eq.
  Qed.

  (** InitGenesis re-establishes the invariant *)
  Corollary evm_init_wf_of_export auth s s' :
    evm_wf auth s -> evm_init hash valid norm auth (evm_export auth s) = Some s' -> evm_wf auth s'.
  Proof.
    intros Hwf. unfold evm_export.
    destruct (evm_init_export_obs implements_eth auth s implements_sound (implements_covers auth s) Hwf)
      as (s'' & -> & _ & _ & _ & Hwf').
    by intros [= <-].
  Qed.

  (** ** the operations preserve the invariant *)
  Lemma stor_set_state s a kv a' :
    stor (mk_evm (ev_params s) (ev_codes s) (set_state a (ev_storage s) kv)) a'
    = if decide (a = a') then <[kv.1 := kv.2]> (stor s a) else stor s a'.
  Proof.
    unfold stor, set_state; simpl. destruct (decide (a = a')) as [->|Hne].
    - by rewrite lookup_insert.
    - by rewrite lookup_insert_ne.
  Qed.

  (** SetState itself checks nothing.  Code runs, and so SSTORE happens, at an address whose
      account carries a non-empty code hash or is being created: in both cases the account
      implements EthAccountI -- unless a BaseAccount / ModuleAccount already sits at the
      creation address (possible only for an account placed there by a genesis file). *)
  Definition op_ok (auth : gmap N auth_acc) (o : evm_op) : bool :=
    match o with
    | EvSStore a _ _ => match auth !! a with Some (k, _) => implements_eth k | None => true end
    | _ => true
    end.

  Lemma holds_evm_insert (auth : gmap N auth_acc) (a : N) k ch (a' : N) :
    implements_eth k = true -> holds_evm auth a' -> holds_evm (<[a := (k, ch)]> auth) a'.
  Proof.
    intros Hk (k' & ch' & Ha' & Hk'). destruct (decide (a = a')) as [->|Hne].
    - exists k, ch. by rewrite lookup_insert.
    - exists k', ch'. by rewrite lookup_insert_ne.
  Qed.

  Lemma holds_evm_insert_fresh (auth : gmap N auth_acc) (a : N) (x : auth_acc) (a' : N) :
    auth !! a = None -> holds_evm auth a' -> holds_evm (<[a := x]> auth) a'.
  Proof.
    intros Hnone (k' & ch' & Ha' & Hk'). exists k', ch'. split; [|done].
    rewrite lookup_insert_ne; [done|]. intros ->. congruence.
  Qed.

  Theorem evm_step_wf auth s o :
    evm_wf auth s -> op_ok auth o = true ->
    let '(auth', s') := evm_step hash valid norm (auth, s) o in evm_wf auth' s'.
  Proof.
    intros Hwf Hop. pose proof Hwf as (Hc & Hs & Hv & Hn).
    assert (Hcodes : forall code, consistent (ev_codes (with_code hash s code))).
    { intros code h c. unfold with_code; simpl. destruct (code =? 0)%N eqn:E.
      - rewrite lookup_delete_Some. intros [_ H]. by apply Hc.
      - apply N.eqb_neq in E. rewrite lookup_insert_Some. intros [[<- <-]|[_ H]]; [done|by apply Hc]. }
    destruct o as [a code|a k|a|a|a k v|a|p]; simpl.
    - destruct (auth !! a) as [[k ch]|] eqn:Ea.
      + destruct (negb (ch =? hash 0)%N); [exact Hwf|].
        destruct (implements_eth k) eqn:Ek.
        * split; [by apply Hcodes|split; [|done]].
          intros a' Hne. apply holds_evm_insert; [done|]. by apply Hs.
        * split; [by apply Hcodes|split; [|done]]. exact Hs.
      + split; [by apply Hcodes|split; [|done]].
        intros a' Hne. apply holds_evm_insert; [done|]. by apply Hs.
    - destruct (decide (is_Some (auth !! a))) as [|Hnone]; [exact Hwf|].
      split; [done|split; [|done]].
      intros a' Hne. apply holds_evm_insert_fresh; [|by apply Hs].
      by apply eq_None_not_Some.
    - destruct (auth !! a) as [[[] ch]|] eqn:Ea; try exact Hwf.
      destruct (ch =? hash 0)%N; [|exact Hwf].
      split; [done|split; [|done]].
      intros a' Hne. apply holds_evm_insert; [done|]. by apply Hs.
    - destruct (auth !! a) as [[[] ch]|] eqn:Ea; try exact Hwf.
      split; [done|split; [|done]].
      intros a' Hne. apply holds_evm_insert; [done|]. by apply Hs.
    - destruct (decide (is_Some (auth !! a))) as [[[k' ch] Hsome]|]; [|exact Hwf].
      split; [done|split; [|done]].
      intros a'. rewrite stor_set_state. destruct (decide (a = a')) as [<-|]; [|apply Hs].
      intros _. exists k', ch. split; [done|]. simpl in Hop. by rewrite Hsome in Hop.
    - split; [done|split; [|done]].
      intros a'. unfold stor; simpl. destruct (decide (a = a')) as [<-|Hne].
      + rewrite lookup_delete. simpl. done.
      + rewrite !lookup_delete_ne by done. intros Hst.
        destruct (Hs _ Hst) as (k & ch & Ha & Hk). exists k, ch. by rewrite lookup_delete_ne.
    - destruct (valid (norm p)) eqn:E; [|exact Hwf].
      split; [done|split; [done|]]. simpl. split; [done|apply norm_idem].
  Qed.

  (** a run all of whose SSTOREs hit accounts that implement EthAccountI *)
  Fixpoint run_ok (as_ : gmap N auth_acc * evm_state) (ops : list evm_op) : bool :=
    match ops with
    | [] => true
    | o :: r => op_ok as_.1 o && run_ok (evm_step hash valid norm as_ o) r
    end.

  Theorem evm_run_wf ops as_ :
    evm_wf as_.1 as_.2 -> run_ok as_ ops = true ->
    evm_wf (fold_left (evm_step hash valid norm) ops as_).1 (fold_left (evm_step hash valid norm) ops as_).2.
  Proof.
    revert as_. induction ops as [|o r IH]; intros [auth s] Hwf Hok; [exact Hwf|].
    cbn [run_ok] in Hok. apply andb_true_iff in Hok as [Ho Hr]. cbn [fst] in Ho.
    cbn [fold_left].
    pose proof (evm_step_wf auth s o Hwf Ho) as H.
    destruct (evm_step hash valid norm (auth, s) o) as [auth' s'].
    apply IH; [exact H|exact Hr].
  Qed.

  (** ** storage survives, whatever the code of the account
      Every storage slot of every address answers the same after export -> init: InitGenesis
      runs the SetState loop for every exported account and ExportGenesis lists every account
      that can hold storage. *)
  Theorem evm_storage_survives auth s :
    evm_wf auth s ->
    exists s', evm_init hash valid norm auth (evm_export auth s) = Some s' /\
      (forall a, stor s' a = stor s a) /\
      (forall a k, evm_ask auth (EvQStorage a k) s' = evm_ask auth (EvQStorage a k) s) /\
      (forall a, evm_ask auth (EvQAccountStorage a) s' = evm_ask auth (EvQAccountStorage a) s).
  Proof.
    intros Hwf. destruct (evm_init_export_projection auth s Hwf) as (s' & Hi & _ & Hst & _).
    exists s'. split; [done|]. split; [done|]. split; intros a; [intros k|]; simpl; by rewrite Hst.
  Qed.

  (** ... stated separately for an address WITHOUT code (the empty code hash, or a hash without a
      stored code): such an account is not necessarily an externally owned account -- a creation
      whose constructor stores and returns no code leaves exactly this -- and its slots come back:
      the re-imported state has the same storage there, still no code, every stored slot answers
      its value, and the second document lists the account with code "" and the same storage. *)
  Theorem evm_codeless_storage_survives auth s a :
    evm_wf auth s -> code_at auth s a = 0%N ->
    exists s', evm_init hash valid norm auth (evm_export auth s) = Some s' /\
      code_at auth s' a = 0%N /\
      stor s' a = stor s a /\
      (forall k v, stor s a !! k = Some v -> evm_ask auth (EvQStorage a k) s' = EvAO (Some v)) /\
      evm_export auth s' = evm_export auth s /\
      (stor s a <> ∅ ->
       mk_ea a 0%N (export_map (stor s a)) ∈ vg_accounts (evm_export auth s) /\
       mk_ea a 0%N (export_map (stor s a)) ∈ vg_accounts (evm_export auth s')).
  Proof.
    intros Hwf Hcode.
    pose proof (evm_export_init_export auth s Hwf) as Hee.
    destruct (evm_init_export_projection auth s Hwf) as (s' & Hi & _ & Hst & Hcd).
    rewrite Hi in Hee. change (Some (evm_export auth s') = Some (evm_export auth s)) in Hee.
    apply (inj Some) in Hee.
    exists s'. split; [done|]. split; [by rewrite Hcd|]. split; [done|].
    split; [intros k v Hk; simpl; by rewrite Hst, Hk|]. split; [done|].
    intros Hne. rewrite Hee.
    assert (mk_ea a 0%N (export_map (stor s a)) ∈ vg_accounts (evm_export auth s)) as Hin; [|done].
    destruct Hwf as (_ & Hs & _). destruct (Hs _ Hne) as (k & ch & Ha & Hk).
    unfold evm_export, evm_export_sel; simpl. fold (exp_accs implements_eth auth s).
    apply elem_of_exp_accs. exists a, k, ch. split; [done|]. split; [done|].
    unfold code_at in Hcode. rewrite Ha, Hk in Hcode. by rewrite Hcode.
  Qed.

  Lemma evm_wf_empty p : valid p = true -> norm p = p -> evm_wf ∅ (mk_evm p ∅ ∅).
  Proof.
    intros Hv Hn. split; [|split; [|done]].
    - intros h c H. simpl in H. by rewrite lookup_empty in H.
    - intros a Hne. exfalso. apply Hne. unfold stor. simpl. by rewrite lookup_empty.
  Qed.
End Evm.

(** non-vacuity: a contract with code and storage, an EOA, a destroyed contract
    (its code stays behind as an orphan and is not exported), a clawback vesting
    account onto which a contract is deployed afterwards, an account that is
    converted into a vesting account and back, a module account;
    toy hash = x + 1000 *)
Definition toy_hash (x : N) : N := (x + 1000)%N.
Definition toy_ops : list evm_op :=
  [EvNewAcc 1 KEth; EvCreate 2 77; EvSStore 2 5 9; EvSStore 2 3 0; EvCreate 3 88; EvSStore 3 1 1; EvDelete 3;
   EvNewAcc 7 KClawback; EvCreate 7 66; EvSStore 7 0 42; EvNewAcc 8 KModule; EvToVesting 1; EvNewAcc 9 KEth;
   EvToVesting 9; EvFromVesting 9; EvToVesting 2; EvSetParams 4]%N.
Definition toy_step := evm_step toy_hash (fun _ : N => true) (fun p : N => p).
Definition toy_run : gmap N auth_acc * evm_state := fold_left toy_step toy_ops (∅, mk_evm 0 ∅ ∅).

Example evm_nonvacuous :
  let v := fun _ : N => true in let nm := fun p : N => p in
  let '(auth, s) := toy_run in
  evm_export auth s = mk_evmg 4 [mk_ea 1 0 []; mk_ea 2 77 [(3, 0); (5, 9)]; mk_ea 7 66 [(0, 42)]; mk_ea 9 0 []]%N /\
  map (fun x : N * auth_acc => (x.1, x.2.1)) (export_map auth)
    = [(1, KClawback); (2, KEth); (7, KClawback); (8, KModule); (9, KEth)]%N /\
  (evm_export auth <$> evm_init toy_hash v nm auth (evm_export auth s)) = Some (evm_export auth s) /\
  ev_codes s !! 1088%N = Some 88%N.
Proof. vm_compute. repeat split; reflexivity. Qed.

Lemma toy_hash_inj x y : toy_hash x = toy_hash y -> x = y.
Proof. unfold toy_hash. lia. Qed.

(** the witness state satisfies the invariant: it is reached from the empty state by operations
    all of whose SSTOREs hit accounts that implement EthAccountI *)
Lemma toy_run_wf : evm_wf toy_hash (fun _ => true) (fun p => p) toy_run.1 toy_run.2.
Proof.
  apply (evm_run_wf toy_hash (fun _ => true) (fun p => p) (fun _ => eq_refl) toy_ops (∅, mk_evm 0 ∅ ∅)).
  - by apply evm_wf_empty.
  - vm_compute. reflexivity.
Qed.

(** The shape of the seeded defect: ExportGenesis selecting by the concrete type *EthAccount.
    The selection is sound (InitGenesis accepts what it exports) but does not cover the witness
    state, in which the clawback vesting account 7 holds the contract 66 with one storage slot:
    its entry is missing from the document, and on the re-imported chain the code and the
    storage of 7 are gone, while the selection by the interface keeps both. *)
Lemma evm_concrete_selection_refuted_lemma :
  let v := fun _ : N => true in let nm := fun p : N => p in
  let auth := toy_run.1 in let s := toy_run.2 in
  evm_wf toy_hash v nm auth s /\
  sel_sound concrete_eth /\ ~ sel_covers concrete_eth auth s /\
  auth !! 7%N = Some (KClawback, 1066%N) /\
  evm_export_sel concrete_eth auth s = mk_evmg 4 [mk_ea 2 77 [(3, 0); (5, 9)]; mk_ea 9 0 []]%N /\
  evm_ask auth (EvQCode 7) s = EvAN 66 /\
  evm_ask auth (EvQStorage 7 0) s = EvAO (Some 42%N) /\
  (evm_ask auth (EvQCode 7) <$> evm_init toy_hash v nm auth (evm_export_sel concrete_eth auth s)) = Some (EvAN 0) /\
  (evm_ask auth (EvQStorage 7 0) <$> evm_init toy_hash v nm auth (evm_export_sel concrete_eth auth s)) = Some (EvAO None) /\
  (evm_ask auth (EvQCode 7) <$> evm_init toy_hash v nm auth (evm_export auth s)) = Some (EvAN 66) /\
  (evm_ask auth (EvQStorage 7 0) <$> evm_init toy_hash v nm auth (evm_export auth s)) = Some (EvAO (Some 42%N)).
Proof.
  cbv zeta. split; [exact toy_run_wf|]. split; [by intros []|]. split.
  - intros Hcov.
    assert (H : concrete_eth KClawback = true); [|done].
    apply (Hcov 7%N KClawback 1066%N); [by vm_compute|done|].
    right. vm_compute. eauto.
  - vm_compute. repeat split; reflexivity.
Qed.

(** Outside the invariant: an account kind that cannot carry a code hash sitting at a contract creation
    address (reproduced on the real code with a genesis file that holds an SDK BaseAccount at the CREATE
    address of a deployer: the deployment succeeds, SetAccount has no code hash field to write, the
    constructor's SSTOREs land under the address).  The run violates [run_ok], the state violates
    [evm_wf], the account is not exported (and InitGenesis would refuse it), and its storage is gone
    after the re-import.  The "contract" is dead from the start: no code answers at the address. *)
Definition base_ops : list evm_op := [EvNewAcc 5 KBase; EvCreate 5 77; EvSStore 5 0 42; EvNewAcc 1 KEth]%N.
Definition base_run : gmap N auth_acc * evm_state := fold_left toy_step base_ops (∅, mk_evm 0 ∅ ∅).

Lemma evm_base_account_storage_refuted_lemma :
  let v := fun _ : N => true in let nm := fun p : N => p in
  let auth := base_run.1 in let s := base_run.2 in
  run_ok toy_hash v nm (∅, mk_evm 0 ∅ ∅) base_ops = false /\
  ~ evm_wf toy_hash v nm auth s /\
  auth !! 5%N = Some (KBase, 1000%N) /\
  evm_export auth s = mk_evmg 0 [mk_ea 1 0 []]%N /\
  evm_ask auth (EvQCode 5) s = EvAN 0 /\
  evm_ask auth (EvQStorage 5 0) s = EvAO (Some 42%N) /\
  (evm_ask auth (EvQStorage 5 0) <$> evm_init toy_hash v nm auth (evm_export auth s)) = Some (EvAO None).
Proof.
  cbv zeta. split; [by vm_compute|]. split.
  - intros (_ & Hs & _).
    destruct (Hs 5%N) as (k & ch & Ha & Hk).
    + intros H. apply (f_equal (fun m : gmap N N => m !! 0%N)) in H. vm_compute in H. discriminate.
    + vm_compute in Ha. injection Ha as <- <-. discriminate.
  - vm_compute. repeat split; reflexivity.
Qed.

(** Accounts WITHOUT code and WITH storage.  A contract creation whose constructor executes SSTORE and
    then returns zero-length code (RETURN(0,0), or STOP: init code 602a60005500) leaves an account with
    nonce 1, the empty code hash and live storage (StateDB.Commit: SetCode deletes under the empty hash,
    SetAccount, then SetState for the dirty slots) -- on a fresh address (4), and on a clawback vesting
    account created ahead of the deployment (6, two slots).  5 is the control: the same constructor
    returning one byte of code.  1 is an externally owned account. *)
Definition codeless_ops : list evm_op :=
  [EvCreate 4 0; EvSStore 4 0 42;
   EvNewAcc 6 KClawback; EvCreate 6 0; EvSStore 6 0 42; EvSStore 6 1 7;
   EvCreate 5 1; EvSStore 5 0 42;
   EvNewAcc 1 KEth]%N.
Definition codeless_run : gmap N auth_acc * evm_state := fold_left toy_step codeless_ops (∅, mk_evm 0 ∅ ∅).

Lemma codeless_run_wf : evm_wf toy_hash (fun _ => true) (fun p => p) codeless_run.1 codeless_run.2.
Proof.
  apply (evm_run_wf toy_hash (fun _ => true) (fun p => p) (fun _ => eq_refl) codeless_ops (∅, mk_evm 0 ∅ ∅)).
  - by apply evm_wf_empty.
  - vm_compute. reflexivity.
Qed.

(** non-vacuity of [evm_codeless_storage_survives]: the state is reachable by [run_ok] operations,
    satisfies the invariant, address 4 has no code and the slot 0 -> 42, which is exported and comes back *)
Lemma evm_codeless_nonvacuous_lemma :
  let v := fun _ : N => true in let nm := fun p : N => p in
  let auth := codeless_run.1 in let s := codeless_run.2 in
  run_ok toy_hash v nm (∅, mk_evm 0 ∅ ∅) codeless_ops = true /\
  evm_wf toy_hash v nm auth s /\
  auth !! 4%N = Some (KEth, toy_hash 0) /\ auth !! 6%N = Some (KClawback, toy_hash 0) /\
  code_at auth s 4 = 0%N /\ code_at auth s 6 = 0%N /\ code_at auth s 5 = 1%N /\
  stor s 4 !! 0%N = Some 42%N /\ stor s 4 <> ∅ /\
  evm_export auth s
    = mk_evmg 0 [mk_ea 1 0 []; mk_ea 4 0 [(0, 42)]; mk_ea 5 1 [(0, 42)]; mk_ea 6 0 [(0, 42); (1, 7)]]%N /\
  (evm_ask auth (EvQStorage 4 0) <$> evm_init toy_hash v nm auth (evm_export auth s)) = Some (EvAO (Some 42%N)) /\
  (evm_ask auth (EvQAccountStorage 6) <$> evm_init toy_hash v nm auth (evm_export auth s))
    = Some (EvAL [(0, 42); (1, 7)]%N) /\
  (evm_export auth <$> evm_init toy_hash v nm auth (evm_export auth s)) = Some (evm_export auth s).
Proof.
  cbv zeta. split; [by vm_compute|]. split; [exact codeless_run_wf|].
  assert (Hne : stor codeless_run.2 4 <> ∅).
  { intros H. apply (f_equal (fun m : gmap N N => m !! 0%N)) in H. vm_compute in H. discriminate. }
  repeat split; try exact Hne; vm_compute; reflexivity.
Qed.

(** The shape of the seeded defect: an InitGenesis that skips the exported accounts with empty code
    ("externally owned accounts have no code or storage to restore").  On the witness state the first
    document is the same (ExportGenesis is untouched), but the skipping import drops the slots of 4 and
    of 6 -- the Storage query answers nothing where the exporting chain answers 42, the second document
    lists both accounts with an empty storage list, so export o init o export <> export -- while the
    control 5 (one byte of code) keeps its slot, and InitGenesis as it is keeps all of them. *)
Lemma evm_skip_codeless_refuted_lemma :
  let v := fun _ : N => true in let nm := fun p : N => p in
  let auth := codeless_run.1 in let s := codeless_run.2 in
  evm_wf toy_hash v nm auth s /\
  code_at auth s 4 = 0%N /\
  evm_ask auth (EvQStorage 4 0) s = EvAO (Some 42%N) /\
  (evm_ask auth (EvQStorage 4 0) <$> evm_init_skip_codeless toy_hash v nm auth (evm_export auth s)) = Some (EvAO None) /\
  (evm_ask auth (EvQStorage 6 1) <$> evm_init_skip_codeless toy_hash v nm auth (evm_export auth s)) = Some (EvAO None) /\
  (evm_ask auth (EvQStorage 5 0) <$> evm_init_skip_codeless toy_hash v nm auth (evm_export auth s)) = Some (EvAO (Some 42%N)) /\
  (evm_export auth <$> evm_init_skip_codeless toy_hash v nm auth (evm_export auth s))
    = Some (mk_evmg 0 [mk_ea 1 0 []; mk_ea 4 0 []; mk_ea 5 1 [(0, 42)]; mk_ea 6 0 []]%N) /\
  (evm_export auth <$> evm_init_skip_codeless toy_hash v nm auth (evm_export auth s)) <> Some (evm_export auth s) /\
  (evm_ask auth (EvQStorage 4 0) <$> evm_init toy_hash v nm auth (evm_export auth s)) = Some (EvAO (Some 42%N)) /\
  (evm_export auth <$> evm_init toy_hash v nm auth (evm_export auth s)) = Some (evm_export auth s).
Proof.
  cbv zeta. split; [exact codeless_run_wf|].
  repeat split; try (vm_compute; reflexivity).
  vm_compute. discriminate.
Qed.
