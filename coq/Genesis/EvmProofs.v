(** Genesis round trip (C19): EVM — proofs. *)
From Coq Require Import ZArith NArith List Bool Lia.
From stdpp Require Import gmap.
From HV Require Import Genesis.Common Genesis.EvmModel.
Import ListNotations.

Section Evm.
  Variable hash : N -> N.
  Variable valid : N -> bool.
  Variable norm : N -> N.
  (** Keccak collision resistance, and sorting twice is sorting once *)
  Hypothesis hash_inj : forall x y, hash x = hash y -> x = y.
  Hypothesis norm_idem : forall p, norm (norm p) = norm p.

  Definition consistent (m : gmap N N) : Prop := forall h c, m !! h = Some c -> c <> 0%N /\ hash c = h.

  (** invariant of (auth accounts, evm state) *)
  Definition evm_wf (auth : gmap N N) (s : evm_state) : Prop :=
    consistent (ev_codes s) /\
    (forall a, stor s a <> ∅ -> is_Some (auth !! a)) /\
    (valid (ev_params s) = true /\ norm (ev_params s) = ev_params s).

  (** ** the code store after the loop *)
  Lemma codes_step_consistent m acc : consistent m -> consistent (codes_step hash m acc).
  Proof.
    intros H h c. unfold codes_step. destruct (ea_code acc =? 0)%N eqn:E.
    - rewrite lookup_delete_Some. intros [_ Hc]. by apply H.
    - apply N.eqb_neq in E. rewrite lookup_insert_Some. intros [[<- <-]|[_ Hc]]; [done|by apply H].
  Qed.

  Lemma codes_fold_lookup l m h c :
    consistent m ->
    fold_left (codes_step hash) l m !! h = Some c <->
    m !! h = Some c \/ (c <> 0%N /\ hash c = h /\ exists acc, acc ∈ l /\ ea_code acc = c).
  Proof.
    revert m. induction l as [|acc l IH]; intros m Hm; simpl.
    - split; [by left|]. intros [H|(_ & _ & acc & Hin & _)]; [done|]. by apply elem_of_nil in Hin.
    - rewrite IH by (by apply codes_step_consistent). unfold codes_step at 1.
      destruct (ea_code acc =? 0)%N eqn:E.
      + apply N.eqb_eq in E. split.
        * intros [H|(Hc & Hh & acc' & Hin & Hcode)].
          -- apply lookup_delete_Some in H as [_ H]. by left.
          -- right. split; [done|]. split; [done|]. exists acc'. split; [by right|done].
        * intros [H|(Hc & Hh & acc' & Hin & Hcode)].
          -- left. apply lookup_delete_Some. split; [|done].
             intros <-. destruct (Hm _ _ H) as [Hc0 Hh]. apply hash_inj in Hh. congruence.
          -- apply elem_of_cons in Hin as [->|Hin]; [congruence|].
             right. split; [done|]. split; [done|]. eauto.
      + apply N.eqb_neq in E. split.
        * intros [H|(Hc & Hh & acc' & Hin & Hcode)].
          -- apply lookup_insert_Some in H as [[<- <-]|[_ H]]; [|by left].
             right. split; [done|]. split; [done|]. exists acc. split; [by left|done].
          -- right. split; [done|]. split; [done|]. exists acc'. split; [by right|done].
        * intros [H|(Hc & Hh & acc' & Hin & Hcode)].
          -- left. destruct (decide (hash (ea_code acc) = h)) as [Heq|Hne].
             ++ destruct (Hm _ _ H) as [_ Hh]. rewrite <- Heq in Hh. apply hash_inj in Hh. subst c.
                rewrite Heq. apply lookup_insert.
             ++ by rewrite lookup_insert_ne.
          -- apply elem_of_cons in Hin as [->|Hin].
             ++ left. subst c. rewrite <- Hh. apply lookup_insert.
             ++ right. split; [done|]. split; [done|]. eauto.
  Qed.

  (** ** the storage after the loop *)
  Lemma set_state_fold a entries st a' :
    default ∅ (fold_left (set_state a) entries st !! a')
    = if decide (a = a') then fold_left (fun m (kv : N * N) => <[kv.1 := kv.2]> m) entries (default ∅ (st !! a))
      else default ∅ (st !! a').
  Proof.
    revert st. induction entries as [|kv entries IH]; intros st; simpl.
    - by destruct (decide (a = a')) as [->|].
    - rewrite IH. destruct (decide (a = a')) as [->|Hne].
      + unfold set_state. by rewrite lookup_insert.
      + unfold set_state. by rewrite lookup_insert_ne.
  Qed.

  Lemma stor_fold_lookup (l : list evm_acc) st a :
    NoDup (map ea_addr l) ->
    default ∅ (fold_left stor_step l st !! a)
    = match list_find (fun acc => ea_addr acc = a) l with
      | Some (_, acc) => fold_left (fun m (kv : N * N) => <[kv.1 := kv.2]> m) (ea_storage acc) (default ∅ (st !! a))
      | None => default ∅ (st !! a)
      end.
  Proof.
    revert st. induction l as [|acc l IH]; intros st Hnd; simpl; [done|].
    inversion Hnd as [|? ? Hnotin Hnd']; subst.
    rewrite IH by done. unfold stor_step.
    destruct (decide (ea_addr acc = a)) as [Heq|Hne].
    - (* a is this account: no later account has the same address *)
      assert (list_find (fun acc0 => ea_addr acc0 = a) l = None) as ->.
      { apply list_find_None, Forall_forall. intros x Hx Hxa. apply Hnotin.
        rewrite Heq, <- Hxa. apply elem_of_list_In, in_map, elem_of_list_In, Hx. }
      simpl. rewrite set_state_fold. subst a. by rewrite decide_True.
    - simpl. destruct (list_find _ l) as [[i acc']|]; simpl; rewrite set_state_fold; by rewrite decide_False.
  Qed.

  (** ** round trip *)
  Definition exp_accs (auth : gmap N N) (s : evm_state) : list evm_acc :=
    map (fun ac : N * N => mk_ea ac.1 (default 0%N (ev_codes s !! ac.2)) (export_map (stor s ac.1)))
        (export_map auth).

  Lemma exp_accs_addrs auth s : map ea_addr (exp_accs auth s) = (export_map auth).*1.
  Proof. unfold exp_accs. rewrite map_map. simpl. done. Qed.

  Lemma elem_of_exp_accs auth s acc :
    acc ∈ exp_accs auth s <->
    exists a ch, auth !! a = Some ch /\ acc = mk_ea a (default 0%N (ev_codes s !! ch)) (export_map (stor s a)).
  Proof.
    unfold exp_accs. rewrite elem_of_list_In, in_map_iff. split.
    - intros [[a ch] [<- Hin]]. exists a, ch. split; [|done]. by apply elem_of_export_map, elem_of_list_In.
    - intros (a & ch & Ha & ->). exists (a, ch). split; [done|]. by apply elem_of_list_In, elem_of_export_map.
  Qed.

  Lemma exp_accs_find auth s a :
    list_find (fun acc => ea_addr acc = a) (exp_accs auth s)
    = match auth !! a with
      | Some ch => Some (0%nat, mk_ea a (default 0%N (ev_codes s !! ch)) (export_map (stor s a)))
      | None => None
      end \/
    exists i ch, auth !! a = Some ch /\
      list_find (fun acc => ea_addr acc = a) (exp_accs auth s)
      = Some (i, mk_ea a (default 0%N (ev_codes s !! ch)) (export_map (stor s a))).
  Proof.
    destruct (list_find _ (exp_accs auth s)) as [[i acc]|] eqn:E.
    - right. apply list_find_Some in E as (Hi & Ha & _).
      apply elem_of_list_lookup_2, elem_of_exp_accs in Hi as (a' & ch & Hch & ->).
      simpl in Ha. subst a'. eauto.
    - left. destruct (auth !! a) as [ch|] eqn:Ea; [|done]. exfalso.
      rewrite list_find_None, Forall_forall in E.
      apply (E (mk_ea a (default 0%N (ev_codes s !! ch)) (export_map (stor s a)))); [|done].
      apply elem_of_exp_accs. eauto.
  Qed.

  Lemma evm_init_export_obs auth s :
    evm_wf auth s ->
    exists s', evm_init hash valid norm auth (evm_export auth s) = Some s' /\
      ev_params s' = ev_params s /\
      (forall a, stor s' a = stor s a) /\
      (forall a ch, auth !! a = Some ch -> default 0%N (ev_codes s' !! ch) = default 0%N (ev_codes s !! ch)) /\
      evm_wf auth s'.
  Proof.
    intros (Hc & Hs & Hv & Hn).
    unfold evm_init, evm_export; simpl. fold (exp_accs auth s).
    rewrite Hn, Hv; simpl.
    assert (Hok : forallb (acc_ok hash auth) (exp_accs auth s) = true).
    { apply forallb_forall. intros acc Hin.
      apply elem_of_list_In, elem_of_exp_accs in Hin as (a & ch & Ha & ->).
      unfold acc_ok; simpl. rewrite Ha.
      destruct (ev_codes s !! ch) as [c|] eqn:Ec; simpl; [|done].
      destruct (Hc _ _ Ec) as [_ Hh]. rewrite Hh, N.eqb_refl. apply orb_true_r. }
    rewrite Hok; simpl. eexists. split; [reflexivity|]. simpl.
    assert (Hnd : NoDup (map ea_addr (exp_accs auth s))).
    { rewrite exp_accs_addrs. apply export_map_nodup. }
    assert (Hstor : forall a, default ∅ (fold_left stor_step (exp_accs auth s) ∅ !! a) = stor s a).
    { intros a. rewrite stor_fold_lookup by done. rewrite lookup_empty; simpl.
      destruct (exp_accs_find auth s a) as [H|(i & ch & Ha & H)]; rewrite H.
      - destruct (auth !! a) as [ch|] eqn:Ea; simpl.
        + apply import_export_map.
        + destruct (decide (stor s a = ∅)) as [->|Hne]; [done|]. apply Hs in Hne. rewrite Ea in Hne. by destruct Hne.
      - simpl. apply import_export_map. }
    assert (Hcons0 : consistent (∅ : gmap N N)) by (intros h c H; by rewrite lookup_empty in H).
    assert (Hcode : forall a ch, auth !! a = Some ch ->
       default 0%N (fold_left (codes_step hash) (exp_accs auth s) ∅ !! ch) = default 0%N (ev_codes s !! ch)).
    { intros a ch Ha.
      destruct (ev_codes s !! ch) as [c|] eqn:Ec; simpl.
      - destruct (Hc _ _ Ec) as [Hc0 Hh].
        assert (fold_left (codes_step hash) (exp_accs auth s) ∅ !! ch = Some c) as ->; [|done].
        apply codes_fold_lookup; [done|]. right. split; [done|]. split; [done|].
        eexists. split; [apply elem_of_exp_accs; eauto|]. simpl. by rewrite Ec.
      - destruct (fold_left _ _ _ !! ch) as [c'|] eqn:E'; [|done]. exfalso.
        apply (proj1 (codes_fold_lookup _ _ _ _ Hcons0)) in E' as [E'|(Hc0 & Hh & acc & Hin & Hcode)]; [by rewrite lookup_empty in E'|].
        apply elem_of_exp_accs in Hin as (a' & ch' & Ha' & ->). simpl in Hcode.
        destruct (ev_codes s !! ch') as [c''|] eqn:Ec'; simpl in Hcode; [|congruence].
        subst c''. destruct (Hc _ _ Ec') as [_ Hh']. congruence. }
    split; [done|]. split; [exact Hstor|]. split; [exact Hcode|].
    split; [|split].
    - simpl. intros h c Hl. apply (proj1 (codes_fold_lookup _ _ _ _ Hcons0)) in Hl as [Hl|(Hc0 & Hh & _)]; [by rewrite lookup_empty in Hl|done].
    - intros a. unfold stor; simpl. rewrite Hstor. apply Hs.
    - simpl. done.
  Qed.

  (** exporting the re-imported state gives the same document *)
  Theorem evm_export_init_export auth s :
    evm_wf auth s ->
    evm_export auth <$> evm_init hash valid norm auth (evm_export auth s) = Some (evm_export auth s).
  Proof.
    intros Hwf. destruct (evm_init_export_obs auth s Hwf) as (s' & -> & Hp & Hst & Hcd & _). simpl.
    f_equal. unfold evm_export. rewrite Hp. f_equal.
    apply map_ext_in. intros [a ch] Hin. simpl.
    apply elem_of_list_In, elem_of_export_map in Hin.
    rewrite (Hcd _ _ Hin), Hst. done.
  Qed.

  (** every query (parameters, code of an address, one storage slot, all storage
      of an address) answers the same *)
  Theorem evm_query_equiv auth s q :
    evm_wf auth s ->
    evm_ask auth q <$> evm_init hash valid norm auth (evm_export auth s) = Some (evm_ask auth q s).
  Proof.
    intros Hwf. destruct (evm_init_export_obs auth s Hwf) as (s' & -> & Hp & Hst & Hcd & _). simpl.
    f_equal. destruct q as [|a|a k|a]; simpl.
    - by rewrite Hp.
    - destruct (auth !! a) as [ch|] eqn:Ea; [|done]. by rewrite (Hcd _ _ Ea).
    - by rewrite Hst.
    - by rewrite Hst.
  Qed.

  (** InitGenesis re-establishes the invariant *)
  Corollary evm_init_wf_of_export auth s s' :
    evm_wf auth s -> evm_init hash valid norm auth (evm_export auth s) = Some s' -> evm_wf auth s'.
  Proof.
    intros Hwf. destruct (evm_init_export_obs auth s Hwf) as (s'' & -> & _ & _ & _ & Hwf').
    by intros [= <-].
  Qed.

  (** ** the operations preserve the invariant *)
  Lemma stor_set_state s a kv a' :
    stor (mk_evm (ev_params s) (ev_codes s) (set_state a (ev_storage s) kv)) a'
    = if decide (a = a') then <[kv.1 := kv.2]> (stor s a) else stor s a'.
  Proof.
    unfold stor, set_state; simpl. destruct (decide (a = a')) as [->|Hne].
    - by rewrite lookup_insert.
    - by rewrite lookup_insert_ne.
  Qed.

  Theorem evm_step_wf auth s o :
    evm_wf auth s -> let '(auth', s') := evm_step hash valid norm (auth, s) o in evm_wf auth' s'.
  Proof.
    intros Hwf. pose proof Hwf as (Hc & Hs & Hv & Hn). destruct o as [a code|a|a k v|a|p]; simpl.
    - destruct (code =? 0)%N eqn:E; [exact Hwf|]. apply N.eqb_neq in E.
      split; [|split; [|done]]; simpl.
      + intros h c. rewrite lookup_insert_Some. intros [[<- <-]|[_ H]]; [done|by apply Hc].
      + intros a' Hne. apply Hs in Hne. destruct (decide (a = a')) as [->|]; [by rewrite lookup_insert|by rewrite lookup_insert_ne].
    - destruct (decide (is_Some (auth !! a))); [exact Hwf|].
      split; [done|split; [|done]].
      intros a' Hne. apply Hs in Hne. destruct (decide (a = a')) as [->|]; [by rewrite lookup_insert|by rewrite lookup_insert_ne].
    - destruct (decide (is_Some (auth !! a))) as [Hsome|]; [|exact Hwf].
      split; [done|split; [|done]].
      intros a'. rewrite stor_set_state. destruct (decide (a = a')) as [<-|]; [done|apply Hs].
    - split; [done|split; [|done]].
      intros a'. unfold stor; simpl. destruct (decide (a = a')) as [<-|Hne].
      + rewrite lookup_delete. simpl. done.
      + rewrite !lookup_delete_ne by done. apply Hs.
    - destruct (valid (norm p)) eqn:E; [|exact Hwf].
      split; [done|split; [done|]]. simpl. split; [done|apply norm_idem].
  Qed.
End Evm.

(** non-vacuity: a contract with code and storage, an EOA, a destroyed contract
    (its code stays behind as an orphan and is not exported); toy hash = x + 1000 *)
Definition toy_hash (x : N) : N := (x + 1000)%N.
Example evm_nonvacuous :
  let v := fun _ : N => true in let nm := fun p : N => p in
  let '(auth, s) := fold_left (evm_step toy_hash v nm)
      [EvNewEOA 1; EvCreate 2 77; EvSStore 2 5 9; EvSStore 2 3 0; EvCreate 3 88; EvSStore 3 1 1; EvDelete 3; EvSetParams 4]
      (∅, mk_evm 0 ∅ ∅) in
  evm_export auth s = mk_evmg 4 [mk_ea 1 0 []; mk_ea 2 77 [(3, 0); (5, 9)]%N] /\
  (evm_export auth <$> evm_init toy_hash v nm auth (evm_export auth s)) = Some (evm_export auth s) /\
  ev_codes s !! 1088%N = Some 88%N.
Proof. vm_compute. repeat split; reflexivity. Qed.
