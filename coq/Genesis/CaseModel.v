(** Genesis round trip (C19): the correspondence case.
    The harness exports a real application (document 1), imports it into a
    fresh application at height [gc_h] and block time [gc_t], exports again
    (document 2) and prints both, module by module, as a [gcase].  The model
    predicts document 2 as [export (init (document 1))]; [mismatches] lists the
    cases where a prediction differs from what the implementation produced.
    Executable definitions only. *)
From Coq Require Import ZArith NArith List Bool.
From stdpp Require Import gmap.
From HV Require Import Genesis.Common Genesis.SimpleModel Genesis.Erc20Model Genesis.DaoModel Genesis.EvmModel.
Import ListNotations.

Record gcase := mk_gcase {
  gc_h : Z; gc_t : Z;
  gc_co : co_gen * co_gen;
  gc_fm : fm_gen * fm_gen;
  gc_ep : list (N * epoch) * list (N * epoch);
  gc_pids : list (N * N * N);                  (* (contract, denom, pair id) as computed by TokenPair.GetID *)
  gc_e2 : e2_gen * e2_gen;
  gc_lv : lv_gen * lv_gen;
  gc_dao : dao_gen * dao_gen;
  gc_auth : list (N * (acc_kind * N));         (* every account of the auth section: address, kind (EthAccount /
                                                  ClawbackVestingAccount / BaseAccount / ModuleAccount), code hash *)
  gc_hash : list (N * N);                      (* Keccak of every code occurring in the case *)
  gc_evm : evm_gen * evm_gen
}.

Definition tbl_pid (t : list (N * N * N)) (a d : N) : N :=
  match list_find (fun x : N * N * N => x.1.1 = a /\ x.1.2 = d) t with
  | Some (_, x) => x.2 | None => 0%N end.
Definition tbl_hash (t : list (N * N)) (c : N) : N :=
  match list_find (fun x : N * N => x.1 = c) t with Some (_, x) => x.2 | None => 0%N end.

Definition all_valid (_ : N) : bool := true.

(** one boolean per module: does the model's prediction equal the implementation's second export? *)
Definition case_detail (fixed : bool) (c : gcase) : list bool :=
  [ match co_init all_valid fixed (gc_co c).1 with
    | Some s => bool_decide (co_export s = (gc_co c).2) | None => false end;
    bool_decide (fm_export (fm_init (gc_fm c).1) = (gc_fm c).2);
    (* K8 is a known finding: the implementation may behave as the code does today
       (start height rewritten) or as the property demands (faithful import) *)
    bool_decide (ep_export (ep_init (gc_h c) (gc_t c) (gc_ep c).1) = (gc_ep c).2)
    || bool_decide (ep_export (ep_init_spec (gc_ep c).1) = (gc_ep c).2);
    bool_decide (e2_export (e2_init (tbl_pid (gc_pids c)) (gc_e2 c).1) = (gc_e2 c).2);
    match lv_init all_valid (gc_lv c).1 with
    | Some s => bool_decide (lv_export s = (gc_lv c).2) | None => false end;
    match dao_init (gc_dao c).1 with
    | Some s => bool_decide (dao_export s = (gc_dao c).2) | None => false end;
    let auth : gmap N auth_acc := list_to_map (gc_auth c) in
    match evm_init (tbl_hash (gc_hash c)) all_valid (fun p => p) auth (gc_evm c).1 with
    | Some s => bool_decide (evm_export auth s = (gc_evm c).2) | None => false end ].

Definition check_case (fixed : bool) (c : gcase) : bool := forallb (fun b => b) (case_detail fixed c).

Fixpoint mismatches_from (fixed : bool) (i : nat) (cs : list gcase) : list nat :=
  match cs with
  | [] => []
  | c :: r => if check_case fixed c then mismatches_from fixed (S i) r
              else i :: mismatches_from fixed (S i) r
  end.
Definition mismatches (fixed : bool) (cs : list gcase) : list nat := mismatches_from fixed 0 cs.
