(** Genesis round trip (C19): UC DAO.
    Transcription of x/ucdao/keeper/genesis.go: ExportGenesis (params,
    GetAccountsBalances, GetTotalBalance) and InitGenesis (params, sorted
    balances, initBalances, holders index, reverse index, recomputed total with
    the panic when it disagrees with the stated one).  The holders index and the
    denom -> address reverse index are NOT exported: InitGenesis rebuilds them.
    Definitions only; proofs in DaoProofs.v. *)
From Coq Require Import ZArith NArith List Bool.
From stdpp Require Import gmap sorting.
From HV Require Import Genesis.Common.
Import ListNotations.
Local Open Scope Z_scope.

Notation coins := (gmap N Z).                 (* denom -> amount *)
Notation clist := (list (N * Z)).

Record dao_state := mk_dao {
  d_params : N;
  d_bal : gmap N coins;            (* address -> denom -> amount; no entry for a zero balance *)
  d_total : coins;                 (* recorded total per denomination; no zero entry *)
  d_holders : gset N;              (* holders index *)
  d_rev : gset (N * N)             (* (denom, address) reverse index *)
}.
Record dao_gen := mk_daog { dg_params : N; dg_bal : list (N * clist); dg_total : clist }.
Global Instance dao_gen_eq_dec : EqDecision dao_gen.
Proof. solve_decision. Defined.

Definition zget (c : coins) (d : N) : Z := default 0 (c !! d).
Definition coins_of (m : gmap N coins) (a : N) : coins := default ∅ (m !! a).

(** GetAccountsBalances: store order is (address, denom); one Balance per address *)
Definition dao_export (s : dao_state) : dao_gen :=
  mk_daog (d_params s)
          (map (fun ac => (ac.1, export_map ac.2)) (export_map (d_bal s)))
          (export_map (d_total s)).

(** sdk.Coins.Add on the running total: pointwise, a zero result is dropped *)
Definition cadd1 (c : coins) (dx : N * Z) : coins :=
  let v := zget c dx.1 + dx.2 in if v =? 0 then delete dx.1 c else <[dx.1 := v]> c.
Definition cadd (c : coins) (l : clist) : coins := fold_left cadd1 l c.

(** initBalances for one address: every coin must be valid (non-negative); a
    non-zero coin is written, with its reverse-index entry *)
Definition coin_ok (dx : N * Z) : bool := 0 <=? dx.2.
Definition init_coins (old : coins) (cs : clist) : coins :=
  fold_left (fun m dx => if dx.2 =? 0 then m else <[dx.1 := dx.2]> m) cs old.
Definition all_zero (cs : clist) : bool := forallb (fun dx => dx.2 =? 0) cs.

Definition dao_init1 (s : dao_state) (acs : N * clist) : dao_state :=
  let '(a, cs) := acs in
  let c' := init_coins (coins_of (d_bal s) a) cs in
  mk_dao (d_params s)
         (if decide (c' = ∅) then d_bal s else <[a := c']> (d_bal s))
         (cadd (d_total s) cs)
         (if all_zero cs then d_holders s else d_holders s ∪ {[a]})
         (d_rev s ∪ list_to_set (map (fun dx => (dx.1, a)) (filter (fun dx => dx.2 <> 0) cs))).

(** InitGenesis: None = panic *)
Definition dao_init (g : dao_gen) : option dao_state :=
  let sorted := merge_sort key_le (dg_bal g) in            (* SanitizeGenesisBalances *)
  if negb (forallb (fun acs => forallb coin_ok acs.2) sorted) then None else
  let s := fold_left dao_init1 sorted (mk_dao (dg_params g) ∅ ∅ ∅ ∅) in
  if negb (bool_decide (dg_total g = [])) && negb (bool_decide (dg_total g = export_map (d_total s)))
  then None     (* "genesis total balance is incorrect" *)
  else Some s.

(** the operations of the module on this state, as the keeper performs them:
    setBalance (zero: delete the balance and its reverse-index entry; non-zero:
    write both), setHoldersIndex (recomputed from the account's balances),
    Fund = credit + total, TransferOwnership = debit the owner, credit the new
    owner (the order after the "fix:" commit of C12). *)
Definition dao_setbal (s : dao_state) (a d : N) (v : Z) : dao_state :=
  let c := coins_of (d_bal s) a in
  if v =? 0 then
    let c' := delete d c in
    mk_dao (d_params s) (if decide (c' = ∅) then delete a (d_bal s) else <[a := c']> (d_bal s))
           (d_total s) (d_holders s) (d_rev s ∖ {[(d, a)]})
  else
    mk_dao (d_params s) (<[a := <[d := v]> c]> (d_bal s)) (d_total s) (d_holders s) (d_rev s ∪ {[(d, a)]}).

Definition dao_sethold (s : dao_state) (a : N) : dao_state :=
  mk_dao (d_params s) (d_bal s) (d_total s)
         (if decide (coins_of (d_bal s) a = ∅) then d_holders s ∖ {[a]} else d_holders s ∪ {[a]})
         (d_rev s).

Inductive dao_op :=
| DFund (a : N) (d : N) (x : Z)
| DMove (o n : N) (d : N) (x : Z)
| DSetParams (p : N).

Definition dao_step (s : dao_state) (o : dao_op) : dao_state :=
  match o with
  | DFund a d x =>
      if x <=? 0 then s else
      let s1 := dao_setbal s a d (zget (coins_of (d_bal s) a) d + x) in
      let s2 := mk_dao (d_params s1) (d_bal s1) (cadd1 (d_total s1) (d, x)) (d_holders s1) (d_rev s1) in
      dao_sethold s2 a
  | DMove o n d x =>
      if (x <=? 0) || (zget (coins_of (d_bal s) o) d <? x) then s else
      let s1 := dao_setbal s o d (zget (coins_of (d_bal s) o) d - x) in
      let s2 := dao_setbal s1 n d (zget (coins_of (d_bal s1) n) d + x) in
      dao_sethold (dao_sethold s2 n) o
  | DSetParams p => mk_dao p (d_bal s) (d_total s) (d_holders s) (d_rev s)
  end.

Inductive dao_query :=
| DQBalance (a d : N) | DQAllBalances (a : N) | DQTotal | DQHolders | DQParams
| DQHasDenomHolder (d a : N).
Inductive dao_answer := DAZ (z : Z) | DAL (l : clist) | DAH (l : list (N * clist)) | DAN (n : N) | DAB (b : bool).
Definition dao_ask (q : dao_query) (s : dao_state) : dao_answer :=
  match q with
  | DQBalance a d => DAZ (zget (coins_of (d_bal s) a) d)
  | DQAllBalances a => DAL (export_map (coins_of (d_bal s) a))
  | DQTotal => DAL (export_map (d_total s))
  | DQHolders =>      (* paginates the holders index, reads each holder's balances *)
      DAH (map (fun a => (a, export_map (coins_of (d_bal s) a)))
               (merge_sort N.le (elements (d_holders s))))
  | DQParams => DAN (d_params s)
  | DQHasDenomHolder d a => DAB (bool_decide ((d, a) ∈ d_rev s))
  end.
