(** Genesis round trip (C19): erc20 and liquid vesting.
    Transcription of x/erc20/genesis.go (+ keeper/token_pairs.go, proposals.go)
    and x/liquidvesting/genesis.go (+ keeper/denom.go).  Definitions only. *)
From Coq Require Import ZArith NArith List Bool.
From stdpp Require Import gmap.
From HV Require Import Genesis.Common.
Import ListNotations.

(** * erc20 *)
Record pair := mk_pair { tp_erc20 : N; tp_denom : N; tp_enabled : bool; tp_owner : N }.
Global Instance pair_eq_dec : EqDecision pair.
Proof. solve_decision. Defined.

Record e2_state := mk_e2 {
  e2_enable : bool; e2_hook : bool;        (* the two parameters, stored under their own keys *)
  e2_pairs : gmap N pair;                  (* id -> pair *)
  e2_by_denom : gmap N N;                  (* denom -> id *)
  e2_by_erc20 : gmap N N                   (* contract -> id *)
}.
Record e2_gen := mk_e2g { eg_enable : bool; eg_hook : bool; eg_pairs : list pair }.
Global Instance e2_gen_eq_dec : EqDecision e2_gen.
Proof. solve_decision. Defined.

Section Erc20.
  (** TokenPair.GetID = sha256(erc20 address | denom) *)
  Variable pid : N -> N -> N.
  Definition pair_id (p : pair) : N := pid (tp_erc20 p) (tp_denom p).

  (** GetTokenPairs iterates the pair store (id order) *)
  Definition e2_export (s : e2_state) : e2_gen :=
    mk_e2g (e2_enable s) (e2_hook s) (map snd (export_map (e2_pairs s))).

  Definition e2_add (s : e2_state) (p : pair) : e2_state :=
    let id := pair_id p in
    mk_e2 (e2_enable s) (e2_hook s) (<[id := p]> (e2_pairs s))
          (<[tp_denom p := id]> (e2_by_denom s)) (<[tp_erc20 p := id]> (e2_by_erc20 s)).

  (** Params.Validate only checks types: every pair of booleans is valid *)
  Definition e2_init (g : e2_gen) : e2_state :=
    fold_left e2_add (eg_pairs g) (mk_e2 (eg_enable g) (eg_hook g) ∅ ∅ ∅).

  Inductive e2_op :=
  | E2Register (p : pair)         (* RegisterCoin / RegisterERC20 after their "already registered" guards *)
  | E2Toggle (token : N + N)      (* ToggleConversion by denom (inl) or contract (inr) *)
  | E2SetParams (en hook : bool).

  Definition e2_find (s : e2_state) (token : N + N) : option N :=
    match token with inl d => e2_by_denom s !! d | inr a => e2_by_erc20 s !! a end.

  Definition e2_step (s : e2_state) (o : e2_op) : e2_state :=
    match o with
    | E2Register p =>
        if bool_decide (e2_by_denom s !! tp_denom p = None /\ e2_by_erc20 s !! tp_erc20 p = None)
        then e2_add s p else s
    | E2Toggle tk =>
        match e2_find s tk with
        | Some id =>
            match e2_pairs s !! id with
            | Some p => mk_e2 (e2_enable s) (e2_hook s)
                              (<[id := mk_pair (tp_erc20 p) (tp_denom p) (negb (tp_enabled p)) (tp_owner p)]> (e2_pairs s))
                              (e2_by_denom s) (e2_by_erc20 s)
            | None => s
            end
        | None => s
        end
    | E2SetParams en hk => mk_e2 en hk (e2_pairs s) (e2_by_denom s) (e2_by_erc20 s)
    end.

  Inductive e2_query := E2QParams | E2QPairs | E2QPair (token : N + N).
  Inductive e2_answer := E2AP (en hook : bool) | E2AL (l : list pair) | E2AO (o : option pair).
  Definition e2_ask (q : e2_query) (s : e2_state) : e2_answer :=
    match q with
    | E2QParams => E2AP (e2_enable s) (e2_hook s)
    | E2QPairs => E2AL (map snd (export_map (e2_pairs s)))
    | E2QPair tk => E2AO (match e2_find s tk with Some id => e2_pairs s !! id | None => None end)
    end.
End Erc20.

(** * liquid vesting *)
Definition periods := list (Z * list (N * Z)).     (* (length, coins) *)
Record lv_denom := mk_ld {
  ld_base : N; ld_display : N; ld_orig : N; ld_start : Z; ld_end : Z; ld_periods : periods }.
Global Instance lv_denom_eq_dec : EqDecision lv_denom.
Proof. solve_decision. Defined.

Record lv_state := mk_lv { lv_params : N; lv_counter : N; lv_denoms : gmap N lv_denom }.
Record lv_gen := mk_lvg { lg_params : N; lg_counter : N; lg_denoms : list lv_denom }.
Global Instance lv_gen_eq_dec : EqDecision lv_gen.
Proof. solve_decision. Defined.

Definition lv_export (s : lv_state) : lv_gen :=
  mk_lvg (lv_params s) (lv_counter s) (map snd (export_map (lv_denoms s))).

(** SetDenom stores under the record's own BaseDenom; SetParams validates
    through the params subspace (panic on an invalid set) *)
Definition lv_init (valid : N -> bool) (g : lv_gen) : option lv_state :=
  if valid (lg_params g) then
    Some (mk_lv (lg_params g) (lg_counter g)
                (fold_left (fun m d => <[ld_base d := d]> m) (lg_denoms g) ∅))
  else None.

Inductive lv_op :=
| LvCreate (display orig : N) (start end_ : Z) (ps : periods)   (* CreateDenom: name from the counter, counter + 1 *)
| LvUpdate (base : N) (ps : periods)                            (* UpdateDenomPeriods *)
| LvDelete (base : N)
| LvSetParams (p : N).

Section Liquid.
  Variable valid : N -> bool.
  Variable name_of : N -> N.      (* DenomBaseNameFromID, interned *)
  Definition lv_step (s : lv_state) (o : lv_op) : lv_state :=
    match o with
    | LvCreate disp orig st en ps =>
        let b := name_of (lv_counter s) in
        mk_lv (lv_params s) (lv_counter s + 1)%N (<[b := mk_ld b disp orig st en ps]> (lv_denoms s))
    | LvUpdate b ps =>
        match lv_denoms s !! b with
        | Some d => mk_lv (lv_params s) (lv_counter s)
                          (<[b := mk_ld (ld_base d) (ld_display d) (ld_orig d) (ld_start d) (ld_end d) ps]> (lv_denoms s))
        | None => s
        end
    | LvDelete b => mk_lv (lv_params s) (lv_counter s) (delete b (lv_denoms s))
    | LvSetParams p => if valid p then mk_lv p (lv_counter s) (lv_denoms s) else s
    end.
End Liquid.

Inductive lv_query := LvQDenom (b : N) | LvQDenoms | LvQParams | LvQCounter.
Inductive lv_answer := LvAO (o : option lv_denom) | LvAL (l : list lv_denom) | LvAN (n : N).
Definition lv_ask (q : lv_query) (s : lv_state) : lv_answer :=
  match q with
  | LvQDenom b => LvAO (lv_denoms s !! b)
  | LvQDenoms => LvAL (map snd (export_map (lv_denoms s)))
  | LvQParams => LvAN (lv_params s)
  | LvQCounter => LvAN (lv_counter s)
  end.
