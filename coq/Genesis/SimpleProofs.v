(** Genesis round trip (C19): coinomics, fee market, epochs — proofs. *)
From Coq Require Import ZArith NArith List Bool Lia.
From stdpp Require Import gmap.
From HV Require Import Genesis.Common Genesis.SimpleModel.
Import ListNotations.
Local Open Scope Z_scope.

(** * coinomics *)
Section Coinomics.
  Variable valid : N -> bool.

  (** the module's invariant: the stored parameters passed validation, the
      recorded timestamp is a block time (Unix milliseconds, never negative) *)
  Definition co_wf (s : co_state) : Prop := valid (co_params s) = true /\ 0 <= co_prev s.

  Lemma co_init_wf fixed g s : co_init valid fixed g = Some s -> co_wf s.
  Proof.
    unfold co_init, co_wf. destruct (valid (cg_params g)) eqn:Hv; [|done].
    intros [= <-]; simpl. split; [done|].
    destruct fixed; simpl; [|lia]. destruct (0 <? cg_prev g) eqn:E; lia.
  Qed.

  Lemma co_step_wf s o : co_wf s -> co_wf (co_step valid s o).
  Proof.
    unfold co_wf. intros [Hv Hp]. destruct o as [p|t]; simpl.
    - destruct (valid p) eqn:E; simpl; auto.
    - split; [done|lia].
  Qed.

  Lemma co_run_wf ops s : co_wf s -> co_wf (fold_left (co_step valid) ops s).
  Proof. revert s. induction ops; simpl; auto using co_step_wf. Qed.

  (** importing the export restores the state itself *)
  Lemma co_init_export s : co_wf s -> co_init valid true (co_export s) = Some s.
  Proof.
    intros [Hv Hp]. unfold co_init, co_export; simpl. rewrite Hv. f_equal.
    destruct s as [p m ts]; simpl in *. f_equal.
    destruct (0 <? ts) eqn:E; [done|]. apply Z.ltb_ge in E. lia.
  Qed.

  Lemma co_export_init_export s :
    co_wf s -> co_export <$> co_init valid true (co_export s) = Some (co_export s).
  Proof. intros H. by rewrite co_init_export. Qed.

  Lemma co_query_equiv s q :
    co_wf s -> co_ask q <$> co_init valid true (co_export s) = Some (co_ask q s).
  Proof. intros H. by rewrite co_init_export. Qed.
End Coinomics.

(** F3: the pinned InitGenesis (fixed = false) loses the timestamp. *)
Definition co_witness : co_state := mk_co 0%N (0%N, 100000000000000000000000000000) 1700000015000.
Lemma coinomics_roundtrip_refuted_lemma :
  co_wf (fun _ => true) co_witness /\
  (co_export <$> co_init (fun _ => true) false (co_export co_witness))
     = Some (mk_cog 0%N 0 (0%N, 100000000000000000000000000000)) /\
  cg_prev (co_export co_witness) = 1700000015000 /\
  (co_ask (CoQNextElapsed 1700000020000) <$> co_init (fun _ => true) false (co_export co_witness))
     = Some (CoAO None) /\
  co_ask (CoQNextElapsed 1700000020000) co_witness = CoAO (Some 5000).
Proof. unfold co_wf. vm_compute. repeat split; congruence. Qed.

(** non-vacuity: a state reached by real operations satisfies the invariant and round-trips *)
Example co_nonvacuous :
  let s := fold_left (co_step (fun _ => true)) [CoEndBlock 1700000005000%N; CoSetParams 3%N; CoEndBlock 1700000010000%N]
                     (mk_co 0%N (0%N, 1000) 0) in
  co_wf (fun _ => true) s /\ co_prev s = 1700000010000 /\
  co_init (fun _ => true) true (co_export s) = Some s.
Proof. unfold co_wf. vm_compute. repeat split; congruence. Qed.

(** * fee market *)
Lemma fm_init_export s : fm_init (fm_export s) = s.
Proof. by destruct s. Qed.
Lemma fm_export_init_export s : fm_export (fm_init (fm_export s)) = fm_export s.
Proof. by rewrite fm_init_export. Qed.
Lemma fm_query_equiv {A} (bf : N -> A) q s : fm_ask bf q (fm_init (fm_export s)) = fm_ask bf q s.
Proof. by rewrite fm_init_export. Qed.
Example fm_nonvacuous :
  let s := fold_left fm_step [FmSetParams 4%N; FmEndBlock 850000%N; FmSetParams 5%N] (mk_fm 0%N 0%N) in
  fm_export s = mk_fmg 5%N 850000%N /\ fm_init (fm_export s) = s.
Proof. vm_compute. split; reflexivity. Qed.

(** * epochs *)
(** invariant: no stored epoch has a zero start time (InitGenesis replaces a
    zero start time by the block time, BeginBlocker never changes it) *)
Definition ep_wf (s : ep_state) : Prop := forall id e, s !! id = Some e -> ep_start e <> 0.

Lemma ep_init_eq h t s : ep_init h t (ep_export s) = ep_fix h t <$> s.
Proof.
  unfold ep_init, ep_export.
  rewrite import_map_fmap by apply export_map_nodup.
  by rewrite import_export_map.
Qed.

Lemma ep_init_wf h t g : t <> 0 -> ep_wf (ep_init h t g).
Proof.
  intros Ht id e He. apply import_map_elem in He.
  apply elem_of_list_In, in_map_iff in He as [[id' e'] [Heq _]].
  simpl in Heq. inversion Heq; subst; simpl.
  destruct (ep_start e' =? 0) eqn:E; [done|]. by apply Z.eqb_neq in E.
Qed.

Lemma ep_begin_wf h t s : ep_wf s -> ep_wf (ep_begin_block h t s).
Proof.
  intros Hwf id e He. unfold ep_begin_block in He.
  rewrite lookup_fmap in He. destruct (s !! id) as [e0|] eqn:E0; [|done].
  simpl in He. inversion He; subst. specialize (Hwf _ _ E0).
  unfold ep_begin1. repeat case_match; simpl; done.
Qed.

Lemma ep_fix_wf h t e : ep_start e <> 0 -> ep_fix h t e = ep_set_height h e.
Proof.
  intros Hs. unfold ep_fix, ep_set_height.
  destruct (ep_start e =? 0) eqn:E; [|done]. apply Z.eqb_eq in E. done.
Qed.

(** everything except CurrentEpochStartHeight survives; that field becomes the init height *)
Lemma ep_roundtrip_modulo_height h t s :
  ep_wf s -> ep_export (ep_init h t (ep_export s)) = ep_export (ep_set_height h <$> s).
Proof.
  intros Hwf. rewrite ep_init_eq. f_equal.
  apply map_fmap_ext. intros id e He. apply ep_fix_wf. eauto.
Qed.

Lemma ep_query_equiv h t s q :
  ep_wf s -> ep_ask q (ep_init h t (ep_export s)) = ep_ask q s.
Proof.
  intros Hwf. rewrite ep_init_eq. destruct q as [id|]; simpl.
  - rewrite lookup_fmap. destruct (s !! id) as [e|] eqn:E; simpl; [|done].
    unfold ep_fix. done.
  - f_equal. f_equal. rewrite <- map_fmap_compose.
    apply map_fmap_ext. intros id e He. simpl. unfold ep_fix, ep_set_height; simpl.
    f_equal. destruct (ep_start e =? 0) eqn:E0; [|done].
    apply Z.eqb_eq in E0. by apply Hwf in He.
Qed.

(** a faithful import (no rewriting) would round-trip exactly *)
Lemma ep_spec_roundtrip s : ep_init_spec (ep_export s) = s.
Proof. apply import_export_map. Qed.

(** K8: exported start height 1, re-exported 4 *)
Definition ep_witness : ep_state :=
  {[ 0%N := mk_ep 1700000000000000000 86400000000000 1 1700000000000000000 true 1 ]}.
Lemma epochs_roundtrip_refuted_lemma :
  ep_wf ep_witness /\
  ep_export ep_witness = [(0%N, mk_ep 1700000000000000000 86400000000000 1 1700000000000000000 true 1)] /\
  ep_export (ep_init 4 1700000015000000000 (ep_export ep_witness))
    = [(0%N, mk_ep 1700000000000000000 86400000000000 1 1700000000000000000 true 4)].
Proof.
  split; [|split; vm_compute; reflexivity].
  intros id e. unfold ep_witness. rewrite lookup_singleton_Some. intros [_ <-]. done.
Qed.

(** the other rewrite: a zero StartTime (only possible in a hand-written genesis,
    never in a stored state) is replaced by the block time *)
Lemma epochs_zero_start_replaced :
  ep_export (ep_init 1 1700000000000000000 [(0%N, mk_ep 0 86400000000000 0 0 false 0)])
    = [(0%N, mk_ep 1700000000000000000 86400000000000 0 0 false 1)].
Proof. vm_compute. reflexivity. Qed.

(** non-vacuity: a state produced by InitGenesis + BeginBlockers satisfies the invariant *)
Example ep_nonvacuous :
  let s := ep_begin_block 9 1700086500000000000
             (ep_begin_block 1 1700000000000000000
                (ep_init 1 1700000000000000000 [(0%N, mk_ep 0 86400000000000 0 0 false 0)])) in
  ep_wf s /\ ep_ask (EpQCurrent 0%N) s = EpAO (Some 2) /\
  ep_export s = [(0%N, mk_ep 1700000000000000000 86400000000000 2 1700086400000000000 true 9)].
Proof.
  split; [|split; vm_compute; reflexivity].
  apply ep_begin_wf, ep_begin_wf, ep_init_wf. done.
Qed.
