(** Genesis round trip (C19): coinomics, fee market, epochs.
    Executable transcription of x/coinomics/genesis.go, x/feemarket/genesis.go,
    x/epochs/genesis.go (+ the keeper operations that change the exported state).
    Parameter sets are opaque values (the harness interns their canonical JSON):
    the genesis code only copies them, after the module's validation where there
    is one ([valid]).  Definitions only; proofs in SimpleProofs.v. *)
From Coq Require Import ZArith NArith List Bool.
From stdpp Require Import gmap.
From HV Require Import Genesis.Common.
Import ListNotations.
Local Open Scope Z_scope.

(** * coinomics *)
Record co_state := mk_co { co_params : N; co_max : N * Z; co_prev : Z }.
Record co_gen := mk_cog { cg_params : N; cg_prev : Z; cg_max : N * Z }.
Global Instance co_gen_eq_dec : EqDecision co_gen.
Proof. solve_decision. Defined.
Global Instance co_state_eq_dec : EqDecision co_state.
Proof. solve_decision. Defined.

Definition co_export (s : co_state) : co_gen := mk_cog (co_params s) (co_prev s) (co_max s).

(** [fixed = true]: InitGenesis of /repo HEAD (commit "fix: coinomics InitGenesis
    restores the exported previous-block timestamp": SetPrevBlockTS when the
    exported value is positive; an unset key reads as 0).
    [fixed = false]: the pinned code, which never looked at PrevBlockTs (F3).
    SetParams goes through the x/params subspace, which panics on an invalid set. *)
Definition co_init (valid : N -> bool) (fixed : bool) (g : co_gen) : option co_state :=
  if valid (cg_params g) then
    Some (mk_co (cg_params g) (cg_max g)
                (if fixed && (0 <? cg_prev g) then cg_prev g else 0))
  else None.

Inductive co_op :=
| CoSetParams (p : N)       (* governance / the cap branch of MintAndAllocate *)
| CoEndBlock (t_ms : N).    (* EndBlocker with coinomics enabled: records the block time (ms) *)

Definition co_step (valid : N -> bool) (s : co_state) (o : co_op) : co_state :=
  match o with
  | CoSetParams p => if valid p then mk_co p (co_max s) (co_prev s) else s
  | CoEndBlock t => mk_co (co_params s) (co_max s) (Z.of_N t)
  end.

(** what the next EndBlocker reads: [None] = "first block after activation, only
    record the timestamp, mint nothing"; [Some dt] = mint for dt milliseconds. *)
Definition co_next_elapsed (t_ms : Z) (s : co_state) : option Z :=
  if co_prev s =? 0 then None else Some (t_ms - co_prev s).

Inductive co_query := CoQParams | CoQMaxSupply | CoQPrevTs | CoQNextElapsed (t_ms : Z).
Inductive co_answer := CoAN (n : N) | CoAC (c : N * Z) | CoAZ (z : Z) | CoAO (o : option Z).
Definition co_ask (q : co_query) (s : co_state) : co_answer :=
  match q with
  | CoQParams => CoAN (co_params s)
  | CoQMaxSupply => CoAC (co_max s)
  | CoQPrevTs => CoAZ (co_prev s)
  | CoQNextElapsed t => CoAO (co_next_elapsed t s)
  end.

(** * fee market *)
Record fm_state := mk_fm { fm_params : N; fm_gas : N }.
Record fm_gen := mk_fmg { fg_params : N; fg_gas : N }.
Global Instance fm_gen_eq_dec : EqDecision fm_gen.
Proof. solve_decision. Defined.

Definition fm_export (s : fm_state) : fm_gen := mk_fmg (fm_params s) (fm_gas s).
(** SetParams of the fee market keeper stores whatever it is given; the base fee
    is a field of the parameter set. *)
Definition fm_init (g : fm_gen) : fm_state := mk_fm (fg_params g) (fg_gas g).

Inductive fm_op := FmSetParams (p : N) (* governance, and BeginBlock writing the new base fee *)
                 | FmEndBlock (gas_wanted : N).
Definition fm_step (s : fm_state) (o : fm_op) : fm_state :=
  match o with
  | FmSetParams p => mk_fm p (fm_gas s)
  | FmEndBlock g => mk_fm (fm_params s) g
  end.

Inductive fm_query := FmQParams | FmQBaseFee | FmQBlockGas.
Definition fm_ask {A} (base_fee_of : N -> A) (q : fm_query) (s : fm_state) : N + A :=
  match q with
  | FmQParams => inl (fm_params s)
  | FmQBaseFee => inr (base_fee_of (fm_params s))
  | FmQBlockGas => inl (fm_gas s)
  end.

(** * epochs *)
(** times are Unix nanoseconds, Go's zero time.Time is 0 *)
Record epoch := mk_ep {
  ep_start : Z; ep_dur : Z; ep_cur : Z; ep_cur_start : Z; ep_started : bool; ep_height : Z }.
Global Instance epoch_eq_dec : EqDecision epoch.
Proof. solve_decision. Defined.

Notation ep_state := (gmap N epoch) (only parsing).         (* identifier -> info *)
Notation ep_gen := (list (N * epoch)) (only parsing).

Definition ep_export (s : ep_state) : ep_gen := export_map s.

(** InitGenesis: a zero StartTime becomes the block time, CurrentEpochStartHeight
    becomes the block height of the InitChain context — whatever was exported. *)
Definition ep_fix (h t : Z) (e : epoch) : epoch :=
  mk_ep (if ep_start e =? 0 then t else ep_start e) (ep_dur e) (ep_cur e) (ep_cur_start e)
        (ep_started e) h.
Definition ep_init (h t : Z) (g : ep_gen) : ep_state :=
  import_map (map (fun kv => (kv.1, ep_fix h t kv.2)) g).

(** what a faithful import would do *)
Definition ep_init_spec (g : ep_gen) : ep_state := import_map g.

(** BeginBlocker (x/epochs/keeper/abci.go) for one epoch at height h, time t *)
Definition ep_begin1 (h t : Z) (e : epoch) : epoch :=
  let initial := negb (ep_started e) && negb (t <? ep_start e) in
  let ending := (ep_cur_start e + ep_dur e <? t) && negb initial && negb (t <? ep_start e) in
  if initial then mk_ep (ep_start e) (ep_dur e) 1 (ep_start e) true h
  else if ending then mk_ep (ep_start e) (ep_dur e) (ep_cur e + 1) (ep_cur_start e + ep_dur e) (ep_started e) h
  else e.
Definition ep_begin_block (h t : Z) (s : ep_state) : ep_state := ep_begin1 h t <$> s.

Definition ep_set_height (h : Z) (e : epoch) : epoch :=
  mk_ep (ep_start e) (ep_dur e) (ep_cur e) (ep_cur_start e) (ep_started e) h.

Inductive ep_query := EpQCurrent (id : N) | EpQInfosNoHeight.
Inductive ep_answer := EpAO (o : option Z) | EpAL (l : list (N * epoch)).
Definition ep_ask (q : ep_query) (s : ep_state) : ep_answer :=
  match q with
  | EpQCurrent id => EpAO (ep_cur <$> s !! id)
  | EpQInfosNoHeight => EpAL (export_map (ep_set_height 0 <$> s))
  end.
