(** Genesis round trip (C19): UC DAO — proofs.
    Main results: [dao_init_export] (under the ledger invariant, importing the
    export restores the whole state, holders index and reverse index included),
    hence [dao_export_init_export] and [dao_query_equiv]; the invariant is
    established by InitGenesis-from-an-export and preserved by every operation. *)
From Coq Require Import ZArith NArith List Bool Lia.
From stdpp Require Import gmap sorting.
From HV Require Import Genesis.Common Genesis.DaoModel.
Import ListNotations.
Local Open Scope Z_scope.

(** * coins *)
Definition nozero (c : coins) : Prop := forall d x, c !! d = Some x -> x <> 0.
Definition positive (c : coins) : Prop := forall d x, c !! d = Some x -> 0 < x.

Lemma zget_insert c d v d' : zget (<[d := v]> c) d' = if decide (d = d') then v else zget c d'.
Proof.
  unfold zget. destruct (decide (d = d')) as [->|Hne].
  - by rewrite lookup_insert.
  - by rewrite lookup_insert_ne.
Qed.
Lemma zget_delete c d d' : zget (delete d c) d' = if decide (d = d') then 0 else zget c d'.
Proof.
  unfold zget. destruct (decide (d = d')) as [->|Hne].
  - by rewrite lookup_delete.
  - by rewrite lookup_delete_ne.
Qed.
Lemma zget_empty d : zget ∅ d = 0.
Proof. unfold zget. by rewrite lookup_empty. Qed.

Lemma coins_eq c1 c2 : nozero c1 -> nozero c2 -> (forall d, zget c1 d = zget c2 d) -> c1 = c2.
Proof.
  intros N1 N2 H. apply map_eq. intros d. specialize (H d). unfold zget in H.
  destruct (c1 !! d) as [x|] eqn:E1, (c2 !! d) as [y|] eqn:E2; simpl in H; subst; try done.
  - by apply N1 in E1.
  - by apply N2 in E2.
Qed.

Lemma zget_cadd1 c dx d : zget (cadd1 c dx) d = zget c d + (if decide (dx.1 = d) then dx.2 else 0).
Proof.
  unfold cadd1. destruct (zget c dx.1 + dx.2 =? 0) eqn:E.
  - apply Z.eqb_eq in E. rewrite zget_delete. destruct (decide (dx.1 = d)) as [<-|]; lia.
  - rewrite zget_insert. destruct (decide (dx.1 = d)) as [<-|]; lia.
Qed.
Lemma cadd1_nozero c dx : nozero c -> nozero (cadd1 c dx).
Proof.
  intros Hn d x. unfold cadd1. destruct (zget c dx.1 + dx.2 =? 0) eqn:E.
  - rewrite lookup_delete_Some. intros [_ H]. by apply Hn in H.
  - apply Z.eqb_neq in E. rewrite lookup_insert_Some. intros [[_ <-]|[_ H]]; [done|by apply Hn in H].
Qed.

Definition lsum (l : clist) (d : N) : Z := zsum (map (fun dx : N * Z => if decide (dx.1 = d) then dx.2 else 0) l).
Lemma lsum_perm l1 l2 d : l1 ≡ₚ l2 -> lsum l1 d = lsum l2 d.
Proof. intros H. unfold lsum. apply zsum_perm. by apply fmap_Permutation. Qed.

Lemma zget_cadd c l d : zget (cadd c l) d = zget c d + lsum l d.
Proof.
  revert c. induction l as [|dx l IH]; intros c; unfold cadd, lsum in *; simpl; [lia|].
  rewrite IH, zget_cadd1. lia.
Qed.
Lemma cadd_nozero c l : nozero c -> nozero (cadd c l).
Proof. revert c. induction l; intros c H; unfold cadd; simpl; [done|]. apply IHl. by apply cadd1_nozero. Qed.

Lemma lsum_map_to_list (c : coins) d : lsum (map_to_list c) d = zget c d.
Proof.
  induction c as [|k v m Hk IH] using map_ind.
  - rewrite map_to_list_empty. by rewrite zget_empty.
  - rewrite (lsum_perm _ _ d (map_to_list_insert m k v Hk)).
    unfold lsum in *; simpl. rewrite IH, zget_insert.
    destruct (decide (k = d)) as [->|]; [|lia]. unfold zget. rewrite Hk. simpl. lia.
Qed.
Lemma lsum_export (c : coins) d : lsum (export_map c) d = zget c d.
Proof. rewrite (lsum_perm _ _ d (export_map_perm c)). apply lsum_map_to_list. Qed.

(** * sum of all accounts' balances in one denomination *)
Definition dsum (m : gmap N coins) (d : N) : Z :=
  zsum (map (fun ac : N * coins => zget ac.2 d) (map_to_list m)).

Lemma dsum_empty d : dsum ∅ d = 0.
Proof. unfold dsum. by rewrite map_to_list_empty. Qed.
Lemma dsum_insert_fresh m a c d : m !! a = None -> dsum (<[a := c]> m) d = zget c d + dsum m d.
Proof.
  intros H. unfold dsum.
  rewrite (zsum_perm _ _ (fmap_Permutation _ _ _ (map_to_list_insert m a c H))). done.
Qed.
Lemma dsum_delete m a c d : m !! a = Some c -> dsum m d = zget c d + dsum (delete a m) d.
Proof.
  intros H. rewrite <- (insert_delete m a c H) at 1.
  apply dsum_insert_fresh. apply lookup_delete.
Qed.
Lemma dsum_insert m a c d :
  dsum (<[a := c]> m) d = zget c d + dsum m d - zget (coins_of m a) d.
Proof.
  unfold coins_of. destruct (m !! a) as [c0|] eqn:E; simpl.
  - rewrite <- insert_delete_insert. rewrite dsum_insert_fresh by apply lookup_delete.
    rewrite (dsum_delete m a c0 d E). lia.
  - rewrite dsum_insert_fresh by done. rewrite zget_empty. lia.
Qed.
Lemma dsum_delete' m a d : dsum (delete a m) d = dsum m d - zget (coins_of m a) d.
Proof.
  unfold coins_of. destruct (m !! a) as [c0|] eqn:E; simpl.
  - rewrite (dsum_delete m a c0 d E). lia.
  - rewrite delete_notin by done. rewrite zget_empty. lia.
Qed.
Lemma dsum_export m d :
  zsum (map (fun ac : N * coins => zget ac.2 d) (export_map m)) = dsum m d.
Proof. unfold dsum. apply zsum_perm, fmap_Permutation, export_map_perm. Qed.

(** * the ledger invariant *)
Definition dao_wf (s : dao_state) : Prop :=
  (forall a c, d_bal s !! a = Some c -> c <> ∅ /\ positive c) /\
  (forall a, a ∈ d_holders s <-> is_Some (d_bal s !! a)) /\
  (forall d a, (d, a) ∈ d_rev s <-> is_Some (coins_of (d_bal s) a !! d)) /\
  (nozero (d_total s) /\ forall d, zget (d_total s) d = dsum (d_bal s) d).
(** * InitGenesis, component by component *)
Definition bal_step (m : gmap N coins) (acs : N * clist) : gmap N coins :=
  let c' := init_coins (coins_of m acs.1) acs.2 in
  if decide (c' = ∅) then m else <[acs.1 := c']> m.
Definition hold_step (h : gset N) (acs : N * clist) : gset N :=
  if all_zero acs.2 then h else h ∪ {[acs.1]}.
Definition rev_step (r : gset (N * N)) (acs : N * clist) : gset (N * N) :=
  r ∪ list_to_set (map (fun dx : N * Z => (dx.1, acs.1)) (filter (fun dx : N * Z => dx.2 <> 0) acs.2)).

Lemma dao_fold_components l s0 :
  let s := fold_left dao_init1 l s0 in
  d_params s = d_params s0 /\
  d_bal s = fold_left bal_step l (d_bal s0) /\
  d_total s = fold_left (fun t (acs : N * clist) => cadd t acs.2) l (d_total s0) /\
  d_holders s = fold_left hold_step l (d_holders s0) /\
  d_rev s = fold_left rev_step l (d_rev s0).
Proof.
  revert s0. induction l as [|[a cs] l IH]; intros s0; simpl; [done|].
  destruct (IH (dao_init1 s0 (a, cs))) as (H1 & H2 & H3 & H4 & H5). simpl in *.
  repeat split; done.
Qed.

Lemma init_coins_nonzero old cs :
  Forall (fun dx : N * Z => dx.2 <> 0) cs ->
  init_coins old cs = fold_left (fun m (kv : N * Z) => <[kv.1 := kv.2]> m) cs old.
Proof.
  revert old. induction cs as [|dx cs IH]; intros old H; unfold init_coins in *; simpl; [done|].
  inversion H as [|? ? Hx Hr]; subst. apply Z.eqb_neq in Hx. rewrite Hx. by apply IH.
Qed.

Lemma export_forall {V} (P : N * V -> Prop) (m : gmap N V) :
  (forall k v, m !! k = Some v -> P (k, v)) -> Forall P (export_map m).
Proof.
  intros H. apply Forall_forall. intros [k v] Hin. apply H. by apply elem_of_export_map.
Qed.

Lemma init_coins_export c : positive c -> init_coins ∅ (export_map c) = c.
Proof.
  intros Hp. rewrite init_coins_nonzero.
  - apply import_export_map.
  - apply export_forall. intros k v Hk. apply Hp in Hk. simpl. lia.
Qed.

Lemma export_map_nil {V} (m : gmap N V) : export_map m = [] -> m = ∅.
Proof.
  intros H. apply map_to_list_empty_iff.
  apply Permutation_nil_r. rewrite <- H. symmetry. apply export_map_perm.
Qed.

Lemma all_zero_export c : c <> ∅ -> positive c -> all_zero (export_map c) = false.
Proof.
  intros Hne Hp. destruct (all_zero (export_map c)) eqn:E; [|done]. exfalso. apply Hne.
  apply export_map_nil. unfold all_zero in E. rewrite forallb_forall in E.
  remember (export_map c) as l eqn:El. destruct l as [|[k v] l]; [done|].
  assert (Hin : (k, v) ∈ export_map c) by (rewrite <- El; left).
  apply elem_of_export_map, Hp in Hin.
  assert (H : v =? 0 = true) by (apply (E (k, v)); by left). apply Z.eqb_eq in H. lia.
Qed.

(** balances *)
Lemma bal_fold_export (l : list (N * coins)) acc :
  (forall a c, (a, c) ∈ l -> c <> ∅ /\ positive c) -> NoDup l.*1 ->
  (forall a, a ∈ l.*1 -> acc !! a = None) ->
  fold_left bal_step (map (fun ac : N * coins => (ac.1, export_map ac.2)) l) acc
  = fold_left (fun m (kv : N * coins) => <[kv.1 := kv.2]> m) l acc.
Proof.
  revert acc. induction l as [|[a c] l IH]; intros acc Hc Hnd Hfr; simpl; [done|].
  inversion Hnd as [|? ? Ha Hnd']; subst.
  destruct (Hc a c) as [Hne Hp]; [by left|].
  unfold bal_step at 2; simpl. unfold coins_of. rewrite (Hfr a) by (simpl; by left). simpl.
  rewrite init_coins_export by done. destruct (decide (c = ∅)); [done|].
  apply IH; [|done|].
  - intros a' c' Hin. apply (Hc a' c'). by right.
  - intros a' Ha'. rewrite lookup_insert_ne; [apply Hfr; simpl; by right|].
    intros <-. done.
Qed.

(** holders and reverse index: membership after the loop *)
Lemma hold_fold_elem l h0 a :
  a ∈ fold_left hold_step l h0 <-> a ∈ h0 \/ exists cs, (a, cs) ∈ l /\ all_zero cs = false.
Proof.
  revert h0. induction l as [|[a' cs'] l IH]; intros h0; simpl.
  - split; [by left|]. intros [H|[cs [H _]]]; [done|]. by apply elem_of_nil in H.
  - rewrite IH. unfold hold_step; simpl. split.
    + intros [H|[cs [Hin Hz]]].
      * destruct (all_zero cs') eqn:E; [by left|].
        apply elem_of_union in H as [H|H]; [by left|]. apply elem_of_singleton in H as ->.
        right. exists cs'. split; [by left|done].
      * right. exists cs. split; [by right|done].
    + intros [H|[cs [Hin Hz]]].
      * left. destruct (all_zero cs'); [done|]. apply elem_of_union. by left.
      * apply elem_of_cons in Hin as [Heq|Hin].
        -- inversion Heq; subst. left. rewrite Hz. apply elem_of_union. right. by apply elem_of_singleton.
        -- right. eauto.
Qed.

Lemma rev_fold_elem l r0 d a :
  (d, a) ∈ fold_left rev_step l r0 <->
  (d, a) ∈ r0 \/ exists cs x, (a, cs) ∈ l /\ (d, x) ∈ cs /\ x <> 0.
Proof.
  revert r0. induction l as [|[a' cs'] l IH]; intros r0; simpl.
  - split; [by left|]. intros [H|(cs & x & H & _)]; [done|]. by apply elem_of_nil in H.
  - rewrite IH. unfold rev_step; simpl.
    assert (Hm : (d, a) ∈ (list_to_set (map (fun dx : N * Z => (dx.1, a')) (filter (fun dx : N * Z => dx.2 <> 0) cs')) : gset (N * N))
                 <-> a = a' /\ exists x, (d, x) ∈ cs' /\ x <> 0).
    { rewrite elem_of_list_to_set, elem_of_list_In, in_map_iff. split.
      - intros [[d' x] [Heq Hin]]. simpl in Heq. inversion Heq; subst.
        apply elem_of_list_In, elem_of_list_filter in Hin as [Hx Hin]. simpl in Hx. eauto.
      - intros [-> [x [Hin Hx]]]. exists (d, x). split; [done|].
        apply elem_of_list_In, elem_of_list_filter. done. }
    split.
    + intros [H|(cs & x & Hin & Hd & Hx)].
      * apply elem_of_union in H as [H|H]; [by left|].
        apply Hm in H as [-> [x [Hin Hx]]]. right. exists cs', x. split; [by left|done].
      * right. exists cs, x. split; [by right|done].
    + intros [H|(cs & x & Hin & Hd & Hx)].
      * left. apply elem_of_union. by left.
      * apply elem_of_cons in Hin as [Heq|Hin].
        -- inversion Heq; subst. left. apply elem_of_union. right. apply Hm. eauto.
        -- right. eauto 6.
Qed.

(** total *)
Lemma total_fold_zget (l : list (N * clist)) t0 d :
  zget (fold_left (fun t (acs : N * clist) => cadd t acs.2) l t0) d
  = zget t0 d + zsum (map (fun acs : N * clist => lsum acs.2 d) l).
Proof.
  revert t0. induction l as [|[a cs] l IH]; intros t0; simpl; [lia|].
  rewrite IH, zget_cadd. simpl. lia.
Qed.
Lemma total_fold_nozero (l : list (N * clist)) t0 :
  nozero t0 -> nozero (fold_left (fun t (acs : N * clist) => cadd t acs.2) l t0).
Proof. revert t0. induction l as [|[a cs] l IH]; intros t0 H; simpl; [done|]. by apply IH, cadd_nozero. Qed.
Definition exp_bal (m : gmap N coins) : list (N * clist) :=
  map (fun ac : N * coins => (ac.1, export_map ac.2)) (export_map m).

Lemma elem_of_exp_bal m a cs :
  (a, cs) ∈ exp_bal m <-> exists c, m !! a = Some c /\ cs = export_map c.
Proof.
  unfold exp_bal. rewrite elem_of_list_In, in_map_iff. split.
  - intros [[a' c] [Heq Hin]]. simpl in Heq. inversion Heq; subst.
    exists c. split; [|done]. by apply elem_of_export_map, elem_of_list_In.
  - intros [c [Hc ->]]. exists (a, c). split; [done|]. by apply elem_of_list_In, elem_of_export_map.
Qed.
Lemma exp_bal_keys m : (exp_bal m).*1 = (export_map m).*1.
Proof. unfold exp_bal. induction (export_map m) as [|[] l IH]; simpl; [done|]. by f_equal. Qed.

Lemma dao_state_eq s s' :
  d_params s = d_params s' -> d_bal s = d_bal s' -> d_total s = d_total s' ->
  d_holders s = d_holders s' -> d_rev s = d_rev s' -> s = s'.
Proof. destruct s, s'; simpl; intros; subst; done. Qed.

(** importing the export restores the whole state: balances, total, and the
    two indexes that are not part of the document *)
Theorem dao_init_export s : dao_wf s -> dao_init (dao_export s) = Some s.
Proof.
  intros (W1 & W2 & W3 & W4n & W4).
  unfold dao_init, dao_export; simpl. fold (exp_bal (d_bal s)).
  rewrite merge_sort_id.
  2:{ apply sorted_map_keys, export_map_sorted. }
  2:{ rewrite exp_bal_keys. apply export_map_nodup. }
  (* all coins are valid *)
  assert (Hok : forallb (fun acs : N * clist => forallb coin_ok acs.2) (exp_bal (d_bal s)) = true).
  { apply forallb_forall. intros [a cs] Hin.
    apply elem_of_list_In, elem_of_exp_bal in Hin as [c [Hc ->]]. simpl.
    apply forallb_forall. intros [d x] Hd. apply elem_of_list_In, elem_of_export_map in Hd.
    destruct (W1 _ _ Hc) as [_ Hp]. apply Hp in Hd. unfold coin_ok; simpl. apply Z.leb_le. lia. }
  rewrite Hok; simpl.
  destruct (dao_fold_components (exp_bal (d_bal s)) (mk_dao (d_params s) ∅ ∅ ∅ ∅))
    as (C1 & C2 & C3 & C4 & C5). simpl in *.
  set (s' := fold_left dao_init1 (exp_bal (d_bal s)) (mk_dao (d_params s) ∅ ∅ ∅ ∅)) in *.
  assert (Hbal : d_bal s' = d_bal s).
  { rewrite C2. unfold exp_bal. rewrite bal_fold_export.
    - apply import_export_map.
    - intros a c Hin. apply elem_of_export_map in Hin. by apply W1 in Hin.
    - apply export_map_nodup.
    - intros. apply lookup_empty. }
  assert (Htot : d_total s' = d_total s).
  { rewrite C3. apply coins_eq; [apply total_fold_nozero; by intros ? ? H; rewrite lookup_empty in H|done|].
    intros d. rewrite total_fold_zget, zget_empty, W4, <- dsum_export. unfold exp_bal.
    rewrite map_map. simpl.
    replace (map (fun x : N * coins => lsum (export_map x.2) d) (export_map (d_bal s)))
      with (map (fun ac : N * coins => zget ac.2 d) (export_map (d_bal s))); [lia|].
    apply map_ext. intros [a c]. simpl. symmetry. apply lsum_export. }
  assert (Hhold : d_holders s' = d_holders s).
  { rewrite C4. apply set_eq. intros a. rewrite hold_fold_elem, W2. split.
    - intros [H|[cs [Hin _]]]; [by apply elem_of_empty in H|].
      apply elem_of_exp_bal in Hin as [c [Hc _]]. eauto.
    - intros [c Hc]. right. exists (export_map c). split.
      + apply elem_of_exp_bal. eauto.
      + destruct (W1 _ _ Hc). by apply all_zero_export. }
  assert (Hrev : d_rev s' = d_rev s).
  { rewrite C5. apply set_eq. intros [d a]. rewrite rev_fold_elem, W3. unfold coins_of. split.
    - intros [H|(cs & x & Hin & Hd & Hx)]; [by apply elem_of_empty in H|].
      apply elem_of_exp_bal in Hin as [c [Hc ->]]. rewrite Hc. simpl.
      apply elem_of_export_map in Hd. eauto.
    - destruct (d_bal s !! a) as [c|] eqn:Hc; simpl; [|intros [? H]; rewrite lookup_empty in H; discriminate H].
      intros [x Hx]. right. exists (export_map c), x. split; [apply elem_of_exp_bal; eauto|].
      split; [by apply elem_of_export_map|]. destruct (W1 _ _ Hc) as [_ Hp]. apply Hp in Hx. lia. }
  rewrite Htot.
  rewrite (bool_decide_eq_true_2 (export_map (d_total s) = export_map (d_total s))) by done.
  simpl. rewrite andb_false_r.
  f_equal. apply dao_state_eq; done.
Qed.

Corollary dao_export_init_export s :
  dao_wf s -> dao_export <$> dao_init (dao_export s) = Some (dao_export s).
Proof. intros H. by rewrite dao_init_export. Qed.
Corollary dao_query_equiv s q :
  dao_wf s -> dao_ask q <$> dao_init (dao_export s) = Some (dao_ask q s).
Proof. intros H. by rewrite dao_init_export. Qed.
(** * the operations preserve the invariant *)
Definition I1 (m : gmap N coins) : Prop := forall a c, m !! a = Some c -> c <> ∅ /\ positive c.

Lemma coins_of_None m a : I1 m -> (coins_of m a = ∅ <-> m !! a = None).
Proof.
  intros H. unfold coins_of. destruct (m !! a) as [c|] eqn:E; simpl; [|done].
  split; [|done]. intros ->. by destruct (H _ _ E).
Qed.

Definition upd (c : coins) (d : N) (v : Z) : coins := if v =? 0 then delete d c else <[d := v]> c.

Lemma setbal_coins_of s a d v a' :
  coins_of (d_bal (dao_setbal s a d v)) a'
  = if decide (a = a') then upd (coins_of (d_bal s) a) d v else coins_of (d_bal s) a'.
Proof.
  unfold dao_setbal, upd. destruct (v =? 0) eqn:E; simpl.
  - destruct (decide (delete d (coins_of (d_bal s) a) = ∅)) as [He|Hne]; unfold coins_of at 1.
    + destruct (decide (a = a')) as [<-|Hn].
      * rewrite lookup_delete. simpl. done.
      * by rewrite lookup_delete_ne.
    + destruct (decide (a = a')) as [<-|Hn].
      * by rewrite lookup_insert.
      * by rewrite lookup_insert_ne.
  - unfold coins_of at 1. destruct (decide (a = a')) as [<-|Hn].
    + by rewrite lookup_insert.
    + by rewrite lookup_insert_ne.
Qed.

Lemma setbal_I1 s a d v : I1 (d_bal s) -> 0 <= v -> I1 (d_bal (dao_setbal s a d v)).
Proof.
  intros H Hv a' c. unfold dao_setbal. destruct (v =? 0) eqn:E; simpl.
  - destruct (decide (delete d (coins_of (d_bal s) a) = ∅)) as [He|Hne].
    + rewrite lookup_delete_Some. intros [_ Hc]. by apply H in Hc.
    + rewrite lookup_insert_Some. intros [[<- <-]|[_ Hc]]; [|by apply H in Hc].
      split; [done|]. intros d' x. rewrite lookup_delete_Some. intros [_ Hx].
      unfold coins_of in Hx. destruct (d_bal s !! a) as [c0|] eqn:E0; simpl in Hx.
      * destruct (H _ _ E0) as [_ Hp]. by apply Hp in Hx.
      * by rewrite lookup_empty in Hx.
  - apply Z.eqb_neq in E. rewrite lookup_insert_Some. intros [[<- <-]|[_ Hc]]; [|by apply H in Hc].
    split.
    + intros He. apply (f_equal (fun m : coins => m !! d)) in He. by rewrite lookup_insert, lookup_empty in He.
    + intros d' x. rewrite lookup_insert_Some. intros [[<- <-]|[_ Hx]]; [lia|].
      unfold coins_of in Hx. destruct (d_bal s !! a) as [c0|] eqn:E0; simpl in Hx.
      * destruct (H _ _ E0) as [_ Hp]. by apply Hp in Hx.
      * by rewrite lookup_empty in Hx.
Qed.

Lemma setbal_other s a d v a' : a <> a' -> d_bal (dao_setbal s a d v) !! a' = d_bal s !! a'.
Proof.
  intros Hn. unfold dao_setbal. destruct (v =? 0); simpl.
  - destruct (decide _); [by rewrite lookup_delete_ne|by rewrite lookup_insert_ne].
  - by rewrite lookup_insert_ne.
Qed.

Lemma zget_upd c d v d' : zget (upd c d v) d' = if decide (d = d') then v else zget c d'.
Proof.
  unfold upd. destruct (v =? 0) eqn:E.
  - apply Z.eqb_eq in E. subst. rewrite zget_delete. done.
  - apply zget_insert.
Qed.

Lemma setbal_dsum s a d v d' :
  dsum (d_bal (dao_setbal s a d v)) d'
  = dsum (d_bal s) d' + (if decide (d = d') then v - zget (coins_of (d_bal s) a) d else 0).
Proof.
  unfold dao_setbal. destruct (v =? 0) eqn:E; simpl.
  - apply Z.eqb_eq in E. subst v.
    destruct (decide (delete d (coins_of (d_bal s) a) = ∅)) as [He|Hne].
    + rewrite dsum_delete'.
      assert (Hz : forall d'', zget (delete d (coins_of (d_bal s) a)) d'' = 0) by (intros; by rewrite He, zget_empty).
      specialize (Hz d'). rewrite zget_delete in Hz.
      destruct (decide (d = d')) as [->|]; lia.
    + rewrite dsum_insert, zget_delete. destruct (decide (d = d')) as [->|]; lia.
  - rewrite dsum_insert, zget_insert. destruct (decide (d = d')) as [->|]; lia.
Qed.

Lemma setbal_rev s a d v :
  (forall d' a', (d', a') ∈ d_rev s <-> is_Some (coins_of (d_bal s) a' !! d')) ->
  forall d' a', (d', a') ∈ d_rev (dao_setbal s a d v) <-> is_Some (coins_of (d_bal (dao_setbal s a d v)) a' !! d').
Proof.
  intros W3 d' a'. rewrite setbal_coins_of. unfold dao_setbal, upd.
  destruct (v =? 0) eqn:E; simpl.
  - rewrite elem_of_difference, elem_of_singleton, W3.
    destruct (decide (a = a')) as [<-|Hn].
    + destruct (decide (d = d')) as [<-|Hd].
      * rewrite lookup_delete. split; [intros [_ H]; by exfalso|intros [? H]; done].
      * rewrite lookup_delete_ne by done. split; [by intros [H _]|]. intros H. split; [done|congruence].
    + split; [by intros [H _]|]. intros H. split; [done|congruence].
  - rewrite elem_of_union, elem_of_singleton, W3.
    destruct (decide (a = a')) as [<-|Hn].
    + destruct (decide (d = d')) as [<-|Hd].
      * rewrite lookup_insert. split; [eauto|]. intros _. by right.
      * rewrite lookup_insert_ne by done. split; [|by left]. intros [H|H]; [done|congruence].
    + split; [|by left]. intros [H|H]; [done|congruence].
Qed.

(** setHoldersIndex restores the holders clause for its account and keeps it for the others *)
Lemma sethold_W2 s a (A : N -> Prop) :
  I1 (d_bal s) ->
  (forall a', ~ A a' -> a' <> a -> (a' ∈ d_holders s <-> is_Some (d_bal s !! a'))) ->
  forall a', ~ A a' -> (a' ∈ d_holders (dao_sethold s a) <-> is_Some (d_bal (dao_sethold s a) !! a')).
Proof.
  intros H1 H a' HA. unfold dao_sethold; simpl.
  destruct (decide (a' = a)) as [->|Hne].
  - destruct (decide (coins_of (d_bal s) a = ∅)) as [He|Hn].
    + apply coins_of_None in He; [|done]. rewrite He. rewrite elem_of_difference, elem_of_singleton.
      split; [by intros [_ ?]|]. intros [? ?]; done.
    + assert (is_Some (d_bal s !! a)) as Hs.
      { destruct (d_bal s !! a) eqn:E; [eauto|]. exfalso. apply Hn. by apply coins_of_None. }
      rewrite elem_of_union, elem_of_singleton. split; [done|]. intros _. by right.
  - destruct (decide (coins_of (d_bal s) a = ∅)).
    + rewrite elem_of_difference, elem_of_singleton, (H a' HA Hne). split; [by intros [? _]|done].
    + rewrite elem_of_union, elem_of_singleton, (H a' HA Hne). split; [|by left]. intros [?|?]; done.
Qed.
Lemma zget_nonneg m a d : I1 m -> 0 <= zget (coins_of m a) d.
Proof.
  intros H. unfold coins_of, zget. destruct (m !! a) as [c|] eqn:E; simpl.
  - destruct (c !! d) as [x|] eqn:Ex; simpl; [|lia]. destruct (H _ _ E) as [_ Hp]. apply Hp in Ex. lia.
  - rewrite lookup_empty. simpl. lia.
Qed.

Lemma dao_wf_empty p : dao_wf (mk_dao p ∅ ∅ ∅ ∅).
Proof.
  unfold dao_wf; simpl. split; [|split; [|split; [|split]]].
  - intros a c H. by rewrite lookup_empty in H.
  - intros a. rewrite lookup_empty. split; [intros H; by apply elem_of_empty in H|intros [? H]; done].
  - intros d a. unfold coins_of. rewrite lookup_empty. simpl. rewrite lookup_empty.
    split; [intros H; by apply elem_of_empty in H|intros [? H]; done].
  - intros d x H. by rewrite lookup_empty in H.
  - intros d. by rewrite zget_empty, dsum_empty.
Qed.

Theorem dao_step_wf s o : dao_wf s -> dao_wf (dao_step s o).
Proof.
  intros Hwf. pose proof Hwf as (W1 & W2 & W3 & W4n & W4). destruct o as [a d x|o n d x|p]; simpl.
  - (* Fund *)
    destruct (x <=? 0) eqn:Ex; [exact Hwf|]. apply Z.leb_gt in Ex.
    pose proof (zget_nonneg (d_bal s) a d W1) as Hz.
    set (v := zget (coins_of (d_bal s) a) d + x).
    set (s1 := dao_setbal s a d v).
    assert (I1 (d_bal s1)) as H1 by (apply setbal_I1; [done|unfold v; lia]).
    unfold dao_wf. split; [|split; [|split; [|split]]].
    + exact H1.
    + intros a0. apply (sethold_W2 _ a (fun _ => False)); [exact H1| |tauto].
      intros a' _ Hne. simpl. unfold s1. rewrite setbal_other by done.
      replace (d_holders (dao_setbal s a d v)) with (d_holders s); [apply W2|].
      unfold dao_setbal. by destruct (v =? 0).
    + simpl. apply setbal_rev. exact W3.
    + simpl. apply cadd1_nozero.
      replace (d_total s1) with (d_total s) by (unfold s1, dao_setbal; by destruct (v =? 0)). done.
    + intros d'. simpl. rewrite zget_cadd1. simpl.
      replace (d_total s1) with (d_total s) by (unfold s1, dao_setbal; by destruct (v =? 0)).
      unfold s1. rewrite setbal_dsum, W4. unfold v. destruct (decide (d = d')); lia.
  - (* Move *)
    destruct ((x <=? 0) || (zget (coins_of (d_bal s) o) d <? x)) eqn:Eg; [exact Hwf|].
    apply orb_false_iff in Eg as [Ex Elt]. apply Z.leb_gt in Ex. apply Z.ltb_ge in Elt.
    set (v1 := zget (coins_of (d_bal s) o) d - x).
    set (s1 := dao_setbal s o d v1).
    assert (I1 (d_bal s1)) as H1 by (apply setbal_I1; [done|unfold v1; lia]).
    pose proof (zget_nonneg (d_bal s1) n d H1) as Hz.
    set (v2 := zget (coins_of (d_bal s1) n) d + x).
    set (s2 := dao_setbal s1 n d v2).
    assert (I1 (d_bal s2)) as H2 by (apply setbal_I1; [done|unfold v2; lia]).
    assert (Hh : d_holders s2 = d_holders s).
    { unfold s2, s1, dao_setbal. destruct (v2 =? 0), (v1 =? 0); done. }
    assert (Ht : d_total s2 = d_total s).
    { unfold s2, s1, dao_setbal. destruct (v2 =? 0), (v1 =? 0); done. }
    unfold dao_wf. split; [|split; [|split; [|split]]].
    + exact H2.
    + intros a0. apply (sethold_W2 _ o (fun _ => False)); [apply H2| |tauto].
      intros a' _ Hne.
      apply (sethold_W2 s2 n (fun a'' => a'' = o)); [exact H2| |done].
      intros a'' Ho Hn. rewrite Hh. unfold s2. rewrite setbal_other by done.
      unfold s1. rewrite setbal_other by done. apply W2.
    + simpl. apply setbal_rev. apply setbal_rev. exact W3.
    + simpl. by rewrite Ht.
    + intros d'. simpl. rewrite Ht. unfold s2. rewrite setbal_dsum. unfold s1 at 1. rewrite setbal_dsum, W4.
      unfold v2, v1. destruct (decide (d = d')); lia.
  - (* SetParams *) unfold dao_wf; simpl. split; [exact W1|]. split; [exact W2|]. split; [exact W3|]. split; [exact W4n|exact W4].
Qed.

Lemma dao_run_wf ops s : dao_wf s -> dao_wf (fold_left dao_step ops s).
Proof. revert s. induction ops; simpl; auto using dao_step_wf. Qed.

(** every state reached from the empty ledger by the module's operations
    round-trips through export / InitGenesis, indexes included *)
Corollary dao_reachable_roundtrip p ops :
  let s := fold_left dao_step ops (mk_dao p ∅ ∅ ∅ ∅) in dao_init (dao_export s) = Some s.
Proof. intros s. apply dao_init_export, dao_run_wf, dao_wf_empty. Qed.

(** InitGenesis establishes the invariant on every document it accepts that was
    produced by ExportGenesis of a state satisfying it *)
Corollary dao_init_wf_of_export s s' : dao_wf s -> dao_init (dao_export s) = Some s' -> dao_wf s'.
Proof. intros H. rewrite dao_init_export by done. by intros [= <-]. Qed.

(** non-vacuity: three holders, a self-transfer, an emptied account *)
Example dao_nonvacuous :
  let s := fold_left dao_step
             [DFund 1 0 1000; DFund 2 0 46; DFund 2 5 7; DMove 1 3 0 400; DMove 2 2 0 6; DMove 3 1 0 400; DSetParams 9]
             (mk_dao 0 ∅ ∅ ∅ ∅) in
  dao_wf s /\
  dao_export s = mk_daog 9 [(1%N, [(0%N, 1000)]); (2%N, [(0%N, 46); (5%N, 7)])] [(0%N, 1046); (5%N, 7)] /\
  dao_ask DQHolders s = DAH [(1%N, [(0%N, 1000)]); (2%N, [(0%N, 46); (5%N, 7)])] /\
  (dao_export <$> dao_init (dao_export s)) = Some (dao_export s) /\
  (dao_ask DQHolders <$> dao_init (dao_export s)) = Some (dao_ask DQHolders s) /\
  (dao_ask (DQHasDenomHolder 5 2) <$> dao_init (dao_export s)) = Some (DAB true).
Proof.
  split; [apply dao_run_wf, dao_wf_empty|]. vm_compute. repeat split; reflexivity.
Qed.

(** the total check is live: a document whose stated total disagrees is refused *)
Example dao_bad_total_panics :
  dao_init (mk_daog 0 [(1%N, [(0%N, 1000)])] [(0%N, 999)]) = None.
Proof. vm_compute. reflexivity. Qed.
