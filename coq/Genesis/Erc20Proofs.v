(** Genesis round trip (C19): erc20 and liquid vesting — proofs. *)
From Coq Require Import ZArith NArith List Bool Lia.
From stdpp Require Import gmap.
From HV Require Import Genesis.Common Genesis.Erc20Model.
Import ListNotations.

Section Erc20.
  Variable pid : N -> N -> N.
  (** sha256 of "address|denom": distinct inputs give distinct ids *)
  Hypothesis pid_inj : forall a d a' d', pid a d = pid a' d' -> a = a' /\ d = d'.

  (** the module's invariant: every pair sits under its own id and both
      secondary indexes are exact *)
  Definition e2_wf (s : e2_state) : Prop :=
    (forall id p, e2_pairs s !! id = Some p ->
        pair_id pid p = id /\ e2_by_denom s !! tp_denom p = Some id /\ e2_by_erc20 s !! tp_erc20 p = Some id) /\
    (forall d id, e2_by_denom s !! d = Some id -> exists p, e2_pairs s !! id = Some p /\ tp_denom p = d) /\
    (forall a id, e2_by_erc20 s !! a = Some id -> exists p, e2_pairs s !! id = Some p /\ tp_erc20 p = a).

  Lemma e2_fold_components l s0 :
    let s := fold_left (e2_add pid) l s0 in
    e2_enable s = e2_enable s0 /\ e2_hook s = e2_hook s0 /\
    e2_pairs s = fold_left (fun m p => <[pair_id pid p := p]> m) l (e2_pairs s0) /\
    e2_by_denom s = fold_left (fun m p => <[tp_denom p := pair_id pid p]> m) l (e2_by_denom s0) /\
    e2_by_erc20 s = fold_left (fun m p => <[tp_erc20 p := pair_id pid p]> m) l (e2_by_erc20 s0).
  Proof.
    revert s0. induction l as [|p l IH]; intros s0; simpl; [done|].
    destruct (IH (e2_add pid s0 p)) as (H1 & H2 & H3 & H4 & H5). simpl in *. auto.
  Qed.

  Lemma e2_state_eq s s' :
    e2_enable s = e2_enable s' -> e2_hook s = e2_hook s' -> e2_pairs s = e2_pairs s' ->
    e2_by_denom s = e2_by_denom s' -> e2_by_erc20 s = e2_by_erc20 s' -> s = s'.
  Proof. destruct s, s'; simpl; intros; subst; done. Qed.

  (** importing the export restores the state, both indexes included *)
  Lemma e2_init_export s : e2_wf s -> e2_init pid (e2_export s) = s.
  Proof.
    intros (H1 & H2 & H3). unfold e2_init, e2_export; simpl.
    destruct (e2_fold_components (map snd (export_map (e2_pairs s)))
                (mk_e2 (e2_enable s) (e2_hook s) ∅ ∅ ∅)) as (A & B & C & D & E).
    simpl in *. apply e2_state_eq; try done.
    - rewrite C. apply (keyed_roundtrip (pair_id pid)). intros k x Hx. by apply H1.
    - rewrite D. apply (index_rebuild (e2_pairs s) (pair_id pid) tp_denom).
      + intros id p Hp. destruct (H1 _ _ Hp) as (? & ? & ?). done.
      + done.
    - rewrite E. apply (index_rebuild (e2_pairs s) (pair_id pid) tp_erc20).
      + intros id p Hp. destruct (H1 _ _ Hp) as (? & ? & ?). done.
      + done.
  Qed.

  Lemma e2_export_init_export s : e2_wf s -> e2_export (e2_init pid (e2_export s)) = e2_export s.
  Proof. intros H. by rewrite e2_init_export. Qed.
  Lemma e2_query_equiv s q : e2_wf s -> e2_ask q (e2_init pid (e2_export s)) = e2_ask q s.
  Proof. intros H. by rewrite e2_init_export. Qed.

  (** the invariant holds initially and is preserved by every operation *)
  Lemma e2_wf_empty en hk : e2_wf (mk_e2 en hk ∅ ∅ ∅).
  Proof.
    unfold e2_wf; simpl. split; [|split]; intros ? ? H; by rewrite lookup_empty in H.
  Qed.

  Lemma e2_add_wf s p :
    e2_wf s -> e2_by_denom s !! tp_denom p = None -> e2_by_erc20 s !! tp_erc20 p = None ->
    e2_wf (e2_add pid s p).
  Proof.
    intros (H1 & H2 & H3) Hd He.
    assert (Hfresh : e2_pairs s !! pair_id pid p = None).
    { destruct (e2_pairs s !! pair_id pid p) as [q|] eqn:E; [|done].
      destruct (H1 _ _ E) as (Hq & Hqd & _). unfold pair_id in Hq.
      apply pid_inj in Hq as [_ Hdd]. rewrite Hdd in Hqd. congruence. }
    unfold e2_wf, e2_add; simpl. split; [|split].
    - intros id q Hq. destruct (decide (id = pair_id pid p)) as [->|Hne].
      + rewrite lookup_insert in Hq. inversion Hq; subst q.
        by rewrite !lookup_insert.
      + rewrite lookup_insert_ne in Hq by done. destruct (H1 _ _ Hq) as (A & B & C).
        split; [done|]. split.
        * rewrite lookup_insert_ne; [done|]. intros Heq. rewrite <- Heq in B. congruence.
        * rewrite lookup_insert_ne; [done|]. intros Heq. rewrite <- Heq in C. congruence.
    - intros d id Hd'. destruct (decide (d = tp_denom p)) as [->|Hne].
      + rewrite lookup_insert in Hd'. inversion Hd'; subst id. exists p. by rewrite lookup_insert.
      + rewrite lookup_insert_ne in Hd' by done. destruct (H2 _ _ Hd') as [q [Hq Hqd]].
        exists q. split; [|done]. rewrite lookup_insert_ne; [done|]. intros <-. congruence.
    - intros a id Ha'. destruct (decide (a = tp_erc20 p)) as [->|Hne].
      + rewrite lookup_insert in Ha'. inversion Ha'; subst id. exists p. by rewrite lookup_insert.
      + rewrite lookup_insert_ne in Ha' by done. destruct (H3 _ _ Ha') as [q [Hq Hqa]].
        exists q. split; [|done]. rewrite lookup_insert_ne; [done|]. intros <-. congruence.
  Qed.

  Lemma e2_step_wf s o : e2_wf s -> e2_wf (e2_step pid s o).
  Proof.
    intros Hwf. destruct o as [p|tk|en hk]; simpl.
    - case_bool_decide as Hg; [|done]. destruct Hg. by apply e2_add_wf.
    - destruct (e2_find s tk) as [id|] eqn:Ef; [|done].
      destruct (e2_pairs s !! id) as [p|] eqn:Ep; [|done].
      destruct Hwf as (H1 & H2 & H3). destruct (H1 _ _ Ep) as (A & B & C).
      unfold e2_wf; simpl. split; [|split].
      + intros id' q Hq. destruct (decide (id' = id)) as [->|Hne].
        * rewrite lookup_insert in Hq. inversion Hq; subst q. simpl. done.
        * rewrite lookup_insert_ne in Hq by done. by apply H1.
      + intros d id' Hd. destruct (H2 _ _ Hd) as [q [Hq Hqd]].
        destruct (decide (id' = id)) as [->|Hne].
        * rewrite Ep in Hq. inversion Hq; subst q. eexists. rewrite lookup_insert. split; [done|]. done.
        * exists q. by rewrite lookup_insert_ne.
      + intros a id' Ha. destruct (H3 _ _ Ha) as [q [Hq Hqa]].
        destruct (decide (id' = id)) as [->|Hne].
        * rewrite Ep in Hq. inversion Hq; subst q. eexists. rewrite lookup_insert. split; [done|]. done.
        * exists q. by rewrite lookup_insert_ne.
    - destruct Hwf as (H1 & H2 & H3). repeat split; simpl; eauto; intros; edestruct H1 as (?&?&?); eauto.
  Qed.

  Lemma e2_run_wf ops s : e2_wf s -> e2_wf (fold_left (e2_step pid) ops s).
  Proof. revert s. induction ops; simpl; auto using e2_step_wf. Qed.

  (** InitGenesis applied to any document whose pairs have distinct denominations
      and contracts yields a state satisfying the invariant *)
  Lemma e2_fold_wf l s :
    e2_wf s -> NoDup (map tp_denom l) -> NoDup (map tp_erc20 l) ->
    (forall p, p ∈ l -> e2_by_denom s !! tp_denom p = None /\ e2_by_erc20 s !! tp_erc20 p = None) ->
    e2_wf (fold_left (e2_add pid) l s).
  Proof.
    revert s. induction l as [|p l IH]; intros s Hwf Hd He Hfr; simpl; [done|].
    inversion Hd as [|? ? Hdp Hd']; inversion He as [|? ? Hep He']; subst.
    destruct (Hfr p) as [Fd Fe]; [by left|].
    apply IH; [by apply e2_add_wf|done|done|].
    intros q Hq. destruct (Hfr q) as [Gd Ge]; [by right|]. simpl. split.
    - rewrite lookup_insert_ne; [done|]. intros Heq. apply Hdp.
      rewrite Heq. apply elem_of_list_In, in_map, elem_of_list_In, Hq.
    - rewrite lookup_insert_ne; [done|]. intros Heq. apply Hep.
      rewrite Heq. apply elem_of_list_In, in_map, elem_of_list_In, Hq.
  Qed.

  Lemma e2_init_wf g :
    NoDup (map tp_denom (eg_pairs g)) -> NoDup (map tp_erc20 (eg_pairs g)) -> e2_wf (e2_init pid g).
  Proof.
    intros Hd He. unfold e2_init. apply e2_fold_wf; [apply e2_wf_empty|done|done|].
    intros p _. simpl. by rewrite !lookup_empty.
  Qed.
End Erc20.

(** non-vacuity: two pairs registered, one toggled; the state satisfies the
    invariant, has both indexes populated and round-trips (ids by a toy pairing) *)
Definition toy_pid (a d : N) : N := Npos (encode (a, d)).
Lemma toy_pid_inj a d a' d' : toy_pid a d = toy_pid a' d' -> a = a' /\ d = d'.
Proof.
  unfold toy_pid. intros H. inversion H as [H']. apply (inj encode) in H'. by inversion H'.
Qed.
Example e2_nonvacuous :
  let s := fold_left (e2_step toy_pid)
             [E2Register (mk_pair 7 1 true 1); E2Register (mk_pair 9 2 true 1); E2Toggle (inl 2%N);
              E2Register (mk_pair 9 3 true 2) (* contract already registered: no effect *);
              E2SetParams true false]
             (mk_e2 true true ∅ ∅ ∅) in
  e2_wf toy_pid s /\
  e2_export s = mk_e2g true false [mk_pair 7 1 true 1; mk_pair 9 2 false 1] /\
  e2_export (e2_init toy_pid (e2_export s)) = e2_export s /\
  e2_ask (E2QPair (inr 9%N)) s = E2AO (Some (mk_pair 9 2 false 1)).
Proof.
  split; [apply e2_run_wf; [exact toy_pid_inj|apply e2_wf_empty]|].
  vm_compute. repeat split; reflexivity.
Qed.

(** * liquid vesting *)
Definition lv_wf (valid : N -> bool) (s : lv_state) : Prop :=
  valid (lv_params s) = true /\ forall b d, lv_denoms s !! b = Some d -> ld_base d = b.

Section Liquid.
  Variable valid : N -> bool.
  Variable name_of : N -> N.

  Lemma lv_init_export s : lv_wf valid s -> lv_init valid (lv_export s) = Some s.
  Proof.
    intros [Hv Hk]. unfold lv_init, lv_export; simpl. rewrite Hv.
    rewrite (keyed_roundtrip ld_base) by exact Hk. by destruct s.
  Qed.
  Lemma lv_export_init_export s :
    lv_wf valid s -> lv_export <$> lv_init valid (lv_export s) = Some (lv_export s).
  Proof. intros H. by rewrite lv_init_export. Qed.
  Lemma lv_query_equiv s q :
    lv_wf valid s -> lv_ask q <$> lv_init valid (lv_export s) = Some (lv_ask q s).
  Proof. intros H. by rewrite lv_init_export. Qed.

  Lemma lv_init_wf g s : lv_init valid g = Some s -> lv_wf valid s.
  Proof.
    unfold lv_init. destruct (valid (lg_params g)) eqn:Hv; [|done].
    intros [= <-]. split; [done|]. simpl. intros b d Hd.
    rewrite (import_keyed ld_base (fun x => x)) in Hd.
    apply import_map_elem, elem_of_list_In, in_map_iff in Hd as [x [Heq _]].
    by inversion Heq.
  Qed.

  Lemma lv_step_wf s o : lv_wf valid s -> lv_wf valid (lv_step valid name_of s o).
  Proof.
    intros [Hv Hk]. destruct o as [disp orig st en ps|b ps|b|p]; simpl.
    - split; [done|]. simpl. intros b d. rewrite lookup_insert_Some.
      intros [[<- <-]|[_ Hd]]; [done|by apply Hk].
    - destruct (lv_denoms s !! b) as [d0|] eqn:E; [|done].
      split; [done|]. simpl. intros b' d. rewrite lookup_insert_Some.
      intros [[<- <-]|[_ Hd]]; [simpl; by apply Hk|by apply Hk].
    - split; [done|]. simpl. intros b' d. rewrite lookup_delete_Some. intros [_ Hd]. by apply Hk.
    - destruct (valid p) eqn:E; [|done]. split; done.
  Qed.
  Lemma lv_run_wf ops s : lv_wf valid s -> lv_wf valid (fold_left (lv_step valid name_of) ops s).
  Proof. revert s. induction ops; simpl; auto using lv_step_wf. Qed.
End Liquid.

Example lv_nonvacuous :
  let v := fun _ : N => true in
  let s := fold_left (lv_step v (fun n => (100 + n)%N))
             [LvCreate 1 0 1700000000 1701000000 [(499489, [(0%N, 558500000000000000000)]); (500000, [(0%N, 558500000000000000000)])]%Z;
              LvCreate 2 0 1700000027 1701000005 [(10, [(0%N, 5)])]%Z;
              LvUpdate 100 [(499489, [(0%N, 100)])]%Z; LvDelete 101; LvSetParams 3]
             (mk_lv 0 0 ∅) in
  lv_wf v s /\ lv_counter s = 2%N /\
  lv_export s = mk_lvg 3 2 [mk_ld 100 1 0 1700000000 1701000000 [(499489, [(0%N, 100)])]%Z] /\
  lv_export <$> lv_init v (lv_export s) = Some (lv_export s).
Proof.
  split; [apply lv_run_wf; split; [done|]; intros b d; simpl; by rewrite lookup_empty|].
  vm_compute. repeat split; reflexivity.
Qed.
