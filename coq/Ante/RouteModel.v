(** Property C06 — model of the ante handler's routing and of the checks that keep
    Ethereum messages and authz-barred message types on their route.

    Transcribed from (pinned tree of /repo):
      app/ante/ante.go               NewAnteHandler           -> [select], [ante]
      app/ante/handler_options.go    the three decorator chains -> [cosmos_handler],
                                     [eip712_handler], [eth_handler]; the disabled list -> [real_dis]
      app/ante/cosmos/reject_msgs.go RejectMessagesDecorator  -> [reject_messages]
      app/ante/cosmos/authz.go       AuthzLimiterDecorator    -> [check_msg], [check_list], [check_disabled]
      cosmos-sdk x/auth/ante/ext.go  + types/dynamic_fee.go   -> [ext_options_decorator]
      app/ante/cosmos/eip712.go      VerifySignature (option count) -> [eip712_ext]
      app/ante/evm/setup_ctx.go      EthValidateBasicDecorator, and the type assertion
                                     repeated in every eth decorator -> [eth_validate_basic], [eth_sig_verify]

    Executable definitions only; the proofs are in RouteProofs.v. *)
From Coq Require Import NArith Arith Bool List.
Import ListNotations.

(** ** Messages *)

(** Message type urls are interned by the harness:
    0 MsgEthereumTx, 1 MsgCreateVestingAccount, 2 MsgSend, 3 MsgDelegate,
    4 MsgExec, 5 MsgGrant, 6 MsgRevoke, 7 MsgCreatePermanentLockedAccount, 8 an unregistered url. *)
Definition url := N.
Definition url_eth : url := 0%N.
Definition url_vesting : url := 1%N.

(** What the code distinguishes in a message tree. *)
Inductive msg :=
| Eth                      (* *evmtypes.MsgEthereumTx; its MsgTypeURL is url_eth *)
| Plain (u : url)          (* any other message, with its type url *)
| Exec (inner : list msg)  (* *authz.MsgExec with its packed messages *)
| Grant (u : url)          (* *authz.MsgGrant whose authorization's MsgTypeURL() is u
                              (GenericAuthorization{Msg:u}, SendAuthorization, StakeAuthorization ...) *)
| GrantBad                 (* *authz.MsgGrant whose GetAuthorization() fails (nil / not an Authorization) *)
| Opaque.                  (* a packed Any without a decoded sdk.Msg: only meaningful inside Exec,
                              where it makes MsgExec.GetMessages() fail *)

Definition is_eth (m : msg) : bool := match m with Eth => true | _ => false end.
Definition is_opaque (m : msg) : bool := match m with Opaque => true | _ => false end.

(** sdk.MsgTypeURL of a message that reaches the [default] branch of the limiter. *)
Definition direct_url (m : msg) : option url :=
  match m with Eth => Some url_eth | Plain u => Some u | _ => None end.

(** ** Results: [Ok] = the decorator called [next] / the handler accepted *)
Inductive res := Ok | Err (code : N).

Definition E_UNKNOWN_EXT : N := 1.    (* ErrUnknownExtensionOptions *)
Definition E_ETH_IN_COSMOS : N := 2.  (* RejectMessagesDecorator *)
Definition E_DISABLED : N := 3.       (* "found disabled msg type" *)
Definition E_TOO_DEEP : N := 4.       (* "found more nested msgs than permitted" *)
Definition E_UNPACK : N := 5.         (* GetMessages / GetAuthorization failed *)
Definition E_EXT_COUNT : N := 6.      (* "for eth tx length of ExtensionOptions should be 1" *)
Definition E_NON_ETH : N := 7.        (* "invalid message type ..., expected *MsgEthereumTx" *)
Definition E_REST : N := 9.           (* a decorator that is not modelled (fees, signatures, ...) *)

Definition code_of (r : res) : N := match r with Ok => 0%N | Err c => c end.

(** sequencing of decorators: the next one runs only when the previous called [next] *)
Definition andthen (r k : res) : res := match r with Ok => k | e => e end.

(** ** RejectMessagesDecorator: any top-level MsgEthereumTx *)
Definition reject_messages (msgs : list msg) : res :=
  if existsb is_eth msgs then Err E_ETH_IN_COSMOS else Ok.

(** ** AuthzLimiterDecorator *)
Definition max_nested_msgs : nat := 7.

(** One iteration of the [for _, msg := range msgs] loop of checkDisabledMsgs:
    the result for this message and the value of [nestedLvl] after the iteration.
    [nestedLvl++] happens once per *sibling* MsgExec and is never undone, so the
    counter grows with width as well as with depth. *)
Fixpoint check_msg (dis : url -> bool) (inner : bool) (lvl : nat) (m : msg) {struct m} : res * nat :=
  match m with
  | Exec ms =>
      if existsb is_opaque ms then (Err E_UNPACK, lvl)             (* msg.GetMessages() *)
      else
        let lvl' := S lvl in                                        (* nestedLvl++ *)
        ((if max_nested_msgs <=? lvl' then Err E_TOO_DEEP           (* entry test of the recursive call *)
          else (fix loop (l : list msg) (lv : nat) {struct l} : res :=
                  match l with
                  | [] => Ok
                  | x :: r => match check_msg dis true lv x with
                              | (Ok, lv') => loop r lv'
                              | (e, _) => e
                              end
                  end) ms lvl'), lvl')
  | Grant u => ((if dis u then Err E_DISABLED else Ok), lvl)
  | GrantBad => (Err E_UNPACK, lvl)
  | Opaque => (Err E_UNPACK, lvl)
  | Eth => ((if inner && dis url_eth then Err E_DISABLED else Ok), lvl)
  | Plain u => ((if inner && dis u then Err E_DISABLED else Ok), lvl)
  end.

Fixpoint check_loop (dis : url -> bool) (inner : bool) (l : list msg) (lv : nat) {struct l} : res :=
  match l with
  | [] => Ok
  | x :: r => match check_msg dis inner lv x with
              | (Ok, lv') => check_loop dis inner r lv'
              | (e, _) => e
              end
  end.

(** checkDisabledMsgs(msgs, isAuthzInnerMsg, nestedLvl) *)
Definition check_list (dis : url -> bool) (msgs : list msg) (inner : bool) (lvl : nat) : res :=
  if max_nested_msgs <=? lvl then Err E_TOO_DEEP else check_loop dis inner msgs lvl.

(** AnteHandle: checkDisabledMsgs(tx.GetMsgs(), false, 1) *)
Definition check_disabled (dis : url -> bool) (msgs : list msg) : res := check_list dis msgs false 1.

Definition dis_of_list (l : list url) (u : url) : bool := existsb (N.eqb u) l.

(** the list handler_options.go passes on both Cosmos routes *)
Definition real_dis : url -> bool := dis_of_list [url_eth; url_vesting].

(** ** Extension options *)
Inductive okind := KEth | KWeb3 | KDyn | KUnk.
(** [o_val]: the Any carries a decoded value of the type its url names (always the
    case for a transaction decoded from the wire). *)
Record opt := mkopt { o_kind : okind; o_val : bool }.

Inductive route := REth | REip712 | RCosmos | RReject.

(** NewAnteHandler: the type url of the FIRST option selects the chain *)
Definition select (opts : list opt) : route :=
  match opts with
  | [] => RCosmos
  | o :: _ => match o_kind o with
              | KEth => REth
              | KWeb3 => REip712
              | KDyn => RCosmos
              | KUnk => RReject
              end
  end.

(** ethermint.HasDynamicFeeExtensionOption, applied by the SDK's
    ExtensionOptionsDecorator to EVERY option (Cosmos route only) *)
Definition dyn_checker (o : opt) : bool :=
  match o_kind o with KDyn => o_val o | _ => false end.
Definition ext_options_decorator (opts : list opt) : res :=
  if forallb dyn_checker opts then Ok else Err E_UNKNOWN_EXT.

(** The EIP-712 chain has no ExtensionOptionsDecorator; the legacy signature
    verification demands exactly one option, a decoded ExtensionOptionsWeb3Tx. *)
Definition eip712_ext (opts : list opt) : res :=
  match opts with
  | [o] => match o_kind o with KWeb3 => if o_val o then Ok else Err E_UNKNOWN_EXT | _ => Err E_UNKNOWN_EXT end
  | _ => Err E_UNKNOWN_EXT
  end.

(** How the harness signed and funded the transaction; decides what the
    decorators that are NOT modelled (fee deduction, signature and nonce
    verification, gas accounting) answer on each route. *)
Inductive sign := SNone | SCosmos | SEip712 | SEth.

Definition rest (ok : bool) : res := if ok then Ok else Err E_REST.
Definition is_cosmos_signed s := match s with SCosmos => true | _ => false end.
Definition is_eip712_signed s := match s with SEip712 => true | _ => false end.
Definition is_eth_signed s := match s with SEth => true | _ => false end.
Definition has_signer_infos s := match s with SCosmos | SEip712 => true | _ => false end.

Record input := mkinput {
  i_dis : list url;       (* list given to the stand-alone limiter *)
  i_msgs : list msg;
  i_opts : list opt;      (* TxBody.extension_options *)
  i_noncrit : list opt;   (* TxBody.non_critical_extension_options: "if present and cannot be
                             handled, they are ignored" (cosmos tx.proto) *)
  i_sign : sign
}.

(** newCosmosAnteHandler *)
Definition cosmos_handler (i : input) : res :=
  andthen (reject_messages (i_msgs i))
 (andthen (check_disabled real_dis (i_msgs i))
 (andthen (ext_options_decorator (i_opts i))
          (rest (is_cosmos_signed (i_sign i))))).

(** newLegacyCosmosAnteHandlerEip712: the option count is only examined by the
    signature verification, i.e. after every other decorator *)
Definition eip712_handler (i : input) : res :=
  andthen (reject_messages (i_msgs i))
 (andthen (check_disabled real_dis (i_msgs i))
 (andthen (rest (is_eip712_signed (i_sign i)))
          (eip712_ext (i_opts i)))).

(** EthValidateBasicDecorator, in the order of its tests (MinGasPrice = 0 and
    London enabled in the harness' chain, so the two fee decorators before it pass
    every transaction on) *)
Definition eth_validate_basic (i : input) : res :=
  if negb (length (i_noncrit i) =? 0) then Err E_REST          (* "Memo TimeoutHeight NonCriticalExtensionOptions should be empty" *)
  else if negb (length (i_opts i) =? 1) then Err E_EXT_COUNT
  else if has_signer_infos (i_sign i) then Err E_REST           (* "SignerInfos should be empty" *)
  else if negb (forallb is_eth (i_msgs i)) then Err E_NON_ETH
  else rest (is_eth_signed (i_sign i)).                          (* declared fee and gas = sums over the messages *)

(** EthSigVerificationDecorator and every later eth decorator repeat the type
    assertion (this one also runs in ReCheckTx) *)
Definition eth_sig_verify (i : input) : res :=
  if negb (forallb is_eth (i_msgs i)) then Err E_NON_ETH else rest (is_eth_signed (i_sign i)).

(** newEVMAnteHandler *)
Definition eth_handler (i : input) : res :=
  andthen (eth_validate_basic i) (eth_sig_verify i).

(** NewAnteHandler *)
Definition ante (i : input) : res :=
  match select (i_opts i) with
  | REth => eth_handler i
  | REip712 => eip712_handler i
  | RCosmos => cosmos_handler i
  | RReject => Err E_UNKNOWN_EXT
  end.

(** ** Observation, as the harness prints it:
    [RejectMessages alone; AuthzLimiter(i_dis) alone; NewAnteHandler CheckTx; DeliverTx;
     the application's wired handler CheckTx; DeliverTx] *)
Definition observe (i : input) : list N :=
  let a := code_of (ante i) in
  [code_of (reject_messages (i_msgs i));
   code_of (check_disabled (dis_of_list (i_dis i)) (i_msgs i));
   a; a; a; a].

Definition list_N_eqb (a b : list N) : bool :=
  (length a =? length b) && forallb (fun p => N.eqb (fst p) (snd p)) (combine a b).

Definition check_case (c : input * list N) : bool := list_N_eqb (observe (fst c)) (snd c).

Fixpoint mismatches_from (k : nat) (cs : list (input * list N)) : list nat :=
  match cs with
  | [] => []
  | c :: r => if check_case c then mismatches_from (S k) r else k :: mismatches_from (S k) r
  end.
Definition mismatches (cs : list (input * list N)) : list nat := mismatches_from 0 cs.
