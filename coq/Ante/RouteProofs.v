(** Property C06 — proofs about Ante/RouteModel.v, for ALL message trees
    (any depth, any width, blocked items at any position), all option lists and
    all signing states. *)
From Coq Require Import NArith Arith Bool List Lia.
Import ListNotations.
From HV Require Import Ante.RouteModel.

(** * Induction over the rose tree of messages (written by hand: the principle
      Coq generates for a type nested through [list] has no hypothesis for the
      inner messages) *)
Section MsgInd.
  Variable P : msg -> Prop.
  Hypothesis HEth : P Eth.
  Hypothesis HPlain : forall u, P (Plain u).
  Hypothesis HExec : forall ms, Forall P ms -> P (Exec ms).
  Hypothesis HGrant : forall u, P (Grant u).
  Hypothesis HGrantBad : P GrantBad.
  Hypothesis HOpaque : P Opaque.

  Fixpoint msg_tree_ind (m : msg) : P m :=
    match m with
    | Eth => HEth
    | Plain u => HPlain u
    | Exec ms =>
        HExec ms ((fix go (l : list msg) : Forall P l :=
                     match l with
                     | [] => Forall_nil P
                     | x :: r => Forall_cons x (msg_tree_ind x) (go r)
                     end) ms)
    | Grant u => HGrant u
    | GrantBad => HGrantBad
    | Opaque => HOpaque
    end.
End MsgInd.

(** * Positions in a tree *)

(** [sub m t]: [m] is [t] or occurs somewhere below it *)
Inductive sub (m : msg) : msg -> Prop :=
| sub_here : sub m m
| sub_exec : forall ms c, In c ms -> sub m c -> sub m (Exec ms).

(** [m] occurs in the transaction, at top level or at any depth *)
Definition occurs (m : msg) (msgs : list msg) : Prop := exists t, In t msgs /\ sub m t.

(** [m] is one of the packed messages of some MsgExec of the transaction, at any depth *)
Definition inside_exec (m : msg) (msgs : list msg) : Prop :=
  exists ms, occurs (Exec ms) msgs /\ In m ms.

Lemma sub_trans m c t : sub m c -> sub c t -> sub m t.
Proof.
  intros Hmc Hct. induction Hct as [|ms c' Hin Hct IH]; [assumption|].
  eapply sub_exec; eauto.
Qed.

(** every occurrence is at top level or has a MsgExec parent *)
Lemma sub_parent m t : sub m t -> m = t \/ exists ms, sub (Exec ms) t /\ In m ms.
Proof.
  induction 1 as [|ms c Hin Hs IH].
  - now left.
  - right. destruct IH as [->|[ms' [Hs' Hin']]].
    + exists ms. split; [apply sub_here|assumption].
    + exists ms'. split; [eapply sub_exec; eauto|assumption].
Qed.

Lemma occurs_top_or_inside m msgs : occurs m msgs -> In m msgs \/ inside_exec m msgs.
Proof.
  intros [t [Hin Hs]]. destruct (sub_parent _ _ Hs) as [->|[ms [Hs' Hin']]].
  - now left.
  - right. exists ms. split; [exists t; auto|assumption].
Qed.

Lemma inside_exec_occurs m msgs : inside_exec m msgs -> occurs m msgs.
Proof.
  intros [ms [[t [Hin Hs]] Hm]]. exists t. split; [assumption|].
  eapply sub_trans; [|exact Hs]. eapply sub_exec; [exact Hm|apply sub_here].
Qed.

(** * The limiter: unfolding *)

Lemma check_msg_exec dis inner lvl ms :
  check_msg dis inner lvl (Exec ms) =
  if existsb is_opaque ms then (Err E_UNPACK, lvl)
  else (check_list dis ms true (S lvl), S lvl).
Proof.
  cbn [check_msg]. destruct (existsb is_opaque ms); [reflexivity|].
  unfold check_list. f_equal.
  destruct (max_nested_msgs <=? S lvl); [reflexivity|].
  generalize (S lvl) as n.
  induction ms as [|x r IH]; intros n; cbn [check_loop]; [reflexivity|].
  destruct (check_msg dis true n x) as [[|c] n']; [apply IH|reflexivity].
Qed.

(** * The limiter: an order-free characterisation of acceptance *)

(** no disabled message in an inner position, no grant of a disabled url, nothing malformed *)
Fixpoint clean_msg (dis : url -> bool) (inner : bool) (m : msg) {struct m} : bool :=
  match m with
  | Exec ms => negb (existsb is_opaque ms) && forallb (clean_msg dis true) ms
  | Grant u => negb (dis u)
  | GrantBad => false
  | Opaque => false
  | Eth => negb (inner && dis url_eth)
  | Plain u => negb (inner && dis u)
  end.

(** the counter after one loop iteration *)
Definition next_lvl (lv : nat) (m : msg) : nat := match m with Exec _ => S lv | _ => lv end.

(** the entry test [nestedLvl >= maxNestedMsgs] fires somewhere below [m] when the
    loop that reaches [m] runs at level [lv] *)
Fixpoint deep_msg (lv : nat) (m : msg) {struct m} : bool :=
  match m with
  | Exec ms =>
      (max_nested_msgs <=? S lv) ||
      (fix loop (l : list msg) (n : nat) {struct l} : bool :=
         match l with
         | [] => false
         | x :: r => deep_msg n x || loop r (next_lvl n x)
         end) ms (S lv)
  | _ => false
  end.

Fixpoint deep_loop (l : list msg) (n : nat) {struct l} : bool :=
  match l with
  | [] => false
  | x :: r => deep_msg n x || deep_loop r (next_lvl n x)
  end.

(** the exact bound: [deep_list msgs lvl] <-> some list of the tree is entered at level >= 7 *)
Definition deep_list (l : list msg) (lv : nat) : bool := (max_nested_msgs <=? lv) || deep_loop l lv.

Lemma deep_msg_exec lv ms : deep_msg lv (Exec ms) = deep_list ms (S lv).
Proof.
  (* the anonymous inner loop of [deep_msg] is, literally, [deep_loop] *)
  reflexivity.
Qed.

Lemma andb_true_split a b : a && b = true <-> a = true /\ b = true.
Proof. apply andb_true_iff. Qed.

Definition msg_exact (dis : url -> bool) (m : msg) : Prop :=
  forall inner lv,
    (fst (check_msg dis inner lv m) = Ok <-> clean_msg dis inner m = true /\ deep_msg lv m = false) /\
    (fst (check_msg dis inner lv m) = Ok -> snd (check_msg dis inner lv m) = next_lvl lv m).

Lemma loop_exact dis inner ms :
  Forall (msg_exact dis) ms ->
  forall lv, check_loop dis inner ms lv = Ok <->
             forallb (clean_msg dis inner) ms = true /\ deep_loop ms lv = false.
Proof.
  induction 1 as [|x r Hx _ IH]; intros lv; cbn [check_loop forallb deep_loop].
  - split; auto.
  - destruct (Hx inner lv) as [Hiff Hsnd].
    destruct (check_msg dis inner lv x) as [[|c] n'] eqn:E; cbn [fst snd] in *.
    + rewrite (Hsnd eq_refl). destruct (proj1 Hiff eq_refl) as [Hc Hd].
      rewrite Hc, Hd. cbn [andb orb]. apply IH.
    + split; [discriminate|]. intros [Hc Hd].
      apply andb_true_iff in Hc as [Hc _]. apply orb_false_iff in Hd as [Hd _].
      exfalso. assert (Err c = Ok) as X by (apply Hiff; auto). discriminate X.
Qed.

Ltac leaf_ok := cbn; split; [split; auto|auto].
Ltac leaf_err := cbn; split; [split; [discriminate|intros [X _]; discriminate X]|discriminate].

Lemma check_msg_exact dis m : msg_exact dis m.
Proof.
  induction m as [|u|ms IH|u| |] using msg_tree_ind; intros inner lv.
  - cbn. destruct (inner && dis url_eth); [leaf_err|leaf_ok].
  - cbn. destruct (inner && dis u); [leaf_err|leaf_ok].
  - rewrite check_msg_exec, deep_msg_exec. cbn [clean_msg next_lvl].
    destruct (existsb is_opaque ms); cbn [fst snd negb andb].
    + split; [split; [discriminate|intros [? _]; discriminate]|discriminate].
    + split; [|reflexivity].
      unfold check_list, deep_list.
      destruct (max_nested_msgs <=? S lv); cbn [orb].
      * split; [discriminate|intros [_ ?]; discriminate].
      * apply loop_exact; assumption.
  - cbn. destruct (dis u); [leaf_err|leaf_ok].
  - leaf_err.
  - leaf_err.
Qed.

Lemma all_exact dis ms : Forall (msg_exact dis) ms.
Proof. apply Forall_forall. intros; apply check_msg_exact. Qed.

(** checkDisabledMsgs accepts exactly the clean trees that never reach level 7 *)
Theorem check_list_exact dis msgs inner lv :
  check_list dis msgs inner lv = Ok <->
  forallb (clean_msg dis inner) msgs = true /\ deep_list msgs lv = false.
Proof.
  unfold check_list, deep_list. destruct (max_nested_msgs <=? lv); cbn [orb].
  - split; [discriminate|intros [_ ?]; discriminate].
  - apply loop_exact, all_exact.
Qed.

Theorem limiter_exact dis msgs :
  check_disabled dis msgs = Ok <->
  forallb (clean_msg dis false) msgs = true /\ deep_list msgs 1 = false.
Proof. apply check_list_exact. Qed.

(** * From the boolean characterisation to positions *)

Lemma clean_sub_exec dis ms t :
  sub (Exec ms) t -> forall inner, clean_msg dis inner t = true ->
  existsb is_opaque ms = false /\ forallb (clean_msg dis true) ms = true.
Proof.
  intros H. remember (Exec ms) as e eqn:He.
  induction H as [|ms' c Hin Hs IH]; intros inner Hc.
  - subst e. cbn [clean_msg] in Hc. apply andb_true_iff in Hc as [Ho Hf].
    split; [now apply negb_true_iff in Ho|assumption].
  - cbn [clean_msg] in Hc. apply andb_true_iff in Hc as [_ Hf].
    rewrite forallb_forall in Hf. apply (IH true). now apply Hf.
Qed.

Lemma clean_sub_grant dis u t :
  sub (Grant u) t -> forall inner, clean_msg dis inner t = true -> dis u = false.
Proof.
  intros H. remember (Grant u) as g eqn:Hg.
  induction H as [|ms' c Hin Hs IH]; intros inner Hc.
  - subst g. cbn [clean_msg] in Hc. now apply negb_true_iff in Hc.
  - cbn [clean_msg] in Hc. apply andb_true_iff in Hc as [_ Hf].
    rewrite forallb_forall in Hf. apply (IH true). now apply Hf.
Qed.

Lemma clean_sub_grantbad dis t :
  sub GrantBad t -> forall inner, clean_msg dis inner t = true -> False.
Proof.
  intros H. remember GrantBad as g eqn:Hg.
  induction H as [|ms' c Hin Hs IH]; intros inner Hc.
  - subst g. discriminate Hc.
  - cbn [clean_msg] in Hc. apply andb_true_iff in Hc as [_ Hf].
    rewrite forallb_forall in Hf. apply (IH true). now apply Hf.
Qed.

Lemma clean_inner_url dis m u :
  clean_msg dis true m = true -> direct_url m = Some u -> dis u = false.
Proof.
  destruct m; cbn; try discriminate; intros Hc Hu; injection Hu as <-;
    apply negb_true_iff in Hc; exact Hc.
Qed.

(** what the tree looks like, stated on positions *)
Record tree_clean (dis : url -> bool) (msgs : list msg) : Prop := {
  tc_inner : forall m u, inside_exec m msgs -> direct_url m = Some u -> dis u = false;
  tc_grant : forall u, occurs (Grant u) msgs -> dis u = false;
  tc_grantbad : ~ occurs GrantBad msgs;
  tc_opaque : ~ occurs Opaque msgs
}.

Lemma clean_forallb_tree dis msgs :
  forallb (clean_msg dis false) msgs = true -> tree_clean dis msgs.
Proof.
  intros Hf. rewrite forallb_forall in Hf. split.
  - intros m u [ms [[t [Hin Hs]] Hm]] Hu.
    destruct (clean_sub_exec dis ms t Hs false (Hf t Hin)) as [_ Hall].
    rewrite forallb_forall in Hall. eapply clean_inner_url; eauto.
  - intros u [t [Hin Hs]]. eapply clean_sub_grant; eauto.
  - intros [t [Hin Hs]]. eapply clean_sub_grantbad; eauto.
  - intros Ho. destruct (occurs_top_or_inside _ _ Ho) as [Hin|[ms [[t [Hin Hs]] Hm]]].
    + specialize (Hf _ Hin). discriminate Hf.
    + destruct (clean_sub_exec dis ms t Hs false (Hf t Hin)) as [Hop _].
      assert (existsb is_opaque ms = true) as X by (apply existsb_exists; exists Opaque; auto).
      congruence.
Qed.

(** the converse, by induction over the tree *)
Lemma tree_clean_msg dis t :
  forall inner,
    (forall m, sub m t -> m <> Opaque /\ m <> GrantBad) ->
    (inner = true -> forall u, direct_url t = Some u -> dis u = false) ->
    (forall ms m u, sub (Exec ms) t -> In m ms -> direct_url m = Some u -> dis u = false) ->
    (forall u, sub (Grant u) t -> dis u = false) ->
    clean_msg dis inner t = true.
Proof.
  induction t as [|u|ms IH|u| |] using msg_tree_ind; intros inner Hwf Htop Hin Hgr; cbn [clean_msg].
  - destruct inner; cbn [andb negb]; [|reflexivity]. now rewrite (Htop eq_refl url_eth eq_refl).
  - destruct inner; cbn [andb negb]; [|reflexivity]. now rewrite (Htop eq_refl u eq_refl).
  - apply andb_true_iff. split.
    + apply negb_true_iff. destruct (existsb is_opaque ms) eqn:E; [|reflexivity].
      apply existsb_exists in E as [c [Hc Ho]]. destruct c; try discriminate Ho.
      destruct (Hwf Opaque) as [X _]; [eapply sub_exec; [exact Hc|apply sub_here]|]. now elim X.
    + apply forallb_forall. intros c Hc. rewrite Forall_forall in IH.
      apply (IH c Hc true).
      * intros m Hm. apply Hwf. eapply sub_exec; eauto.
      * intros _ u Hu. eapply (Hin ms c u); [apply sub_here|assumption|assumption].
      * intros ms' m u Hs Hm Hu. eapply (Hin ms' m u); [eapply sub_exec; eauto|assumption|assumption].
      * intros u Hs. apply Hgr. eapply sub_exec; eauto.
  - apply negb_true_iff. apply Hgr. apply sub_here.
  - destruct (Hwf GrantBad (sub_here _)) as [_ X]. now elim X.
  - destruct (Hwf Opaque (sub_here _)) as [X _]. now elim X.
Qed.

Lemma tree_clean_forallb dis msgs :
  tree_clean dis msgs -> forallb (clean_msg dis false) msgs = true.
Proof.
  intros [Hi Hg Hgb Ho]. apply forallb_forall. intros t Ht.
  apply tree_clean_msg.
  - intros m Hm. split; intros ->; [apply Ho|apply Hgb]; exists t; auto.
  - discriminate.
  - intros ms m u Hs Hm Hu. apply (Hi m u); [|assumption]. exists ms. split; [exists t; auto|assumption].
  - intros u Hs. apply Hg. exists t; auto.
Qed.

(** * limiter_sound, limiter_complete, deep_tree_rejected *)

(** Soundness, for every tree and every disabled list: when the limiter lets a
    transaction through, no disabled message type sits inside any MsgExec at any
    depth, no MsgGrant anywhere (top level or nested) authorises a disabled type,
    and no level test fired. *)
Theorem limiter_sound dis msgs :
  check_disabled dis msgs = Ok ->
  (forall m u, inside_exec m msgs -> direct_url m = Some u -> dis u = false) /\
  (forall u, occurs (Grant u) msgs -> dis u = false) /\
  ~ occurs GrantBad msgs /\ ~ occurs Opaque msgs /\
  deep_list msgs 1 = false.
Proof.
  intros H. apply limiter_exact in H as [Hc Hd].
  destruct (clean_forallb_tree _ _ Hc) as [A B C D]. auto.
Qed.

(** Completeness: a well-formed tree without blocked content that stays under the
    cap is accepted. *)
Theorem limiter_complete dis msgs :
  tree_clean dis msgs -> deep_list msgs 1 = false -> check_disabled dis msgs = Ok.
Proof.
  intros Hc Hd. apply limiter_exact. split; [apply tree_clean_forallb|]; assumption.
Qed.

Theorem limiter_accepts_iff dis msgs :
  check_disabled dis msgs = Ok <-> tree_clean dis msgs /\ deep_list msgs 1 = false.
Proof.
  split.
  - intros H. apply limiter_exact in H as [Hc Hd]. split; [apply clean_forallb_tree|]; assumption.
  - intros [Hc Hd]. now apply limiter_complete.
Qed.

(** Beyond the cap everything is rejected, whatever the content and the list. *)
Theorem deep_tree_rejected dis msgs :
  deep_list msgs 1 = true -> check_disabled dis msgs <> Ok.
Proof.
  intros Hd H. apply limiter_exact in H as [_ H]. congruence.
Qed.

(** ** The bound in familiar measures *)

(** ordinary nesting depth of MsgExec wrappers *)
Fixpoint depth_msg (m : msg) : nat :=
  match m with
  | Exec ms => S ((fix go (l : list msg) : nat :=
                     match l with [] => 0 | x :: r => Nat.max (depth_msg x) (go r) end) ms)
  | _ => 0
  end.
Fixpoint depth_list (l : list msg) : nat :=
  match l with [] => 0 | x :: r => Nat.max (depth_msg x) (depth_list r) end.

Lemma depth_msg_exec ms : depth_msg (Exec ms) = S (depth_list ms).
Proof. reflexivity. Qed.

(** number of MsgExec nodes in the whole tree *)
Fixpoint execs_msg (m : msg) : nat :=
  match m with
  | Exec ms => S ((fix go (l : list msg) : nat :=
                     match l with [] => 0 | x :: r => execs_msg x + go r end) ms)
  | _ => 0
  end.
Fixpoint execs_list (l : list msg) : nat :=
  match l with [] => 0 | x :: r => execs_msg x + execs_list r end.

Lemma execs_msg_exec ms : execs_msg (Exec ms) = S (execs_list ms).
Proof. reflexivity. Qed.

(** number of MsgExec among the siblings of one list *)
Fixpoint sibling_execs (l : list msg) : nat :=
  match l with [] => 0 | Exec _ :: r => S (sibling_execs r) | _ :: r => sibling_execs r end.

Lemma next_lvl_ge lv m : lv <= next_lvl lv m.
Proof. destruct m; cbn; lia. Qed.

Lemma leb_max_true n : max_nested_msgs <= n -> (max_nested_msgs <=? n) = true.
Proof. intros. now apply Nat.leb_le. Qed.
Lemma leb_max_false n : n < max_nested_msgs -> (max_nested_msgs <=? n) = false.
Proof. intros. apply Nat.leb_gt. assumption. Qed.

(** a chain of wrappers [d] deep entered at level [lv] reaches level [lv + d] *)
Lemma deep_by_depth_msg m :
  forall lv, 1 <= depth_msg m -> max_nested_msgs <= lv + depth_msg m -> deep_msg lv m = true.
Proof.
  induction m as [|u|ms IH|u| |] using msg_tree_ind; intros lv H1 H7; cbn [depth_msg] in H1; try lia.
  rewrite depth_msg_exec in H7. rewrite deep_msg_exec. unfold deep_list.
  destruct (max_nested_msgs <=? S lv) eqn:E; [reflexivity|]. cbn [orb].
  apply Nat.leb_gt in E.
  assert (1 <= depth_list ms) as Hd by (unfold max_nested_msgs in *; lia).
  assert (max_nested_msgs <= S lv + depth_list ms) as Hs by lia.
  clear H1 H7 E. revert Hd Hs. generalize (S lv) as n.
  induction IH as [|x r Hx _ IHr]; intros n Hd Hs; cbn [depth_list deep_loop] in *; [lia|].
  destruct (Nat.max_spec (depth_msg x) (depth_list r)) as [[Hlt Hm]|[Hge Hm]]; rewrite Hm in *.
  - rewrite (IHr (next_lvl n x)); [apply orb_true_r|assumption|]. pose proof (next_lvl_ge n x). lia.
  - rewrite (Hx n); [reflexivity|lia|assumption].
Qed.

Theorem deep_by_depth msgs lv :
  max_nested_msgs <= lv + depth_list msgs -> deep_list msgs lv = true.
Proof.
  unfold deep_list. destruct (max_nested_msgs <=? lv) eqn:E; [reflexivity|]. cbn [orb].
  apply Nat.leb_gt in E. revert lv E.
  induction msgs as [|x r IH]; intros lv E H; cbn [depth_list deep_loop] in *; [lia|].
  destruct (Nat.max_spec (depth_msg x) (depth_list r)) as [[Hlt Hm]|[Hge Hm]]; rewrite Hm in *.
  - destruct (le_lt_dec max_nested_msgs (next_lvl lv x)) as [Hn|Hn].
    + destruct x; cbn [next_lvl] in Hn; try lia.
      rewrite deep_msg_exec. unfold deep_list. now rewrite (leb_max_true _ Hn).
    + rewrite (IH (next_lvl lv x)); [apply orb_true_r|assumption|]. pose proof (next_lvl_ge lv x). lia.
  - rewrite deep_by_depth_msg; [reflexivity|lia|assumption].
Qed.

(** few wrappers: never reaches the cap *)
Lemma shallow_by_execs_msg m :
  forall lv, lv + execs_msg m < max_nested_msgs -> deep_msg lv m = false.
Proof.
  induction m as [|u|ms IH|u| |] using msg_tree_ind; intros lv H; try reflexivity.
  rewrite execs_msg_exec in H. rewrite deep_msg_exec. unfold deep_list.
  rewrite leb_max_false by lia. cbn [orb].
  assert (S lv + execs_list ms < max_nested_msgs) as Hs by lia. clear H.
  revert Hs. generalize (S lv) as n.
  induction IH as [|x r Hx _ IHr]; intros n Hs; cbn [execs_list deep_loop] in *; [reflexivity|].
  rewrite (Hx n) by lia. cbn [orb]. apply IHr.
  assert (next_lvl n x <= n + execs_msg x) by (destruct x; cbn [next_lvl]; try lia; rewrite execs_msg_exec; lia).
  lia.
Qed.

Theorem shallow_by_execs msgs lv :
  lv + execs_list msgs < max_nested_msgs -> deep_list msgs lv = false.
Proof.
  unfold deep_list. intros H. rewrite leb_max_false by lia. cbn [orb].
  revert lv H. induction msgs as [|x r IH]; intros lv H; cbn [execs_list deep_loop] in *; [reflexivity|].
  rewrite shallow_by_execs_msg by lia. cbn [orb]. apply IH.
  assert (next_lvl lv x <= lv + execs_msg x) by (destruct x; cbn [next_lvl]; try lia; rewrite execs_msg_exec; lia).
  lia.
Qed.

(** width counts as depth: [k] sibling MsgExec push the counter to [lv + k] *)
Theorem deep_by_width msgs lv :
  max_nested_msgs <= lv + sibling_execs msgs -> deep_list msgs lv = true.
Proof.
  revert lv. induction msgs as [|x r IH]; intros lv H; unfold deep_list in *; cbn [sibling_execs deep_loop] in *.
  - rewrite leb_max_true by lia. reflexivity.
  - destruct (max_nested_msgs <=? lv) eqn:E; [reflexivity|]. cbn [orb]. apply Nat.leb_gt in E.
    assert (max_nested_msgs <= next_lvl lv x + sibling_execs r) as Hn by (destruct x; cbn [next_lvl]; lia).
    specialize (IH _ Hn). apply orb_true_iff in IH as [IH|IH].
    + apply Nat.leb_le in IH. destruct x; cbn [next_lvl] in IH; try lia.
      rewrite deep_msg_exec. unfold deep_list. rewrite leb_max_true by lia. reflexivity.
    + rewrite IH. apply orb_true_r.
Qed.

(** The three bounds on a whole transaction (the top-level list is entered at level 1):
    six nested wrappers, or six sibling wrappers in one list, are always rejected;
    five wrappers in total never trip the cap. *)
Theorem nesting_depth_6_rejected dis msgs :
  6 <= depth_list msgs -> check_disabled dis msgs <> Ok.
Proof. intros H. apply deep_tree_rejected, deep_by_depth. unfold max_nested_msgs. lia. Qed.

Theorem six_sibling_execs_rejected dis msgs :
  6 <= sibling_execs msgs -> check_disabled dis msgs <> Ok.
Proof. intros H. apply deep_tree_rejected, deep_by_width. unfold max_nested_msgs. lia. Qed.

Theorem five_execs_within_cap dis msgs :
  execs_list msgs <= 5 -> tree_clean dis msgs -> check_disabled dis msgs = Ok.
Proof.
  intros H Hc. apply limiter_complete; [assumption|]. apply shallow_by_execs. unfold max_nested_msgs. lia.
Qed.

(** ** RejectMessagesDecorator *)
Theorem reject_messages_sound msgs : reject_messages msgs = Ok -> ~ In Eth msgs.
Proof.
  unfold reject_messages. destruct (existsb is_eth msgs) eqn:E; [discriminate|]. intros _ Hin.
  assert (existsb is_eth msgs = true) as X by (apply existsb_exists; exists Eth; auto). congruence.
Qed.

Theorem reject_messages_complete msgs : ~ In Eth msgs -> reject_messages msgs = Ok.
Proof.
  unfold reject_messages. intros H. destruct (existsb is_eth msgs) eqn:E; [|reflexivity].
  apply existsb_exists in E as [m [Hin Hm]]. destruct m; try discriminate Hm. contradiction.
Qed.

(** * The whole ante handler *)

Lemma andthen_ok a b : andthen a b = Ok -> a = Ok /\ b = Ok.
Proof. destruct a; cbn; [auto|discriminate]. Qed.

Lemma real_dis_eth : real_dis url_eth = true.
Proof. reflexivity. Qed.
Lemma real_dis_vesting : real_dis url_vesting = true.
Proof. reflexivity. Qed.

Lemma cosmos_or_eip712_prefix i :
  (select (i_opts i) = RCosmos \/ select (i_opts i) = REip712) -> ante i = Ok ->
  reject_messages (i_msgs i) = Ok /\ check_disabled real_dis (i_msgs i) = Ok.
Proof.
  unfold ante. intros [-> | ->]; unfold cosmos_handler, eip712_handler; intros H;
    apply andthen_ok in H as [H1 H]; apply andthen_ok in H as [H2 _]; auto.
Qed.

(** A transaction accepted on the Cosmos route or on the EIP-712 route contains no
    MsgEthereumTx: not at top level, not inside any MsgExec at any depth. *)
Theorem eth_only_via_eth_route i :
  (select (i_opts i) = RCosmos \/ select (i_opts i) = REip712) -> ante i = Ok ->
  ~ occurs Eth (i_msgs i).
Proof.
  intros Hr Ha Ho. destruct (cosmos_or_eip712_prefix i Hr Ha) as [Hrm Hal].
  destruct (occurs_top_or_inside _ _ Ho) as [Hin|Hin].
  - exact (reject_messages_sound _ Hrm Hin).
  - destruct (limiter_sound _ _ Hal) as [Hi _].
    specialize (Hi Eth url_eth Hin eq_refl). rewrite real_dis_eth in Hi. discriminate Hi.
Qed.

(** ... and nothing on the disabled list is executed through a grant or granted. *)
Theorem blocked_types_neither_granted_nor_nested i :
  (select (i_opts i) = RCosmos \/ select (i_opts i) = REip712) -> ante i = Ok ->
  (forall m u, inside_exec m (i_msgs i) -> direct_url m = Some u -> real_dis u = false) /\
  (forall u, occurs (Grant u) (i_msgs i) -> real_dis u = false).
Proof.
  intros Hr Ha. destruct (cosmos_or_eip712_prefix i Hr Ha) as [_ Hal].
  destruct (limiter_sound _ _ Hal) as [A [B _]]. auto.
Qed.

Lemma forallb_is_eth msgs : forallb is_eth msgs = true -> Forall (fun m => m = Eth) msgs.
Proof.
  intros H. apply Forall_forall. intros m Hm. rewrite forallb_forall in H.
  specialize (H m Hm). destruct m; try discriminate H. reflexivity.
Qed.

(** On the Ethereum route every message is a MsgEthereumTx and the transaction
    carries exactly one extension option (the one that selected the route). *)
Theorem eth_route_only_eth_msgs_one_option i :
  select (i_opts i) = REth -> ante i = Ok ->
  Forall (fun m => m = Eth) (i_msgs i) /\
  (exists o, i_opts i = [o] /\ o_kind o = KEth) /\
  i_noncrit i = [].
Proof.
  unfold ante. intros Hs. rewrite Hs. unfold eth_handler. intros H.
  apply andthen_ok in H as [H _]. unfold eth_validate_basic in H.
  destruct (i_noncrit i) as [|? ?] eqn:En; [|discriminate H]. cbn [length Nat.eqb negb] in H.
  destruct (i_opts i) as [|o [|o' r]] eqn:Eo; cbn [length Nat.eqb negb] in H; try discriminate H.
  destruct (has_signer_infos (i_sign i)); [discriminate H|].
  destruct (forallb is_eth (i_msgs i)) eqn:Ef; [|discriminate H].
  split; [now apply forallb_is_eth|]. split; [|reflexivity].
  exists o. split; [reflexivity|]. cbn in Hs. destruct (o_kind o); try discriminate Hs. reflexivity.
Qed.

(** The option lists the handler can accept at all. *)
Theorem accepted_option_lists i :
  ante i = Ok ->
  (exists o, i_opts i = [o] /\ o_kind o = KEth) \/
  i_opts i = [mkopt KWeb3 true] \/
  Forall (fun o => o = mkopt KDyn true) (i_opts i).
Proof.
  intros H. destruct (select (i_opts i)) eqn:Es.
  - left. now destruct (eth_route_only_eth_msgs_one_option i Es H) as [_ [X _]].
  - right; left. unfold ante in H. rewrite Es in H. unfold eip712_handler in H.
    apply andthen_ok in H as [_ H]. apply andthen_ok in H as [_ H]. apply andthen_ok in H as [_ H].
    unfold eip712_ext in H. destruct (i_opts i) as [|[k v] [|? ?]]; try discriminate H.
    cbn in H. destruct k; try discriminate H. destruct v; [reflexivity|discriminate H].
  - right; right. unfold ante in H. rewrite Es in H. unfold cosmos_handler in H.
    apply andthen_ok in H as [_ H]. apply andthen_ok in H as [_ H]. apply andthen_ok in H as [H _].
    unfold ext_options_decorator in H. destruct (forallb dyn_checker (i_opts i)) eqn:Ef; [|discriminate H].
    apply Forall_forall. intros [k v] Ho. rewrite forallb_forall in Ef. specialize (Ef _ Ho).
    unfold dyn_checker in Ef. cbn in Ef. destruct k; try discriminate Ef. now subst v.
  - unfold ante in H. rewrite Es in H. discriminate H.
Qed.

(** A transaction carrying an unknown extension option, in any position and on
    any route, is rejected. *)
Theorem unknown_option_rejected_every_route i :
  (exists o, In o (i_opts i) /\ o_kind o = KUnk) -> ante i <> Ok.
Proof.
  intros [o [Hin Hk]] H. destruct (accepted_option_lists i H) as [[o' [E K]]|[E|F]].
  - rewrite E in Hin. destruct Hin as [<-|[]]. congruence.
  - rewrite E in Hin. destruct Hin as [<-|[]]. discriminate Hk.
  - rewrite Forall_forall in F. rewrite (F _ Hin) in Hk. discriminate Hk.
Qed.

(** Non-critical options are ignored on the two Cosmos routes (they are "ignored
    if they cannot be handled" by definition) and forbidden on the Ethereum route. *)
Theorem non_critical_options_ignored_off_eth_route d ms os nc s :
  select os <> REth -> ante (mkinput d ms os nc s) = ante (mkinput d ms os [] s).
Proof. unfold ante. cbn [i_opts]. destruct (select os); intros H; try reflexivity. now elim H. Qed.

(** Headline: whatever the tree, the options and the signing state, an accepted
    transaction (a) carries no unknown option, (b) contains a MsgEthereumTx only if
    it went through the Ethereum route and consists of nothing but MsgEthereumTx,
    (c) has no disabled type inside a MsgExec and no grant of a disabled type. *)
Theorem accepted_transaction_is_clean i :
  ante i = Ok ->
  (forall o, In o (i_opts i) -> o_kind o <> KUnk) /\
  (occurs Eth (i_msgs i) -> select (i_opts i) = REth /\ Forall (fun m => m = Eth) (i_msgs i)) /\
  (forall m u, inside_exec m (i_msgs i) -> direct_url m = Some u -> real_dis u = false) /\
  (forall u, occurs (Grant u) (i_msgs i) -> real_dis u = false).
Proof.
  intros H. split; [|split].
  - intros o Hin Hk. apply (unknown_option_rejected_every_route i); [exists o; auto|assumption].
  - intros Ho. destruct (select (i_opts i)) eqn:Es.
    + split; [reflexivity|]. now destruct (eth_route_only_eth_msgs_one_option i Es H).
    + exfalso. apply (eth_only_via_eth_route i); auto.
    + exfalso. apply (eth_only_via_eth_route i); auto.
    + unfold ante in H. rewrite Es in H. discriminate H.
  - destruct (select (i_opts i)) eqn:Es.
    + destruct (eth_route_only_eth_msgs_one_option i Es H) as [Hall _].
      rewrite Forall_forall in Hall.
      assert (forall x t, In t (i_msgs i) -> sub x t -> x = Eth) as Honly.
      { intros x t Hin Hs. rewrite (Hall _ Hin) in Hs. inversion Hs. reflexivity. }
      split.
      * intros m u [ms [[t [Hin Hs]] _]] _. discriminate (Honly _ _ Hin Hs).
      * intros u [t [Hin Hs]]. discriminate (Honly _ _ Hin Hs).
    + apply blocked_types_neither_granted_nor_nested; auto.
    + apply blocked_types_neither_granted_nor_nested; auto.
    + unfold ante in H. rewrite Es in H. discriminate H.
Qed.

(** * Non-vacuity and the exact position of the cap *)

(** [nest d l]: [l] wrapped in [d] MsgExec *)
Fixpoint nest (d : nat) (l : list msg) : list msg :=
  match d with 0 => l | S d' => [Exec (nest d' l)] end.

Definition send := Plain 2%N.

Example accept_plain : ante (mkinput [] [send] [] [] SCosmos) = Ok.
Proof. reflexivity. Qed.
Example accept_nested :
  ante (mkinput [] [Exec [send; Exec [Grant 2%N; Plain 3%N]]; Plain url_vesting] [mkopt KDyn true] [] SCosmos) = Ok.
Proof. reflexivity. Qed.
Example accept_eip712 : ante (mkinput [] [Exec [send]] [mkopt KWeb3 true] [] SEip712) = Ok.
Proof. reflexivity. Qed.
Example accept_eth : ante (mkinput [] [Eth; Eth] [mkopt KEth true] [] SEth) = Ok.
Proof. reflexivity. Qed.
(** a top-level MsgCreateVestingAccount is not barred, only its delegation is *)
Example vesting_top_level_ok : check_disabled real_dis [Plain url_vesting] = Ok.
Proof. reflexivity. Qed.

Example reject_eth_in_cosmos_tx : ante (mkinput [] [send; Eth] [] [] SCosmos) = Err E_ETH_IN_COSMOS.
Proof. reflexivity. Qed.
Example reject_eth_in_exec_in_exec : ante (mkinput [] [Exec [send; Exec [send; Eth]]] [] [] SCosmos) = Err E_DISABLED.
Proof. reflexivity. Qed.
Example reject_vesting_in_exec_eip712 :
  ante (mkinput [] [Exec [Plain url_vesting]] [mkopt KWeb3 true] [] SEip712) = Err E_DISABLED.
Proof. reflexivity. Qed.
Example reject_grant_of_eth_nested : ante (mkinput [] [Exec [Exec [Grant url_eth]]] [] [] SCosmos) = Err E_DISABLED.
Proof. reflexivity. Qed.
Example reject_unknown_second_option_eip712 :
  ante (mkinput [] [send] [mkopt KWeb3 true; mkopt KUnk true] [] SEip712) = Err E_UNKNOWN_EXT.
Proof. reflexivity. Qed.
Example reject_unknown_second_option_eth :
  ante (mkinput [] [Eth] [mkopt KEth true; mkopt KUnk true] [] SEth) = Err E_EXT_COUNT.
Proof. reflexivity. Qed.
Example reject_cosmos_msg_on_eth_route : ante (mkinput [] [Eth; send] [mkopt KEth true] [] SEth) = Err E_NON_ETH.
Proof. reflexivity. Qed.

(** the cap sits exactly between 5 and 6 nested wrappers ... *)
Example chain_5_accepted : check_disabled real_dis (nest 5 [send]) = Ok.
Proof. reflexivity. Qed.
Example chain_6_rejected : check_disabled real_dis (nest 6 [send]) = Err E_TOO_DEEP.
Proof. reflexivity. Qed.
(** ... and between 5 and 6 sibling wrappers, although nothing is nested *)
Example wide_5_accepted : check_disabled real_dis (repeat (Exec [send]) 5) = Ok.
Proof. reflexivity. Qed.
Example wide_6_rejected : check_disabled real_dis (repeat (Exec [send]) 6) = Err E_TOO_DEEP.
Proof. reflexivity. Qed.
(** depth and width add up: 3 siblings, the third one 3 deep *)
Example mixed_rejected :
  check_disabled real_dis [Exec [send]; Exec [send]; Exec (nest 3 [send])] = Err E_TOO_DEEP.
Proof. reflexivity. Qed.
Example mixed_accepted :
  check_disabled real_dis [Exec (nest 3 [send]); Exec [send]; Exec [send]] = Ok.
Proof. reflexivity. Qed.
(** the blocked message as last sibling at the deepest accepted level is still found *)
Example blocked_last_sibling_at_max_depth :
  check_disabled real_dis (nest 5 [send; send; send; send; Eth]) = Err E_DISABLED.
Proof. reflexivity. Qed.

(** The order of siblings matters to the level arithmetic (the two [mixed_*]
    examples are permutations of each other): acceptance by the limiter is not
    invariant under reordering the messages of a transaction. *)
Theorem limiter_not_permutation_invariant :
  exists a b, (forall m, In m a <-> In m b) /\ length a = length b /\
              check_disabled real_dis a = Ok /\ check_disabled real_dis b <> Ok.
Proof.
  exists [Exec (nest 3 [send]); Exec [send]; Exec [send]], [Exec [send]; Exec [send]; Exec (nest 3 [send])].
  split; [|split; [reflexivity|split; [reflexivity|discriminate]]].
  intros m; cbn; tauto.
Qed.
