(** Signatures, chain ids and sequence numbers in the ante handlers (property
    C03): executable model of

      app/ante/evm/sigverify.go   EthSigVerificationDecorator
      app/ante/evm/eth.go         EthIncrementSenderSequenceDecorator
      app/ante/cosmos/eip712.go   LegacyEip712SigVerificationDecorator / VerifySignature
      cosmos-sdk x/auth/ante      SigVerificationDecorator, IncrementSequenceDecorator
      crypto/ethsecp256k1         PubKey.VerifySignature
      types/chain_id.go           ParseChainID

    Definitions only; the proofs are in SigProofs.v.

    The core is one state machine, [step]: the state maps every account to its
    sequence number; a submitted transaction is authenticated as some account
    ([auth], which may depend on the state: a Cosmos sign doc contains the
    account's current sequence), its nonce / claimed sequence must EQUAL that
    account's sequence (in CheckTx and in DeliverTx alike: the increment
    decorator checks equality in every mode), every other ante check (fees,
    balance, gas, message validity; an account that does not exist in
    DeliverTx) is an arbitrary boolean supplied with the submission, and an
    accepted transaction bumps the sequence by one.  The three routes are
    instances that differ only in [auth].

    One Cosmos transaction of the Ethereum route may carry SEVERAL
    MsgEthereumTx, each with its own signature and nonce ([step_tx]):
    EthSigVerificationDecorator authenticates every message, then
    EthIncrementSenderSequenceDecorator walks over the messages in order, reads
    the sender's account afresh for every message, demands nonce = CURRENT
    sequence (which already counts the earlier messages of this very
    transaction) and bumps it; any failure fails the whole transaction and
    baseapp drops every write of the ante handler.  [step] is the
    one-message case of [step_tx] ([step_tx_singleton] in SigProofs.v). *)
From Coq Require Import Ascii String.
From Coq Require Import NArith ZArith List Bool.
From HV Require Import Base.Bytes Base.Rlp TxCodec.EthTxModel.
Import ListNotations.

(** * histories of an arbitrary step function

    [stepE st e] = new state and, if the event is accepted, the accounts on whose
    behalf its signed messages [msgsE e] execute, in message order. *)
Section History.
  Context {A E M : Type}.
  Variable stepE : (A -> N) -> E -> (A -> N) * option (list A).
  Variable msgsE : E -> list M.
  Variable nonceM : M -> N.

  Fixpoint outcomes_gen (st : A -> N) (h : list E) : list (option (list A)) :=
    match h with
    | [] => []
    | e :: r => snd (stepE st e) :: outcomes_gen (fst (stepE st e)) r
    end.
  Fixpoint final_gen (st : A -> N) (h : list E) : A -> N :=
    match h with
    | [] => st
    | e :: r => final_gen (fst (stepE st e)) r
    end.
  (** "signed message number [k] of event number [j] of history [h] (started in
      [st]) was executed on behalf of account [a] with nonce [n]" *)
  Definition executed_gen (st : A -> N) (h : list E) (j k : nat) (a : A) (n : N) : Prop :=
    exists e l m, nth_error h j = Some e /\ nth_error (outcomes_gen st h) j = Some (Some l) /\
                  nth_error (msgsE e) k = Some m /\ nth_error l k = Some a /\ nonceM m = n.
End History.

(** * contract creations: what the EXECUTION of a message does to the sender's nonce

    x/evm/keeper/state_transition.go ApplyMessageWithConfig, msg.To() == nil:
    "take over the nonce management from evm": SetNonce(sender, msg.Nonce()),
    evm.Create, SetNonce(sender, nonceAfter).  ApplyTransaction keeps these writes
    only if the EVM execution did not fail.  [creates]: the message is a contract
    creation; [create_ok]: its EVM execution succeeded.  The rule maps (nonce of
    the sender when the message starts to execute, nonce of the message) to the
    nonce written afterwards:
    - as the code has it now: nonceAfter = max(nonceBefore, msg.Nonce() + 1);
    - as it was before commit f9ff121: msg.Nonce() + 1, which is BELOW what the
      ante handler had stored when further messages of the sender follow in the
      same Cosmos transaction. *)
Record cflag := mk_cflag { creates : bool; create_ok : bool }.
Definition sets_nonce (f : cflag) : bool := creates f && create_ok f.
Definition no_creation : cflag := mk_cflag false false.
Definition nonce_after_creation (before m : N) : N := N.max before (m + 1).
Definition nonce_after_creation_old (before m : N) : N := (m + 1)%N.

(** * the generic machine *)
Section Machine.
  Context {A T : Type}.
  Variable A_dec : forall a b : A, {a = b} + {a <> b}.
  (** who the transaction is authenticated as, given the current sequences *)
  Variable auth : (A -> N) -> T -> option A.
  (** the nonce (Ethereum) / the sequence claimed in the signer info (Cosmos) *)
  Variable nonce_of : T -> N.

  Definition upd (st : A -> N) (a : A) (v : N) : A -> N := fun b => if A_dec a b then v else st b.

  (** one submission = a transaction and the verdict of the unmodelled checks;
      result = new state and the account on whose behalf it executes, if any *)
  Definition step (st : A -> N) (x : T * bool) : (A -> N) * option A :=
    let '(t, other_ok) := x in
    match auth st t with
    | Some a => if (nonce_of t =? st a)%N && other_ok then (upd st a (st a + 1)%N, Some a) else (st, None)
    | None => (st, None)
    end.

  (** the outcomes of a whole history, and the final state *)
  Fixpoint outcomes (st : A -> N) (h : list (T * bool)) : list (option A) :=
    match h with
    | [] => []
    | x :: r => snd (step st x) :: outcomes (fst (step st x)) r
    end.
  Fixpoint final (st : A -> N) (h : list (T * bool)) : A -> N :=
    match h with
    | [] => st
    | x :: r => final (fst (step st x)) r
    end.

  (** "submission number [j] of history [h] (started in [st]) was accepted on
      behalf of account [a] with nonce [n]" *)
  Definition accepted_at (st : A -> N) (h : list (T * bool)) (j : nat) (a : A) (n : N) : Prop :=
    exists t ok, nth_error h j = Some (t, ok) /\ nth_error (outcomes st h) j = Some (Some a) /\ nonce_of t = n.

  (** ** one transaction, several signed messages

      EthSigVerificationDecorator: the loop over tx.GetMsgs() authenticates every
      message (against the state the transaction started in; the Ethereum [auth]
      does not look at it) and fails on the first one that is refused *)
  Fixpoint auth_all (st : A -> N) (ms : list T) : option (list A) :=
    match ms with
    | [] => Some []
    | m :: r => match auth st m with
                | Some a => match auth_all st r with Some l => Some (a :: l) | None => None end
                | None => None
                end
    end.

  (** EthIncrementSenderSequenceDecorator: the loop over tx.GetMsgs(); for every
      message GetAccount(sender), nonce <> acc.GetSequence() -> error, else
      SetSequence(nonce + 1), SetAccount -- so the next message of the same
      sender is compared with the bumped sequence *)
  Fixpoint bump_all (st : A -> N) (l : list (A * N)) : option (A -> N) :=
    match l with
    | [] => Some st
    | (a, n) :: r => if (n =? st a)%N then bump_all (upd st a (st a + 1)%N) r else None
    end.

  (** one submission = the messages of one Cosmos transaction and the verdict of
      the unmodelled checks (one for the transaction); result = new state and
      the accounts on whose behalf the messages execute, in message order.  A
      transaction without messages is refused (baseapp.validateBasicTxMsgs);
      a refused transaction leaves no trace (baseapp.runTx writes the ante
      handler's branch of the state back only on success). *)
  Definition step_tx (st : A -> N) (x : list T * bool) : (A -> N) * option (list A) :=
    let '(ms, other_ok) := x in
    match ms with
    | [] => (st, None)
    | _ =>
        match auth_all st ms with
        | Some l =>
            match bump_all st (combine l (map nonce_of ms)) with
            | Some st' => if other_ok then (st', Some l) else (st, None)
            | None => (st, None)
            end
        | None => (st, None)
        end
    end.

  Fixpoint outcomes_tx (st : A -> N) (h : list (list T * bool)) : list (option (list A)) :=
    match h with
    | [] => []
    | x :: r => snd (step_tx st x) :: outcomes_tx (fst (step_tx st x)) r
    end.
  Fixpoint final_tx (st : A -> N) (h : list (list T * bool)) : A -> N :=
    match h with
    | [] => st
    | x :: r => final_tx (fst (step_tx st x)) r
    end.

  (** "message number [k] of transaction number [j] of history [h] (started in
      [st]) was executed on behalf of account [a] with nonce [n]" *)
  Definition executed_at (st : A -> N) (h : list (list T * bool)) (j k : nat) (a : A) (n : N) : Prop :=
    exists ms ok l m, nth_error h j = Some (ms, ok) /\ nth_error (outcomes_tx st h) j = Some (Some l) /\
                      nth_error ms k = Some m /\ nth_error l k = Some a /\ nonce_of m = n.

  (** ** signed messages carried by a submission that is not their route

      A signed message (a MsgEthereumTx) can also be SHIPPED inside a Cosmos
      transaction that is not the message's own route: as an inner message of
      authz.MsgExec (alone, behind plain messages, nested, beside other inner
      messages, signed by the message's signer or by somebody else), as a plain
      message of an ordinary Cosmos transaction without the Ethereum extension
      option, inside an EIP-712-signed Cosmos transaction, or behind the
      Ethereum extension option but inside a wrapper.  The code refuses every
      such transaction before anything is executed (RejectMessagesDecorator,
      AuthzLimiterDecorator with MsgEthereumTx among the disabled types, the type
      assertion of the Ethereum ante chain): the acceptance rule of a wrapped
      submission is "never" -- whatever the outer signature, whatever the
      carried messages (fresh, executed before, from the future), whatever the
      verdict of the other checks -- and it leaves the state as it was.  [w]
      describes the wrapper (its own signed unit, its shape); the rule does not
      look at it. *)
  Context {W : Type}.
  Inductive submission :=
  | Direct (ms : list T) (other_ok : bool)                    (* the messages' own route: [step_tx] *)
  | Wrapped (w : W) (carried : list T) (other_ok : bool).     (* any other way of shipping them *)

  (** the signed messages a submission contains, in order *)
  Definition msgs_of (x : submission) : list T :=
    match x with Direct ms _ => ms | Wrapped _ c _ => c end.

  Definition step_any (st : A -> N) (x : submission) : (A -> N) * option (list A) :=
    match x with
    | Direct ms ok => step_tx st (ms, ok)
    | Wrapped _ _ _ => (st, None)
    end.

  Fixpoint outcomes_any (st : A -> N) (h : list submission) : list (option (list A)) :=
    match h with
    | [] => []
    | x :: r => snd (step_any st x) :: outcomes_any (fst (step_any st x)) r
    end.
  Fixpoint final_any (st : A -> N) (h : list submission) : A -> N :=
    match h with
    | [] => st
    | x :: r => final_any (fst (step_any st x)) r
    end.

  (** "signed message number [k] of submission number [j] of history [h]
      (started in [st]) -- direct or carried by a wrapper -- was executed on
      behalf of account [a] with nonce [n]" *)
  Definition executed_any (st : A -> N) (h : list submission) (j k : nat) (a : A) (n : N) : Prop :=
    exists x l m, nth_error h j = Some x /\ nth_error (outcomes_any st h) j = Some (Some l) /\
                  nth_error (msgs_of x) k = Some m /\ nth_error l k = Some a /\ nonce_of m = n.

  (** ** Ethereum-route transactions whose messages may be contract creations

      The ante handler is [step_tx] (both loops run before the first message
      executes: the sequence of every sender has been advanced by the number of
      its messages).  Then the messages execute in order; a call does not touch
      the sender's nonce; a successful creation with nonce [m] writes
      [rule (current nonce) m]. *)
  Variable rule : N -> N -> N.
  Fixpoint exec_all (st : A -> N) (l : list (A * N * cflag)) : A -> N :=
    match l with
    | [] => st
    | (a, m, f) :: r => exec_all (if sets_nonce f then upd st a (rule (st a) m) else st) r
    end.
  Definition step_txc (st : A -> N) (x : list (T * cflag) * bool) : (A -> N) * option (list A) :=
    let '(msc, other_ok) := x in
    match step_tx st (map fst msc, other_ok) with
    | (st', Some l) => (exec_all st' (combine (combine l (map nonce_of (map fst msc))) (map snd msc)), Some l)
    | (st', None) => (st', None)
    end.

  (** ** events: everything that can happen to the sequences

      - [ESub]: a submission as above;
      - [ECreating]: an Ethereum-route transaction with per-message creation flags;
      - [EAccountOp]: an operation on the TYPE of account [target] (conversion into
        a vesting account by a third party, a further vesting grant merged into
        it, conversion back) -- itself a transaction with its own signed units
        (the funder's signature, [step_tx]); [target] and the operation [o] do
        not enter the rule: the operation leaves the target's sequence alone. *)
  Context {O : Type}.
  Inductive event :=
  | ESub (x : submission)
  | ECreating (ms : list (T * cflag)) (other_ok : bool)
  | EAccountOp (o : O) (target : A) (signed : list T) (other_ok : bool).

  Definition msgs_of_event (e : event) : list T :=
    match e with ESub x => msgs_of x | ECreating ms _ => map fst ms | EAccountOp _ _ s _ => s end.

  Definition step_event (st : A -> N) (e : event) : (A -> N) * option (list A) :=
    match e with
    | ESub x => step_any st x
    | ECreating ms ok => step_txc st (ms, ok)
    | EAccountOp _ _ s ok => step_tx st (s, ok)
    end.

  Definition outcomes_event := outcomes_gen step_event.
  Definition final_event := final_gen step_event.
  Definition executed_event := executed_gen step_event msgs_of_event nonce_of.
End Machine.

(** * the Ethereum route *)
Record chain_cfg := mk_cfg {
  c_eip155 : Z;              (* ParseChainID(ctx.ChainID()): haqq_11235-1 -> 11235 *)
  c_allow_unprotected : bool (* EVM parameter AllowUnprotectedTxs *)
}.

Section EthRoute.
  Variable hash : bytes -> bytes.
  Variable recover : bytes -> Z -> Z -> Z -> option bytes.
  Variable cfg : chain_cfg.

  (** EthSigVerificationDecorator: unprotected transactions are refused unless
      the parameter allows them; the sender is recovered with the signer of the
      chain's own EIP-155 id, which refuses any other chain id *)
  Definition auth_eth (_ : bytes -> N) (tx : eth_tx) : option bytes :=
    if negb (c_allow_unprotected cfg) && negb (protected tx) then None
    else sender hash recover (c_eip155 cfg) tx.

  Definition step_eth := step (list_eq_dec N.eq_dec) auth_eth tx_nonce.
  Definition outcomes_eth := outcomes (list_eq_dec N.eq_dec) auth_eth tx_nonce.
  Definition accepted_eth := accepted_at (list_eq_dec N.eq_dec) auth_eth tx_nonce.

  (** one Cosmos transaction carrying a list of MsgEthereumTx *)
  Definition step_eth_tx := step_tx (list_eq_dec N.eq_dec) auth_eth tx_nonce.
  Definition outcomes_eth_tx := outcomes_tx (list_eq_dec N.eq_dec) auth_eth tx_nonce.
  Definition final_eth_tx := final_tx (list_eq_dec N.eq_dec) auth_eth tx_nonce.
  Definition executed_eth := executed_at (list_eq_dec N.eq_dec) auth_eth tx_nonce.

  (** histories in which signed Ethereum messages are also shipped on other
      routes (wrapped in authz.MsgExec, as plain Cosmos messages, ...) *)
  Definition step_eth_any {W} := step_any (W:=W) (list_eq_dec N.eq_dec) auth_eth tx_nonce.
  Definition outcomes_eth_any {W} := outcomes_any (W:=W) (list_eq_dec N.eq_dec) auth_eth tx_nonce.
  Definition final_eth_any {W} := final_any (W:=W) (list_eq_dec N.eq_dec) auth_eth tx_nonce.
  Definition executed_eth_any {W} := executed_any (W:=W) (list_eq_dec N.eq_dec) auth_eth tx_nonce.

  (** transactions with contract creations, and histories of events, under a
      given rule for the nonce a successful creation writes *)
  Definition step_eth_txc (rule : N -> N -> N) := step_txc (list_eq_dec N.eq_dec) auth_eth tx_nonce rule.
  Definition outcomes_eth_txc (rule : N -> N -> N) := outcomes_gen (step_eth_txc rule).
  Definition final_eth_txc (rule : N -> N -> N) := final_gen (step_eth_txc rule).
  Definition executed_eth_txc (rule : N -> N -> N) :=
    executed_gen (step_eth_txc rule) (fun x : list (eth_tx * cflag) * bool => map fst (fst x)) tx_nonce.
  Definition step_eth_event {W O} (rule : N -> N -> N) := step_event (W:=W) (O:=O) (list_eq_dec N.eq_dec) auth_eth tx_nonce rule.
  Definition outcomes_eth_event {W O} (rule : N -> N -> N) := outcomes_event (W:=W) (O:=O) (list_eq_dec N.eq_dec) auth_eth tx_nonce rule.
  Definition final_eth_event {W O} (rule : N -> N -> N) := final_event (W:=W) (O:=O) (list_eq_dec N.eq_dec) auth_eth tx_nonce rule.
  Definition executed_eth_event {W O} (rule : N -> N -> N) := executed_event (W:=W) (O:=O) (list_eq_dec N.eq_dec) auth_eth tx_nonce rule.

  (** ** the message as it travels: Data, and the self-reported Hash and From

      A MsgEthereumTx ([emsg], TxCodec/EthTxModel.v) carries the TxData ([Data])
      and two texts anybody can write: [Hash] and [From].
      - MsgEthereumTx.ValidateBasic (baseapp.validateBasicTxMsgs, CheckTx and
        DeliverTx alike) converts Data ([AsTransaction]), recomputes the hash of
        the conversion and refuses a message whose [Hash] is any other text;
      - EthValidateBasicDecorator refuses a message whose [From] is not empty
        (EthSigVerificationDecorator writes the recovered sender there later).
      Everything that follows -- the sender recovery, the comparison of the nonce
      with the sequence, the fee, CanTransfer, ApplyTransaction -- works on
      [as_tx m], the conversion of [Data] made afresh at every use: nothing is
      looked up by the Hash or From text, nothing about a message seen earlier
      is remembered.  So [Hash] and [From] can only make a message be refused. *)
  Definition claims_ok (m : emsg) (tx : eth_tx) : bool :=
    String.eqb (m_hash m) (hash_hex (tx_hash hash tx)) && String.eqb (m_from m) EmptyString.
  Definition auth_emsg (st : bytes -> N) (m : emsg) : option bytes :=
    match as_tx m with
    | Some tx => if claims_ok m tx then auth_eth st tx else None
    | None => None
    end.
  Definition emsg_nonce (m : emsg) : N := match as_tx m with Some tx => tx_nonce tx | None => 0%N end.

  (** one Cosmos transaction carrying a list of MsgEthereumTx, as messages *)
  Definition step_emsg_tx := step_tx (list_eq_dec N.eq_dec) auth_emsg emsg_nonce.
  Definition outcomes_emsg_tx := outcomes_tx (list_eq_dec N.eq_dec) auth_emsg emsg_nonce.
  Definition final_emsg_tx := final_tx (list_eq_dec N.eq_dec) auth_emsg emsg_nonce.
  Definition executed_emsg := executed_at (list_eq_dec N.eq_dec) auth_emsg emsg_nonce.

  (** NOT the code of /repo: the same route with a process-wide memo "Hash text
      -> converted transaction" in front of [AsTransaction] (an optimisation one
      might add: the conversion is made about ten times per message).  The memo
      is filled by ValidateBasic after its hash check and consulted, by the
      message's SELF-REPORTED [Hash], before Data is converted -- also by that
      very hash check.  It belongs to the process, not to the state: it survives
      refused transactions.  The nonce comparison and the sequence increment read
      Data ([emsg_nonce]); sender, and what executes, come through the memo.  One
      message per transaction is enough to state what this breaks
      ([memo_replays_refuted] in SigProofs.v): the outcome names the account AND
      the transaction that executes. *)
  Definition memo := list (string * eth_tx).
  Definition as_tx_memo (mm : memo) (m : emsg) : option eth_tx :=
    match find (fun p => String.eqb (fst p) (m_hash m)) mm with
    | Some p => Some (snd p)
    | None => as_tx m
    end.
  Definition validate_memo (mm : memo) (m : emsg) : option memo :=
    match as_tx m, as_tx_memo mm m with
    | Some _, Some tx => if claims_ok m tx then Some ((m_hash m, tx) :: mm) else None
    | _, _ => None
    end.
  Definition step_memo (s : (bytes -> N) * memo) (x : emsg * bool) : ((bytes -> N) * memo) * option (bytes * eth_tx) :=
    let '(st, mm) := s in
    let '(m, other_ok) := x in
    match validate_memo mm m with
    | None => (s, None)
    | Some mm' =>
        match as_tx_memo mm' m with
        | Some tx =>
            match auth_eth st tx with
            | Some a =>
                if (emsg_nonce m =? st a)%N && other_ok
                then ((upd (list_eq_dec N.eq_dec) st a (st a + 1)%N, mm'), Some (a, tx))
                else ((st, mm'), None)
            | None => ((st, mm'), None)
            end
        | None => ((st, mm'), None)
        end
    end.
  Fixpoint outcomes_memo (s : (bytes -> N) * memo) (h : list (emsg * bool)) : list (option (bytes * eth_tx)) :=
    match h with
    | [] => []
    | x :: r => snd (step_memo s x) :: outcomes_memo (fst (step_memo s x)) r
    end.
End EthRoute.

(** signing, for the positive direction: [sign k h] gives (r, s, recovery id) *)
Definition with_sig (tx : eth_tx) (v r s : Z) : eth_tx :=
  match tx with
  | TxLegacy t => TxLegacy (mk_legacy (l_nonce t) (l_gas_price t) (l_gas t) (l_to t) (l_value t) (l_data t) v r s)
  | TxAccessList t => TxAccessList (mk_al (a_chain_id t) (a_nonce t) (a_gas_price t) (a_gas t) (a_to t) (a_value t)
                                          (a_data t) (a_accesses t) v r s)
  | TxDynamicFee t => TxDynamicFee (mk_df (d_chain_id t) (d_nonce t) (d_tip t) (d_fee_cap t) (d_gas t) (d_to t) (d_value t)
                                          (d_data t) (d_accesses t) v r s)
  end.

(** [types.SignTx] with the EIP-155 / EIP-2930 / London signer of chain [cid]
    (cid > 0); typed transactions must carry that chain id *)
Definition sign_tx {K} (hash : bytes -> bytes) (sign : K -> bytes -> Z * Z * Z) (k : K) (cid : Z) (tx : eth_tx) : eth_tx :=
  let body := match tx with TxLegacy _ => with_sig tx (2 * cid + 35) 0 0 | _ => tx end in
  let '(r, s, recid) := sign k (hash (sign_preimage cid body)) in
  match tx with
  | TxLegacy _ => with_sig tx (recid + 35 + 2 * cid) r s
  | _ => with_sig tx recid r s
  end.

(** * the Cosmos routes, at the level of the sign doc *)
Section CosmosRoute.
  Context {A B S : Type}.            (* accounts (= their keys), transaction bodies, signatures *)
  Variable A_dec : forall a b : A, {a = b} + {a <> b}.

  (** what is signed: chain id, account number, sequence, and the body (messages,
      memo, fee, gas, timeout height, ...) *)
  Record sign_doc := mk_doc { sd_chain : string; sd_accnum : N; sd_seq : N; sd_body : B }.

  (** the digests under which a signature over a sign doc is accepted:
      Keccak of the sign bytes and, for an ethsecp256k1 key, of its two EIP-712
      renderings (ethsecp256k1.PubKey.VerifySignature tries all three); for the
      legacy EIP-712 route the typed-data hash *)
  Variable digests : sign_doc -> list bytes.
  Variable verify : A -> bytes -> S -> bool.

  Record cosmos_tx := mk_ctx { ct_signer : A; ct_seq : N; ct_body : B; ct_sig : S;
                               ct_ext_chain : Z; ct_payer_is_signer : bool }.

  Variable chain : string.           (* ctx.ChainID() *)
  Variable accnum : A -> N.

  (** SigVerificationDecorator: the doc is rebuilt from the node's chain id and
      the account's stored number and CURRENT sequence *)
  Definition auth_cosmos (st : A -> N) (t : cosmos_tx) : option A :=
    let a := ct_signer t in
    if existsb (fun h => verify a h (ct_sig t)) (digests (mk_doc chain (accnum a) (st a) (ct_body t)))
    then Some a else None.

  (** LegacyEip712SigVerificationDecorator: additionally the typed-data chain id
      of the Web3 extension must be the chain's EIP-155 id and the fee payer must
      be the signer *)
  Variable eip155 : Z.
  Definition auth_eip712 (st : A -> N) (t : cosmos_tx) : option A :=
    if (ct_ext_chain t =? eip155)%Z && ct_payer_is_signer t then auth_cosmos st t else None.

  Definition step_cosmos := step A_dec auth_cosmos ct_seq.
  Definition accepted_cosmos := accepted_at A_dec auth_cosmos ct_seq.
  Definition step_eip712 := step A_dec auth_eip712 ct_seq.
  Definition accepted_eip712 := accepted_at A_dec auth_eip712 ct_seq.
End CosmosRoute.
Arguments mk_doc {B}.
Arguments sd_chain {B}.
Arguments sd_accnum {B}.
Arguments sd_seq {B}.
Arguments sd_body {B}.

(** * the machine as the correspondence run sees it

    Cryptography is not modelled, so a recorded submission carries what the
    cryptographic oracle said: for an Ethereum transaction the account
    go-ethereum recovers under the transaction's OWN chain id -- computed from
    the message's Data, as are chain id and nonce --; for an Ethereum MESSAGE
    whose self-reported fields the sender of the envelope may have written
    ([SEthMsg]) in addition whether its Hash text is the hash go-ethereum
    computes from Data ([hash_bound]) and whether its From text is empty: the
    two facts [claims_ok] looks at; for a Cosmos /
    EIP-712 transaction the sign doc its signature was made over ([None] when
    the signature bytes were tampered with).  Accounts and bodies are interned
    as numbers by the harness. *)
Inductive sub :=
| SEth (is_protected : bool) (tx_chain : Z) (nonce : N) (recovered : option N)
| SEthMsg (hash_bound from_empty : bool) (is_protected : bool) (tx_chain : Z) (nonce : N) (recovered : option N)
| SCosmos (signer : N) (claimed_seq : N) (signed : option (@sign_doc N)) (body : N)
| SEip712 (signer : N) (claimed_seq : N) (signed : option (@sign_doc N)) (body : N) (ext_chain : Z) (payer_is_signer : bool).

Record node := mk_node { n_cfg : chain_cfg; n_chain : string; n_accnum : list (N * N) }.

Definition lookup (l : list (N * N)) (a : N) : N :=
  match find (fun p => N.eqb (fst p) a) l with Some p => snd p | None => 0%N end.

Definition doc_eqb (x y : @sign_doc N) : bool :=
  String.eqb (sd_chain x) (sd_chain y) && N.eqb (sd_accnum x) (sd_accnum y) && N.eqb (sd_seq x) (sd_seq y)
  && N.eqb (sd_body x) (sd_body y).

Definition auth_sub (nd : node) (st : N -> N) (s : sub) : option N :=
  match s with
  | SEth prot txc _ rec =>
      if negb (c_allow_unprotected (n_cfg nd)) && negb prot then None
      else if prot && negb (txc =? c_eip155 (n_cfg nd))%Z then None
      else rec
  | SEthMsg hash_bound from_empty prot txc _ rec =>
      if negb (hash_bound && from_empty) then None
      else if negb (c_allow_unprotected (n_cfg nd)) && negb prot then None
      else if prot && negb (txc =? c_eip155 (n_cfg nd))%Z then None
      else rec
  | SCosmos a _ signed body =>
      match signed with
      | Some d => if doc_eqb d (mk_doc (n_chain nd) (lookup (n_accnum nd) a) (st a) body) then Some a else None
      | None => None
      end
  | SEip712 a _ signed body ext payer =>
      if (ext =? c_eip155 (n_cfg nd))%Z && payer then
        match signed with
        | Some d => if doc_eqb d (mk_doc (n_chain nd) (lookup (n_accnum nd) a) (st a) body) then Some a else None
        | None => None
        end
      else None
  end.

Definition sub_nonce (s : sub) : N :=
  match s with SEth _ _ n _ => n | SEthMsg _ _ _ _ n _ => n | SCosmos _ n _ _ => n | SEip712 _ n _ _ _ _ => n end.

Definition step_sub (nd : node) := step N.eq_dec (auth_sub nd) sub_nonce.
(** a submission is a Cosmos transaction = a list of signed units: one for the
    Cosmos / EIP-712 routes (the transaction's signature), one per MsgEthereumTx
    for the Ethereum route *)
Definition step_sub_tx (nd : node) := step_tx N.eq_dec (auth_sub nd) sub_nonce.

(** a wrapped submission as the correspondence run records it: the signed unit
    of the wrapping Cosmos transaction ([None]: an envelope without a Cosmos
    signature), the number of plain messages before the wrapper, the depth of
    MsgExec nesting (0 = the Ethereum messages are plain messages of the Cosmos
    transaction), whether the harness had stored an authz grant for the
    wrapper's signer.  The model's verdict does not depend on any of it. *)
Record wrap := mk_wrap { w_outer : option sub; w_plain_before : nat; w_depth : nat; w_granted : bool }.
Definition step_sub_any (nd : node) := step_any (W:=wrap) N.eq_dec (auth_sub nd) sub_nonce.

(** the account-type operations the correspondence run performs between
    submissions (x/vesting): MsgConvertIntoVestingAccount by a third party against
    an existing account, the same against an account that already is a vesting
    account (the schedules are merged), MsgConvertVestingAccount back to a plain
    account; and the events as the run records them, with the rule of the code as
    it is now *)
Inductive account_op := OpConvertIntoVesting | OpMergeVesting | OpConvertBack.
Definition step_sub_event (nd : node) :=
  step_event (W:=wrap) (O:=account_op) N.eq_dec (auth_sub nd) sub_nonce nonce_after_creation.

Fixpoint list_N_eqb (x y : list N) : bool :=
  match x, y with
  | [], [] => true
  | a :: x', b :: y' => N.eqb a b && list_N_eqb x' y'
  | _, _ => false
  end.

(** a recorded history: initial sequences of the interned accounts, then for
    every event -- a submitted transaction with its signed units ([ESub (Direct
    ..)]), a wrapper and the signed Ethereum messages it carries ([ESub (Wrapped
    ..)]), an Ethereum-route transaction with contract creations and what became
    of them ([ECreating]), an account-type operation ([EAccountOp]) --, the verdict of the
    unmodelled checks and what the implementation did (the executing accounts in message
    order, if accepted) together with the sequences of all interned accounts
    afterwards *)
Definition init_state (l : list (N * N)) : N -> N := lookup l.

Fixpoint check_from (nd : node) (na : nat) (i : nat) (st : N -> N)
         (h : list (@event N sub wrap account_op * option (list N) * list N)) : option nat :=
  match h with
  | [] => None
  | (x, who, seqs) :: r =>
      let '(st', o) := step_sub_event nd st x in
      let same_who := match o, who with
                      | Some a, Some b => list_N_eqb a b | None, None => true | _, _ => false end in
      let same_seqs := forallb (fun p => N.eqb (st' (N.of_nat (fst p))) (snd p)) (combine (seq 0 na) seqs) in
      if same_who && same_seqs && Nat.eqb (length seqs) na then check_from nd na (S i) st' r else Some i
  end.

Record hist := mk_hist {
  h_node : node; h_naccounts : nat; h_init : list (N * N);
  h_steps : list (@event N sub wrap account_op * option (list N) * list N) }.

Definition check_case (c : hist) : bool :=
  match check_from (h_node c) (h_naccounts c) 0 (init_state (h_init c)) (h_steps c) with None => true | Some _ => false end.

Fixpoint mismatches_from (i : nat) (cs : list hist) : list nat :=
  match cs with
  | [] => []
  | c :: r => if check_case c then mismatches_from (S i) r else i :: mismatches_from (S i) r
  end.
Definition mismatches (cs : list hist) : list nat := mismatches_from 0 cs.

(** one case of the correspondence run = a group of recorded histories *)
Fixpoint mismatches_groups_from (i : nat) (gs : list (list hist)) : list nat :=
  match gs with
  | [] => []
  | g :: r => if forallb check_case g then mismatches_groups_from (S i) r else i :: mismatches_groups_from (S i) r
  end.
Definition mismatches_groups (gs : list (list hist)) : list nat := mismatches_groups_from 0 gs.
