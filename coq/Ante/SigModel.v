(** Signatures, chain ids and sequence numbers in the ante handlers (property
    C03): executable model of

      app/ante/evm/sigverify.go   EthSigVerificationDecorator
      app/ante/evm/eth.go         EthIncrementSenderSequenceDecorator
      app/ante/cosmos/eip712.go   LegacyEip712SigVerificationDecorator / VerifySignature
      cosmos-sdk x/auth/ante      SigVerificationDecorator, IncrementSequenceDecorator
      crypto/ethsecp256k1         PubKey.VerifySignature
      types/chain_id.go           ParseChainID

    Definitions only; the proofs are in SigProofs.v.

    The core is one state machine, [step]: the state maps every account to its
    sequence number; a submitted transaction is authenticated as some account
    ([auth], which may depend on the state: a Cosmos sign doc contains the
    account's current sequence), its nonce / claimed sequence must EQUAL that
    account's sequence (in CheckTx and in DeliverTx alike: the increment
    decorator checks equality in every mode), every other ante check (fees,
    balance, gas, message validity; an account that does not exist in
    DeliverTx) is an arbitrary boolean supplied with the submission, and an
    accepted transaction bumps the sequence by one.  The three routes are
    instances that differ only in [auth].

    One Cosmos transaction of the Ethereum route may carry SEVERAL
    MsgEthereumTx, each with its own signature and nonce ([step_tx]):
    EthSigVerificationDecorator authenticates every message, then
    EthIncrementSenderSequenceDecorator walks over the messages in order, reads
    the sender's account afresh for every message, demands nonce = CURRENT
    sequence (which already counts the earlier messages of this very
    transaction) and bumps it; any failure fails the whole transaction and
    baseapp drops every write of the ante handler.  [step] is the
    one-message case of [step_tx] ([step_tx_singleton] in SigProofs.v). *)
From Coq Require Import Ascii String.
From Coq Require Import NArith ZArith List Bool.
From HV Require Import Base.Bytes Base.Rlp TxCodec.EthTxModel.
Import ListNotations.

(** * the generic machine *)
Section Machine.
  Context {A T : Type}.
  Variable A_dec : forall a b : A, {a = b} + {a <> b}.
  (** who the transaction is authenticated as, given the current sequences *)
  Variable auth : (A -> N) -> T -> option A.
  (** the nonce (Ethereum) / the sequence claimed in the signer info (Cosmos) *)
  Variable nonce_of : T -> N.

  Definition upd (st : A -> N) (a : A) (v : N) : A -> N := fun b => if A_dec a b then v else st b.

  (** one submission = a transaction and the verdict of the unmodelled checks;
      result = new state and the account on whose behalf it executes, if any *)
  Definition step (st : A -> N) (x : T * bool) : (A -> N) * option A :=
    let '(t, other_ok) := x in
    match auth st t with
    | Some a => if (nonce_of t =? st a)%N && other_ok then (upd st a (st a + 1)%N, Some a) else (st, None)
    | None => (st, None)
    end.

  (** the outcomes of a whole history, and the final state *)
  Fixpoint outcomes (st : A -> N) (h : list (T * bool)) : list (option A) :=
    match h with
    | [] => []
    | x :: r => snd (step st x) :: outcomes (fst (step st x)) r
    end.
  Fixpoint final (st : A -> N) (h : list (T * bool)) : A -> N :=
    match h with
    | [] => st
    | x :: r => final (fst (step st x)) r
    end.

  (** "submission number [j] of history [h] (started in [st]) was accepted on
      behalf of account [a] with nonce [n]" *)
  Definition accepted_at (st : A -> N) (h : list (T * bool)) (j : nat) (a : A) (n : N) : Prop :=
    exists t ok, nth_error h j = Some (t, ok) /\ nth_error (outcomes st h) j = Some (Some a) /\ nonce_of t = n.

  (** ** one transaction, several signed messages

      EthSigVerificationDecorator: the loop over tx.GetMsgs() authenticates every
      message (against the state the transaction started in; the Ethereum [auth]
      does not look at it) and fails on the first one that is refused *)
  Fixpoint auth_all (st : A -> N) (ms : list T) : option (list A) :=
    match ms with
    | [] => Some []
    | m :: r => match auth st m with
                | Some a => match auth_all st r with Some l => Some (a :: l) | None => None end
                | None => None
                end
    end.

  (** EthIncrementSenderSequenceDecorator: the loop over tx.GetMsgs(); for every
      message GetAccount(sender), nonce <> acc.GetSequence() -> error, else
      SetSequence(nonce + 1), SetAccount -- so the next message of the same
      sender is compared with the bumped sequence *)
  Fixpoint bump_all (st : A -> N) (l : list (A * N)) : option (A -> N) :=
    match l with
    | [] => Some st
    | (a, n) :: r => if (n =? st a)%N then bump_all (upd st a (st a + 1)%N) r else None
    end.

  (** one submission = the messages of one Cosmos transaction and the verdict of
      the unmodelled checks (one for the transaction); result = new state and
      the accounts on whose behalf the messages execute, in message order.  A
      transaction without messages is refused (baseapp.validateBasicTxMsgs);
      a refused transaction leaves no trace (baseapp.runTx writes the ante
      handler's branch of the state back only on success). *)
  Definition step_tx (st : A -> N) (x : list T * bool) : (A -> N) * option (list A) :=
    let '(ms, other_ok) := x in
    match ms with
    | [] => (st, None)
    | _ =>
        match auth_all st ms with
        | Some l =>
            match bump_all st (combine l (map nonce_of ms)) with
            | Some st' => if other_ok then (st', Some l) else (st, None)
            | None => (st, None)
            end
        | None => (st, None)
        end
    end.

  Fixpoint outcomes_tx (st : A -> N) (h : list (list T * bool)) : list (option (list A)) :=
    match h with
    | [] => []
    | x :: r => snd (step_tx st x) :: outcomes_tx (fst (step_tx st x)) r
    end.
  Fixpoint final_tx (st : A -> N) (h : list (list T * bool)) : A -> N :=
    match h with
    | [] => st
    | x :: r => final_tx (fst (step_tx st x)) r
    end.

  (** "message number [k] of transaction number [j] of history [h] (started in
      [st]) was executed on behalf of account [a] with nonce [n]" *)
  Definition executed_at (st : A -> N) (h : list (list T * bool)) (j k : nat) (a : A) (n : N) : Prop :=
    exists ms ok l m, nth_error h j = Some (ms, ok) /\ nth_error (outcomes_tx st h) j = Some (Some l) /\
                      nth_error ms k = Some m /\ nth_error l k = Some a /\ nonce_of m = n.

  (** ** signed messages carried by a submission that is not their route

      A signed message (a MsgEthereumTx) can also be SHIPPED inside a Cosmos
      transaction that is not the message's own route: as an inner message of
      authz.MsgExec (alone, behind plain messages, nested, beside other inner
      messages, signed by the message's signer or by somebody else), as a plain
      message of an ordinary Cosmos transaction without the Ethereum extension
      option, inside an EIP-712-signed Cosmos transaction, or behind the
      Ethereum extension option but inside a wrapper.  The code refuses every
      such transaction before anything is executed (RejectMessagesDecorator,
      AuthzLimiterDecorator with MsgEthereumTx among the disabled types, the type
      assertion of the Ethereum ante chain): the acceptance rule of a wrapped
      submission is "never" -- whatever the outer signature, whatever the
      carried messages (fresh, executed before, from the future), whatever the
      verdict of the other checks -- and it leaves the state as it was.  [w]
      describes the wrapper (its own signed unit, its shape); the rule does not
      look at it. *)
  Context {W : Type}.
  Inductive submission :=
  | Direct (ms : list T) (other_ok : bool)                    (* the messages' own route: [step_tx] *)
  | Wrapped (w : W) (carried : list T) (other_ok : bool).     (* any other way of shipping them *)

  (** the signed messages a submission contains, in order *)
  Definition msgs_of (x : submission) : list T :=
    match x with Direct ms _ => ms | Wrapped _ c _ => c end.

  Definition step_any (st : A -> N) (x : submission) : (A -> N) * option (list A) :=
    match x with
    | Direct ms ok => step_tx st (ms, ok)
    | Wrapped _ _ _ => (st, None)
    end.

  Fixpoint outcomes_any (st : A -> N) (h : list submission) : list (option (list A)) :=
    match h with
    | [] => []
    | x :: r => snd (step_any st x) :: outcomes_any (fst (step_any st x)) r
    end.
  Fixpoint final_any (st : A -> N) (h : list submission) : A -> N :=
    match h with
    | [] => st
    | x :: r => final_any (fst (step_any st x)) r
    end.

  (** "signed message number [k] of submission number [j] of history [h]
      (started in [st]) -- direct or carried by a wrapper -- was executed on
      behalf of account [a] with nonce [n]" *)
  Definition executed_any (st : A -> N) (h : list submission) (j k : nat) (a : A) (n : N) : Prop :=
    exists x l m, nth_error h j = Some x /\ nth_error (outcomes_any st h) j = Some (Some l) /\
                  nth_error (msgs_of x) k = Some m /\ nth_error l k = Some a /\ nonce_of m = n.
End Machine.

(** * the Ethereum route *)
Record chain_cfg := mk_cfg {
  c_eip155 : Z;              (* ParseChainID(ctx.ChainID()): haqq_11235-1 -> 11235 *)
  c_allow_unprotected : bool (* EVM parameter AllowUnprotectedTxs *)
}.

Section EthRoute.
  Variable hash : bytes -> bytes.
  Variable recover : bytes -> Z -> Z -> Z -> option bytes.
  Variable cfg : chain_cfg.

  (** EthSigVerificationDecorator: unprotected transactions are refused unless
      the parameter allows them; the sender is recovered with the signer of the
      chain's own EIP-155 id, which refuses any other chain id *)
  Definition auth_eth (_ : bytes -> N) (tx : eth_tx) : option bytes :=
    if negb (c_allow_unprotected cfg) && negb (protected tx) then None
    else sender hash recover (c_eip155 cfg) tx.

  Definition step_eth := step (list_eq_dec N.eq_dec) auth_eth tx_nonce.
  Definition outcomes_eth := outcomes (list_eq_dec N.eq_dec) auth_eth tx_nonce.
  Definition accepted_eth := accepted_at (list_eq_dec N.eq_dec) auth_eth tx_nonce.

  (** one Cosmos transaction carrying a list of MsgEthereumTx *)
  Definition step_eth_tx := step_tx (list_eq_dec N.eq_dec) auth_eth tx_nonce.
  Definition outcomes_eth_tx := outcomes_tx (list_eq_dec N.eq_dec) auth_eth tx_nonce.
  Definition final_eth_tx := final_tx (list_eq_dec N.eq_dec) auth_eth tx_nonce.
  Definition executed_eth := executed_at (list_eq_dec N.eq_dec) auth_eth tx_nonce.

  (** histories in which signed Ethereum messages are also shipped on other
      routes (wrapped in authz.MsgExec, as plain Cosmos messages, ...) *)
  Definition step_eth_any {W} := step_any (W:=W) (list_eq_dec N.eq_dec) auth_eth tx_nonce.
  Definition outcomes_eth_any {W} := outcomes_any (W:=W) (list_eq_dec N.eq_dec) auth_eth tx_nonce.
  Definition final_eth_any {W} := final_any (W:=W) (list_eq_dec N.eq_dec) auth_eth tx_nonce.
  Definition executed_eth_any {W} := executed_any (W:=W) (list_eq_dec N.eq_dec) auth_eth tx_nonce.
End EthRoute.

(** signing, for the positive direction: [sign k h] gives (r, s, recovery id) *)
Definition with_sig (tx : eth_tx) (v r s : Z) : eth_tx :=
  match tx with
  | TxLegacy t => TxLegacy (mk_legacy (l_nonce t) (l_gas_price t) (l_gas t) (l_to t) (l_value t) (l_data t) v r s)
  | TxAccessList t => TxAccessList (mk_al (a_chain_id t) (a_nonce t) (a_gas_price t) (a_gas t) (a_to t) (a_value t)
                                          (a_data t) (a_accesses t) v r s)
  | TxDynamicFee t => TxDynamicFee (mk_df (d_chain_id t) (d_nonce t) (d_tip t) (d_fee_cap t) (d_gas t) (d_to t) (d_value t)
                                          (d_data t) (d_accesses t) v r s)
  end.

(** [types.SignTx] with the EIP-155 / EIP-2930 / London signer of chain [cid]
    (cid > 0); typed transactions must carry that chain id *)
Definition sign_tx {K} (hash : bytes -> bytes) (sign : K -> bytes -> Z * Z * Z) (k : K) (cid : Z) (tx : eth_tx) : eth_tx :=
  let body := match tx with TxLegacy _ => with_sig tx (2 * cid + 35) 0 0 | _ => tx end in
  let '(r, s, recid) := sign k (hash (sign_preimage cid body)) in
  match tx with
  | TxLegacy _ => with_sig tx (recid + 35 + 2 * cid) r s
  | _ => with_sig tx recid r s
  end.

(** * the Cosmos routes, at the level of the sign doc *)
Section CosmosRoute.
  Context {A B S : Type}.            (* accounts (= their keys), transaction bodies, signatures *)
  Variable A_dec : forall a b : A, {a = b} + {a <> b}.

  (** what is signed: chain id, account number, sequence, and the body (messages,
      memo, fee, gas, timeout height, ...) *)
  Record sign_doc := mk_doc { sd_chain : string; sd_accnum : N; sd_seq : N; sd_body : B }.

  (** the digests under which a signature over a sign doc is accepted:
      Keccak of the sign bytes and, for an ethsecp256k1 key, of its two EIP-712
      renderings (ethsecp256k1.PubKey.VerifySignature tries all three); for the
      legacy EIP-712 route the typed-data hash *)
  Variable digests : sign_doc -> list bytes.
  Variable verify : A -> bytes -> S -> bool.

  Record cosmos_tx := mk_ctx { ct_signer : A; ct_seq : N; ct_body : B; ct_sig : S;
                               ct_ext_chain : Z; ct_payer_is_signer : bool }.

  Variable chain : string.           (* ctx.ChainID() *)
  Variable accnum : A -> N.

  (** SigVerificationDecorator: the doc is rebuilt from the node's chain id and
      the account's stored number and CURRENT sequence *)
  Definition auth_cosmos (st : A -> N) (t : cosmos_tx) : option A :=
    let a := ct_signer t in
    if existsb (fun h => verify a h (ct_sig t)) (digests (mk_doc chain (accnum a) (st a) (ct_body t)))
    then Some a else None.

  (** LegacyEip712SigVerificationDecorator: additionally the typed-data chain id
      of the Web3 extension must be the chain's EIP-155 id and the fee payer must
      be the signer *)
  Variable eip155 : Z.
  Definition auth_eip712 (st : A -> N) (t : cosmos_tx) : option A :=
    if (ct_ext_chain t =? eip155)%Z && ct_payer_is_signer t then auth_cosmos st t else None.

  Definition step_cosmos := step A_dec auth_cosmos ct_seq.
  Definition accepted_cosmos := accepted_at A_dec auth_cosmos ct_seq.
  Definition step_eip712 := step A_dec auth_eip712 ct_seq.
  Definition accepted_eip712 := accepted_at A_dec auth_eip712 ct_seq.
End CosmosRoute.
Arguments mk_doc {B}.
Arguments sd_chain {B}.
Arguments sd_accnum {B}.
Arguments sd_seq {B}.
Arguments sd_body {B}.

(** * the machine as the correspondence run sees it

    Cryptography is not modelled, so a recorded submission carries what the
    cryptographic oracle said: for an Ethereum transaction the account
    go-ethereum recovers under the transaction's OWN chain id; for a Cosmos /
    EIP-712 transaction the sign doc its signature was made over ([None] when
    the signature bytes were tampered with).  Accounts and bodies are interned
    as numbers by the harness. *)
Inductive sub :=
| SEth (is_protected : bool) (tx_chain : Z) (nonce : N) (recovered : option N)
| SCosmos (signer : N) (claimed_seq : N) (signed : option (@sign_doc N)) (body : N)
| SEip712 (signer : N) (claimed_seq : N) (signed : option (@sign_doc N)) (body : N) (ext_chain : Z) (payer_is_signer : bool).

Record node := mk_node { n_cfg : chain_cfg; n_chain : string; n_accnum : list (N * N) }.

Definition lookup (l : list (N * N)) (a : N) : N :=
  match find (fun p => N.eqb (fst p) a) l with Some p => snd p | None => 0%N end.

Definition doc_eqb (x y : @sign_doc N) : bool :=
  String.eqb (sd_chain x) (sd_chain y) && N.eqb (sd_accnum x) (sd_accnum y) && N.eqb (sd_seq x) (sd_seq y)
  && N.eqb (sd_body x) (sd_body y).

Definition auth_sub (nd : node) (st : N -> N) (s : sub) : option N :=
  match s with
  | SEth prot txc _ rec =>
      if negb (c_allow_unprotected (n_cfg nd)) && negb prot then None
      else if prot && negb (txc =? c_eip155 (n_cfg nd))%Z then None
      else rec
  | SCosmos a _ signed body =>
      match signed with
      | Some d => if doc_eqb d (mk_doc (n_chain nd) (lookup (n_accnum nd) a) (st a) body) then Some a else None
      | None => None
      end
  | SEip712 a _ signed body ext payer =>
      if (ext =? c_eip155 (n_cfg nd))%Z && payer then
        match signed with
        | Some d => if doc_eqb d (mk_doc (n_chain nd) (lookup (n_accnum nd) a) (st a) body) then Some a else None
        | None => None
        end
      else None
  end.

Definition sub_nonce (s : sub) : N :=
  match s with SEth _ _ n _ => n | SCosmos _ n _ _ => n | SEip712 _ n _ _ _ _ => n end.

Definition step_sub (nd : node) := step N.eq_dec (auth_sub nd) sub_nonce.
(** a submission is a Cosmos transaction = a list of signed units: one for the
    Cosmos / EIP-712 routes (the transaction's signature), one per MsgEthereumTx
    for the Ethereum route *)
Definition step_sub_tx (nd : node) := step_tx N.eq_dec (auth_sub nd) sub_nonce.

(** a wrapped submission as the correspondence run records it: the signed unit
    of the wrapping Cosmos transaction ([None]: an envelope without a Cosmos
    signature), the number of plain messages before the wrapper, the depth of
    MsgExec nesting (0 = the Ethereum messages are plain messages of the Cosmos
    transaction), whether the harness had stored an authz grant for the
    wrapper's signer.  The model's verdict does not depend on any of it. *)
Record wrap := mk_wrap { w_outer : option sub; w_plain_before : nat; w_depth : nat; w_granted : bool }.
Definition step_sub_any (nd : node) := step_any (W:=wrap) N.eq_dec (auth_sub nd) sub_nonce.

Fixpoint list_N_eqb (x y : list N) : bool :=
  match x, y with
  | [], [] => true
  | a :: x', b :: y' => N.eqb a b && list_N_eqb x' y'
  | _, _ => false
  end.

(** a recorded history: initial sequences of the interned accounts, then for
    every submitted transaction its signed units ([Direct]) or the wrapper and
    the signed Ethereum messages it carries ([Wrapped]), the verdict of the
    unmodelled checks and what the implementation did (the executing accounts in message
    order, if accepted) together with the sequences of all interned accounts
    afterwards *)
Definition init_state (l : list (N * N)) : N -> N := lookup l.

Fixpoint check_from (nd : node) (na : nat) (i : nat) (st : N -> N)
         (h : list (@submission sub wrap * option (list N) * list N)) : option nat :=
  match h with
  | [] => None
  | (x, who, seqs) :: r =>
      let '(st', o) := step_sub_any nd st x in
      let same_who := match o, who with
                      | Some a, Some b => list_N_eqb a b | None, None => true | _, _ => false end in
      let same_seqs := forallb (fun p => N.eqb (st' (N.of_nat (fst p))) (snd p)) (combine (seq 0 na) seqs) in
      if same_who && same_seqs && Nat.eqb (length seqs) na then check_from nd na (S i) st' r else Some i
  end.

Record hist := mk_hist {
  h_node : node; h_naccounts : nat; h_init : list (N * N);
  h_steps : list (@submission sub wrap * option (list N) * list N) }.

Definition check_case (c : hist) : bool :=
  match check_from (h_node c) (h_naccounts c) 0 (init_state (h_init c)) (h_steps c) with None => true | Some _ => false end.

Fixpoint mismatches_from (i : nat) (cs : list hist) : list nat :=
  match cs with
  | [] => []
  | c :: r => if check_case c then mismatches_from (S i) r else i :: mismatches_from (S i) r
  end.
Definition mismatches (cs : list hist) : list nat := mismatches_from 0 cs.

(** one case of the correspondence run = a group of recorded histories *)
Fixpoint mismatches_groups_from (i : nat) (gs : list (list hist)) : list nat :=
  match gs with
  | [] => []
  | g :: r => if forallb check_case g then mismatches_groups_from (S i) r else i :: mismatches_groups_from (S i) r
  end.
Definition mismatches_groups (gs : list (list hist)) : list nat := mismatches_groups_from 0 gs.
