(** Proofs about Ante/SigModel.v (property C03). *)
From Coq Require Import Ascii String.
From Coq Require Import NArith ZArith List Bool Lia.
From HV Require Import Base.Bytes Base.Rlp Base.RlpProofs TxCodec.EthTxModel TxCodec.SignBytesProofs Ante.SigModel.
Import ListNotations.

(** * histories of any step function with three properties: sequences only
    grow; an executed message carries a nonce between its account's sequence
    before and after the event; no two messages of one event share (account,
    nonce).  Then every (account, nonce) is executed at most once. *)
Section Once.
  Context {A E M : Type}.
  Variable stepE : (A -> N) -> E -> (A -> N) * option (list A).
  Variable msgsE : E -> list M.
  Variable nonceM : M -> N.
  Hypothesis stepE_mono : forall st e b, (st b <= fst (stepE st e) b)%N.
  Hypothesis stepE_bounds : forall st e l k m a,
    snd (stepE st e) = Some l -> nth_error (msgsE e) k = Some m -> nth_error l k = Some a ->
    (st a <= nonceM m < fst (stepE st e) a)%N.
  Hypothesis stepE_inj : forall st e l k k' m m' a,
    snd (stepE st e) = Some l -> nth_error (msgsE e) k = Some m -> nth_error (msgsE e) k' = Some m' ->
    nth_error l k = Some a -> nth_error l k' = Some a -> nonceM m = nonceM m' -> k = k'.

  Notation outcomes := (outcomes_gen stepE).
  Notation final := (final_gen stepE).
  Notation executed := (executed_gen stepE msgsE nonceM).

  Lemma final_gen_mono h : forall st b, (st b <= final st h b)%N.
  Proof.
    induction h as [|e r IH]; intros st b; cbn [SigModel.final_gen]; [lia|].
    pose proof (stepE_mono st e b). specialize (IH (fst (stepE st e)) b). lia.
  Qed.

  Lemma final_gen_app h1 : forall h2 st, final st (h1 ++ h2) = final (final st h1) h2.
  Proof. induction h1 as [|e r IH]; intros h2 st; cbn [app SigModel.final_gen]; [reflexivity|apply IH]. Qed.

  (** sequences never decrease along a history *)
  Theorem gen_sequences_monotone h1 h2 st b : (final st h1 b <= final st (h1 ++ h2) b)%N.
  Proof. rewrite final_gen_app. apply final_gen_mono. Qed.

  Lemma gen_no_exec_below h : forall st j k a n, (n < st a)%N -> ~ executed st h j k a n.
  Proof.
    induction h as [|x r IH]; intros st j k a n Hlt (e & l & m & Hh & Ho & Hm & Hl & Hn).
    - destruct j; discriminate.
    - destruct j as [|j]; cbn [nth_error SigModel.outcomes_gen] in *.
      + inversion Hh; subst x. inversion Ho as [Ho'].
        pose proof (stepE_bounds _ _ _ _ _ _ Ho' Hm Hl). lia.
      + apply (IH (fst (stepE st x)) j k a n).
        * pose proof (stepE_mono st x a). lia.
        * exists e, l, m. auto.
  Qed.

  Theorem gen_each_nonce_once h : forall st j k j' k' a n,
    executed st h j k a n -> executed st h j' k' a n -> j = j' /\ k = k'.
  Proof.
    induction h as [|x r IH]; intros st j k j' k' a n Hj Hj'.
    - destruct Hj as (e & l & m & Hh & _). destruct j; discriminate.
    - assert (Tail : forall i q, executed st (x :: r) (S i) q a n -> executed (fst (stepE st x)) r i q a n).
      { intros i q (e & l & m & Hh & Ho & Hm & Hl & Hn). exists e, l, m. auto. }
      assert (Head : forall q, executed st (x :: r) 0 q a n -> (n < fst (stepE st x) a)%N).
      { intros q (e & l & m & Hh & Ho & Hm & Hl & Hn). cbn in Hh, Ho. inversion Hh; subst x. inversion Ho as [Ho'].
        pose proof (stepE_bounds _ _ _ _ _ _ Ho' Hm Hl). lia. }
      destruct j as [|j], j' as [|j'].
      + split; [reflexivity|].
        destruct Hj as (e & l & m & Hh & Ho & Hm & Hl & Hn).
        destruct Hj' as (e' & l' & m' & Hh' & Ho' & Hm' & Hl' & Hn').
        cbn [nth_error SigModel.outcomes_gen] in Hh, Hh', Ho, Ho'. inversion Hh; subst x. inversion Hh'; subst e'.
        assert (Hacc : snd (stepE st e) = Some l) by congruence.
        assert (l' = l) by congruence. subst l'.
        apply (stepE_inj st e l k k' m m' a Hacc Hm Hm' Hl Hl'). congruence.
      + exfalso. exact (gen_no_exec_below r _ j' k' a n (Head _ Hj) (Tail _ _ Hj')).
      + exfalso. exact (gen_no_exec_below r _ j k a n (Head _ Hj') (Tail _ _ Hj)).
      + destruct (IH _ j k j' k' a n (Tail _ _ Hj) (Tail _ _ Hj')) as [-> ->]. auto.
  Qed.

  (** an executed message had a nonce not below the account's sequence before
      the event, and the sequence has passed it afterwards *)
  Theorem gen_executed_at_current_sequence h : forall st j k a n,
    executed st h j k a n -> (final st (firstn j h) a <= n < final st (firstn (S j) h) a)%N.
  Proof.
    induction h as [|x r IH]; intros st j k a n (e & l & m & Hh & Ho & Hm & Hl & Hn).
    - destruct j; discriminate.
    - destruct j as [|j]; cbn [nth_error firstn SigModel.outcomes_gen SigModel.final_gen] in Hh, Ho |- *.
      + inversion Hh; subst x. inversion Ho as [Ho'].
        pose proof (stepE_bounds _ _ _ _ _ _ Ho' Hm Hl). lia.
      + apply (IH (fst (stepE st x)) j k a n). exists e, l, m. auto.
  Qed.
End Once.

(** * the generic machine: every (account, nonce) is accepted at most once *)
Section Machine.
  Context {A T : Type}.
  Variable A_dec : forall a b : A, {a = b} + {a <> b}.
  Variable auth : (A -> N) -> T -> option A.
  Variable nonce_of : T -> N.

  Notation step := (step A_dec auth nonce_of).
  Notation outcomes := (outcomes A_dec auth nonce_of).
  Notation final := (final A_dec auth nonce_of).
  Notation accepted_at := (accepted_at A_dec auth nonce_of).

  Lemma upd_same st a v : upd A_dec st a v a = v.
  Proof. unfold upd. destruct (A_dec a a); [reflexivity|contradiction]. Qed.
  Lemma upd_other st a v b : a <> b -> upd A_dec st a v b = st b.
  Proof. unfold upd. destruct (A_dec a b); [contradiction|reflexivity]. Qed.

  (** an accepted submission: authenticated as [a], nonce equal to [a]'s
      sequence, the other checks passed, and only [a]'s sequence moves, by one *)
  Lemma step_accept st t ok a :
    snd (step st (t, ok)) = Some a ->
    auth st t = Some a /\ nonce_of t = st a /\ ok = true /\
    fst (step st (t, ok)) = upd A_dec st a (st a + 1)%N.
  Proof.
    unfold SigModel.step. destruct (auth st t) as [b|]; [|discriminate].
    destruct (N.eqb_spec (nonce_of t) (st b)) as [E|E]; cbn [andb]; [|discriminate].
    destruct ok; cbn [fst snd]; [|discriminate]. intros H. inversion H; subst. auto.
  Qed.

  (** a rejected submission changes nothing *)
  Lemma step_reject st x : snd (step st x) = None -> fst (step st x) = st.
  Proof.
    destruct x as [t ok]. unfold SigModel.step. destruct (auth st t) as [b|]; [|reflexivity].
    destruct ((nonce_of t =? st b)%N && ok); [discriminate|reflexivity].
  Qed.

  (** sequences never decrease *)
  Lemma step_mono st x b : (st b <= fst (step st x) b)%N.
  Proof.
    destruct x as [t ok]. destruct (snd (step st (t, ok))) as [a|] eqn:E.
    - apply step_accept in E as (_ & _ & _ & ->). unfold upd. destruct (A_dec a b) as [->|]; lia.
    - rewrite (step_reject _ _ E). lia.
  Qed.

  Lemma final_mono h : forall st b, (st b <= final st h b)%N.
  Proof.
    induction h as [|x r IH]; intros st b; cbn [SigModel.final]; [lia|].
    pose proof (step_mono st x b). specialize (IH (fst (step st x)) b). lia.
  Qed.

  (** once an account's sequence has passed [n], nothing with nonce [n] is ever
      accepted on its behalf again *)
  Lemma no_accept_below h : forall st j a n, (n < st a)%N -> ~ accepted_at st h j a n.
  Proof.
    induction h as [|x r IH]; intros st j a n Hlt (t & ok & Hh & Ho & Hn).
    - destruct j; discriminate.
    - destruct j as [|j]; cbn [nth_error SigModel.outcomes] in *.
      + inversion Hh; subst x. inversion Ho as [Ho']. apply step_accept in Ho' as (_ & E & _). lia.
      + apply (IH (fst (step st x)) j a n).
        * pose proof (step_mono st x a). lia.
        * exists t, ok. auto.
  Qed.

  Theorem each_nonce_once h : forall st i j a n,
    accepted_at st h i a n -> accepted_at st h j a n -> i = j.
  Proof.
    induction h as [|x r IH]; intros st i j a n Hi Hj.
    - destruct Hi as (t & ok & Hh & _). destruct i; discriminate.
    - assert (Tail : forall k, accepted_at st (x :: r) (S k) a n -> accepted_at (fst (step st x)) r k a n).
      { intros k (t & ok & Hh & Ho & Hn). exists t, ok. auto. }
      assert (Head : accepted_at st (x :: r) 0 a n -> (n < fst (step st x) a)%N).
      { intros (t & ok & Hh & Ho & Hn). cbn in Hh, Ho. inversion Hh; subst x. inversion Ho as [Ho'].
        apply step_accept in Ho' as (_ & E & _ & ->). rewrite upd_same. lia. }
      destruct i as [|i], j as [|j]; [reflexivity| | |].
      + exfalso. exact (no_accept_below r _ j a n (Head Hi) (Tail _ Hj)).
      + exfalso. exact (no_accept_below r _ i a n (Head Hj) (Tail _ Hi)).
      + f_equal. exact (IH _ i j a n (Tail _ Hi) (Tail _ Hj)).
  Qed.

  (** a transaction accepted once is rejected ever after (and so is any other
      transaction that would use the same nonce for the same account) *)
  Corollary replay_rejected h st i j a n :
    accepted_at st h i a n -> i <> j -> ~ accepted_at st h j a n.
  Proof. intros Hi Hne Hj. apply Hne. exact (each_nonce_once h st i j a n Hi Hj). Qed.

  (** acceptance happens only at the current sequence *)
  Lemma accepted_outcome_auth st t ok a :
    snd (step st (t, ok)) = Some a -> auth st t = Some a /\ nonce_of t = st a.
  Proof. intros H. apply step_accept in H. tauto. Qed.

  (** ** one transaction carrying several signed messages *)
  Notation step_tx := (step_tx A_dec auth nonce_of).
  Notation outcomes_tx := (outcomes_tx A_dec auth nonce_of).
  Notation final_tx := (final_tx A_dec auth nonce_of).
  Notation executed_at := (executed_at A_dec auth nonce_of).
  Notation auth_all := (auth_all auth).
  Notation bump_all := (bump_all A_dec).
  Notation occ := (count_occ A_dec).

  Lemma nth_error_combine {X Y} (l : list X) : forall (l' : list Y) k x y,
    nth_error (combine l l') k = Some (x, y) <-> nth_error l k = Some x /\ nth_error l' k = Some y.
  Proof.
    induction l as [|a l IH]; intros [|b l'] [|k] x y; cbn [combine nth_error];
      try (split; [discriminate|intros [H1 H2]; discriminate]).
    - split; [intros H; inversion H; auto|intros [H1 H2]; inversion H1; inversion H2; reflexivity].
    - apply IH.
  Qed.

  (** the signature pass: the result lists, message by message, who each message
      is authenticated as *)
  Lemma auth_all_nth st ms : forall l, auth_all st ms = Some l ->
    length l = length ms /\
    forall k m, nth_error ms k = Some m -> exists a, nth_error l k = Some a /\ auth st m = Some a.
  Proof.
    induction ms as [|m r IH]; intros l H; cbn [SigModel.auth_all] in H.
    - inversion H; subst. split; [reflexivity|]. intros [|k] m' E; discriminate.
    - destruct (auth st m) as [a|] eqn:Ea; [|discriminate].
      destruct (auth_all st r) as [l'|] eqn:El; [|discriminate]. inversion H; subst l.
      destruct (IH l' eq_refl) as [Hlen Hn]. split; [cbn [length]; f_equal; exact Hlen|].
      intros [|k] m' E; cbn [nth_error] in E |- *.
      + inversion E; subst. eauto.
      + apply Hn. exact E.
  Qed.

  Lemma auth_all_none st ms m : In m ms -> auth st m = None -> auth_all st ms = None.
  Proof.
    induction ms as [|m0 r IH]; intros Hin Hn; [destruct Hin|]. cbn [SigModel.auth_all].
    destruct Hin as [->|Hin]; [rewrite Hn; reflexivity|].
    destruct (auth st m0); [|reflexivity]. rewrite (IH Hin Hn). reflexivity.
  Qed.

  Lemma auth_all_some st ms : (forall m, In m ms -> auth st m <> None) -> exists l, auth_all st ms = Some l.
  Proof.
    induction ms as [|m0 r IH]; intros H; cbn [SigModel.auth_all]; [eauto|].
    destruct (auth st m0) as [a|] eqn:E; [|exfalso; exact (H m0 (or_introl eq_refl) E)].
    destruct IH as [l ->]; [intros m Hm; apply H; right; exact Hm|]. eauto.
  Qed.

  (** the sequence pass, exactly: it succeeds iff every message carries the
      sender's sequence at the start of the transaction plus the number of
      EARLIER messages of the same sender in this transaction; then every
      sender's sequence has grown by the number of its messages *)
  Lemma bump_all_exact l : forall st st', bump_all st l = Some st' ->
    (forall b, st' b = (st b + N.of_nat (occ (map fst l) b))%N) /\
    (forall k a n, nth_error l k = Some (a, n) -> n = (st a + N.of_nat (occ (firstn k (map fst l)) a))%N).
  Proof.
    induction l as [|[a0 n0] r IH]; intros st st' H; cbn [SigModel.bump_all] in H.
    - inversion H; subst. split; [intros b; cbn; lia|]. intros [|k] a n E; discriminate.
    - destruct (N.eqb_spec n0 (st a0)) as [E0|E0]; [|discriminate]. subst n0.
      destruct (IH _ _ H) as [Hf Hk]. split.
      + intros b. rewrite Hf. cbn [map fst count_occ]. unfold upd. destruct (A_dec a0 b) as [->|]; lia.
      + intros [|k] a n E; cbn [nth_error] in E.
        * inversion E; subst. cbn. lia.
        * rewrite (Hk k a n E). cbn [map fst firstn count_occ]. unfold upd. destruct (A_dec a0 a) as [->|]; lia.
  Qed.

  Lemma bump_all_complete l : forall st,
    (forall k a n, nth_error l k = Some (a, n) -> n = (st a + N.of_nat (occ (firstn k (map fst l)) a))%N) ->
    exists st', bump_all st l = Some st'.
  Proof.
    induction l as [|[a0 n0] r IH]; intros st H; cbn [SigModel.bump_all]; [eauto|].
    pose proof (H 0%nat a0 n0 eq_refl) as H0. cbn in H0. rewrite N.add_0_r in H0. subst n0. rewrite N.eqb_refl.
    apply IH. intros k a n E. rewrite (H (S k) a n E). cbn [map fst firstn count_occ]. unfold upd.
    destruct (A_dec a0 a) as [->|]; lia.
  Qed.

  (** consequences: sequences only grow; the nonce of every message lies in
      [sequence before, sequence after); no two messages of one transaction
      share (account, nonce) *)
  Lemma bump_all_spec l st st' : bump_all st l = Some st' ->
    (forall b, (st b <= st' b)%N) /\
    (forall k a n, nth_error l k = Some (a, n) -> (st a <= n < st' a)%N) /\
    (forall k k' a n, nth_error l k = Some (a, n) -> nth_error l k' = Some (a, n) -> k = k').
  Proof.
    revert st st'. induction l as [|[a0 n0] r IH]; intros st st' H; cbn [SigModel.bump_all] in H.
    - inversion H; subst. split; [intros; lia|]. split; [intros [|k] a n E; discriminate|intros [|k] k' a n E; discriminate].
    - destruct (N.eqb_spec n0 (st a0)) as [E0|E0]; [|discriminate]. subst n0.
      destruct (IH _ _ H) as (Hm & Hr & Hi).
      assert (Hm0 : forall b, (st b <= st' b)%N).
      { intros b. specialize (Hm b). unfold upd in Hm. destruct (A_dec a0 b) as [->|]; lia. }
      assert (Ha0 : (st a0 < st' a0)%N). { specialize (Hm a0). rewrite upd_same in Hm. lia. }
      split; [exact Hm0|]. split.
      + intros [|k] a n E; cbn [nth_error] in E.
        * inversion E; subst. lia.
        * destruct (Hr k a n E) as [H1 H2]. split; [|exact H2]. unfold upd in H1. destruct (A_dec a0 a) as [->|]; lia.
      + intros [|k] [|k'] a n E E'; cbn [nth_error] in E, E'.
        * reflexivity.
        * inversion E; subst. destruct (Hr k' _ _ E') as [H1 _]. rewrite upd_same in H1. lia.
        * inversion E'; subst. destruct (Hr k _ _ E) as [H1 _]. rewrite upd_same in H1. lia.
        * f_equal. exact (Hi k k' a n E E').
  Qed.

  (** an accepted transaction: it has messages, the other checks passed, every
      message was authenticated, the sequence pass went through and ITS result
      is the new state *)
  Lemma step_tx_accept st ms ok l :
    snd (step_tx st (ms, ok)) = Some l ->
    ms <> [] /\ ok = true /\ auth_all st ms = Some l /\
    bump_all st (combine l (map nonce_of ms)) = Some (fst (step_tx st (ms, ok))).
  Proof.
    unfold SigModel.step_tx. destruct ms as [|m r]; [discriminate|].
    destruct (auth_all st (m :: r)) as [l'|]; [|discriminate].
    destruct (bump_all st (combine l' (map nonce_of (m :: r)))) as [st'|] eqn:Eb; [|discriminate].
    destruct ok; [|discriminate]. cbn [fst snd]. intros H; inversion H; subst.
    split; [discriminate|]. split; [reflexivity|]. split; [reflexivity|exact Eb].
  Qed.

  (** all or nothing: a rejected transaction changes nothing *)
  Lemma step_tx_reject st x : snd (step_tx st x) = None -> fst (step_tx st x) = st.
  Proof.
    destruct x as [ms ok]. unfold SigModel.step_tx. destruct ms as [|m r]; [reflexivity|].
    destruct (auth_all st (m :: r)) as [l'|]; [|reflexivity].
    destruct (bump_all st (combine l' (map nonce_of (m :: r)))) as [st'|]; [|reflexivity].
    destruct ok; [discriminate|reflexivity].
  Qed.

  Lemma step_tx_rejected st x : snd (step_tx st x) = None -> step_tx st x = (st, None).
  Proof. intros H. rewrite (surjective_pairing (step_tx st x)), H, (step_tx_reject _ _ H). reflexivity. Qed.

  (** [step] is the one-message case *)
  Lemma step_tx_singleton st t ok :
    step_tx st ([t], ok) = (fst (step st (t, ok)), option_map (fun a => [a]) (snd (step st (t, ok)))).
  Proof.
    unfold SigModel.step_tx, SigModel.step. cbn [SigModel.auth_all]. destruct (auth st t) as [a|]; [|reflexivity].
    cbn [map combine SigModel.bump_all]. destruct (nonce_of t =? st a)%N; [|reflexivity].
    destruct ok; reflexivity.
  Qed.

  (** message [k] of an accepted transaction: authenticated as [a], and its
      nonce is [a]'s sequence at that point of the transaction *)
  Lemma step_tx_message st ms ok l k m a :
    snd (step_tx st (ms, ok)) = Some l -> nth_error ms k = Some m -> nth_error l k = Some a ->
    auth st m = Some a /\
    nonce_of m = (st a + N.of_nat (occ (firstn k l) a))%N /\
    (st a <= nonce_of m < fst (step_tx st (ms, ok)) a)%N.
  Proof.
    intros Hacc Hm Hl. apply step_tx_accept in Hacc as (_ & _ & Hau & Hb).
    destruct (auth_all_nth _ _ _ Hau) as [Hlen Hn]. destruct (Hn k m Hm) as (a' & Ha' & Hauth).
    rewrite Hl in Ha'. inversion Ha'; subst a'.
    assert (E : nth_error (combine l (map nonce_of ms)) k = Some (a, nonce_of m)).
    { apply nth_error_combine. split; [exact Hl|]. rewrite nth_error_map, Hm. reflexivity. }
    destruct (bump_all_exact _ _ _ Hb) as [_ Hk]. destruct (bump_all_spec _ _ _ Hb) as (_ & Hr & _).
    split; [exact Hauth|]. split; [|exact (Hr _ _ _ E)].
    rewrite (Hk _ _ _ E). do 3 f_equal.
    assert (Hfst : map fst (combine l (map nonce_of ms)) = l).
    { clear -Hlen. revert ms Hlen. induction l as [|x l IH]; intros [|y ms] Hlen; cbn in *; try reflexivity; try discriminate.
      f_equal. apply IH. lia. }
    rewrite Hfst. reflexivity.
  Qed.

  (** the new state: every account's sequence has grown by the number of its
      messages in the transaction *)
  Lemma step_tx_state st ms ok l :
    snd (step_tx st (ms, ok)) = Some l ->
    forall b, fst (step_tx st (ms, ok)) b = (st b + N.of_nat (occ l b))%N.
  Proof.
    intros Hacc b. apply step_tx_accept in Hacc as (_ & _ & Hau & Hb).
    destruct (auth_all_nth _ _ _ Hau) as [Hlen _]. destruct (bump_all_exact _ _ _ Hb) as [Hf _].
    rewrite Hf. do 3 f_equal.
    clear -Hlen. revert ms Hlen. induction l as [|x l IH]; intros [|y ms] Hlen; cbn in *; try reflexivity; try discriminate.
    f_equal. apply IH. lia.
  Qed.

  Lemma step_tx_mono st x b : (st b <= fst (step_tx st x) b)%N.
  Proof.
    destruct x as [ms ok]. destruct (snd (step_tx st (ms, ok))) as [l|] eqn:E.
    - rewrite (step_tx_state _ _ _ _ E). lia.
    - rewrite (step_tx_reject _ _ E). lia.
  Qed.

  Lemma final_tx_mono h : forall st b, (st b <= final_tx st h b)%N.
  Proof.
    induction h as [|x r IH]; intros st b; cbn [SigModel.final_tx]; [lia|].
    pose proof (step_tx_mono st x b). specialize (IH (fst (step_tx st x)) b). lia.
  Qed.

  (** ** rejection of the whole transaction *)

  (** a message that is not authenticated *)
  Theorem tx_unauthenticated_rejected st ms ok m :
    In m ms -> auth st m = None -> step_tx st (ms, ok) = (st, None).
  Proof.
    intros Hin Hn. unfold SigModel.step_tx. destruct ms as [|m0 r]; [reflexivity|].
    rewrite (auth_all_none _ _ _ Hin Hn). reflexivity.
  Qed.

  (** a message whose nonce is not its sender's sequence at that point of the
      transaction (sequence at the start + earlier messages of that sender):
      replayed, duplicated, out of order, from the future *)
  Theorem tx_out_of_order_rejected st ms ok l k m a :
    auth_all st ms = Some l -> nth_error ms k = Some m -> nth_error l k = Some a ->
    nonce_of m <> (st a + N.of_nat (occ (firstn k l) a))%N ->
    step_tx st (ms, ok) = (st, None).
  Proof.
    intros Hau Hm Hl Hne. apply step_tx_rejected.
    destruct (snd (step_tx st (ms, ok))) as [l'|] eqn:E; [|reflexivity]. exfalso.
    pose proof (step_tx_accept _ _ _ _ E) as (_ & _ & Hau' & _). rewrite Hau in Hau'. inversion Hau'; subst l'.
    destruct (step_tx_message _ _ _ _ _ _ _ E Hm Hl) as (_ & Hn & _). exact (Hne Hn).
  Qed.

  (** a message with a nonce its sender has already used *)
  Theorem tx_stale_rejected st ms ok m a :
    In m ms -> auth st m = Some a -> (nonce_of m < st a)%N -> step_tx st (ms, ok) = (st, None).
  Proof.
    intros Hin Hau Hlt. apply step_tx_rejected.
    destruct (snd (step_tx st (ms, ok))) as [l|] eqn:E; [|reflexivity]. exfalso.
    destruct (In_nth_error _ _ Hin) as [k Hk].
    pose proof (step_tx_accept _ _ _ _ E) as (_ & _ & Hall & _).
    destruct (auth_all_nth _ _ _ Hall) as [_ Hn]. destruct (Hn k m Hk) as (a' & Hl & Hau').
    rewrite Hau in Hau'. inversion Hau'; subst a'.
    destruct (step_tx_message _ _ _ _ _ _ _ E Hk Hl) as (_ & _ & Hr). lia.
  Qed.

  (** two messages of the same sender with the same nonce (the same signed
      transaction twice, or a replacement pair) *)
  Theorem tx_duplicate_rejected st ms ok k k' m m' a :
    k <> k' -> nth_error ms k = Some m -> nth_error ms k' = Some m' ->
    auth st m = Some a -> auth st m' = Some a -> nonce_of m = nonce_of m' ->
    step_tx st (ms, ok) = (st, None).
  Proof.
    intros Hne Hk Hk' Ha Ha' Hnn. apply step_tx_rejected.
    destruct (snd (step_tx st (ms, ok))) as [l|] eqn:E; [|reflexivity]. exfalso.
    pose proof (step_tx_accept _ _ _ _ E) as (_ & _ & Hall & Hb).
    destruct (auth_all_nth _ _ _ Hall) as [_ Hn].
    destruct (Hn k m Hk) as (b & Hl & Hb1). destruct (Hn k' m' Hk') as (b' & Hl' & Hb2).
    rewrite Ha in Hb1. rewrite Ha' in Hb2. inversion Hb1; inversion Hb2; subst b b'.
    destruct (bump_all_spec _ _ _ Hb) as (_ & _ & Hi). apply Hne.
    apply (Hi k k' a (nonce_of m)); apply nth_error_combine; (split; [assumption|]); rewrite nth_error_map.
    - rewrite Hk. reflexivity.
    - rewrite Hk'. cbn [option_map]. congruence.
  Qed.

  (** the positive direction: authenticated messages whose nonces follow their
      senders' sequences are accepted together *)
  Theorem tx_in_order_accepted st ms l :
    ms <> [] -> auth_all st ms = Some l ->
    (forall k m a, nth_error ms k = Some m -> nth_error l k = Some a ->
                   nonce_of m = (st a + N.of_nat (occ (firstn k l) a))%N) ->
    snd (step_tx st (ms, true)) = Some l.
  Proof.
    intros Hne Hau Hord. unfold SigModel.step_tx. destruct ms as [|m0 r]; [contradiction|]. rewrite Hau.
    destruct (auth_all_nth _ _ _ Hau) as [Hlen Hn].
    assert (Hfst : map fst (combine l (map nonce_of (m0 :: r))) = l).
    { clear -Hlen. revert Hlen. generalize (m0 :: r). revert l. induction l as [|x l IH]; intros [|y ms] Hlen; cbn in *; try reflexivity; try discriminate.
      f_equal. apply IH. lia. }
    destruct (bump_all_complete (combine l (map nonce_of (m0 :: r))) st) as [st' ->]; [|reflexivity].
    intros k a n E. apply nth_error_combine in E as [El Em]. rewrite nth_error_map in Em.
    destruct (nth_error (m0 :: r) k) as [m|] eqn:Ek; [|discriminate]. inversion Em; subst n.
    rewrite Hfst. exact (Hord k m a Ek El).
  Qed.

  (** ** all histories of multi-message transactions *)

  (** once an account's sequence has passed [n], no message with nonce [n] is
      ever executed on its behalf again *)
  Lemma no_exec_below h : forall st j k a n, (n < st a)%N -> ~ executed_at st h j k a n.
  Proof.
    induction h as [|x r IH]; intros st j k a n Hlt (ms & ok & l & m & Hh & Ho & Hm & Hl & Hn).
    - destruct j; discriminate.
    - destruct j as [|j]; cbn [nth_error SigModel.outcomes_tx] in *.
      + inversion Hh; subst x. inversion Ho as [Ho'].
        destruct (step_tx_message _ _ _ _ _ _ _ Ho' Hm Hl) as (_ & _ & Hr). lia.
      + apply (IH (fst (step_tx st x)) j k a n).
        * pose proof (step_tx_mono st x a). lia.
        * exists ms, ok, l, m. auto.
  Qed.

  (** every (account, nonce) is executed at most once: not in two transactions,
      and not twice within one transaction *)
  Theorem tx_each_nonce_once h : forall st j k j' k' a n,
    executed_at st h j k a n -> executed_at st h j' k' a n -> j = j' /\ k = k'.
  Proof.
    induction h as [|x r IH]; intros st j k j' k' a n Hj Hj'.
    - destruct Hj as (ms & ok & l & m & Hh & _). destruct j; discriminate.
    - assert (Tail : forall i q, executed_at st (x :: r) (S i) q a n -> executed_at (fst (step_tx st x)) r i q a n).
      { intros i q (ms & ok & l & m & Hh & Ho & Hm & Hl & Hn). exists ms, ok, l, m. auto. }
      assert (Head : forall q, executed_at st (x :: r) 0 q a n -> (n < fst (step_tx st x) a)%N).
      { intros q (ms & ok & l & m & Hh & Ho & Hm & Hl & Hn). cbn in Hh, Ho. inversion Hh; subst x. inversion Ho as [Ho'].
        destruct (step_tx_message _ _ _ _ _ _ _ Ho' Hm Hl) as (_ & _ & Hr). lia. }
      destruct j as [|j], j' as [|j'].
      + split; [reflexivity|].
        destruct Hj as (ms & ok & l & m & Hh & Ho & Hm & Hl & Hn).
        destruct Hj' as (ms' & ok' & l' & m' & Hh' & Ho' & Hm' & Hl' & Hn').
        cbn [nth_error SigModel.outcomes_tx] in Hh, Hh', Ho, Ho'. inversion Hh; subst x. inversion Hh'; subst ms' ok'.
        assert (Hacc : snd (step_tx st (ms, ok)) = Some l) by congruence.
        assert (l' = l) by congruence. subst l'.
        pose proof (step_tx_accept _ _ _ _ Hacc) as (_ & _ & _ & Hb).
        destruct (bump_all_spec _ _ _ Hb) as (_ & _ & Hi).
        apply (Hi k k' a n); apply nth_error_combine; (split; [assumption|]); rewrite nth_error_map.
        * rewrite Hm. cbn [option_map]. congruence.
        * rewrite Hm'. cbn [option_map]. congruence.
      + exfalso. exact (no_exec_below r _ j' k' a n (Head _ Hj) (Tail _ _ Hj')).
      + exfalso. exact (no_exec_below r _ j k a n (Head _ Hj') (Tail _ _ Hj)).
      + destruct (IH _ j k j' k' a n (Tail _ _ Hj) (Tail _ _ Hj')) as [-> ->]. auto.
  Qed.

  (** a transaction that contains -- anywhere among its messages -- a message
      for an (account, nonce) that is below the account's sequence is rejected
      as a whole, and the state stays as it was *)
  Lemma stale_later h : forall st j' ms ok m a n,
    (n < st a)%N -> nth_error h j' = Some (ms, ok) -> In m ms ->
    auth (final_tx st (firstn j' h)) m = Some a -> nonce_of m = n ->
    nth_error (outcomes_tx st h) j' = Some None /\
    final_tx st (firstn (S j') h) = final_tx st (firstn j' h).
  Proof.
    induction h as [|x r IH]; intros st j' ms ok m a n Hlt Hh Hin Hau Hn.
    - destruct j'; discriminate.
    - destruct j' as [|j']; cbn [nth_error firstn SigModel.outcomes_tx SigModel.final_tx] in Hh, Hau |- *.
      + inversion Hh; subst x. subst n. rewrite (tx_stale_rejected st ms ok m a Hin Hau Hlt). auto.
      + apply (IH (fst (step_tx st x)) j' ms ok m a n); try assumption.
        pose proof (step_tx_mono st x a). lia.
  Qed.

  (** replay: after message (a, n) was executed, every later transaction that
      contains a message authenticated as [a] with nonce [n] is rejected as a
      whole and has no effect *)
  Theorem tx_replay_rejected h : forall st j k a n j' ms ok m,
    executed_at st h j k a n -> (j < j')%nat -> nth_error h j' = Some (ms, ok) -> In m ms ->
    auth (final_tx st (firstn j' h)) m = Some a -> nonce_of m = n ->
    nth_error (outcomes_tx st h) j' = Some None /\
    final_tx st (firstn (S j') h) = final_tx st (firstn j' h).
  Proof.
    induction h as [|x r IH]; intros st j k a n j' ms ok m Hex Hlt Hh Hin Hau Hn.
    - destruct j'; discriminate.
    - destruct j' as [|j']; [lia|]. cbn [nth_error firstn SigModel.outcomes_tx SigModel.final_tx] in Hh, Hau |- *.
      destruct j as [|j].
      + apply (stale_later r (fst (step_tx st x)) j' ms ok m a n); try assumption.
        destruct Hex as (ms0 & ok0 & l & m0 & Hh0 & Ho & Hm & Hl & Hn0). cbn in Hh0, Ho. inversion Hh0; subst x.
        inversion Ho as [Ho']. destruct (step_tx_message _ _ _ _ _ _ _ Ho' Hm Hl) as (_ & _ & Hr). lia.
      + apply (IH (fst (step_tx st x)) j k a n j' ms ok m); [|lia|assumption..].
        destruct Hex as (ms0 & ok0 & l & m0 & Hh0 & Ho & Hm & Hl & Hn0). exists ms0, ok0, l, m0. auto.
  Qed.

  (** ** histories that also contain wrapped submissions

      A wrapped submission behaves like a transaction without messages: refused,
      no effect.  [erase] makes this precise and transports every theorem about
      [step_tx] histories to [step_any] histories. *)
  Context {W : Type}.
  Notation submission := (@submission T W).
  Notation step_any := (step_any (W:=W) A_dec auth nonce_of).
  Notation outcomes_any := (outcomes_any (W:=W) A_dec auth nonce_of).
  Notation final_any := (final_any (W:=W) A_dec auth nonce_of).
  Notation executed_any := (executed_any (W:=W) A_dec auth nonce_of).

  Definition erase (x : submission) : list T * bool :=
    match x with Direct ms ok => (ms, ok) | Wrapped _ _ ok => ([], ok) end.

  Lemma step_any_erase st x : step_any st x = step_tx st (erase x).
  Proof. destruct x; reflexivity. Qed.

  Lemma outcomes_any_erase h : forall st, outcomes_any st h = outcomes_tx st (map erase h).
  Proof.
    induction h as [|x r IH]; intros st; cbn [SigModel.outcomes_any SigModel.outcomes_tx map]; [reflexivity|].
    rewrite step_any_erase, IH. reflexivity.
  Qed.

  Lemma final_any_erase h : forall st, final_any st h = final_tx st (map erase h).
  Proof.
    induction h as [|x r IH]; intros st; cbn [SigModel.final_any SigModel.final_tx map]; [reflexivity|].
    rewrite step_any_erase, IH. reflexivity.
  Qed.

  (** the rule itself: never, and nothing moves -- for every wrapper, every
      carried messages, every verdict of the other checks *)
  Theorem wrapped_rejected st (w : W) c ok : step_any st (Wrapped w c ok) = (st, None).
  Proof. reflexivity. Qed.

  (** in a history: the outcome of a wrapped submission is "rejected" and the
      state after it is the state before it *)
  Theorem wrapped_no_effect h : forall st j (w : W) c ok,
    nth_error h j = Some (Wrapped w c ok) ->
    nth_error (outcomes_any st h) j = Some None /\
    final_any st (firstn (S j) h) = final_any st (firstn j h).
  Proof.
    induction h as [|x r IH]; intros st j w c ok Hh.
    - destruct j; discriminate.
    - destruct j as [|j]; cbn [nth_error firstn SigModel.outcomes_any SigModel.final_any] in Hh |- *.
      + inversion Hh; subst x. cbn. auto.
      + exact (IH (fst (step_any st x)) j w c ok Hh).
  Qed.

  (** whatever is executed is a message of a [Direct] submission *)
  Theorem executed_any_direct h st j k a n :
    executed_any st h j k a n -> exists ms ok, nth_error h j = Some (Direct ms ok).
  Proof.
    intros (x & l & m & Hh & Ho & _). destruct x as [ms ok|w c ok].
    - exists ms, ok. exact Hh.
    - destruct (wrapped_no_effect h st j w c ok Hh) as [Ho' _]. rewrite Ho' in Ho. discriminate.
  Qed.

  (** no signed message at all -- never executed, executed before, valid for the
      current sequence, from the future -- is executed through a wrapped
      submission *)
  Theorem wrapped_never_executes h st j (w : W) c ok k a n :
    nth_error h j = Some (Wrapped w c ok) -> ~ executed_any st h j k a n.
  Proof.
    intros Hh Hex. destruct (executed_any_direct h st j k a n Hex) as (ms & ok' & Hh'). congruence.
  Qed.

  Lemma executed_any_erase h st j k a n :
    executed_any st h j k a n -> executed_at st (map erase h) j k a n.
  Proof.
    intros Hex. destruct (executed_any_direct h st j k a n Hex) as (ms & ok & Hd).
    destruct Hex as (x & l & m & Hh & Ho & Hm & Hl & Hn). rewrite Hd in Hh. inversion Hh; subst x.
    exists ms, ok, l, m. rewrite <- outcomes_any_erase.
    split; [|auto]. rewrite nth_error_map, Hd. reflexivity.
  Qed.

  (** at most once, over all histories that mix direct and wrapped submissions *)
  Theorem any_each_nonce_once h st j k j' k' a n :
    executed_any st h j k a n -> executed_any st h j' k' a n -> j = j' /\ k = k'.
  Proof.
    intros H H'. exact (tx_each_nonce_once (map erase h) st j k j' k' a n
                          (executed_any_erase _ _ _ _ _ _ H) (executed_any_erase _ _ _ _ _ _ H')).
  Qed.

  (** an executed message had the nonce the account's sequence demanded at that
      point of the history, and the sequence has passed it afterwards *)
  Theorem executed_any_at_current_sequence h st j k a n :
    executed_any st h j k a n ->
    (final_any st (firstn j h) a <= n < final_any st (firstn (S j) h) a)%N.
  Proof.
    revert st j. induction h as [|x r IH]; intros st j (y & l & m & Hh & Ho & Hm & Hl & Hn).
    - destruct j; discriminate.
    - destruct j as [|j]; cbn [nth_error firstn SigModel.outcomes_any SigModel.final_any] in Hh, Ho |- *.
      + inversion Hh; subst y. destruct x as [ms ok|w c ok]; [|discriminate].
        cbn [SigModel.step_any SigModel.msgs_of] in *. inversion Ho as [Ho'].
        destruct (step_tx_message _ _ _ _ _ _ _ Ho' Hm Hl) as (_ & _ & Hr). lia.
      + apply IH. exists y, l, m. auto.
  Qed.

  (** replay through a wrapper: a message executed earlier (at [j]) and carried
      again by a later wrapped submission (at [j'], position [k']) is not
      executed there, the wrapped submission is rejected and changes nothing *)
  Theorem wrapped_replay_rejected h st j k a n j' (w : W) c ok k' :
    executed_any st h j k a n -> nth_error h j' = Some (Wrapped w c ok) ->
    ~ executed_any st h j' k' a n /\
    nth_error (outcomes_any st h) j' = Some None /\
    final_any st (firstn (S j') h) = final_any st (firstn j' h).
  Proof.
    intros _ Hh. split; [exact (wrapped_never_executes h st j' w c ok k' a n Hh)|].
    exact (wrapped_no_effect h st j' w c ok Hh).
  Qed.

  (** wrapped submissions can be deleted from a history without changing any
      outcome of the others or the final state: they are inert *)
  Theorem wrapped_inert h : forall st,
    final_any st h = final_any st (filter (fun x => match x with Direct _ _ => true | Wrapped _ _ _ => false end) h).
  Proof.
    induction h as [|x r IH]; intros st; [reflexivity|].
    destruct x as [ms ok|w c ok]; cbn [filter SigModel.final_any].
    - apply IH.
    - cbn [SigModel.step_any fst]. apply IH.
  Qed.

  (** a history of [Direct] submissions only is a [step_tx] history *)
  Theorem any_direct_only (h : list (list T * bool)) st :
    outcomes_any st (map (fun x => Direct (fst x) (snd x)) h) = outcomes_tx st h /\
    final_any st (map (fun x => Direct (fst x) (snd x)) h) = final_tx st h.
  Proof.
    rewrite outcomes_any_erase, final_any_erase, map_map.
    assert (E : map (fun x : list T * bool => erase (Direct (fst x) (snd x))) h = h).
    { induction h as [|[ms ok] r IH]; cbn; [reflexivity|]. f_equal. exact IH. }
    rewrite E. auto.
  Qed.

  (** ** contract creations: the execution phase *)
  Notation new_rule := nonce_after_creation.
  Notation step_txc := (SigModel.step_txc A_dec auth nonce_of).
  Notation exec_all := (SigModel.exec_all A_dec).

  Lemma step_tx_inj st ms ok l k k' m m' a :
    snd (step_tx st (ms, ok)) = Some l -> nth_error ms k = Some m -> nth_error ms k' = Some m' ->
    nth_error l k = Some a -> nth_error l k' = Some a -> nonce_of m = nonce_of m' -> k = k'.
  Proof.
    intros Hacc Hm Hm' Hl Hl' Hn. apply step_tx_accept in Hacc as (_ & _ & _ & Hb).
    destruct (bump_all_spec _ _ _ Hb) as (_ & _ & Hi).
    apply (Hi k k' a (nonce_of m)); apply nth_error_combine; (split; [assumption|]); rewrite nth_error_map.
    - rewrite Hm. reflexivity.
    - rewrite Hm', Hn. reflexivity.
  Qed.

  (** when the messages start to execute, the ante handler has moved every
      sender's sequence past the nonce of every one of its messages *)
  Lemma accepted_nonces_below st ms ok l :
    snd (step_tx st (ms, ok)) = Some l ->
    forall a n, In (a, n) (combine l (map nonce_of ms)) -> (st a <= n < fst (step_tx st (ms, ok)) a)%N.
  Proof.
    intros Hacc a n Hin. apply step_tx_accept in Hacc as (_ & _ & _ & Hb).
    destruct (bump_all_spec _ _ _ Hb) as (_ & Hr & _).
    destruct (In_nth_error _ _ Hin) as [k Hk]. exact (Hr k a n Hk).
  Qed.

  (** the rule of the code as it is now never lowers a sequence ... *)
  Lemma exec_all_mono l : forall st b, (st b <= exec_all new_rule st l b)%N.
  Proof.
    induction l as [|[[a m] f] r IH]; intros st b; cbn [SigModel.exec_all]; [lia|].
    set (st1 := if sets_nonce f then upd A_dec st a (new_rule (st a) m) else st).
    assert (E1 : (st b <= st1 b)%N).
    { unfold st1. destruct (sets_nonce f); [|lia]. unfold upd. destruct (A_dec a b) as [<-|]; [|lia].
      unfold nonce_after_creation. lia. }
    specialize (IH st1 b). lia.
  Qed.

  (** ... and is a no-op when every message's nonce is below its sender's sequence *)
  Lemma exec_all_noop l : forall st, (forall a m f, In (a, m, f) l -> (m < st a)%N) ->
    forall b, exec_all new_rule st l b = st b.
  Proof.
    induction l as [|[[a m] f] r IH]; intros st H b; cbn [SigModel.exec_all]; [reflexivity|].
    set (st1 := if sets_nonce f then upd A_dec st a (new_rule (st a) m) else st).
    assert (E1 : forall c, st1 c = st c).
    { intros c. unfold st1. destruct (sets_nonce f); [|reflexivity]. unfold upd. destruct (A_dec a c) as [<-|]; [|reflexivity].
      unfold nonce_after_creation. pose proof (H a m f (or_introl eq_refl)). lia. }
    rewrite IH; [apply E1|]. intros a' m' f' Hin. rewrite E1. apply (H a' m' f'). right. exact Hin.
  Qed.

  Lemma step_txc_snd rule st msc ok : snd (step_txc rule st (msc, ok)) = snd (step_tx st (map fst msc, ok)).
  Proof. unfold SigModel.step_txc. destruct (step_tx st (map fst msc, ok)) as [st' [l|]]; reflexivity. Qed.

  (** THE EXECUTION PHASE IS A NO-OP: with the rule max(nonce before, m + 1) a
      transaction with contract creations leaves exactly the sequences the ante
      handler left, whatever the flags *)
  Theorem txc_execution_noop st msc ok :
    snd (step_txc new_rule st (msc, ok)) = snd (step_tx st (map fst msc, ok)) /\
    forall b, fst (step_txc new_rule st (msc, ok)) b = fst (step_tx st (map fst msc, ok)) b.
  Proof.
    split; [apply step_txc_snd|]. intros b.
    unfold SigModel.step_txc. destruct (step_tx st (map fst msc, ok)) as [st' [l|]] eqn:E; cbn [fst]; [|reflexivity].
    apply exec_all_noop. intros a m f Hin. apply in_combine_l in Hin.
    assert (Hacc : snd (step_tx st (map fst msc, ok)) = Some l) by (rewrite E; reflexivity).
    pose proof (accepted_nonces_below _ _ _ _ Hacc a m Hin) as H. rewrite E in H. cbn [fst] in H. lia.
  Qed.

  (** sequence = n + k: after an accepted transaction every account's sequence
      has grown by the number of its messages, creations or not *)
  Theorem txc_sequence st msc ok l :
    snd (step_txc new_rule st (msc, ok)) = Some l ->
    forall b, fst (step_txc new_rule st (msc, ok)) b = (st b + N.of_nat (occ l b))%N.
  Proof.
    intros Hacc b. destruct (txc_execution_noop st msc ok) as [Hs Hf]. rewrite Hs in Hacc.
    rewrite Hf. exact (step_tx_state _ _ _ _ Hacc b).
  Qed.

  Lemma step_txc_mono st x b : (st b <= fst (step_txc new_rule st x) b)%N.
  Proof.
    destruct x as [msc ok]. destruct (txc_execution_noop st msc ok) as [_ Hf]. rewrite Hf. apply step_tx_mono.
  Qed.

  Lemma step_txc_bounds st msc ok l k m a :
    snd (step_txc new_rule st (msc, ok)) = Some l -> nth_error (map fst msc) k = Some m -> nth_error l k = Some a ->
    (st a <= nonce_of m < fst (step_txc new_rule st (msc, ok)) a)%N.
  Proof.
    intros Hacc Hm Hl. destruct (txc_execution_noop st msc ok) as [Hs Hf]. rewrite Hs in Hacc. rewrite Hf.
    destruct (step_tx_message _ _ _ _ _ _ _ Hacc Hm Hl) as (_ & _ & Hr). exact Hr.
  Qed.

  Lemma step_txc_inj st msc ok l k k' m m' a :
    snd (step_txc new_rule st (msc, ok)) = Some l -> nth_error (map fst msc) k = Some m -> nth_error (map fst msc) k' = Some m' ->
    nth_error l k = Some a -> nth_error l k' = Some a -> nonce_of m = nonce_of m' -> k = k'.
  Proof. rewrite step_txc_snd. apply step_tx_inj. Qed.

  (** all histories of transactions with contract creations *)
  Notation msgs_txc := (fun x : list (T * cflag) * bool => map fst (fst x)).
  Theorem txc_each_nonce_once h st j k j' k' a n :
    executed_gen (step_txc new_rule) msgs_txc nonce_of st h j k a n ->
    executed_gen (step_txc new_rule) msgs_txc nonce_of st h j' k' a n -> j = j' /\ k = k'.
  Proof.
    apply (gen_each_nonce_once (step_txc new_rule) msgs_txc nonce_of).
    - intros st0 x b. apply step_txc_mono.
    - intros st0 [msc ok] l k0 m a0. apply step_txc_bounds.
    - intros st0 [msc ok] l k0 k0' m m' a0. apply step_txc_inj.
  Qed.

  Theorem txc_sequences_monotone (h1 h2 : list (list (T * cflag) * bool)) st b :
    (final_gen (step_txc new_rule) st h1 b <= final_gen (step_txc new_rule) st (h1 ++ h2) b)%N.
  Proof. apply gen_sequences_monotone. apply step_txc_mono. Qed.

  (** ** events: submissions, transactions with creations, account-type operations *)
  Context {O : Type}.
  Notation event := (@event A T W O).
  Notation step_event := (SigModel.step_event (W:=W) (O:=O) A_dec auth nonce_of new_rule).
  Notation msgs_of_event := (SigModel.msgs_of_event (A:=A) (T:=T) (W:=W) (O:=O)).
  Notation final_event := (SigModel.final_event (W:=W) (O:=O) A_dec auth nonce_of new_rule).
  Notation outcomes_event := (SigModel.outcomes_event (W:=W) (O:=O) A_dec auth nonce_of new_rule).
  Notation executed_event := (SigModel.executed_event (W:=W) (O:=O) A_dec auth nonce_of new_rule).

  Lemma step_event_mono st (e : event) b : (st b <= fst (step_event st e) b)%N.
  Proof.
    destruct e as [x|msc ok|o tgt sg ok]; cbn [SigModel.step_event].
    - rewrite step_any_erase. apply step_tx_mono.
    - apply step_txc_mono.
    - apply step_tx_mono.
  Qed.

  Lemma step_event_bounds st (e : event) l k m a :
    snd (step_event st e) = Some l -> nth_error (msgs_of_event e) k = Some m -> nth_error l k = Some a ->
    (st a <= nonce_of m < fst (step_event st e) a)%N.
  Proof.
    destruct e as [[ms ok|w c ok]|msc ok|o tgt sg ok]; cbn [SigModel.step_event SigModel.step_any SigModel.msgs_of_event SigModel.msgs_of].
    - intros Hacc Hm Hl. destruct (step_tx_message _ _ _ _ _ _ _ Hacc Hm Hl) as (_ & _ & Hr). exact Hr.
    - discriminate.
    - apply step_txc_bounds.
    - intros Hacc Hm Hl. destruct (step_tx_message _ _ _ _ _ _ _ Hacc Hm Hl) as (_ & _ & Hr). exact Hr.
  Qed.

  Lemma step_event_inj st (e : event) l k k' m m' a :
    snd (step_event st e) = Some l -> nth_error (msgs_of_event e) k = Some m -> nth_error (msgs_of_event e) k' = Some m' ->
    nth_error l k = Some a -> nth_error l k' = Some a -> nonce_of m = nonce_of m' -> k = k'.
  Proof.
    destruct e as [[ms ok|w c ok]|msc ok|o tgt sg ok]; cbn [SigModel.step_event SigModel.step_any SigModel.msgs_of_event SigModel.msgs_of].
    - apply step_tx_inj.
    - discriminate.
    - apply step_txc_inj.
    - apply step_tx_inj.
  Qed.

  (** at most once, over ALL histories of events *)
  Theorem event_each_nonce_once h st j k j' k' a n :
    executed_event st h j k a n -> executed_event st h j' k' a n -> j = j' /\ k = k'.
  Proof.
    exact (gen_each_nonce_once step_event msgs_of_event nonce_of step_event_mono step_event_bounds step_event_inj
                               h st j k j' k' a n).
  Qed.

  (** sequences never decrease, over ALL histories of events *)
  Theorem event_sequences_monotone h1 h2 st b : (final_event st h1 b <= final_event st (h1 ++ h2) b)%N.
  Proof. exact (gen_sequences_monotone step_event step_event_mono h1 h2 st b). Qed.

  Theorem event_executed_at_current_sequence h st j k a n :
    executed_event st h j k a n -> (final_event st (firstn j h) a <= n < final_event st (firstn (S j) h) a)%N.
  Proof. exact (gen_executed_at_current_sequence step_event msgs_of_event nonce_of step_event_bounds h st j k a n). Qed.

  (** consequently a message executed once is never executed again, whatever
      events -- wrapped submissions, creations, account-type operations -- lie
      between: its nonce stays below the account's sequence for ever *)
  Theorem event_replay_rejected h st j k a n j' k' :
    executed_event st h j k a n -> (j < j')%nat -> ~ executed_event st h j' k' a n.
  Proof.
    intros H Hlt H'. destruct (event_each_nonce_once h st j k j' k' a n H H') as [-> _]. lia.
  Qed.

  (** an account-type operation is its signers' transaction and nothing else *)
  Theorem account_op_step st (o : O) tgt sg ok :
    step_event st (EAccountOp o tgt sg ok) = step_tx st (sg, ok).
  Proof. reflexivity. Qed.

  (** ... in particular the sequence of its target does not move (unless the
      target itself is among the signers of the operation) *)
  Theorem account_op_target_untouched st (o : O) tgt sg ok :
    (forall m, In m sg -> auth st m <> Some tgt) ->
    fst (step_event st (EAccountOp o tgt sg ok)) tgt = st tgt.
  Proof.
    intros Hno. cbn [SigModel.step_event].
    destruct (snd (step_tx st (sg, ok))) as [l|] eqn:E; [|rewrite (step_tx_reject _ _ E); reflexivity].
    rewrite (step_tx_state _ _ _ _ E).
    assert (Hnot : ~ In tgt l).
    { intros Hin. destruct (In_nth_error _ _ Hin) as [k Hk].
      pose proof (step_tx_accept _ _ _ _ E) as (_ & _ & Hau & _).
      destruct (auth_all_nth _ _ _ Hau) as [Hlen Hn].
      assert (Hk' : (k < length sg)%nat). { rewrite <- Hlen. apply nth_error_Some. congruence. }
      destruct (nth_error sg k) as [m|] eqn:Em; [|apply nth_error_None in Em; lia].
      destruct (Hn k m Em) as (a' & Ha' & Hauth). rewrite Hk in Ha'. inversion Ha'; subst a'.
      exact (Hno m (nth_error_In _ _ Em) Hauth). }
    rewrite (count_occ_not_In A_dec) in Hnot. rewrite Hnot. cbn. lia.
  Qed.

  (** a transaction with creations, as an event: sequence = n + k *)
  Theorem creating_sequence st msc ok l :
    snd (step_event st (ECreating msc ok)) = Some l ->
    forall b, fst (step_event st (ECreating msc ok)) b = (st b + N.of_nat (occ l b))%N.
  Proof. apply txc_sequence. Qed.
End Machine.

(** * the Ethereum route *)
Section EthRoute.
  Variable hash : bytes -> bytes.
  Variable recover : bytes -> Z -> Z -> Z -> option bytes.
  Variable cfg : chain_cfg.

  Notation auth := (auth_eth hash recover cfg).
  Notation step := (step_eth hash recover cfg).

  Theorem eth_each_nonce_once h st i j a n :
    accepted_eth hash recover cfg st h i a n -> accepted_eth hash recover cfg st h j a n -> i = j.
  Proof. apply each_nonce_once. Qed.

  Theorem eth_replay_rejected h st i j a n :
    accepted_eth hash recover cfg st h i a n -> i <> j -> ~ accepted_eth hash recover cfg st h j a n.
  Proof. apply replay_rejected. Qed.

  (** a replay-protected transaction whose chain id is not the chain's is not
      authenticated at all *)
  Lemma sender_foreign cid tx : protected tx = true -> chain_id tx <> cid -> sender hash recover cid tx = None.
  Proof.
    intros Hp Hc. unfold sender. destruct (tx_vrs tx) as [[v r] s] eqn:E.
    assert (Hne : (chain_id tx =? cid)%Z = false) by (apply Z.eqb_neq; exact Hc).
    destruct tx as [t|t|t].
    - cbn [protected] in Hp. cbn [tx_vrs] in E. inversion E; subst. rewrite Hp, Hne. reflexivity.
    - rewrite Hne. reflexivity.
    - rewrite Hne. reflexivity.
  Qed.

  Theorem foreign_chain_rejected st tx ok :
    protected tx = true -> chain_id tx <> c_eip155 cfg -> step st (tx, ok) = (st, None).
  Proof.
    intros Hp Hc. unfold step_eth, SigModel.step, auth_eth.
    rewrite (sender_foreign _ _ Hp Hc). destruct (negb (c_allow_unprotected cfg) && negb (protected tx)); reflexivity.
  Qed.

  Theorem unprotected_rejected st tx ok :
    c_allow_unprotected cfg = false -> protected tx = false -> step st (tx, ok) = (st, None).
  Proof.
    intros Ha Hp. unfold step_eth, SigModel.step, auth_eth. rewrite Ha, Hp. reflexivity.
  Qed.

  (** ** several MsgEthereumTx in one Cosmos transaction *)
  Notation step_tx := (step_eth_tx hash recover cfg).
  Notation executed := (executed_eth hash recover cfg).
  Notation occ := (count_occ (list_eq_dec N.eq_dec)).

  (** every (account, nonce) is executed at most once -- over all histories of
      multi-message transactions, and within one transaction *)
  Theorem eth_tx_each_nonce_once h st j k j' k' a n :
    executed st h j k a n -> executed st h j' k' a n -> j = j' /\ k = k'.
  Proof. apply tx_each_nonce_once. Qed.

  (** all or nothing *)
  Theorem eth_tx_reject_no_effect st x : snd (step_tx st x) = None -> fst (step_tx st x) = st.
  Proof. apply step_tx_reject. Qed.

  (** what acceptance means for message [k] of the transaction, and for the state *)
  Theorem eth_tx_accept_spec st ms ok l :
    snd (step_tx st (ms, ok)) = Some l ->
    ok = true /\ length l = length ms /\
    (forall k m a, nth_error ms k = Some m -> nth_error l k = Some a ->
       auth st m = Some a /\ tx_nonce m = (st a + N.of_nat (occ (firstn k l) a))%N) /\
    (forall b, fst (step_tx st (ms, ok)) b = (st b + N.of_nat (occ l b))%N).
  Proof.
    intros H. pose proof (step_tx_accept _ _ _ _ _ _ _ H) as (_ & Hok & Hau & _).
    destruct (auth_all_nth _ _ _ _ Hau) as [Hlen _].
    split; [exact Hok|]. split; [exact Hlen|]. split.
    - intros k m a Hm Hl. destruct (step_tx_message _ _ _ _ _ _ _ _ _ _ H Hm Hl) as (H1 & H2 & _). auto.
    - exact (step_tx_state _ _ _ _ _ _ _ H).
  Qed.

  Theorem eth_tx_replay_rejected h st j k a n j' ms ok m :
    executed st h j k a n -> (j < j')%nat -> nth_error h j' = Some (ms, ok) -> In m ms ->
    auth st m = Some a -> tx_nonce m = n ->
    nth_error (outcomes_eth_tx hash recover cfg st h) j' = Some None /\
    final_eth_tx hash recover cfg st (firstn (S j') h) = final_eth_tx hash recover cfg st (firstn j' h).
  Proof.
    intros Hex Hlt Hh Hin Hau Hn.
    exact (tx_replay_rejected _ _ _ h st j k a n j' ms ok m Hex Hlt Hh Hin Hau Hn).
  Qed.

  Theorem eth_tx_duplicate_rejected st ms ok k k' m m' a :
    k <> k' -> nth_error ms k = Some m -> nth_error ms k' = Some m' ->
    auth st m = Some a -> auth st m' = Some a -> tx_nonce m = tx_nonce m' ->
    step_tx st (ms, ok) = (st, None).
  Proof. apply tx_duplicate_rejected. Qed.

  Theorem eth_tx_out_of_order_rejected st ms ok l k m a :
    auth_all auth st ms = Some l -> nth_error ms k = Some m -> nth_error l k = Some a ->
    tx_nonce m <> (st a + N.of_nat (occ (firstn k l) a))%N ->
    step_tx st (ms, ok) = (st, None).
  Proof. apply tx_out_of_order_rejected. Qed.

  Theorem eth_tx_stale_rejected st ms ok m a :
    In m ms -> auth st m = Some a -> (tx_nonce m < st a)%N -> step_tx st (ms, ok) = (st, None).
  Proof. apply tx_stale_rejected. Qed.

  Theorem eth_tx_in_order_accepted st ms l :
    ms <> [] -> auth_all auth st ms = Some l ->
    (forall k m a, nth_error ms k = Some m -> nth_error l k = Some a ->
                   tx_nonce m = (st a + N.of_nat (occ (firstn k l) a))%N) ->
    snd (step_tx st (ms, true)) = Some l.
  Proof. apply tx_in_order_accepted. Qed.

  (** one foreign-chain or unprotected message poisons the whole transaction *)
  Theorem eth_tx_foreign_chain_rejected st ms ok tx :
    In tx ms -> protected tx = true -> chain_id tx <> c_eip155 cfg -> step_tx st (ms, ok) = (st, None).
  Proof.
    intros Hin Hp Hc. apply (tx_unauthenticated_rejected _ _ _ st ms ok tx Hin).
    unfold auth_eth. rewrite (sender_foreign _ _ Hp Hc).
    destruct (negb (c_allow_unprotected cfg) && negb (protected tx)); reflexivity.
  Qed.

  Theorem eth_tx_unprotected_rejected st ms ok tx :
    In tx ms -> c_allow_unprotected cfg = false -> protected tx = false -> step_tx st (ms, ok) = (st, None).
  Proof.
    intros Hin Ha Hp. apply (tx_unauthenticated_rejected _ _ _ st ms ok tx Hin).
    unfold auth_eth. rewrite Ha, Hp. reflexivity.
  Qed.

  (** the one-message transaction is the old machine *)
  Theorem eth_tx_singleton st tx ok :
    step_tx st ([tx], ok) = (fst (step st (tx, ok)), option_map (fun a => [a]) (snd (step st (tx, ok)))).
  Proof. apply step_tx_singleton. Qed.

  (** ** signed Ethereum messages shipped on other routes (wrapped in
      authz.MsgExec, as plain Cosmos messages, inside EIP-712 Cosmos
      transactions, ...): histories of [Direct] and [Wrapped] submissions *)
  Section Wrapped.
    Context {W : Type}.
    Notation step_any := (step_eth_any (W:=W) hash recover cfg).
    Notation outcomes_any := (outcomes_eth_any (W:=W) hash recover cfg).
    Notation final_any := (final_eth_any (W:=W) hash recover cfg).
    Notation executed_any := (executed_eth_any (W:=W) hash recover cfg).

    Theorem eth_wrapped_rejected st (w : W) c ok : step_any st (Wrapped w c ok) = (st, None).
    Proof. reflexivity. Qed.

    Theorem eth_wrapped_no_effect h st j (w : W) c ok :
      nth_error h j = Some (Wrapped w c ok) ->
      nth_error (outcomes_any st h) j = Some None /\ final_any st (firstn (S j) h) = final_any st (firstn j h).
    Proof. apply wrapped_no_effect. Qed.

    Theorem eth_wrapped_never_executes h st j (w : W) c ok k a n :
      nth_error h j = Some (Wrapped w c ok) -> ~ executed_any st h j k a n.
    Proof. apply wrapped_never_executes. Qed.

    Theorem eth_wrapped_replay_rejected h st j k a n j' (w : W) c ok k' :
      executed_any st h j k a n -> nth_error h j' = Some (Wrapped w c ok) ->
      ~ executed_any st h j' k' a n /\
      nth_error (outcomes_any st h) j' = Some None /\
      final_any st (firstn (S j') h) = final_any st (firstn j' h).
    Proof. apply wrapped_replay_rejected. Qed.

    Theorem eth_executed_only_direct h st j k a n :
      executed_any st h j k a n ->
      (exists ms ok, nth_error h j = Some (Direct ms ok)) /\
      (final_any st (firstn j h) a <= n < final_any st (firstn (S j) h) a)%N.
    Proof.
      intros H. split; [exact (executed_any_direct _ _ _ h st j k a n H)|].
      exact (executed_any_at_current_sequence _ _ _ h st j k a n H).
    Qed.

    Theorem eth_any_each_nonce_once h st j k j' k' a n :
      executed_any st h j k a n -> executed_any st h j' k' a n -> j = j' /\ k = k'.
    Proof. apply any_each_nonce_once. Qed.

    Theorem eth_wrapped_inert h st :
      final_any st h = final_any st (filter (fun x => match x with Direct _ _ => true | Wrapped _ _ _ => false end) h).
    Proof. apply wrapped_inert. Qed.

    Theorem eth_any_direct_only (h : list (list eth_tx * bool)) st :
      outcomes_any st (map (fun x => Direct (fst x) (snd x)) h) = outcomes_eth_tx hash recover cfg st h /\
      final_any st (map (fun x => Direct (fst x) (snd x)) h) = final_eth_tx hash recover cfg st h.
    Proof. apply any_direct_only. Qed.
  End Wrapped.

  (** ** transactions with contract creations; events *)
  Section Creations.
    Notation new_rule := nonce_after_creation.
    Notation step_txc := (step_eth_txc hash recover cfg new_rule).

    Theorem eth_txc_execution_noop st msc ok :
      snd (step_txc st (msc, ok)) = snd (step_tx st (map fst msc, ok)) /\
      forall b, fst (step_txc st (msc, ok)) b = fst (step_tx st (map fst msc, ok)) b.
    Proof. apply txc_execution_noop. Qed.

    Theorem eth_txc_sequence st msc ok l :
      snd (step_txc st (msc, ok)) = Some l ->
      forall b, fst (step_txc st (msc, ok)) b = (st b + N.of_nat (occ l b))%N.
    Proof. apply txc_sequence. Qed.

    Theorem eth_txc_each_nonce_once h st j k j' k' a n :
      executed_eth_txc hash recover cfg new_rule st h j k a n ->
      executed_eth_txc hash recover cfg new_rule st h j' k' a n -> j = j' /\ k = k'.
    Proof. apply txc_each_nonce_once. Qed.

    Theorem eth_txc_sequences_monotone (h1 h2 : list (list (eth_tx * cflag) * bool)) st b :
      (final_eth_txc hash recover cfg new_rule st h1 b <= final_eth_txc hash recover cfg new_rule st (h1 ++ h2) b)%N.
    Proof. apply txc_sequences_monotone. Qed.

    Context {W O : Type}.
    Notation step_event := (step_eth_event (W:=W) (O:=O) hash recover cfg new_rule).
    Notation final_event := (final_eth_event (W:=W) (O:=O) hash recover cfg new_rule).
    Notation executed_event := (executed_eth_event (W:=W) (O:=O) hash recover cfg new_rule).

    Theorem eth_event_each_nonce_once h st j k j' k' a n :
      executed_event st h j k a n -> executed_event st h j' k' a n -> j = j' /\ k = k'.
    Proof. apply event_each_nonce_once. Qed.

    Theorem eth_event_replay_rejected h st j k a n j' k' :
      executed_event st h j k a n -> (j < j')%nat -> ~ executed_event st h j' k' a n.
    Proof. apply event_replay_rejected. Qed.

    Theorem eth_event_sequences_monotone h1 h2 st b : (final_event st h1 b <= final_event st (h1 ++ h2) b)%N.
    Proof. apply event_sequences_monotone. Qed.

    Theorem eth_event_executed_at_current_sequence h st j k a n :
      executed_event st h j k a n -> (final_event st (firstn j h) a <= n < final_event st (firstn (S j) h) a)%N.
    Proof. apply event_executed_at_current_sequence. Qed.

    Theorem eth_account_op_target_untouched st (o : O) tgt sg ok :
      (forall m, In m sg -> auth st m <> Some tgt) ->
      fst (step_event st (EAccountOp o tgt sg ok)) tgt = st tgt.
    Proof. apply account_op_target_untouched. Qed.

    Theorem eth_creating_sequence st msc ok l :
      snd (step_event st (ECreating msc ok)) = Some l ->
      forall b, fst (step_event st (ECreating msc ok)) b = (st b + N.of_nat (occ l b))%N.
    Proof. apply creating_sequence. Qed.
  End Creations.

  (** the signature that authenticates: the recovery call that succeeded *)
  Lemma sender_some cid tx a : sender hash recover cid tx = Some a ->
    exists r s v, recover (hash (sign_preimage cid tx)) r s v = Some a.
  Proof.
    unfold sender. destruct (tx_vrs tx) as [[v r] s].
    destruct tx as [t|t|t].
    - destruct (protected_v v); [destruct (chain_id (TxLegacy t) =? cid)%Z; [|discriminate]|]; eauto.
    - destruct (chain_id (TxAccessList t) =? cid)%Z; [|discriminate]; eauto.
    - destruct (chain_id (TxDynamicFee t) =? cid)%Z; [|discriminate]; eauto.
  Qed.

  (** ** the negative direction, under explicit cryptographic premises

      [signed a cid tx]: the holder of [a]'s key has signed transaction [tx]
      with the signer of chain id [cid].
      - [Unforgeable]: a signature that recovers to [a] over a digest was made
        by [a]'s key holder over a message with that digest (ECDSA existential
        unforgeability -- an assumption, not a theorem);
      - [CollisionFree]: two signing preimages with the same digest are equal
        (Keccak-256 collision resistance -- an assumption). *)
  Section Negative.
    Variable signed : bytes -> Z -> eth_tx -> Prop.

    Definition Unforgeable : Prop :=
      forall h r s v a, recover h r s v = Some a ->
        exists cid0 tx0, signed a cid0 tx0 /\ hash (sign_preimage cid0 tx0) = h.
    Definition CollisionFree : Prop :=
      forall cid1 tx1 cid2 tx2, hash (sign_preimage cid1 tx1) = hash (sign_preimage cid2 tx2) ->
        sign_preimage cid1 tx1 = sign_preimage cid2 tx2.
    Definition SignedAreSignable : Prop := forall a cid0 tx0, signed a cid0 tx0 -> signable cid0 tx0.

    (** A transaction executes on behalf of [a] only if [a]'s key holder signed
        exactly its content: type, protection, chain id, nonce, prices, gas, To,
        value, data, access list -- and its nonce is [a]'s current sequence. *)
    Theorem accepted_only_if_signed_partial st tx ok a :
      Unforgeable -> CollisionFree -> SignedAreSignable -> signable (c_eip155 cfg) tx ->
      snd (step st (tx, ok)) = Some a ->
      (exists cid0 tx0, signed a cid0 tx0 /\
                        signed_content_of cid0 tx0 = signed_content_of (c_eip155 cfg) tx) /\
      tx_nonce tx = st a /\
      (c_allow_unprotected cfg = false -> protected tx = true /\ chain_id tx = c_eip155 cfg).
    Proof.
      intros Hunf Hcf Hss Hsig Hacc.
      apply step_accept in Hacc as (Hauth & Hn & _ & _).
      unfold auth_eth in Hauth.
      destruct (negb (c_allow_unprotected cfg) && negb (protected tx)) eqn:Eu; [discriminate|].
      split; [|split; [exact Hn|]].
      - destruct (sender_some _ _ _ Hauth) as (r & s & v & Hrec).
        destruct (Hunf _ _ _ _ _ Hrec) as (cid0 & tx0 & Hs & Hh).
        exists cid0, tx0. split; [exact Hs|].
        apply sign_preimage_inj; [exact (Hss _ _ _ Hs)|exact Hsig|]. apply Hcf. exact Hh.
      - intros Ha. rewrite Ha in Eu. cbn [negb andb] in Eu. apply negb_false_iff in Eu. split; [exact Eu|].
        destruct (Z.eq_dec (chain_id tx) (c_eip155 cfg)) as [E|E]; [exact E|].
        rewrite (sender_foreign _ _ Eu E) in Hauth. discriminate.
    Qed.

    (** Changing any signed field: if nothing [a]'s key holder ever signed has
        the content of [tx'], then [tx'] -- whatever signature it carries, e.g.
        the one lifted from a transaction [a] did sign -- does not execute on
        behalf of [a]. *)
    Theorem mutation_rejected_partial st tx' ok a :
      Unforgeable -> CollisionFree -> SignedAreSignable -> signable (c_eip155 cfg) tx' ->
      (forall cid0 tx0, signed a cid0 tx0 -> signed_content_of cid0 tx0 <> signed_content_of (c_eip155 cfg) tx') ->
      snd (step st (tx', ok)) <> Some a.
    Proof.
      intros Hunf Hcf Hss Hsig Hnone Hacc.
      destruct (accepted_only_if_signed_partial st tx' ok a Hunf Hcf Hss Hsig Hacc) as ((cid0 & tx0 & Hs & Hc) & _).
      exact (Hnone cid0 tx0 Hs Hc).
    Qed.

    (** A signature made for another chain id: if [a]'s key holder only ever
        signed replay-protected transactions for chain ids other than this
        chain's, nothing executes on [a]'s behalf here. *)
    Theorem foreign_signature_rejected_partial st tx ok a :
      Unforgeable -> CollisionFree -> SignedAreSignable -> signable (c_eip155 cfg) tx ->
      (forall cid0 tx0, signed a cid0 tx0 -> protected tx0 = true /\ cid0 <> c_eip155 cfg) ->
      snd (step st (tx, ok)) <> Some a.
    Proof.
      intros Hunf Hcf Hss Hsig Hforeign.
      apply mutation_rejected_partial; try assumption.
      intros cid0 tx0 Hs Hc. destruct (Hforeign _ _ Hs) as [Hp Hne].
      assert (P0 : sc_protected (signed_content_of cid0 tx0) = true /\ sc_chain (signed_content_of cid0 tx0) = cid0).
      { destruct tx0 as [t0|t0|t0]; cbn [protected] in Hp; cbn [signed_content_of sc_protected sc_chain];
          [rewrite Hp|..]; split; reflexivity. }
      assert (P1 : sc_protected (signed_content_of (c_eip155 cfg) tx) = true ->
                   sc_chain (signed_content_of (c_eip155 cfg) tx) = c_eip155 cfg).
      { destruct tx as [t|t|t]; cbn [signed_content_of sc_protected sc_chain]; [intros ->|..]; reflexivity. }
      destruct P0 as [Pp Pc]. rewrite Hc in Pp, Pc. rewrite (P1 Pp) in Pc. exact (Hne (eq_sym Pc)).
    Qed.
  End Negative.

  (** changing any signed field changes the bytes that are signed *)
  Theorem mutation_changes_sign_bytes cid tx tx' :
    signable cid tx -> signable cid tx' ->
    signed_content_of cid tx <> signed_content_of cid tx' -> sign_preimage cid tx <> sign_preimage cid tx'.
  Proof. intros H1 H2 Hne E. apply Hne. apply sign_preimage_inj; assumption. Qed.

  (** ** the message as it travels: Data, and the self-reported Hash and From

      Who a message is authenticated as is a function of its Data; the Hash and
      From texts can only make it be refused. *)
  Notation auth_m := (auth_emsg hash recover cfg).
  Notation step_m := (step_emsg_tx hash recover cfg).

  Lemma emsg_auth_data st m a : auth_m st m = Some a ->
    exists tx, as_tx m = Some tx /\ m_hash m = hash_hex (tx_hash hash tx) /\ m_from m = EmptyString /\
               auth st tx = Some a.
  Proof.
    unfold auth_emsg. destruct (as_tx m) as [tx|]; [|discriminate].
    unfold claims_ok. destruct (String.eqb (m_hash m) (hash_hex (tx_hash hash tx))) eqn:E1; [|discriminate].
    destruct (String.eqb (m_from m) EmptyString) eqn:E2; [|discriminate].
    cbn [andb]. intros H. exists tx. apply String.eqb_eq in E1. apply String.eqb_eq in E2. auto.
  Qed.

  (** for given Data at most one pair of claims passes, and the account is the same
      whatever is claimed: the claims cannot choose on whose behalf Data executes *)
  Theorem emsg_claims_cannot_choose st d h f h' f' a a' :
    auth_m st (mk_emsg d h f) = Some a -> auth_m st (mk_emsg d h' f') = Some a' -> a = a' /\ h = h' /\ f = f'.
  Proof.
    intros H1 H2.
    apply emsg_auth_data in H1 as (tx & T1 & Hh & Hf & A1). apply emsg_auth_data in H2 as (tx' & T2 & Hh' & Hf' & A2).
    unfold as_tx in T1, T2. cbn [m_data m_hash m_from] in *. rewrite T1 in T2. inversion T2; subst tx'.
    rewrite A1 in A2. inversion A2. subst. auto.
  Qed.

  Theorem emsg_forged_hash_unauthenticated st m tx :
    as_tx m = Some tx -> m_hash m <> hash_hex (tx_hash hash tx) -> auth_m st m = None.
  Proof.
    intros T Hne. destruct (auth_m st m) as [a|] eqn:E; [|reflexivity].
    apply emsg_auth_data in E as (tx' & T' & Hh & _). rewrite T in T'. inversion T'; subst tx'. contradiction.
  Qed.

  Theorem emsg_forged_from_unauthenticated st m : m_from m <> EmptyString -> auth_m st m = None.
  Proof.
    intros Hne. destruct (auth_m st m) as [a|] eqn:E; [|reflexivity].
    apply emsg_auth_data in E as (tx' & _ & _ & Hf & _). contradiction.
  Qed.

  (** a Cosmos transaction that contains one message whose Hash text is not the hash
      of its Data -- the hash of another transaction, executed or not, of the same
      or of another account; any text -- is refused as a whole, without effect,
      whatever the state, the other messages and the verdict of the other checks *)
  Theorem emsg_tx_forged_hash_rejected st ms ok m tx :
    In m ms -> as_tx m = Some tx -> m_hash m <> hash_hex (tx_hash hash tx) -> step_m st (ms, ok) = (st, None).
  Proof.
    intros Hin T Hne. apply (tx_unauthenticated_rejected _ _ _ st ms ok m Hin).
    exact (emsg_forged_hash_unauthenticated st m tx T Hne).
  Qed.

  Theorem emsg_tx_forged_from_rejected st ms ok m :
    In m ms -> m_from m <> EmptyString -> step_m st (ms, ok) = (st, None).
  Proof.
    intros Hin Hne. apply (tx_unauthenticated_rejected _ _ _ st ms ok m Hin).
    exact (emsg_forged_from_unauthenticated st m Hne).
  Qed.

  (** every (account, nonce) executes at most once over all histories of
      transactions of messages, whatever the messages claim *)
  Theorem emsg_tx_each_nonce_once h st j k j' k' a n :
    executed_emsg hash recover cfg st h j k a n -> executed_emsg hash recover cfg st h j' k' a n -> j = j' /\ k = k'.
  Proof. apply tx_each_nonce_once. Qed.

  (** on messages as [FromEthereumTx] writes them (Hash = hash of Data, From
      empty) the machine of messages is the machine of transactions *)
  Definition canonical (m : emsg) (tx : eth_tx) : Prop := as_tx m = Some tx /\ claims_ok hash m tx = true.

  Lemma auth_all_canonical st ms txs : Forall2 canonical ms txs ->
    auth_all auth_m st ms = auth_all auth st txs /\ map emsg_nonce ms = map tx_nonce txs.
  Proof.
    induction 1 as [|m tx ms txs [T C] F [IHa IHn]]; [split; reflexivity|].
    split.
    - cbn [auth_all]. rewrite IHa. unfold auth_emsg at 1. rewrite T, C. reflexivity.
    - cbn [map]. rewrite IHn. unfold emsg_nonce at 1. rewrite T. reflexivity.
  Qed.

  Theorem emsg_tx_canonical st ms txs ok : Forall2 canonical ms txs -> step_m st (ms, ok) = step_tx st (txs, ok).
  Proof.
    intros F. destruct (auth_all_canonical st ms txs F) as [Ha Hn].
    unfold step_emsg_tx, step_eth_tx, SigModel.step_tx. rewrite Ha, Hn. destruct F; reflexivity.
  Qed.

  (** [from_eth_tx] writes canonical messages whenever the conversion back gives
      the transaction ([roundtrip_fields] of TxCodec/EthTxProofs.v says when) *)
  Lemma from_eth_tx_canonical csum tx m : from_eth_tx hash csum tx = Some m -> as_tx m = Some tx -> canonical m tx.
  Proof.
    unfold from_eth_tx. destruct (to_txdata csum tx) as [d| | |]; try discriminate.
    intros E T. inversion E; subst m. split; [exact T|]. unfold claims_ok. cbn [m_hash m_from].
    rewrite String.eqb_refl. reflexivity.
  Qed.

  (** ** ... under the cryptographic premises: what executes is signed Data *)
  Section MsgNegative.
    Variable signed : bytes -> Z -> eth_tx -> Prop.

    Lemma auth_eth_signed_partial st tx a :
      Unforgeable signed -> CollisionFree -> SignedAreSignable signed -> signable (c_eip155 cfg) tx ->
      auth st tx = Some a ->
      exists cid0 tx0, signed a cid0 tx0 /\ signed_content_of cid0 tx0 = signed_content_of (c_eip155 cfg) tx.
    Proof.
      intros Hunf Hcf Hss Hsig Hauth. unfold auth_eth in Hauth.
      destruct (negb (c_allow_unprotected cfg) && negb (protected tx)); [discriminate|].
      destruct (sender_some _ _ _ Hauth) as (r & s & v & Hrec).
      destruct (Hunf _ _ _ _ _ Hrec) as (cid0 & tx0 & Hs & Hh).
      exists cid0, tx0. split; [exact Hs|].
      apply sign_preimage_inj; [exact (Hss _ _ _ Hs)|exact Hsig|]. apply Hcf. exact Hh.
    Qed.

    (** message [k] of an accepted transaction executes on behalf of [a]: then
        its Hash text is the hash of its Data, its From text is empty, [a]'s key
        holder signed exactly the content of its Data, and the nonce in its Data is
        [a]'s sequence at that point of the transaction *)
    Theorem emsg_executes_only_signed_data_partial st ms ok l k m a :
      Unforgeable signed -> CollisionFree -> SignedAreSignable signed ->
      snd (step_m st (ms, ok)) = Some l -> nth_error ms k = Some m -> nth_error l k = Some a ->
      exists tx, as_tx m = Some tx /\ m_hash m = hash_hex (tx_hash hash tx) /\ m_from m = EmptyString /\
                 tx_nonce tx = (st a + N.of_nat (count_occ (list_eq_dec N.eq_dec) (firstn k l) a))%N /\
                 (signable (c_eip155 cfg) tx ->
                  exists cid0 tx0, signed a cid0 tx0 /\ signed_content_of cid0 tx0 = signed_content_of (c_eip155 cfg) tx).
    Proof.
      intros Hunf Hcf Hss Hacc Hm Hl.
      destruct (step_tx_message _ _ _ _ _ _ _ _ _ _ Hacc Hm Hl) as (Hauth & Hn & _).
      destruct (emsg_auth_data _ _ _ Hauth) as (tx & T & Hh & Hf & Ha).
      exists tx. repeat split; try assumption.
      - unfold emsg_nonce in Hn. rewrite T in Hn. exact Hn.
      - intros Hsig. exact (auth_eth_signed_partial st tx a Hunf Hcf Hss Hsig Ha).
    Qed.

    (** a message whose Data has a content nobody ever signed -- a signed
        transaction with the nonce, the value, the recipient, the gas ... changed,
        the old signature values kept -- poisons the whole Cosmos transaction,
        whatever its Hash and From texts claim (e.g. the hash of the transaction
        the signature was lifted from), whatever was validated or executed before *)
    Theorem emsg_unsigned_data_rejected_partial st ms ok m tx' :
      Unforgeable signed -> CollisionFree -> SignedAreSignable signed ->
      In m ms -> as_tx m = Some tx' -> signable (c_eip155 cfg) tx' ->
      (forall a cid0 tx0, signed a cid0 tx0 -> signed_content_of cid0 tx0 <> signed_content_of (c_eip155 cfg) tx') ->
      step_m st (ms, ok) = (st, None).
    Proof.
      intros Hunf Hcf Hss Hin T Hsig Hnone. apply (tx_unauthenticated_rejected _ _ _ st ms ok m Hin).
      destruct (auth_m st m) as [a|] eqn:E; [|reflexivity].
      destruct (emsg_auth_data _ _ _ E) as (tx & T' & _ & _ & Ha). rewrite T in T'. inversion T'; subst tx.
      destruct (auth_eth_signed_partial st tx' a Hunf Hcf Hss Hsig Ha) as (cid0 & tx0 & Hs & Hc).
      exfalso. exact (Hnone a cid0 tx0 Hs Hc).
    Qed.
  End MsgNegative.
End EthRoute.

(** ** the positive direction: a correctly signed transaction with the right
    nonce is accepted on behalf of the signing key's account *)
Section Positive.
  Context {K : Type}.
  Variable hash : bytes -> bytes.
  Variable recover : bytes -> Z -> Z -> Z -> option bytes.
  Variable sign : K -> bytes -> Z * Z * Z.
  Variable addr : K -> bytes.
  (** the single hypothesis on the signature scheme *)
  Hypothesis recover_sign : forall k h, let '(r, s, i) := sign k h in recover h r s (i + 27)%Z = Some (addr k).
  Hypothesis recid_range : forall k h, let '(_, _, i) := sign k h in (0 <= i <= 1)%Z.

  Lemma sign_preimage_with_sig cid tx v r s :
    protected (with_sig tx v r s) = protected (with_sig tx (2 * cid + 35) 0 0) ->
    sign_preimage cid (with_sig tx v r s) = sign_preimage cid (with_sig tx (2 * cid + 35) 0 0).
  Proof.
    destruct tx as [t|t|t]; cbn [with_sig protected l_v]; intros Hp; unfold sign_preimage;
      cbn [envelope sign_item l_v l_nonce l_gas_price l_gas l_to l_value l_data a_nonce a_gas_price a_gas a_to a_value
           a_data a_accesses d_nonce d_tip d_fee_cap d_gas d_to d_value d_data d_accesses];
      [rewrite Hp|..]; reflexivity.
  Qed.

  Theorem honest_tx_accepted cfg st k tx :
    (0 < c_eip155 cfg)%Z ->
    (tx_type tx <> 0%N -> chain_id tx = c_eip155 cfg) ->
    tx_nonce tx = st (addr k) ->
    step_eth hash recover cfg st (sign_tx hash sign k (c_eip155 cfg) tx, true)
    = (upd (list_eq_dec N.eq_dec) st (addr k) (st (addr k) + 1)%N, Some (addr k)).
  Proof.
    destruct cfg as [c allow]. cbn [c_eip155]. intros Hc Hchain Hn.
    unfold sign_tx.
    set (body := match tx with TxLegacy _ => with_sig tx (2 * c + 35) 0 0 | _ => tx end).
    pose proof (recover_sign k (hash (sign_preimage c body))) as Hrec.
    pose proof (recid_range k (hash (sign_preimage c body))) as Hrng.
    destruct (sign k (hash (sign_preimage c body))) as [[r s] i].
    assert (Hpv : forall v, (37 <= v)%Z -> protected_v v = true).
    { intros v Hv. unfold protected_v.
      destruct (Z.eqb_spec v 27), (Z.eqb_spec v 28), (Z.eqb_spec v 1), (Z.eqb_spec v 0); try lia; try reflexivity. }
    unfold step_eth, SigModel.step, auth_eth. cbn [c_eip155 c_allow_unprotected].
    destruct tx as [t|t|t]; cbn [with_sig].
    - (* legacy, EIP-155 *)
      cbn [protected l_v]. rewrite (Hpv (i + 35 + 2 * c)%Z) by lia. cbn [negb andb]. rewrite andb_false_r.
      unfold sender. cbn [tx_vrs l_v l_r l_s]. rewrite (Hpv (i + 35 + 2 * c)%Z) by lia.
      assert (Ecid : chain_id (TxLegacy (mk_legacy (l_nonce t) (l_gas_price t) (l_gas t) (l_to t) (l_value t) (l_data t) (i + 35 + 2 * c) r s)) = c).
      { cbn [chain_id l_v]. unfold derive_chain_id.
        assert (Hb1 : ((i + 35 + 2 * c =? 27) || (i + 35 + 2 * c =? 28))%Z = false).
        { destruct (Z.eqb_spec (i + 35 + 2 * c) 27), (Z.eqb_spec (i + 35 + 2 * c) 28); try lia; try reflexivity. }
        assert (Hb2 : (i + 35 + 2 * c <? 35)%Z = false) by (apply Z.ltb_ge; lia).
        rewrite Hb1, Hb2.
        assert (E : ((i + 35 + 2 * c - 35) / 2 = c)%Z).
        { replace (i + 35 + 2 * c - 35)%Z with (i + c * 2)%Z by lia. rewrite Z.div_add by lia.
          rewrite (Z.div_small i 2) by lia. lia. }
        rewrite E. destruct (i + 35 + 2 * c <? 2 ^ 64)%Z; reflexivity. }
      rewrite Ecid, Z.eqb_refl.
      replace (i + 35 + 2 * c - 2 * c - 8)%Z with (i + 27)%Z by lia.
      assert (Epre : sign_preimage c (TxLegacy (mk_legacy (l_nonce t) (l_gas_price t) (l_gas t) (l_to t) (l_value t) (l_data t) (i + 35 + 2 * c) r s))
                     = sign_preimage c body).
      { unfold body. apply (sign_preimage_with_sig c (TxLegacy t)). cbn [with_sig protected l_v].
        rewrite !Hpv by lia. reflexivity. }
      rewrite Epre, Hrec. cbn [tx_nonce l_nonce] in *. rewrite Hn, N.eqb_refl. reflexivity.
    - (* access list *)
      cbn [protected]. rewrite andb_false_r. unfold sender. cbn [tx_vrs a_v a_r a_s chain_id a_chain_id].
      specialize (Hchain ltac:(discriminate)). cbn [chain_id] in Hchain. rewrite Hchain. rewrite Z.eqb_refl.
      match goal with |- context [sign_preimage c ?x] => assert (Epre : sign_preimage c x = sign_preimage c body) by reflexivity end.
      rewrite Epre, Hrec. cbn [tx_nonce a_nonce] in *. rewrite Hn, N.eqb_refl. reflexivity.
    - (* dynamic fee *)
      cbn [protected]. rewrite andb_false_r. unfold sender. cbn [tx_vrs d_v d_r d_s chain_id d_chain_id].
      specialize (Hchain ltac:(discriminate)). cbn [chain_id] in Hchain. rewrite Hchain. rewrite Z.eqb_refl.
      match goal with |- context [sign_preimage c ?x] => assert (Epre : sign_preimage c x = sign_preimage c body) by reflexivity end.
      rewrite Epre, Hrec. cbn [tx_nonce d_nonce] in *. rewrite Hn, N.eqb_refl. reflexivity.
  Qed.
End Positive.

(** * the Cosmos and EIP-712 routes, at the level of the sign doc *)
Section CosmosRoute.
  Context {A B S : Type}.
  Variable A_dec : forall a b : A, {a = b} + {a <> b}.
  Variable digests : @sign_doc B -> list bytes.
  Variable verify : A -> bytes -> S -> bool.
  Variable chain : string.
  Variable accnum : A -> N.
  Variable eip155 : Z.

  Notation stepc := (step_cosmos A_dec digests verify chain accnum).
  Notation step712 := (step_eip712 A_dec digests verify chain accnum eip155).
  Notation tx := (@cosmos_tx A B S).

  Theorem cosmos_each_seq_once (h : list (tx * bool)) st i j a n :
    accepted_cosmos A_dec digests verify chain accnum st h i a n ->
    accepted_cosmos A_dec digests verify chain accnum st h j a n -> i = j.
  Proof. apply each_nonce_once. Qed.

  Theorem cosmos_replay_rejected (h : list (tx * bool)) st i j a n :
    accepted_cosmos A_dec digests verify chain accnum st h i a n -> i <> j ->
    ~ accepted_cosmos A_dec digests verify chain accnum st h j a n.
  Proof. apply replay_rejected. Qed.

  Theorem eip712_each_seq_once (h : list (tx * bool)) st i j a n :
    accepted_eip712 A_dec digests verify chain accnum eip155 st h i a n ->
    accepted_eip712 A_dec digests verify chain accnum eip155 st h j a n -> i = j.
  Proof. apply each_nonce_once. Qed.

  Theorem eip712_replay_rejected (h : list (tx * bool)) st i j a n :
    accepted_eip712 A_dec digests verify chain accnum eip155 st h i a n -> i <> j ->
    ~ accepted_eip712 A_dec digests verify chain accnum eip155 st h j a n.
  Proof. apply replay_rejected. Qed.

  (** [signed_doc a d]: the holder of [a]'s key has signed sign doc [d].
      - [UnforgeableC]: a signature that verifies under [a]'s key for a digest
        was made by [a]'s key holder over a sign doc with that digest (ECDSA
        unforgeability -- an assumption);
      - [DigestsSeparate]: two sign docs that share an accepted digest are equal
        (collision resistance of Keccak together with injectivity of the sign
        bytes and of the EIP-712 renderings -- an assumption). *)
  Section Negative.
    Variable signed_doc : A -> @sign_doc B -> Prop.

    Definition UnforgeableC : Prop :=
      forall a h s, verify a h s = true -> exists d, signed_doc a d /\ In h (digests d).
    Definition DigestsSeparate : Prop :=
      forall d d' h, In h (digests d) -> In h (digests d') -> d = d'.

    Lemma auth_cosmos_signed st (t : tx) a :
      UnforgeableC -> DigestsSeparate ->
      auth_cosmos digests verify chain accnum st t = Some a ->
      a = ct_signer t /\ signed_doc a (mk_doc chain (accnum a) (st a) (ct_body t)).
    Proof.
      intros Hunf Hsep. unfold auth_cosmos.
      destruct (existsb _ _) eqn:E; [|discriminate]. intros H; inversion H; subst a. split; [reflexivity|].
      apply existsb_exists in E as (h & Hin & Hv).
      destruct (Hunf _ _ _ Hv) as (d & Hs & Hd).
      rewrite (Hsep _ _ _ Hin Hd). exact Hs.
    Qed.

    (** A Cosmos transaction executes on behalf of [a] only if [a]'s key holder
        signed exactly: this chain id, [a]'s account number, [a]'s CURRENT
        sequence and this body; and the sequence it claims is the current one. *)
    Theorem cosmos_accepted_only_if_signed_partial st (t : tx) ok a :
      UnforgeableC -> DigestsSeparate ->
      snd (stepc st (t, ok)) = Some a ->
      a = ct_signer t /\ signed_doc a (mk_doc chain (accnum a) (st a) (ct_body t)) /\ ct_seq t = st a.
    Proof.
      intros Hunf Hsep Hacc. apply step_accept in Hacc as (Hauth & Hn & _ & _).
      destruct (auth_cosmos_signed st t a Hunf Hsep Hauth) as [E Hs]. auto.
    Qed.

    (** changing the body (messages, memo, fee, gas, timeout), the sequence, the
        account number or the chain id: if the key holder never signed the doc
        the node rebuilds, the transaction does not execute on [a]'s behalf *)
    Theorem cosmos_mutation_rejected_partial st (t : tx) ok a :
      UnforgeableC -> DigestsSeparate ->
      (forall d, signed_doc a d -> d <> mk_doc chain (accnum a) (st a) (ct_body t)) ->
      snd (stepc st (t, ok)) <> Some a.
    Proof.
      intros Hunf Hsep Hnone Hacc.
      destruct (cosmos_accepted_only_if_signed_partial st t ok a Hunf Hsep Hacc) as (_ & Hs & _).
      exact (Hnone _ Hs eq_refl).
    Qed.

    (** a signature made for another chain id *)
    Theorem cosmos_foreign_chain_rejected_partial st (t : tx) ok a :
      UnforgeableC -> DigestsSeparate ->
      (forall d, signed_doc a d -> sd_chain d <> chain) ->
      snd (stepc st (t, ok)) <> Some a.
    Proof.
      intros Hunf Hsep Hf. apply cosmos_mutation_rejected_partial; try assumption.
      intros d Hs E. apply (Hf d Hs). rewrite E. reflexivity.
    Qed.

    (** the legacy EIP-712 route: the same, and the typed-data chain id of the
        extension is the chain's EIP-155 id and the fee payer is the signer *)
    Theorem eip712_accepted_only_if_signed_partial st (t : tx) ok a :
      UnforgeableC -> DigestsSeparate ->
      snd (step712 st (t, ok)) = Some a ->
      a = ct_signer t /\ signed_doc a (mk_doc chain (accnum a) (st a) (ct_body t)) /\ ct_seq t = st a /\
      ct_ext_chain t = eip155 /\ ct_payer_is_signer t = true.
    Proof.
      intros Hunf Hsep Hacc. apply step_accept in Hacc as (Hauth & Hn & _ & _).
      unfold auth_eip712 in Hauth.
      destruct (Z.eqb_spec (ct_ext_chain t) eip155) as [Ec|]; [|discriminate].
      destruct (ct_payer_is_signer t) eqn:Ep; [|discriminate]. cbn [andb] in Hauth.
      destruct (auth_cosmos_signed st t a Hunf Hsep Hauth) as [E Hs]. auto.
    Qed.

    Theorem eip712_foreign_chain_rejected st (t : tx) ok :
      ct_ext_chain t <> eip155 -> step712 st (t, ok) = (st, None).
    Proof.
      intros Hne. unfold step_eip712, SigModel.step, auth_eip712.
      destruct (Z.eqb_spec (ct_ext_chain t) eip155); [contradiction|]. reflexivity.
    Qed.

    Theorem eip712_mutation_rejected_partial st (t : tx) ok a :
      UnforgeableC -> DigestsSeparate ->
      (forall d, signed_doc a d -> d <> mk_doc chain (accnum a) (st a) (ct_body t)) ->
      snd (step712 st (t, ok)) <> Some a.
    Proof.
      intros Hunf Hsep Hnone Hacc.
      destruct (eip712_accepted_only_if_signed_partial st t ok a Hunf Hsep Hacc) as (_ & Hs & _).
      exact (Hnone _ Hs eq_refl).
    Qed.
  End Negative.

  (** positive direction *)
  Theorem cosmos_honest_accepted st (t : tx) h :
    In h (digests (mk_doc chain (accnum (ct_signer t)) (st (ct_signer t)) (ct_body t))) ->
    verify (ct_signer t) h (ct_sig t) = true ->
    ct_seq t = st (ct_signer t) ->
    stepc st (t, true) = (upd A_dec st (ct_signer t) (st (ct_signer t) + 1)%N, Some (ct_signer t)).
  Proof.
    intros Hin Hv Hn. unfold step_cosmos, SigModel.step, auth_cosmos.
    assert (E : existsb (fun h0 => verify (ct_signer t) h0 (ct_sig t))
                        (digests (mk_doc chain (accnum (ct_signer t)) (st (ct_signer t)) (ct_body t))) = true).
    { apply existsb_exists. exists h. auto. }
    rewrite E, Hn, N.eqb_refl. reflexivity.
  Qed.
End CosmosRoute.

(** * the machine of the correspondence run is the same machine *)
Theorem sub_each_nonce_once nd (h : list (sub * bool)) st i j a n :
  accepted_at N.eq_dec (auth_sub nd) sub_nonce st h i a n ->
  accepted_at N.eq_dec (auth_sub nd) sub_nonce st h j a n -> i = j.
Proof. apply each_nonce_once. Qed.

Theorem sub_tx_each_nonce_once nd (h : list (list sub * bool)) st j k j' k' a n :
  executed_at N.eq_dec (auth_sub nd) sub_nonce st h j k a n ->
  executed_at N.eq_dec (auth_sub nd) sub_nonce st h j' k' a n -> j = j' /\ k = k'.
Proof. apply tx_each_nonce_once. Qed.

(** ... also with the wrapped submissions of the correspondence run *)
Theorem sub_any_each_nonce_once nd (h : list (@submission sub wrap)) st j k j' k' a n :
  executed_any N.eq_dec (auth_sub nd) sub_nonce st h j k a n ->
  executed_any N.eq_dec (auth_sub nd) sub_nonce st h j' k' a n -> j = j' /\ k = k'.
Proof. apply any_each_nonce_once. Qed.

Theorem sub_wrapped_rejected nd st w c ok : step_sub_any nd st (Wrapped w c ok) = (st, None).
Proof. reflexivity. Qed.

Theorem sub_any_direct nd st ms ok : step_sub_any nd st (Direct ms ok) = step_sub_tx nd st (ms, ok).
Proof. reflexivity. Qed.

(** ... and with creations and account-type operations *)
Theorem sub_event_each_nonce_once nd (h : list (@event N sub wrap account_op)) st j k j' k' a n :
  executed_event N.eq_dec (auth_sub nd) sub_nonce nonce_after_creation st h j k a n ->
  executed_event N.eq_dec (auth_sub nd) sub_nonce nonce_after_creation st h j' k' a n -> j = j' /\ k = k'.
Proof. apply event_each_nonce_once. Qed.

Theorem sub_event_sequences_monotone nd (h1 h2 : list (@event N sub wrap account_op)) st b :
  (final_event N.eq_dec (auth_sub nd) sub_nonce nonce_after_creation st h1 b
   <= final_event N.eq_dec (auth_sub nd) sub_nonce nonce_after_creation st (h1 ++ h2) b)%N.
Proof. apply event_sequences_monotone. Qed.

Theorem sub_event_sub nd st x : step_sub_event nd st (ESub x) = step_sub_any nd st x.
Proof. reflexivity. Qed.

(** on one-unit transactions [step_sub_tx] is [step_sub] *)
Theorem sub_tx_singleton nd st s ok :
  step_sub_tx nd st ([s], ok) = (fst (step_sub nd st (s, ok)), option_map (fun a => [a]) (snd (step_sub nd st (s, ok)))).
Proof. apply step_tx_singleton. Qed.

(** Ethereum messages whose self-reported fields are recorded ([SEthMsg]): with
    both facts true the unit is the plain [SEth] unit; with either false it is
    not authenticated, and the Cosmos transaction that contains it is refused
    as a whole without effect -- as an event of the recorded histories too *)
Theorem sub_ethmsg_canonical nd st p c n r : auth_sub nd st (SEthMsg true true p c n r) = auth_sub nd st (SEth p c n r).
Proof. reflexivity. Qed.

Theorem sub_ethmsg_forged_unauthenticated nd st hb fe p c n r :
  hb && fe = false -> auth_sub nd st (SEthMsg hb fe p c n r) = None.
Proof. intros H. cbn [auth_sub]. rewrite H. reflexivity. Qed.

Theorem sub_tx_forged_rejected nd st ms ok hb fe p c n r :
  In (SEthMsg hb fe p c n r) ms -> hb && fe = false -> step_sub_tx nd st (ms, ok) = (st, None).
Proof.
  intros Hin H. apply (tx_unauthenticated_rejected _ _ _ st ms ok _ Hin).
  apply sub_ethmsg_forged_unauthenticated. exact H.
Qed.

Theorem sub_event_forged_rejected nd st ms ok hb fe p c n r :
  In (SEthMsg hb fe p c n r) ms -> hb && fe = false -> step_sub_event nd st (ESub (Direct ms ok)) = (st, None).
Proof. intros Hin H. exact (sub_tx_forged_rejected nd st ms ok hb fe p c n r Hin H). Qed.

(** * non-vacuity *)
Section Examples.
  (** a toy signature scheme satisfying the single hypothesis: the "signature"
      of digest [h] by key [k] is (k, sum of the digest bytes, 0); recovery
      checks the sum and returns the key's address *)
  Definition toy_hash (b : bytes) : bytes := [N.of_nat (length b); fold_right N.add 0%N b].
  Definition toy_sum (h : bytes) : Z := Z.of_N (fold_right N.add 0%N h).
  Definition toy_addr (k : Z) : bytes := [Z.to_N k; 7%N].
  Definition toy_sign (k : Z) (h : bytes) : Z * Z * Z := (k, toy_sum h, 0%Z).
  Definition toy_recover (h : bytes) (r s v : Z) : option bytes :=
    if ((s =? toy_sum h) && (v =? 27))%Z then Some (toy_addr r) else None.

  Lemma toy_recover_sign : forall k h, let '(r, s, i) := toy_sign k h in toy_recover h r s (i + 27)%Z = Some (toy_addr k).
  Proof. intros k h. cbn. unfold toy_recover. rewrite Z.eqb_refl. reflexivity. Qed.
  Lemma toy_recid : forall k h, let '(_, _, i) := toy_sign k h in (0 <= i <= 1)%Z.
  Proof. intros. cbn. lia. Qed.

  Definition ex_cfg : chain_cfg := mk_cfg 11235 false.
  Definition ex_unsigned : eth_tx :=
    TxDynamicFee (mk_df 11235 5 1 100 21000 (Some (repeat 9%N 20)) 1000 [1%N; 2%N] [] 0 0 0).
  Definition ex_signed : eth_tx := sign_tx toy_hash toy_sign 42%Z 11235 ex_unsigned.
  Definition ex_state : bytes -> N := fun a => if list_eq_dec N.eq_dec a (toy_addr 42) then 5%N else 0%N.

  (** accepted once, and the replay -- and a third copy -- are rejected *)
  Example ex_accept_then_replay :
    outcomes_eth toy_hash toy_recover ex_cfg ex_state [(ex_signed, true); (ex_signed, true); (ex_signed, true)]
    = [Some (toy_addr 42); None; None].
  Proof. vm_compute. reflexivity. Qed.

  (** the same signature presented to the other Haqq network *)
  Example ex_other_chain :
    outcomes_eth toy_hash toy_recover (mk_cfg 54211 false) ex_state [(ex_signed, true)] = [None].
  Proof. vm_compute. reflexivity. Qed.

  (** the general theorem instantiated *)
  Example ex_honest :
    step_eth toy_hash toy_recover ex_cfg ex_state (ex_signed, true)
    = (upd (list_eq_dec N.eq_dec) ex_state (toy_addr 42) 6%N, Some (toy_addr 42)).
  Proof.
    apply (honest_tx_accepted toy_hash toy_recover toy_sign toy_addr toy_recover_sign toy_recid ex_cfg ex_state 42%Z ex_unsigned).
    - reflexivity.
    - reflexivity.
    - reflexivity.
  Qed.

  Example ex_signable : signable 11235 ex_signed.
  Proof.
    split; [lia|]. split; [apply wfb_wf; vm_compute; reflexivity|]. cbn. repeat split; try lia; exact I.
  Qed.

  (** ** several messages in one transaction: key 42 (sequence 5) and key 43
      (sequence 0) *)
  Definition ex_tx (k : Z) (nonce value : N) : eth_tx :=
    sign_tx toy_hash toy_sign k 11235
            (TxDynamicFee (mk_df 11235 nonce 1 100 21000 (Some (repeat 9%N 20)) (Z.of_N value) [] [] 0 0 0)).
  Definition seq_of (st : bytes -> N) : N * N := (st (toy_addr 42), st (toy_addr 43)).
  Notation A42 := (toy_addr 42).
  Notation A43 := (toy_addr 43).

  (** a valid two-message transaction (nonces 5, 6) is accepted, both messages
      execute, the sequence ends at 7 *)
  Example ex_batch_accepted :
    outcomes_eth_tx toy_hash toy_recover ex_cfg ex_state [([ex_tx 42 5 1; ex_tx 42 6 2], true)] = [Some [A42; A42]] /\
    seq_of (final_eth_tx toy_hash toy_recover ex_cfg ex_state [([ex_tx 42 5 1; ex_tx 42 6 2], true)]) = (7%N, 0%N).
  Proof. vm_compute. split; reflexivity. Qed.

  (** two senders interleaved *)
  Example ex_interleaved_accepted :
    outcomes_eth_tx toy_hash toy_recover ex_cfg ex_state
      [([ex_tx 42 5 1; ex_tx 43 0 1; ex_tx 42 6 2; ex_tx 43 1 2], true)] = [Some [A42; A43; A42; A43]] /\
    seq_of (final_eth_tx toy_hash toy_recover ex_cfg ex_state
      [([ex_tx 42 5 1; ex_tx 43 0 1; ex_tx 42 6 2; ex_tx 43 1 2], true)]) = (7%N, 2%N).
  Proof. vm_compute. split; reflexivity. Qed.

  (** the same signed transaction twice; two different transactions with the
      same nonce; a gap; the right nonces in the wrong order; a duplicate behind
      another sender's message: each is rejected as a whole, nothing moves *)
  Example ex_bad_batches_rejected :
    let bad := [ [ex_tx 42 5 1; ex_tx 42 5 1]; [ex_tx 42 5 1; ex_tx 42 5 9]; [ex_tx 42 5 1; ex_tx 42 7 1];
                 [ex_tx 42 6 1; ex_tx 42 5 1]; [ex_tx 42 5 1; ex_tx 43 0 1; ex_tx 42 5 1];
                 [ex_tx 43 0 1; ex_tx 42 5 1; ex_tx 42 6 1; ex_tx 42 6 1] ] in
    map (fun ms => (snd (step_eth_tx toy_hash toy_recover ex_cfg ex_state (ms, true)),
                    seq_of (fst (step_eth_tx toy_hash toy_recover ex_cfg ex_state (ms, true))))) bad
    = repeat (None, (5%N, 0%N)) 6.
  Proof. vm_compute. reflexivity. Qed.

  (** a history: a batch, then a transaction that replays one of its messages
      beside a fresh one (rejected as a whole), then the fresh one alone *)
  Example ex_history :
    outcomes_eth_tx toy_hash toy_recover ex_cfg ex_state
      [([ex_tx 42 5 1; ex_tx 42 6 2], true); ([ex_tx 42 7 3; ex_tx 42 6 2], true); ([ex_tx 42 6 2; ex_tx 42 7 3], true);
       ([ex_tx 42 7 3], true); ([ex_tx 42 7 3], true)]
    = [Some [A42; A42]; None; None; Some [A42]; None].
  Proof. vm_compute. reflexivity. Qed.

  (** ** wrapped submissions: key 42 (sequence 5) executes nonce 5 on the
      Ethereum route; the same signed transaction carried by a MsgExec behind a
      plain message (the replay), the not yet executed nonce 6 carried by a
      MsgExec, nonce 9 from the future as a plain Cosmos message, a wrapper
      carrying a replay beside a fresh message -- all rejected, nothing moves;
      nonce 6 then executes on the Ethereum route, once *)
  Definition ex_w (before depth : nat) : wrap := mk_wrap None before depth false.
  Definition ex_wrapped_history : list (@submission eth_tx wrap) :=
    [ Direct [ex_tx 42 5 1] true;
      Wrapped (ex_w 1 1) [ex_tx 42 5 1] true;
      Wrapped (ex_w 0 1) [ex_tx 42 6 2] true;
      Wrapped (ex_w 0 0) [ex_tx 42 9 3] true;
      Wrapped (ex_w 2 3) [ex_tx 42 6 2; ex_tx 42 5 1; ex_tx 43 0 1] true;
      Direct [ex_tx 42 6 2] true;
      Wrapped (ex_w 1 2) [ex_tx 42 6 2] true;
      Direct [ex_tx 42 6 2] true ].

  Example ex_wrapped_outcomes :
    outcomes_eth_any toy_hash toy_recover ex_cfg ex_state ex_wrapped_history
    = [Some [A42]; None; None; None; None; Some [A42]; None; None] /\
    seq_of (final_eth_any toy_hash toy_recover ex_cfg ex_state ex_wrapped_history) = (7%N, 0%N) /\
    seq_of (final_eth_any toy_hash toy_recover ex_cfg ex_state (firstn 5 ex_wrapped_history)) = (6%N, 0%N).
  Proof. vm_compute. repeat split; reflexivity. Qed.

  (** the premises of the theorems about wrapped histories are satisfiable
      together: in this history message 0 of submission 0 IS executed (for key
      42, nonce 5), submission 1 IS a wrapper that carries that very message --
      and the conclusion holds: it is not executed there *)
  Example ex_wrapped_premises :
    executed_eth_any toy_hash toy_recover ex_cfg ex_state ex_wrapped_history 0 0 A42 5%N /\
    nth_error ex_wrapped_history 1 = Some (Wrapped (ex_w 1 1) [ex_tx 42 5 1] true) /\
    nth_error (msgs_of (Wrapped (ex_w 1 1) [ex_tx 42 5 1] true)) 0 = Some (ex_tx 42 5 1) /\
    ~ executed_eth_any toy_hash toy_recover ex_cfg ex_state ex_wrapped_history 1 0 A42 5%N /\
    executed_eth_any toy_hash toy_recover ex_cfg ex_state ex_wrapped_history 5 0 A42 6%N.
  Proof.
    split; [|split; [reflexivity|split; [reflexivity|split]]].
    - exists (Direct [ex_tx 42 5 1] true), [A42], (ex_tx 42 5 1). vm_compute. repeat split; reflexivity.
    - apply (eth_wrapped_never_executes toy_hash toy_recover ex_cfg ex_wrapped_history ex_state 1 (ex_w 1 1) [ex_tx 42 5 1] true).
      reflexivity.
    - exists (Direct [ex_tx 42 6 2] true), [A42], (ex_tx 42 6 2). vm_compute. repeat split; reflexivity.
  Qed.

  (** ** contract creations.  Key 42 (sequence 5) signs a creation with nonce 5
      and a call with nonce 6; they travel in one Cosmos transaction, then the
      call is delivered again alone.  With the rule of the code as it is now the
      replay is rejected and the sequence ends at 7 = 5 + 2; with the rule of
      the code before commit f9ff121 (nonce := 6 after the creation, although
      the ante handler had stored 7) the call executes a SECOND time. *)
  Definition ex_create (k : Z) (nonce : N) : eth_tx :=
    sign_tx toy_hash toy_sign k 11235 (TxDynamicFee (mk_df 11235 nonce 1 100 100000 None 0 [0%N] [] 0 0 0)).
  Definition created : cflag := mk_cflag true true.
  Definition ex_create_history : list (list (eth_tx * cflag) * bool) :=
    [ ([(ex_create 42 5, created); (ex_tx 42 6 2, no_creation)], true);
      ([(ex_tx 42 6 2, no_creation)], true) ].

  Example ex_create_new_rule :
    outcomes_eth_txc toy_hash toy_recover ex_cfg nonce_after_creation ex_state ex_create_history = [Some [A42; A42]; None] /\
    seq_of (final_eth_txc toy_hash toy_recover ex_cfg nonce_after_creation ex_state ex_create_history) = (7%N, 0%N) /\
    executed_eth_txc toy_hash toy_recover ex_cfg nonce_after_creation ex_state ex_create_history 0 1 A42 6%N.
  Proof.
    split; [vm_compute; reflexivity|]. split; [vm_compute; reflexivity|].
    exists ([(ex_create 42 5, created); (ex_tx 42 6 2, no_creation)], true), [A42; A42], (ex_tx 42 6 2).
    vm_compute. repeat split; reflexivity.
  Qed.

  Example ex_create_old_rule :
    outcomes_eth_txc toy_hash toy_recover ex_cfg nonce_after_creation_old ex_state ex_create_history = [Some [A42; A42]; Some [A42]] /\
    seq_of (final_eth_txc toy_hash toy_recover ex_cfg nonce_after_creation_old ex_state (firstn 1 ex_create_history)) = (6%N, 0%N) /\
    executed_eth_txc toy_hash toy_recover ex_cfg nonce_after_creation_old ex_state ex_create_history 0 1 A42 6%N /\
    executed_eth_txc toy_hash toy_recover ex_cfg nonce_after_creation_old ex_state ex_create_history 1 0 A42 6%N.
  Proof.
    split; [vm_compute; reflexivity|]. split; [vm_compute; reflexivity|]. split.
    - exists ([(ex_create 42 5, created); (ex_tx 42 6 2, no_creation)], true), [A42; A42], (ex_tx 42 6 2).
      vm_compute. repeat split; reflexivity.
    - exists ([(ex_tx 42 6 2, no_creation)], true), [A42], (ex_tx 42 6 2).
      vm_compute. repeat split; reflexivity.
  Qed.

  (** the at-most-once statement is FALSE for the old rule *)
  Theorem old_creation_rule_refuted :
    ~ (forall (h : list (list (eth_tx * cflag) * bool)) (st : bytes -> N) j k j' k' a n,
         executed_eth_txc toy_hash toy_recover ex_cfg nonce_after_creation_old st h j k a n ->
         executed_eth_txc toy_hash toy_recover ex_cfg nonce_after_creation_old st h j' k' a n -> j = j' /\ k = k').
  Proof.
    intros H. destruct ex_create_old_rule as (_ & _ & H1 & H2).
    destruct (H _ _ _ _ _ _ _ _ H1 H2) as [E _]. discriminate.
  Qed.

  (** and so is "sequence = n + k": two messages accepted from sequence 5, the
      account ends at 6 *)
  Theorem old_creation_rule_sequence_refuted :
    ~ (forall st msc ok l, snd (step_eth_txc toy_hash toy_recover ex_cfg nonce_after_creation_old st (msc, ok)) = Some l ->
         forall b, fst (step_eth_txc toy_hash toy_recover ex_cfg nonce_after_creation_old st (msc, ok)) b
                   = (st b + N.of_nat (count_occ (list_eq_dec N.eq_dec) l b))%N).
  Proof.
    intros H.
    specialize (H ex_state [(ex_create 42 5, created); (ex_tx 42 6 2, no_creation)] true [A42; A42] eq_refl A42).
    vm_compute in H. discriminate.
  Qed.

  (** events: a creation batch, an account-type operation against key 42 signed
      by key 43, the replay of the call, a wrapped replay, the next nonce *)
  Definition ex_event_history : list (@event bytes eth_tx wrap account_op) :=
    [ ECreating [(ex_create 42 5, created); (ex_tx 42 6 2, no_creation)] true;
      EAccountOp OpConvertIntoVesting A42 [ex_tx 43 0 1] true;
      ESub (Direct [ex_tx 42 6 2] true);
      ECreating [(ex_create 42 5, created)] true;
      ESub (Wrapped (ex_w 1 1) [ex_tx 42 6 2] true);
      EAccountOp OpConvertBack A42 [ex_tx 43 1 1] true;
      ECreating [(ex_tx 42 7 3, no_creation); (ex_create 42 8, mk_cflag true false)] true;
      ESub (Direct [ex_tx 42 8 9] true) ].

  Example ex_event_outcomes :
    outcomes_eth_event toy_hash toy_recover ex_cfg nonce_after_creation ex_state ex_event_history
    = [Some [A42; A42]; Some [A43]; None; None; None; Some [A43]; Some [A42; A42]; None] /\
    map (fun i => seq_of (final_eth_event toy_hash toy_recover ex_cfg nonce_after_creation ex_state (firstn i ex_event_history)))
        [0; 1; 2; 6; 7; 8]%nat
    = [(5%N, 0%N); (7%N, 0%N); (7%N, 1%N); (7%N, 2%N); (9%N, 2%N); (9%N, 2%N)] /\
    executed_eth_event toy_hash toy_recover ex_cfg nonce_after_creation ex_state ex_event_history 0 1 A42 6%N.
  Proof.
    split; [vm_compute; reflexivity|]. split; [vm_compute; reflexivity|].
    exists (ECreating [(ex_create 42 5, created); (ex_tx 42 6 2, no_creation)] true), [A42; A42], (ex_tx 42 6 2).
    vm_compute. repeat split; reflexivity.
  Qed.

  (** a pre-EIP-155 signature is refused while AllowUnprotectedTxs is false *)
  Definition ex_homestead : eth_tx := TxLegacy (mk_legacy 5 1 21000 None 0 [] 27 1 1).
  Example ex_unprotected :
    protected ex_homestead = false /\ step_eth toy_hash toy_recover ex_cfg ex_state (ex_homestead, true) = (ex_state, None).
  Proof. split; [reflexivity|]. apply unprotected_rejected; reflexivity. Qed.
  (** ** messages with forged Hash / From texts: key 42 (sequence 5)

      [T] = its signed transaction with nonce 5, [T'] the one with nonce 6;
      [renonce T 6] = T with the nonce in Data set to 6 and the OLD signature
      values kept.  The history: T as [FromEthereumTx] writes it (executes); the
      re-nonced Data under the Hash text of T (the forged replay); the same with
      the Hash recomputed from the changed Data; the genuine T' under the Hash
      text of T; T' with a From text; T' beside the forged replay in one Cosmos
      transaction; T' as it should be (executes); T again. *)
  Definition ex_data (tx : eth_tx) : tx_data :=
    match to_txdata no_csum tx with
    | EthTxModel.Wrapped d => d
    | _ => DLegacy (mk_legacy_pb 0 None 0 EmptyString None [] [] [] [])
    end.
  Definition ex_hash_text (tx : eth_tx) : string := hash_hex (tx_hash toy_hash tx).
  Definition ex_msg (tx : eth_tx) : emsg := mk_emsg (ex_data tx) (ex_hash_text tx) EmptyString.
  Definition renonce (tx : eth_tx) (n : N) : eth_tx :=
    match tx with
    | TxDynamicFee t => TxDynamicFee (mk_df (d_chain_id t) n (d_tip t) (d_fee_cap t) (d_gas t) (d_to t) (d_value t)
                                            (d_data t) (d_accesses t) (d_v t) (d_r t) (d_s t))
    | x => x
    end.
  Definition ex_T := ex_tx 42 5 1.
  Definition ex_T' := ex_tx 42 6 2.
  Definition ex_forged_replay : emsg := mk_emsg (ex_data (renonce ex_T 6)) (ex_hash_text ex_T) EmptyString.
  Definition ex_forged_history : list (list emsg * bool) :=
    [ ([ex_msg ex_T], true);
      ([ex_forged_replay], true);
      ([ex_msg (renonce ex_T 6)], true);
      ([mk_emsg (ex_data ex_T') (ex_hash_text ex_T) EmptyString], true);
      ([mk_emsg (ex_data ex_T') (ex_hash_text ex_T') "0x0000000000000000000000000000000000002a07"], true);
      ([ex_msg ex_T'; mk_emsg (ex_data (renonce ex_T 7)) (ex_hash_text ex_T) EmptyString], true);
      ([ex_msg ex_T'], true);
      ([ex_msg ex_T], true) ].

  Example ex_forged_outcomes :
    from_eth_tx toy_hash no_csum ex_T = Some (ex_msg ex_T) /\
    as_tx ex_forged_replay = Some (renonce ex_T 6) /\
    outcomes_emsg_tx toy_hash toy_recover ex_cfg ex_state ex_forged_history
    = [Some [A42]; None; None; None; None; None; Some [A42]; None] /\
    seq_of (final_emsg_tx toy_hash toy_recover ex_cfg ex_state ex_forged_history) = (7%N, 0%N).
  Proof. vm_compute. repeat split; reflexivity. Qed.

  (** the premises of [emsg_tx_forged_hash_rejected] hold for the forged replay *)
  Example ex_forged_premises :
    as_tx ex_forged_replay = Some (renonce ex_T 6) /\
    m_hash ex_forged_replay <> hash_hex (tx_hash toy_hash (renonce ex_T 6)) /\
    step_emsg_tx toy_hash toy_recover ex_cfg ex_state ([ex_forged_replay], true) = (ex_state, None).
  Proof.
    assert (T : as_tx ex_forged_replay = Some (renonce ex_T 6)) by (vm_compute; reflexivity).
    assert (Hne : m_hash ex_forged_replay <> hash_hex (tx_hash toy_hash (renonce ex_T 6))) by (vm_compute; discriminate).
    split; [exact T|]. split; [exact Hne|].
    apply (emsg_tx_forged_hash_rejected toy_hash toy_recover ex_cfg ex_state [ex_forged_replay] true ex_forged_replay _ (or_introl eq_refl) T Hne).
  Qed.

  (** the canonical messages of the history run exactly as the transactions do *)
  Example ex_canonical :
    step_emsg_tx toy_hash toy_recover ex_cfg ex_state ([ex_msg ex_T; ex_msg ex_T'], true)
    = step_eth_tx toy_hash toy_recover ex_cfg ex_state ([ex_T; ex_T'], true).
  Proof.
    apply emsg_tx_canonical. repeat constructor; vm_compute; reflexivity.
  Qed.

  (** NOT the code of /repo: with the memo of [step_memo] the forged replay is
      taken for T.  T executes, then the message whose Data is T with the nonce
      set to the account's new sequence -- Data nobody signed: no account is
      recovered from it -- executes T a second time on behalf of the account, under
      the same premises under which the machine of the code refuses it. *)
  Theorem memo_replays_refuted :
    exists (hash : bytes -> bytes) (recover : bytes -> Z -> Z -> Z -> option bytes) (cfg : chain_cfg)
           (st : bytes -> N) (m1 m2 : emsg) (a : bytes) (T T2 : eth_tx),
      outcomes_memo hash recover cfg (st, []) [(m1, true); (m2, true)] = [Some (a, T); Some (a, T)] /\
      as_tx m1 = Some T /\ as_tx m2 = Some T2 /\ T2 <> T /\ sender hash recover (c_eip155 cfg) T2 = None /\
      outcomes_emsg_tx hash recover cfg st [([m1], true); ([m2], true)] = [Some [a]; None].
  Proof.
    exists toy_hash, toy_recover, ex_cfg, ex_state, (ex_msg ex_T), ex_forged_replay, A42, ex_T, (renonce ex_T 6).
    split; [vm_compute; reflexivity|]. split; [vm_compute; reflexivity|]. split; [vm_compute; reflexivity|].
    split; [intros E; apply (f_equal tx_nonce) in E; vm_compute in E; discriminate|].
    split; vm_compute; reflexivity.
  Qed.

  (** the recorded form: a forged unit is refused whatever is recovered, the
      canonical one is the [SEth] unit *)
  Example ex_sub_forged :
    let nd := mk_node ex_cfg "haqq_11235-1" [] in
    let st := fun a : N => if N.eqb a 0 then 6%N else 0%N in
    snd (step_sub_tx nd st ([SEthMsg false true true 11235 6 (Some 0%N)], true)) = None /\
    snd (step_sub_tx nd st ([SEthMsg true false true 11235 6 (Some 0%N)], true)) = None /\
    snd (step_sub_tx nd st ([SEthMsg true true true 11235 6 (Some 0%N)], true)) = Some [0%N] /\
    snd (step_sub_tx nd st ([SEth true 11235 6 (Some 0%N); SEthMsg false true true 11235 7 (Some 0%N)], true)) = None.
  Proof. vm_compute. repeat split; reflexivity. Qed.
End Examples.

(** the cryptographic premises of the [_partial] theorems are jointly
    satisfiable (so those theorems are not vacuous for want of a model): an
    injective "hash", a recovery that checks a keyed tag, and a key holder who
    signed exactly one transaction *)
Section PremisesSatisfiable.
  Definition id_hash (b : bytes) : bytes := b.
  (** "signature" of digest h by the holder of address [9;9]: r = s = 0, v = 27,
      valid only for the one digest that holder signed *)
  Definition one_digest : bytes := sign_preimage 11235 ex_unsigned.
  Definition one_recover (h : bytes) (r s v : Z) : option bytes :=
    if list_eq_dec N.eq_dec h one_digest then Some [9%N; 9%N] else None.
  Definition one_signed (a : bytes) (cid : Z) (tx : eth_tx) : Prop :=
    a = [9%N; 9%N] /\ cid = 11235%Z /\ tx = ex_unsigned.

  Example premises_satisfiable :
    Unforgeable id_hash one_recover one_signed /\ CollisionFree id_hash /\ SignedAreSignable one_signed.
  Proof.
    split; [|split].
    - intros h r s v a. unfold one_recover. destruct (list_eq_dec N.eq_dec h one_digest) as [->|]; [|discriminate].
      intros E. inversion E. exists 11235%Z, ex_unsigned. split; [repeat split|reflexivity].
    - intros cid1 tx1 cid2 tx2 E. exact E.
    - intros a cid tx (_ & -> & ->). split; [lia|]. split; [apply wfb_wf; vm_compute; reflexivity|].
      cbn. repeat split; try lia; exact I.
  Qed.

  (** ... and with them a transaction does get accepted, so the conclusion of
      [accepted_only_if_signed_partial] is exercised *)
  Example premises_allow_acceptance :
    snd (step_eth id_hash one_recover ex_cfg (fun _ => 5%N) (ex_unsigned, true)) = Some [9%N; 9%N].
  Proof. vm_compute. reflexivity. Qed.
End PremisesSatisfiable.
