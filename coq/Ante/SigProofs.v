(** Proofs about Ante/SigModel.v (property C03). *)
From Coq Require Import Ascii String.
From Coq Require Import NArith ZArith List Bool Lia.
From HV Require Import Base.Bytes Base.Rlp Base.RlpProofs TxCodec.EthTxModel TxCodec.SignBytesProofs Ante.SigModel.
Import ListNotations.

(** * the generic machine: every (account, nonce) is accepted at most once *)
Section Machine.
  Context {A T : Type}.
  Variable A_dec : forall a b : A, {a = b} + {a <> b}.
  Variable auth : (A -> N) -> T -> option A.
  Variable nonce_of : T -> N.

  Notation step := (step A_dec auth nonce_of).
  Notation outcomes := (outcomes A_dec auth nonce_of).
  Notation final := (final A_dec auth nonce_of).
  Notation accepted_at := (accepted_at A_dec auth nonce_of).

  Lemma upd_same st a v : upd A_dec st a v a = v.
  Proof. unfold upd. destruct (A_dec a a); [reflexivity|contradiction]. Qed.
  Lemma upd_other st a v b : a <> b -> upd A_dec st a v b = st b.
  Proof. unfold upd. destruct (A_dec a b); [contradiction|reflexivity]. Qed.

  (** an accepted submission: authenticated as [a], nonce equal to [a]'s
      sequence, the other checks passed, and only [a]'s sequence moves, by one *)
  Lemma step_accept st t ok a :
    snd (step st (t, ok)) = Some a ->
    auth st t = Some a /\ nonce_of t = st a /\ ok = true /\
    fst (step st (t, ok)) = upd A_dec st a (st a + 1)%N.
  Proof.
    unfold SigModel.step. destruct (auth st t) as [b|]; [|discriminate].
    destruct (N.eqb_spec (nonce_of t) (st b)) as [E|E]; cbn [andb]; [|discriminate].
    destruct ok; cbn [fst snd]; [|discriminate]. intros H. inversion H; subst. auto.
  Qed.

  (** a rejected submission changes nothing *)
  Lemma step_reject st x : snd (step st x) = None -> fst (step st x) = st.
  Proof.
    destruct x as [t ok]. unfold SigModel.step. destruct (auth st t) as [b|]; [|reflexivity].
    destruct ((nonce_of t =? st b)%N && ok); [discriminate|reflexivity].
  Qed.

  (** sequences never decrease *)
  Lemma step_mono st x b : (st b <= fst (step st x) b)%N.
  Proof.
    destruct x as [t ok]. destruct (snd (step st (t, ok))) as [a|] eqn:E.
    - apply step_accept in E as (_ & _ & _ & ->). unfold upd. destruct (A_dec a b) as [->|]; lia.
    - rewrite (step_reject _ _ E). lia.
  Qed.

  Lemma final_mono h : forall st b, (st b <= final st h b)%N.
  Proof.
    induction h as [|x r IH]; intros st b; cbn [SigModel.final]; [lia|].
    pose proof (step_mono st x b). specialize (IH (fst (step st x)) b). lia.
  Qed.

  (** once an account's sequence has passed [n], nothing with nonce [n] is ever
      accepted on its behalf again *)
  Lemma no_accept_below h : forall st j a n, (n < st a)%N -> ~ accepted_at st h j a n.
  Proof.
    induction h as [|x r IH]; intros st j a n Hlt (t & ok & Hh & Ho & Hn).
    - destruct j; discriminate.
    - destruct j as [|j]; cbn [nth_error SigModel.outcomes] in *.
      + inversion Hh; subst x. inversion Ho as [Ho']. apply step_accept in Ho' as (_ & E & _). lia.
      + apply (IH (fst (step st x)) j a n).
        * pose proof (step_mono st x a). lia.
        * exists t, ok. auto.
  Qed.

  Theorem each_nonce_once h : forall st i j a n,
    accepted_at st h i a n -> accepted_at st h j a n -> i = j.
  Proof.
    induction h as [|x r IH]; intros st i j a n Hi Hj.
    - destruct Hi as (t & ok & Hh & _). destruct i; discriminate.
    - assert (Tail : forall k, accepted_at st (x :: r) (S k) a n -> accepted_at (fst (step st x)) r k a n).
      { intros k (t & ok & Hh & Ho & Hn). exists t, ok. auto. }
      assert (Head : accepted_at st (x :: r) 0 a n -> (n < fst (step st x) a)%N).
      { intros (t & ok & Hh & Ho & Hn). cbn in Hh, Ho. inversion Hh; subst x. inversion Ho as [Ho'].
        apply step_accept in Ho' as (_ & E & _ & ->). rewrite upd_same. lia. }
      destruct i as [|i], j as [|j]; [reflexivity| | |].
      + exfalso. exact (no_accept_below r _ j a n (Head Hi) (Tail _ Hj)).
      + exfalso. exact (no_accept_below r _ i a n (Head Hj) (Tail _ Hi)).
      + f_equal. exact (IH _ i j a n (Tail _ Hi) (Tail _ Hj)).
  Qed.

  (** a transaction accepted once is rejected ever after (and so is any other
      transaction that would use the same nonce for the same account) *)
  Corollary replay_rejected h st i j a n :
    accepted_at st h i a n -> i <> j -> ~ accepted_at st h j a n.
  Proof. intros Hi Hne Hj. apply Hne. exact (each_nonce_once h st i j a n Hi Hj). Qed.

  (** acceptance happens only at the current sequence *)
  Lemma accepted_outcome_auth st t ok a :
    snd (step st (t, ok)) = Some a -> auth st t = Some a /\ nonce_of t = st a.
  Proof. intros H. apply step_accept in H. tauto. Qed.
End Machine.

(** * the Ethereum route *)
Section EthRoute.
  Variable hash : bytes -> bytes.
  Variable recover : bytes -> Z -> Z -> Z -> option bytes.
  Variable cfg : chain_cfg.

  Notation auth := (auth_eth hash recover cfg).
  Notation step := (step_eth hash recover cfg).

  Theorem eth_each_nonce_once h st i j a n :
    accepted_eth hash recover cfg st h i a n -> accepted_eth hash recover cfg st h j a n -> i = j.
  Proof. apply each_nonce_once. Qed.

  Theorem eth_replay_rejected h st i j a n :
    accepted_eth hash recover cfg st h i a n -> i <> j -> ~ accepted_eth hash recover cfg st h j a n.
  Proof. apply replay_rejected. Qed.

  (** a replay-protected transaction whose chain id is not the chain's is not
      authenticated at all *)
  Lemma sender_foreign cid tx : protected tx = true -> chain_id tx <> cid -> sender hash recover cid tx = None.
  Proof.
    intros Hp Hc. unfold sender. destruct (tx_vrs tx) as [[v r] s] eqn:E.
    assert (Hne : (chain_id tx =? cid)%Z = false) by (apply Z.eqb_neq; exact Hc).
    destruct tx as [t|t|t].
    - cbn [protected] in Hp. cbn [tx_vrs] in E. inversion E; subst. rewrite Hp, Hne. reflexivity.
    - rewrite Hne. reflexivity.
    - rewrite Hne. reflexivity.
  Qed.

  Theorem foreign_chain_rejected st tx ok :
    protected tx = true -> chain_id tx <> c_eip155 cfg -> step st (tx, ok) = (st, None).
  Proof.
    intros Hp Hc. unfold step_eth, SigModel.step, auth_eth.
    rewrite (sender_foreign _ _ Hp Hc). destruct (negb (c_allow_unprotected cfg) && negb (protected tx)); reflexivity.
  Qed.

  Theorem unprotected_rejected st tx ok :
    c_allow_unprotected cfg = false -> protected tx = false -> step st (tx, ok) = (st, None).
  Proof.
    intros Ha Hp. unfold step_eth, SigModel.step, auth_eth. rewrite Ha, Hp. reflexivity.
  Qed.

  (** the signature that authenticates: the recovery call that succeeded *)
  Lemma sender_some cid tx a : sender hash recover cid tx = Some a ->
    exists r s v, recover (hash (sign_preimage cid tx)) r s v = Some a.
  Proof.
    unfold sender. destruct (tx_vrs tx) as [[v r] s].
    destruct tx as [t|t|t].
    - destruct (protected_v v); [destruct (chain_id (TxLegacy t) =? cid)%Z; [|discriminate]|]; eauto.
    - destruct (chain_id (TxAccessList t) =? cid)%Z; [|discriminate]; eauto.
    - destruct (chain_id (TxDynamicFee t) =? cid)%Z; [|discriminate]; eauto.
  Qed.

  (** ** the negative direction, under explicit cryptographic premises

      [signed a cid tx]: the holder of [a]'s key has signed transaction [tx]
      with the signer of chain id [cid].
      - [Unforgeable]: a signature that recovers to [a] over a digest was made
        by [a]'s key holder over a message with that digest (ECDSA existential
        unforgeability -- an assumption, not a theorem);
      - [CollisionFree]: two signing preimages with the same digest are equal
        (Keccak-256 collision resistance -- an assumption). *)
  Section Negative.
    Variable signed : bytes -> Z -> eth_tx -> Prop.

    Definition Unforgeable : Prop :=
      forall h r s v a, recover h r s v = Some a ->
        exists cid0 tx0, signed a cid0 tx0 /\ hash (sign_preimage cid0 tx0) = h.
    Definition CollisionFree : Prop :=
      forall cid1 tx1 cid2 tx2, hash (sign_preimage cid1 tx1) = hash (sign_preimage cid2 tx2) ->
        sign_preimage cid1 tx1 = sign_preimage cid2 tx2.
    Definition SignedAreSignable : Prop := forall a cid0 tx0, signed a cid0 tx0 -> signable cid0 tx0.

    (** A transaction executes on behalf of [a] only if [a]'s key holder signed
        exactly its content: type, protection, chain id, nonce, prices, gas, To,
        value, data, access list -- and its nonce is [a]'s current sequence. *)
    Theorem accepted_only_if_signed_partial st tx ok a :
      Unforgeable -> CollisionFree -> SignedAreSignable -> signable (c_eip155 cfg) tx ->
      snd (step st (tx, ok)) = Some a ->
      (exists cid0 tx0, signed a cid0 tx0 /\
                        signed_content_of cid0 tx0 = signed_content_of (c_eip155 cfg) tx) /\
      tx_nonce tx = st a /\
      (c_allow_unprotected cfg = false -> protected tx = true /\ chain_id tx = c_eip155 cfg).
    Proof.
      intros Hunf Hcf Hss Hsig Hacc.
      apply step_accept in Hacc as (Hauth & Hn & _ & _).
      unfold auth_eth in Hauth.
      destruct (negb (c_allow_unprotected cfg) && negb (protected tx)) eqn:Eu; [discriminate|].
      split; [|split; [exact Hn|]].
      - destruct (sender_some _ _ _ Hauth) as (r & s & v & Hrec).
        destruct (Hunf _ _ _ _ _ Hrec) as (cid0 & tx0 & Hs & Hh).
        exists cid0, tx0. split; [exact Hs|].
        apply sign_preimage_inj; [exact (Hss _ _ _ Hs)|exact Hsig|]. apply Hcf. exact Hh.
      - intros Ha. rewrite Ha in Eu. cbn [negb andb] in Eu. apply negb_false_iff in Eu. split; [exact Eu|].
        destruct (Z.eq_dec (chain_id tx) (c_eip155 cfg)) as [E|E]; [exact E|].
        rewrite (sender_foreign _ _ Eu E) in Hauth. discriminate.
    Qed.

    (** Changing any signed field: if nothing [a]'s key holder ever signed has
        the content of [tx'], then [tx'] -- whatever signature it carries, e.g.
        the one lifted from a transaction [a] did sign -- does not execute on
        behalf of [a]. *)
    Theorem mutation_rejected_partial st tx' ok a :
      Unforgeable -> CollisionFree -> SignedAreSignable -> signable (c_eip155 cfg) tx' ->
      (forall cid0 tx0, signed a cid0 tx0 -> signed_content_of cid0 tx0 <> signed_content_of (c_eip155 cfg) tx') ->
      snd (step st (tx', ok)) <> Some a.
    Proof.
      intros Hunf Hcf Hss Hsig Hnone Hacc.
      destruct (accepted_only_if_signed_partial st tx' ok a Hunf Hcf Hss Hsig Hacc) as ((cid0 & tx0 & Hs & Hc) & _).
      exact (Hnone cid0 tx0 Hs Hc).
    Qed.

    (** A signature made for another chain id: if [a]'s key holder only ever
        signed replay-protected transactions for chain ids other than this
        chain's, nothing executes on [a]'s behalf here. *)
    Theorem foreign_signature_rejected_partial st tx ok a :
      Unforgeable -> CollisionFree -> SignedAreSignable -> signable (c_eip155 cfg) tx ->
      (forall cid0 tx0, signed a cid0 tx0 -> protected tx0 = true /\ cid0 <> c_eip155 cfg) ->
      snd (step st (tx, ok)) <> Some a.
    Proof.
      intros Hunf Hcf Hss Hsig Hforeign.
      apply mutation_rejected_partial; try assumption.
      intros cid0 tx0 Hs Hc. destruct (Hforeign _ _ Hs) as [Hp Hne].
      assert (P0 : sc_protected (signed_content_of cid0 tx0) = true /\ sc_chain (signed_content_of cid0 tx0) = cid0).
      { destruct tx0 as [t0|t0|t0]; cbn [protected] in Hp; cbn [signed_content_of sc_protected sc_chain];
          [rewrite Hp|..]; split; reflexivity. }
      assert (P1 : sc_protected (signed_content_of (c_eip155 cfg) tx) = true ->
                   sc_chain (signed_content_of (c_eip155 cfg) tx) = c_eip155 cfg).
      { destruct tx as [t|t|t]; cbn [signed_content_of sc_protected sc_chain]; [intros ->|..]; reflexivity. }
      destruct P0 as [Pp Pc]. rewrite Hc in Pp, Pc. rewrite (P1 Pp) in Pc. exact (Hne (eq_sym Pc)).
    Qed.
  End Negative.

  (** changing any signed field changes the bytes that are signed *)
  Theorem mutation_changes_sign_bytes cid tx tx' :
    signable cid tx -> signable cid tx' ->
    signed_content_of cid tx <> signed_content_of cid tx' -> sign_preimage cid tx <> sign_preimage cid tx'.
  Proof. intros H1 H2 Hne E. apply Hne. apply sign_preimage_inj; assumption. Qed.
End EthRoute.

(** ** the positive direction: a correctly signed transaction with the right
    nonce is accepted on behalf of the signing key's account *)
Section Positive.
  Context {K : Type}.
  Variable hash : bytes -> bytes.
  Variable recover : bytes -> Z -> Z -> Z -> option bytes.
  Variable sign : K -> bytes -> Z * Z * Z.
  Variable addr : K -> bytes.
  (** the single hypothesis on the signature scheme *)
  Hypothesis recover_sign : forall k h, let '(r, s, i) := sign k h in recover h r s (i + 27)%Z = Some (addr k).
  Hypothesis recid_range : forall k h, let '(_, _, i) := sign k h in (0 <= i <= 1)%Z.

  Lemma sign_preimage_with_sig cid tx v r s :
    protected (with_sig tx v r s) = protected (with_sig tx (2 * cid + 35) 0 0) ->
    sign_preimage cid (with_sig tx v r s) = sign_preimage cid (with_sig tx (2 * cid + 35) 0 0).
  Proof.
    destruct tx as [t|t|t]; cbn [with_sig protected l_v]; intros Hp; unfold sign_preimage;
      cbn [envelope sign_item l_v l_nonce l_gas_price l_gas l_to l_value l_data a_nonce a_gas_price a_gas a_to a_value
           a_data a_accesses d_nonce d_tip d_fee_cap d_gas d_to d_value d_data d_accesses];
      [rewrite Hp|..]; reflexivity.
  Qed.

  Theorem honest_tx_accepted cfg st k tx :
    (0 < c_eip155 cfg)%Z ->
    (tx_type tx <> 0%N -> chain_id tx = c_eip155 cfg) ->
    tx_nonce tx = st (addr k) ->
    step_eth hash recover cfg st (sign_tx hash sign k (c_eip155 cfg) tx, true)
    = (upd (list_eq_dec N.eq_dec) st (addr k) (st (addr k) + 1)%N, Some (addr k)).
  Proof.
    destruct cfg as [c allow]. cbn [c_eip155]. intros Hc Hchain Hn.
    unfold sign_tx.
    set (body := match tx with TxLegacy _ => with_sig tx (2 * c + 35) 0 0 | _ => tx end).
    pose proof (recover_sign k (hash (sign_preimage c body))) as Hrec.
    pose proof (recid_range k (hash (sign_preimage c body))) as Hrng.
    destruct (sign k (hash (sign_preimage c body))) as [[r s] i].
    assert (Hpv : forall v, (37 <= v)%Z -> protected_v v = true).
    { intros v Hv. unfold protected_v.
      destruct (Z.eqb_spec v 27), (Z.eqb_spec v 28), (Z.eqb_spec v 1), (Z.eqb_spec v 0); try lia; try reflexivity. }
    unfold step_eth, SigModel.step, auth_eth. cbn [c_eip155 c_allow_unprotected].
    destruct tx as [t|t|t]; cbn [with_sig].
    - (* legacy, EIP-155 *)
      cbn [protected l_v]. rewrite (Hpv (i + 35 + 2 * c)%Z) by lia. cbn [negb andb]. rewrite andb_false_r.
      unfold sender. cbn [tx_vrs l_v l_r l_s]. rewrite (Hpv (i + 35 + 2 * c)%Z) by lia.
      assert (Ecid : chain_id (TxLegacy (mk_legacy (l_nonce t) (l_gas_price t) (l_gas t) (l_to t) (l_value t) (l_data t) (i + 35 + 2 * c) r s)) = c).
      { cbn [chain_id l_v]. unfold derive_chain_id.
        assert (Hb1 : ((i + 35 + 2 * c =? 27) || (i + 35 + 2 * c =? 28))%Z = false).
        { destruct (Z.eqb_spec (i + 35 + 2 * c) 27), (Z.eqb_spec (i + 35 + 2 * c) 28); try lia; try reflexivity. }
        assert (Hb2 : (i + 35 + 2 * c <? 35)%Z = false) by (apply Z.ltb_ge; lia).
        rewrite Hb1, Hb2.
        assert (E : ((i + 35 + 2 * c - 35) / 2 = c)%Z).
        { replace (i + 35 + 2 * c - 35)%Z with (i + c * 2)%Z by lia. rewrite Z.div_add by lia.
          rewrite (Z.div_small i 2) by lia. lia. }
        rewrite E. destruct (i + 35 + 2 * c <? 2 ^ 64)%Z; reflexivity. }
      rewrite Ecid, Z.eqb_refl.
      replace (i + 35 + 2 * c - 2 * c - 8)%Z with (i + 27)%Z by lia.
      assert (Epre : sign_preimage c (TxLegacy (mk_legacy (l_nonce t) (l_gas_price t) (l_gas t) (l_to t) (l_value t) (l_data t) (i + 35 + 2 * c) r s))
                     = sign_preimage c body).
      { unfold body. apply (sign_preimage_with_sig c (TxLegacy t)). cbn [with_sig protected l_v].
        rewrite !Hpv by lia. reflexivity. }
      rewrite Epre, Hrec. cbn [tx_nonce l_nonce] in *. rewrite Hn, N.eqb_refl. reflexivity.
    - (* access list *)
      cbn [protected]. rewrite andb_false_r. unfold sender. cbn [tx_vrs a_v a_r a_s chain_id a_chain_id].
      specialize (Hchain ltac:(discriminate)). cbn [chain_id] in Hchain. rewrite Hchain. rewrite Z.eqb_refl.
      match goal with |- context [sign_preimage c ?x] => assert (Epre : sign_preimage c x = sign_preimage c body) by reflexivity end.
      rewrite Epre, Hrec. cbn [tx_nonce a_nonce] in *. rewrite Hn, N.eqb_refl. reflexivity.
    - (* dynamic fee *)
      cbn [protected]. rewrite andb_false_r. unfold sender. cbn [tx_vrs d_v d_r d_s chain_id d_chain_id].
      specialize (Hchain ltac:(discriminate)). cbn [chain_id] in Hchain. rewrite Hchain. rewrite Z.eqb_refl.
      match goal with |- context [sign_preimage c ?x] => assert (Epre : sign_preimage c x = sign_preimage c body) by reflexivity end.
      rewrite Epre, Hrec. cbn [tx_nonce d_nonce] in *. rewrite Hn, N.eqb_refl. reflexivity.
  Qed.
End Positive.

(** * the Cosmos and EIP-712 routes, at the level of the sign doc *)
Section CosmosRoute.
  Context {A B S : Type}.
  Variable A_dec : forall a b : A, {a = b} + {a <> b}.
  Variable digests : @sign_doc B -> list bytes.
  Variable verify : A -> bytes -> S -> bool.
  Variable chain : string.
  Variable accnum : A -> N.
  Variable eip155 : Z.

  Notation stepc := (step_cosmos A_dec digests verify chain accnum).
  Notation step712 := (step_eip712 A_dec digests verify chain accnum eip155).
  Notation tx := (@cosmos_tx A B S).

  Theorem cosmos_each_seq_once (h : list (tx * bool)) st i j a n :
    accepted_cosmos A_dec digests verify chain accnum st h i a n ->
    accepted_cosmos A_dec digests verify chain accnum st h j a n -> i = j.
  Proof. apply each_nonce_once. Qed.

  Theorem cosmos_replay_rejected (h : list (tx * bool)) st i j a n :
    accepted_cosmos A_dec digests verify chain accnum st h i a n -> i <> j ->
    ~ accepted_cosmos A_dec digests verify chain accnum st h j a n.
  Proof. apply replay_rejected. Qed.

  Theorem eip712_each_seq_once (h : list (tx * bool)) st i j a n :
    accepted_eip712 A_dec digests verify chain accnum eip155 st h i a n ->
    accepted_eip712 A_dec digests verify chain accnum eip155 st h j a n -> i = j.
  Proof. apply each_nonce_once. Qed.

  Theorem eip712_replay_rejected (h : list (tx * bool)) st i j a n :
    accepted_eip712 A_dec digests verify chain accnum eip155 st h i a n -> i <> j ->
    ~ accepted_eip712 A_dec digests verify chain accnum eip155 st h j a n.
  Proof. apply replay_rejected. Qed.

  (** [signed_doc a d]: the holder of [a]'s key has signed sign doc [d].
      - [UnforgeableC]: a signature that verifies under [a]'s key for a digest
        was made by [a]'s key holder over a sign doc with that digest (ECDSA
        unforgeability -- an assumption);
      - [DigestsSeparate]: two sign docs that share an accepted digest are equal
        (collision resistance of Keccak together with injectivity of the sign
        bytes and of the EIP-712 renderings -- an assumption). *)
  Section Negative.
    Variable signed_doc : A -> @sign_doc B -> Prop.

    Definition UnforgeableC : Prop :=
      forall a h s, verify a h s = true -> exists d, signed_doc a d /\ In h (digests d).
    Definition DigestsSeparate : Prop :=
      forall d d' h, In h (digests d) -> In h (digests d') -> d = d'.

    Lemma auth_cosmos_signed st (t : tx) a :
      UnforgeableC -> DigestsSeparate ->
      auth_cosmos digests verify chain accnum st t = Some a ->
      a = ct_signer t /\ signed_doc a (mk_doc chain (accnum a) (st a) (ct_body t)).
    Proof.
      intros Hunf Hsep. unfold auth_cosmos.
      destruct (existsb _ _) eqn:E; [|discriminate]. intros H; inversion H; subst a. split; [reflexivity|].
      apply existsb_exists in E as (h & Hin & Hv).
      destruct (Hunf _ _ _ Hv) as (d & Hs & Hd).
      rewrite (Hsep _ _ _ Hin Hd). exact Hs.
    Qed.

    (** A Cosmos transaction executes on behalf of [a] only if [a]'s key holder
        signed exactly: this chain id, [a]'s account number, [a]'s CURRENT
        sequence and this body; and the sequence it claims is the current one. *)
    Theorem cosmos_accepted_only_if_signed_partial st (t : tx) ok a :
      UnforgeableC -> DigestsSeparate ->
      snd (stepc st (t, ok)) = Some a ->
      a = ct_signer t /\ signed_doc a (mk_doc chain (accnum a) (st a) (ct_body t)) /\ ct_seq t = st a.
    Proof.
      intros Hunf Hsep Hacc. apply step_accept in Hacc as (Hauth & Hn & _ & _).
      destruct (auth_cosmos_signed st t a Hunf Hsep Hauth) as [E Hs]. auto.
    Qed.

    (** changing the body (messages, memo, fee, gas, timeout), the sequence, the
        account number or the chain id: if the key holder never signed the doc
        the node rebuilds, the transaction does not execute on [a]'s behalf *)
    Theorem cosmos_mutation_rejected_partial st (t : tx) ok a :
      UnforgeableC -> DigestsSeparate ->
      (forall d, signed_doc a d -> d <> mk_doc chain (accnum a) (st a) (ct_body t)) ->
      snd (stepc st (t, ok)) <> Some a.
    Proof.
      intros Hunf Hsep Hnone Hacc.
      destruct (cosmos_accepted_only_if_signed_partial st t ok a Hunf Hsep Hacc) as (_ & Hs & _).
      exact (Hnone _ Hs eq_refl).
    Qed.

    (** a signature made for another chain id *)
    Theorem cosmos_foreign_chain_rejected_partial st (t : tx) ok a :
      UnforgeableC -> DigestsSeparate ->
      (forall d, signed_doc a d -> sd_chain d <> chain) ->
      snd (stepc st (t, ok)) <> Some a.
    Proof.
      intros Hunf Hsep Hf. apply cosmos_mutation_rejected_partial; try assumption.
      intros d Hs E. apply (Hf d Hs). rewrite E. reflexivity.
    Qed.

    (** the legacy EIP-712 route: the same, and the typed-data chain id of the
        extension is the chain's EIP-155 id and the fee payer is the signer *)
    Theorem eip712_accepted_only_if_signed_partial st (t : tx) ok a :
      UnforgeableC -> DigestsSeparate ->
      snd (step712 st (t, ok)) = Some a ->
      a = ct_signer t /\ signed_doc a (mk_doc chain (accnum a) (st a) (ct_body t)) /\ ct_seq t = st a /\
      ct_ext_chain t = eip155 /\ ct_payer_is_signer t = true.
    Proof.
      intros Hunf Hsep Hacc. apply step_accept in Hacc as (Hauth & Hn & _ & _).
      unfold auth_eip712 in Hauth.
      destruct (Z.eqb_spec (ct_ext_chain t) eip155) as [Ec|]; [|discriminate].
      destruct (ct_payer_is_signer t) eqn:Ep; [|discriminate]. cbn [andb] in Hauth.
      destruct (auth_cosmos_signed st t a Hunf Hsep Hauth) as [E Hs]. auto.
    Qed.

    Theorem eip712_foreign_chain_rejected st (t : tx) ok :
      ct_ext_chain t <> eip155 -> step712 st (t, ok) = (st, None).
    Proof.
      intros Hne. unfold step_eip712, SigModel.step, auth_eip712.
      destruct (Z.eqb_spec (ct_ext_chain t) eip155); [contradiction|]. reflexivity.
    Qed.

    Theorem eip712_mutation_rejected_partial st (t : tx) ok a :
      UnforgeableC -> DigestsSeparate ->
      (forall d, signed_doc a d -> d <> mk_doc chain (accnum a) (st a) (ct_body t)) ->
      snd (step712 st (t, ok)) <> Some a.
    Proof.
      intros Hunf Hsep Hnone Hacc.
      destruct (eip712_accepted_only_if_signed_partial st t ok a Hunf Hsep Hacc) as (_ & Hs & _).
      exact (Hnone _ Hs eq_refl).
    Qed.
  End Negative.

  (** positive direction *)
  Theorem cosmos_honest_accepted st (t : tx) h :
    In h (digests (mk_doc chain (accnum (ct_signer t)) (st (ct_signer t)) (ct_body t))) ->
    verify (ct_signer t) h (ct_sig t) = true ->
    ct_seq t = st (ct_signer t) ->
    stepc st (t, true) = (upd A_dec st (ct_signer t) (st (ct_signer t) + 1)%N, Some (ct_signer t)).
  Proof.
    intros Hin Hv Hn. unfold step_cosmos, SigModel.step, auth_cosmos.
    assert (E : existsb (fun h0 => verify (ct_signer t) h0 (ct_sig t))
                        (digests (mk_doc chain (accnum (ct_signer t)) (st (ct_signer t)) (ct_body t))) = true).
    { apply existsb_exists. exists h. auto. }
    rewrite E, Hn, N.eqb_refl. reflexivity.
  Qed.
End CosmosRoute.

(** * the machine of the correspondence run is the same machine *)
Theorem sub_each_nonce_once nd (h : list (sub * bool)) st i j a n :
  accepted_at N.eq_dec (auth_sub nd) sub_nonce st h i a n ->
  accepted_at N.eq_dec (auth_sub nd) sub_nonce st h j a n -> i = j.
Proof. apply each_nonce_once. Qed.

(** * non-vacuity *)
Section Examples.
  (** a toy signature scheme satisfying the single hypothesis: the "signature"
      of digest [h] by key [k] is (k, sum of the digest bytes, 0); recovery
      checks the sum and returns the key's address *)
  Definition toy_hash (b : bytes) : bytes := [N.of_nat (length b); fold_right N.add 0%N b].
  Definition toy_sum (h : bytes) : Z := Z.of_N (fold_right N.add 0%N h).
  Definition toy_addr (k : Z) : bytes := [Z.to_N k; 7%N].
  Definition toy_sign (k : Z) (h : bytes) : Z * Z * Z := (k, toy_sum h, 0%Z).
  Definition toy_recover (h : bytes) (r s v : Z) : option bytes :=
    if ((s =? toy_sum h) && (v =? 27))%Z then Some (toy_addr r) else None.

  Lemma toy_recover_sign : forall k h, let '(r, s, i) := toy_sign k h in toy_recover h r s (i + 27)%Z = Some (toy_addr k).
  Proof. intros k h. cbn. unfold toy_recover. rewrite Z.eqb_refl. reflexivity. Qed.
  Lemma toy_recid : forall k h, let '(_, _, i) := toy_sign k h in (0 <= i <= 1)%Z.
  Proof. intros. cbn. lia. Qed.

  Definition ex_cfg : chain_cfg := mk_cfg 11235 false.
  Definition ex_unsigned : eth_tx :=
    TxDynamicFee (mk_df 11235 5 1 100 21000 (Some (repeat 9%N 20)) 1000 [1%N; 2%N] [] 0 0 0).
  Definition ex_signed : eth_tx := sign_tx toy_hash toy_sign 42%Z 11235 ex_unsigned.
  Definition ex_state : bytes -> N := fun a => if list_eq_dec N.eq_dec a (toy_addr 42) then 5%N else 0%N.

  (** accepted once, and the replay -- and a third copy -- are rejected *)
  Example ex_accept_then_replay :
    outcomes_eth toy_hash toy_recover ex_cfg ex_state [(ex_signed, true); (ex_signed, true); (ex_signed, true)]
    = [Some (toy_addr 42); None; None].
  Proof. vm_compute. reflexivity. Qed.

  (** the same signature presented to the other Haqq network *)
  Example ex_other_chain :
    outcomes_eth toy_hash toy_recover (mk_cfg 54211 false) ex_state [(ex_signed, true)] = [None].
  Proof. vm_compute. reflexivity. Qed.

  (** the general theorem instantiated *)
  Example ex_honest :
    step_eth toy_hash toy_recover ex_cfg ex_state (ex_signed, true)
    = (upd (list_eq_dec N.eq_dec) ex_state (toy_addr 42) 6%N, Some (toy_addr 42)).
  Proof.
    apply (honest_tx_accepted toy_hash toy_recover toy_sign toy_addr toy_recover_sign toy_recid ex_cfg ex_state 42%Z ex_unsigned).
    - reflexivity.
    - reflexivity.
    - reflexivity.
  Qed.

  Example ex_signable : signable 11235 ex_signed.
  Proof.
    split; [lia|]. split; [apply wfb_wf; vm_compute; reflexivity|]. cbn. repeat split; try lia; exact I.
  Qed.

  (** a pre-EIP-155 signature is refused while AllowUnprotectedTxs is false *)
  Definition ex_homestead : eth_tx := TxLegacy (mk_legacy 5 1 21000 None 0 [] 27 1 1).
  Example ex_unprotected :
    protected ex_homestead = false /\ step_eth toy_hash toy_recover ex_cfg ex_state (ex_homestead, true) = (ex_state, None).
  Proof. split; [reflexivity|]. apply unprotected_rejected; reflexivity. Qed.
End Examples.

(** the cryptographic premises of the [_partial] theorems are jointly
    satisfiable (so those theorems are not vacuous for want of a model): an
    injective "hash", a recovery that checks a keyed tag, and a key holder who
    signed exactly one transaction *)
Section PremisesSatisfiable.
  Definition id_hash (b : bytes) : bytes := b.
  (** "signature" of digest h by the holder of address [9;9]: r = s = 0, v = 27,
      valid only for the one digest that holder signed *)
  Definition one_digest : bytes := sign_preimage 11235 ex_unsigned.
  Definition one_recover (h : bytes) (r s v : Z) : option bytes :=
    if list_eq_dec N.eq_dec h one_digest then Some [9%N; 9%N] else None.
  Definition one_signed (a : bytes) (cid : Z) (tx : eth_tx) : Prop :=
    a = [9%N; 9%N] /\ cid = 11235%Z /\ tx = ex_unsigned.

  Example premises_satisfiable :
    Unforgeable id_hash one_recover one_signed /\ CollisionFree id_hash /\ SignedAreSignable one_signed.
  Proof.
    split; [|split].
    - intros h r s v a. unfold one_recover. destruct (list_eq_dec N.eq_dec h one_digest) as [->|]; [|discriminate].
      intros E. inversion E. exists 11235%Z, ex_unsigned. split; [repeat split|reflexivity].
    - intros cid1 tx1 cid2 tx2 E. exact E.
    - intros a cid tx (_ & -> & ->). split; [lia|]. split; [apply wfb_wf; vm_compute; reflexivity|].
      cbn. repeat split; try lia; exact I.
  Qed.

  (** ... and with them a transaction does get accepted, so the conclusion of
      [accepted_only_if_signed_partial] is exercised *)
  Example premises_allow_acceptance :
    snd (step_eth id_hash one_recover ex_cfg (fun _ => 5%N) (ex_unsigned, true)) = Some [9%N; 9%N].
  Proof. vm_compute. reflexivity. Qed.
End PremisesSatisfiable.
