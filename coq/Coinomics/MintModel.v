(** Coinomics (property C13): executable model of
    x/coinomics/keeper/{abci,inflation,mint_info}.go — EndBlocker and
    MintAndAllocate with every LegacyDec step as written, Go's
    time.Time.Year() (absDate, civil-from-days) for the leap-year rule, the cap
    clamp with auto-disable, the first-block rule.
    Definitions only; proofs are in MintProofs.v. *)
From Coq Require Import ZArith List Bool.
From HV Require Import Base.Dec.
Import ListNotations.
Local Open Scope Z_scope.

(** * Go's time: year of a Unix millisecond timestamp (UTC) *)

Definition ms_per_day : Z := 86400000.

(** time.UnixMilli(ms) has sec = floor(ms / 1000); absDate splits
    abs / secondsPerDay: the day number is floor(ms / 86_400_000). *)
Definition days_of_ms (ms : Z) : Z := ms / ms_per_day.

(** time.absDate (Go 1.23, `full = false`), with the absolute epoch moved to
    0001-01-01 (Go's absolute zero year is 1 mod 400, so its 400-year cycles
    are aligned with year 1): [d] = days since 1970-01-01. *)
Definition year_of_days (d : Z) : Z :=
  let a := d + 719162 in                    (* days since 0001-01-01 *)
  let n400 := a / 146097 in
  let r := a - 146097 * n400 in
  let n100 := r / 36524 in
  let n100 := n100 - n100 / 4 in            (* n -= n >> 2 *)
  let r := r - 36524 * n100 in
  let n4 := r / 1461 in
  let r := r - 1461 * n4 in
  let n1 := r / 365 in
  let n1 := n1 - n1 / 4 in
  1 + 400 * n400 + 100 * n100 + 4 * n4 + n1.

Definition year_of_ms (ms : Z) : Z := year_of_days (days_of_ms ms).

(** inflation.go: (y%4 == 0 && y%100 != 0) || y%400 == 0, Go's truncated % *)
Definition is_leap (y : Z) : bool :=
  ((Z.rem y 4 =? 0) && negb (Z.rem y 100 =? 0)) || (Z.rem y 400 =? 0).

Definition year_ms (y : Z) : Z := if is_leap y then 31622400000 else 31536000000.

(** * state *)
Record st := mkst {
  prev_ts    : Z;      (* PrevBlockTS, Unix ms; 0 = not yet recorded *)
  max_supply : Z;
  enabled    : bool;   (* Params.EnableCoinomics *)
  rc         : Z;      (* Params.RewardCoefficient, LegacyDec (percent per year) *)
  supply     : Z;      (* bank supply of the mint denom *)
  fee_col    : Z;      (* fee collector balance *)
  mod_bal    : Z       (* coinomics module account balance *)
}.

(** * the mint amount, every Dec step as in MintAndAllocate *)

(** params.RewardCoefficient.Quo(sdk.NewDec(100)) *)
Definition reward_rate (rc : Z) : Z := dquo rc (of_int 100).

(** (currentBlockTS - prevBlockTS).Quo(yearInMillis) *)
Definition elapsed_frac (ts prev yr : Z) : Z := dquo (dsub (of_int ts) (of_int prev)) (of_int yr).

(** totalBonded.Mul(rewardCoefficient).Mul(elapsed / year) *)
Definition block_mint (bonded rc ts prev yr : Z) : Z :=
  dmul (dmul (of_int bonded) (reward_rate rc)) (elapsed_frac ts prev yr).

(** the overflow tests on the way (NewDecFromStr range, "Int overflow" of
    Mul/Quo/Add/Sub): a failure is a panic in EndBlock *)
Definition mint_fits (s : st) (ts bonded yr : Z) : bool :=
  let rr := reward_rate (rc s) in
  let m1 := dmul (of_int bonded) rr in
  let el := dsub (of_int ts) (of_int (prev_ts s)) in
  let fr := dquo el (of_int yr) in
  let bm := dmul m1 fr in
  fits (of_int ts) && fits (of_int (prev_ts s)) && fits rr && fits (of_int bonded) && fits m1 &&
  fits el && fits fr && fits bm && fits (of_int (supply s)) && fits (of_int (max_supply s)) &&
  fits (dadd (of_int (supply s)) bm).

Definition set_prev (s : st) (ts : Z) : st :=
  mkst ts (max_supply s) (enabled s) (rc s) (supply s) (fee_col s) (mod_bal s).
Definition set_enabled (s : st) (b : bool) : st :=
  mkst (prev_ts s) (max_supply s) b (rc s) (supply s) (fee_col s) (mod_bal s).
Definition set_params (s : st) (b : bool) (c : Z) : st :=
  mkst (prev_ts s) (max_supply s) b c (supply s) (fee_col s) (mod_bal s).
(** MintCoins into the module account, then SendCoinsFromModuleToModule to the
    fee collector, then SetPrevBlockTS *)
Definition mint_to_collector (s : st) (x ts : Z) : st :=
  mkst ts (max_supply s) (enabled s) (rc s) (supply s + x) (fee_col s + x) (mod_bal s + x - x).

(** EndBlocker at block time [ts] (Unix ms) with [bonded] tokens in the bonded
    pool.  [None] = panic. *)
Definition end_blocker (s : st) (ts bonded : Z) : option st :=
  (* while minting is off the reference timestamp is forgotten (since 81b5da1): the first block after a
     re-activation only records its time *)
  if negb (enabled s) then Some (set_prev s 0) else
  if prev_ts s =? 0 then Some (set_prev s ts) else
  let yr := year_ms (year_of_ms ts) in
  if negb (mint_fits s ts bonded yr) then None else
  let bm := block_mint bonded (rc s) ts (prev_ts s) yr in
  let capped := of_int (max_supply s) <? dadd (of_int (supply s)) bm in
  if capped && negb (fits (dsub (of_int (max_supply s)) (of_int (supply s)))) then None else
  let bm' := if capped then dsub (of_int (max_supply s)) (of_int (supply s)) else bm in
  let s1 := if capped then set_enabled s false else s in
  if bm' <? 0 then Some s1 else
  let x := round_int bm' in
  if negb (fits_int x && fits_int (supply s + x)) then None else
  Some (mint_to_collector s1 x ts).

(** one block of a history: an optional parameter change (governance), then
    the EndBlocker *)
Record blk := mkblk { b_ts : Z; b_bonded : Z; b_params : option (bool * Z) }.

Definition apply_params (s : st) (pc : option (bool * Z)) : st :=
  match pc with Some (b, c) => set_params s b c | None => s end.

Definition block (s : st) (b : blk) : option st :=
  end_blocker (apply_params s (b_params b)) (b_ts b) (b_bonded b).

Fixpoint run (s : st) (bs : list blk) : option st :=
  match bs with
  | [] => Some s
  | b :: r => match block s b with None => None | Some s' => run s' r end
  end.

(** ---- correspondence with the harness ---- *)
(** observation after a block: [None] = panic, otherwise the state the
    implementation shows *)
Definition st_eqb (a b : st) : bool :=
  (prev_ts a =? prev_ts b) && (max_supply a =? max_supply b) && Bool.eqb (enabled a) (enabled b) &&
  (rc a =? rc b) && (supply a =? supply b) && (fee_col a =? fee_col b) && (mod_bal a =? mod_bal b).

(** the year Go computed is recorded with every block and compared as well *)
Definition obs := (Z * option st)%type.

Fixpoint check_from (s : st) (l : list (blk * obs)) : bool :=
  match l with
  | [] => true
  | (b, (y, o)) :: r =>
      (year_of_ms (b_ts b) =? y) &&
      match block s b, o with
      | None, None => true
      | Some s', Some so => st_eqb s' so && check_from s' r
      | _, _ => false
      end
  end.

Definition mint_case := (st * list (blk * obs))%type.
Definition check_case (c : mint_case) : bool := check_from (fst c) (snd c).

Fixpoint mismatches_from (i : nat) (cs : list mint_case) : list nat :=
  match cs with
  | [] => []
  | c :: r => if check_case c then mismatches_from (S i) r else i :: mismatches_from (S i) r
  end.
Definition mismatches := mismatches_from 0.

(** year-only cases: (Unix ms, Go's Year()) *)
Fixpoint year_mismatches_from (i : nat) (cs : list (Z * Z)) : list nat :=
  match cs with
  | [] => []
  | (ms, y) :: r =>
      if year_of_ms ms =? y then year_mismatches_from (S i) r else i :: year_mismatches_from (S i) r
  end.
Definition year_mismatches := year_mismatches_from 0.
