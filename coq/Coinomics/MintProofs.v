(** Proofs about the coinomics model (property C13). *)
From Coq Require Import ZArith List Bool Lia.
From HV Require Import Base.Dec Base.DecProofs Coinomics.MintModel.
Import ListNotations.
Local Open Scope Z_scope.

Ltac Zify.zify_post_hook ::= Z.to_euclidean_division_equations.

(** * the calendar: Go's Year() is the Gregorian year *)

(** leap years in [1, y): the Gregorian rule in closed form *)
Definition leaps_before (y : Z) : Z := (y - 1) / 4 - (y - 1) / 100 + (y - 1) / 400.
(** day number (days since 1970-01-01) of January 1st of year y *)
Definition days_before_year (y : Z) : Z := 365 * (y - 1970) + leaps_before y - leaps_before 1970.
Definition greg_leap (y : Z) : Prop := (y mod 4 = 0 /\ y mod 100 <> 0) \/ y mod 400 = 0.

Lemma is_leap_spec y : is_leap y = true <-> greg_leap y.
Proof.
  unfold is_leap, greg_leap. rewrite orb_true_iff, andb_true_iff, negb_true_iff, !Z.eqb_eq, Z.eqb_neq.
  lia.
Qed.

Lemma days_before_year_1970 : days_before_year 1970 = 0.
Proof. reflexivity. Qed.

(** [days_before_year] is the calendar: it starts at the epoch and every year
    adds 366 days if it is a Gregorian leap year, 365 otherwise *)
Lemma days_before_year_succ y :
  days_before_year (y + 1) = days_before_year y + (if is_leap y then 366 else 365).
Proof.
  unfold days_before_year, leaps_before.
  destruct (is_leap y) eqn:E.
  - apply is_leap_spec in E. unfold greg_leap in E. replace (y + 1 - 1) with y by lia. lia.
  - assert (~ greg_leap y) by (rewrite <- is_leap_spec; congruence). unfold greg_leap in *.
    replace (y + 1 - 1) with y by lia. lia.
Qed.

Lemma days_before_year_mono y y' : y <= y' -> days_before_year y <= days_before_year y'.
Proof. unfold days_before_year, leaps_before. lia. Qed.

(** the day lies inside the year absDate returns, for every day number *)
Theorem year_of_days_spec d :
  days_before_year (year_of_days d) <= d < days_before_year (year_of_days d + 1).
Proof.
  unfold year_of_days, days_before_year, leaps_before. cbv zeta.
  set (a := d + 719162).
  set (n400 := a / 146097).
  set (r := a - 146097 * n400).
  assert (Hr : 0 <= r < 146097) by (unfold r, n400; lia).
  set (q100 := r / 36524).
  assert (Hq100 : 0 <= q100 <= 4) by (unfold q100; lia).
  set (n100 := q100 - q100 / 4).
  set (r2 := r - 36524 * n100).
  set (n4 := r2 / 1461).
  set (r3 := r2 - 1461 * n4).
  set (q1 := r3 / 365).
  set (n1 := q1 - q1 / 4).
  assert (Hn100 : 0 <= n100 <= 3 /\ 0 <= r2 <= 36524 /\ (n100 < 3 -> r2 < 36524)) by (unfold r2, n100, q100 in *; lia).
  assert (Hn4 : 0 <= n4 <= 24 /\ 0 <= r3 <= 1460) by (unfold r3, n4; lia).
  assert (Hq1 : 0 <= q1 <= 4) by (unfold q1; lia).
  assert (Hn1 : 0 <= n1 <= 3 /\ 0 <= r3 - 365 * n1 <= 365 /\ (n1 < 3 -> r3 - 365 * n1 < 365)) by (unfold n1, q1 in *; lia).
  assert (Hd : d = 146097 * n400 + 36524 * n100 + 1461 * n4 + r3 - 719162) by (unfold r3, r2, r, a; lia).
  clearbody n400 n100 n4 n1 r3. clear - Hn100 Hn4 Hn1 Hd.
  lia.
Qed.

(** ... and it is the only such year *)
Theorem year_of_days_unique d y :
  days_before_year y <= d < days_before_year (y + 1) -> year_of_days d = y.
Proof.
  intros H. pose proof (year_of_days_spec d) as S.
  destruct (Z.lt_trichotomy (year_of_days d) y) as [L|[E|G]]; [|assumption|].
  - pose proof (days_before_year_mono (year_of_days d + 1) y ltac:(lia)). lia.
  - pose proof (days_before_year_mono (y + 1) (year_of_days d) ltac:(lia)). lia.
Qed.

(** the year length used for the block is the length of the civil year the
    block time lies in *)
Theorem year_ms_is_year_length y :
  year_ms y = (days_before_year (y + 1) - days_before_year y) * ms_per_day.
Proof. rewrite days_before_year_succ. unfold year_ms, ms_per_day. destruct (is_leap y); lia. Qed.

Lemma year_ms_pos y : 0 < year_ms y.
Proof. unfold year_ms. destruct (is_leap y); lia. Qed.

Lemma year_ms_cases y : year_ms y = 31536000000 \/ year_ms y = 31622400000.
Proof. unfold year_ms. destruct (is_leap y); lia. Qed.

(** block time in ms lies in [start of its year, start of the next year) *)
Theorem year_of_ms_spec ms :
  days_before_year (year_of_ms ms) * ms_per_day <= ms < days_before_year (year_of_ms ms + 1) * ms_per_day.
Proof.
  unfold year_of_ms. pose proof (year_of_days_spec (days_of_ms ms)) as H.
  unfold days_of_ms, ms_per_day in *. lia.
Qed.

(** * the Dec steps of the mint amount *)

(** RewardCoefficient / 100, rounded to 18 digits *)
Lemma reward_rate_error c : Z.abs (100 * reward_rate c - c) <= 50.
Proof.
  unfold reward_rate, dquo, of_int.
  replace (c * prec * prec) with ((c * 10000000000000000) * (100 * prec)) by (unfold prec; ring).
  rewrite Z.quot_mul by (unfold prec; lia).
  pose proof (chop_error (c * 10000000000000000)). unfold prec in *. lia.
Qed.

Lemma reward_rate_nonneg c : 0 <= c -> 0 <= reward_rate c.
Proof. intros. unfold reward_rate. apply dquo_nonneg; [assumption|reflexivity]. Qed.

Lemma reward_rate_0 : reward_rate 0 = 0.
Proof. reflexivity. Qed.

(** elapsed / year, truncated at 36 digits and rounded to 18 *)
Lemma elapsed_frac_error ts prev yr : 0 < yr ->
  2 * Z.abs (elapsed_frac ts prev yr * yr - (ts - prev) * prec) * prec <= yr * (prec + 2).
Proof.
  intros Hy. unfold elapsed_frac, dsub. rewrite <- of_int_sub. fold (dsub (of_int ts) (of_int prev)).
  unfold dsub. replace (of_int ts - of_int prev) with (of_int (ts - prev)) by (unfold of_int; ring).
  set (el := ts - prev). set (fr := dquo (of_int el) (of_int yr)).
  pose proof prec_pos as Hp.
  pose proof (dquo_error (of_int el) (of_int yr) ltac:(unfold of_int; nia)) as H. fold fr in H.
  unfold of_int in H.
  replace (fr * (yr * prec) - el * prec * prec) with ((fr * yr - el * prec) * prec) in H by ring.
  rewrite Z.abs_mul, (Z.abs_eq prec), (Z.abs_eq (yr * prec)) in H by nia.
  assert (H' : (2 * Z.abs (fr * yr - el * prec) * prec) * prec <= (yr * (prec + 2)) * prec) by nia.
  apply Z.mul_le_mono_pos_r in H'; assumption.
Qed.

Lemma elapsed_frac_nonpos ts prev yr : 0 < yr -> ts <= prev -> elapsed_frac ts prev yr <= 0.
Proof.
  intros Hy Ht. unfold elapsed_frac, dsub, of_int. pose proof prec_pos. apply dquo_nonpos; nia.
Qed.
Lemma elapsed_frac_nonneg ts prev yr : 0 < yr -> prev <= ts -> 0 <= elapsed_frac ts prev yr.
Proof.
  intros Hy Ht. unfold elapsed_frac, dsub, of_int. pose proof prec_pos. apply dquo_nonneg; nia.
Qed.
Lemma elapsed_frac_same ts yr : elapsed_frac ts ts yr = 0.
Proof. unfold elapsed_frac, dsub. rewrite Z.sub_diag. apply dquo_0_l. Qed.

(** the first product is exact: bonded is a whole number *)
Lemma block_mint_unfold bonded c ts prev yr :
  block_mint bonded c ts prev yr = dmul (bonded * reward_rate c) (elapsed_frac ts prev yr).
Proof. unfold block_mint. rewrite dmul_of_int_l. reflexivity. Qed.

(** arithmetic core of the error bound, on absolute values *)
Lemma bound_arith p yr b cc l a1 a2 a3 a4 Zs Zt Zu D :
  0 < p -> 0 < yr -> 0 <= b -> 0 <= cc -> 0 <= l -> 0 <= a1 -> 0 <= a2 -> 0 <= a3 -> 0 <= a4 ->
  D <= b * Zs + 100 * yr * Zu -> Zs <= Zt + a1 * a2 -> Zt <= cc * a2 + a1 * l * p -> Zu <= a3 + a4 * p ->
  a1 <= 50 -> 2 * a2 * p <= yr * (p + 2) -> 2 * a3 <= p -> 2 * a4 <= p ->
  2 * p * D <= b * (cc * yr * (p + 2) + 100 * l * p * p + 50 * yr * (p + 2)) + 100 * yr * p * p * (p + 1).
Proof.
  intros Hp Hy Nb Nc Nl N1 N2 N3 N4 T0 T1 T2 T3 H1 H2 H3 H4.
  assert (B1 : 2 * p * Zs <= cc * yr * (p + 2) + 100 * l * p * p + 50 * yr * (p + 2)).
  { assert (cc * (2 * a2 * p) <= cc * (yr * (p + 2))) by (apply Z.mul_le_mono_nonneg_l; lia).
    assert (a1 * (2 * a2 * p) <= 50 * (yr * (p + 2))) by (apply Z.mul_le_mono_nonneg; nia).
    assert (a1 * (l * p * (2 * p)) <= 50 * (l * p * (2 * p))) by (apply Z.mul_le_mono_nonneg_r; nia).
    nia. }
  assert (B2 : 2 * p * Zu <= p * p + p * p * p) by nia.
  assert (B3 : b * (2 * p * Zs) <= b * (cc * yr * (p + 2) + 100 * l * p * p + 50 * yr * (p + 2)))
    by (apply Z.mul_le_mono_nonneg_l; lia).
  assert (B4 : 100 * yr * (2 * p * Zu) <= 100 * yr * (p * p + p * p * p))
    by (apply Z.mul_le_mono_nonneg_l; lia).
  nia.
Qed.

(** The amount minted, [round_int (block_mint ...)], against the exact rational
      R = bonded * (rc / 10^18 / 100) * (ts - prev) / yr :
    with P = 10^18 and all quantities cleared of denominators,
      2P * | m * 100 * yr * P^2  -  bonded * rc * (ts-prev) * P |
        <=  |bonded| * ( |rc| * yr * (P+2) + 100 * |ts-prev| * P^2 + 50 * yr * (P+2) )
            + 100 * yr * P^2 * (P+1)
    i.e.  |m - R| <= 1/2 + 1/(2P)
                     + |bonded| * ( |rc|/(200 P^2) + |ts-prev|/(2 yr P) + 1/(4 P^2) ) * (1 + 2/P)
    (dividing by 2P * 100 * yr * P^2, up to the factor (1+2/P) on the first and third terms). *)
Theorem mint_error_bound bonded c ts prev yr : 0 < yr ->
  let m := round_int (block_mint bonded c ts prev yr) in
  2 * prec * Z.abs (m * 100 * yr * prec * prec - bonded * c * (ts - prev) * prec)
  <= Z.abs bonded * (Z.abs c * yr * (prec + 2) + 100 * Z.abs (ts - prev) * prec * prec + 50 * yr * (prec + 2))
     + 100 * yr * prec * prec * (prec + 1).
Proof.
  intros Hy m. unfold m. rewrite block_mint_unfold.
  set (rr := reward_rate c). set (fr := elapsed_frac ts prev yr). set (el := ts - prev).
  set (m2 := dmul (bonded * rr) fr). set (mm := round_int m2).
  pose proof prec_pos as Hp.
  pose proof (reward_rate_error c) as H1. fold rr in H1.
  pose proof (elapsed_frac_error ts prev yr Hy) as H2. fold fr el in H2.
  pose proof (dmul_error (bonded * rr) fr) as H3. fold m2 in H3.
  pose proof (round_int_error m2) as H4. fold mm in H4.
  set (e1 := 100 * rr - c) in *. set (e2 := fr * yr - el * prec) in *.
  set (e3 := m2 * prec - bonded * rr * fr) in *. set (e4 := mm * prec - m2) in *.
  assert (E : mm * 100 * yr * prec * prec - bonded * c * el * prec
              = bonded * (c * e2 + e1 * el * prec + e1 * e2) + 100 * yr * (e3 + e4 * prec))
    by (unfold e1, e2, e3, e4; ring).
  rewrite E. clear E.
  pose proof (Z.abs_triangle (bonded * (c * e2 + e1 * el * prec + e1 * e2)) (100 * yr * (e3 + e4 * prec))) as T0.
  pose proof (Z.abs_triangle (c * e2 + e1 * el * prec) (e1 * e2)) as T1.
  pose proof (Z.abs_triangle (c * e2) (e1 * el * prec)) as T2.
  pose proof (Z.abs_triangle e3 (e4 * prec)) as T3.
  repeat rewrite Z.abs_mul in T0. repeat rewrite Z.abs_mul in T1.
  repeat rewrite Z.abs_mul in T2. repeat rewrite Z.abs_mul in T3.
  rewrite (Z.abs_eq prec) in T2, T3 by lia. rewrite (Z.abs_eq yr), (Z.abs_eq 100) in T0 by lia.
  apply (bound_arith prec yr (Z.abs bonded) (Z.abs c) (Z.abs el) (Z.abs e1) (Z.abs e2) (Z.abs e3) (Z.abs e4)
           (Z.abs (c * e2 + e1 * el * prec + e1 * e2)) (Z.abs (c * e2 + e1 * el * prec)) (Z.abs (e3 + e4 * prec)));
    try apply Z.abs_nonneg; try assumption; lia.
Qed.

(** * EndBlocker: every outcome *)

Definition capped (s : st) (bm : Z) : Prop := of_int (max_supply s) < dadd (of_int (supply s)) bm.

Definition the_mint (s : st) (ts bonded : Z) : Z :=
  block_mint bonded (rc s) ts (prev_ts s) (year_ms (year_of_ms ts)).

Inductive outcome (s : st) (ts bonded : Z) (s' : st) : Prop :=
| ODisabled : enabled s = false -> s' = set_prev s 0 -> outcome s ts bonded s'
| OFirst : enabled s = true -> prev_ts s = 0 -> s' = set_prev s ts -> outcome s ts bonded s'
| ONegative : enabled s = true -> prev_ts s <> 0 -> ~ capped s (the_mint s ts bonded) ->
    the_mint s ts bonded < 0 -> s' = s -> outcome s ts bonded s'
| OMint : enabled s = true -> prev_ts s <> 0 -> ~ capped s (the_mint s ts bonded) ->
    0 <= the_mint s ts bonded ->
    s' = mint_to_collector s (round_int (the_mint s ts bonded)) ts -> outcome s ts bonded s'
| OAbove : enabled s = true -> prev_ts s <> 0 -> capped s (the_mint s ts bonded) ->
    max_supply s < supply s -> s' = set_enabled s false -> outcome s ts bonded s'
| ORemainder : enabled s = true -> prev_ts s <> 0 -> capped s (the_mint s ts bonded) ->
    supply s <= max_supply s ->
    s' = mint_to_collector (set_enabled s false) (max_supply s - supply s) ts -> outcome s ts bonded s'.

Lemma end_blocker_outcome s ts bonded s' : end_blocker s ts bonded = Some s' -> outcome s ts bonded s'.
Proof.
  unfold end_blocker. intros H.
  destruct (enabled s) eqn:En; cbn [negb] in H; [|inversion H; subst; apply ODisabled; auto].
  destruct (Z.eqb_spec (prev_ts s) 0) as [E0|N0]; [inversion H; subst; apply OFirst; auto|].
  destruct (mint_fits s ts bonded (year_ms (year_of_ms ts))); [|discriminate]. cbn [negb] in H.
  fold (the_mint s ts bonded) in H. set (bm := the_mint s ts bonded) in *.
  destruct (Z.ltb_spec (of_int (max_supply s)) (dadd (of_int (supply s)) bm)) as [C|NC].
  - destruct (fits (dsub (of_int (max_supply s)) (of_int (supply s)))); [|discriminate]. cbn [andb negb] in H.
    rewrite <- of_int_sub in H.
    destruct (Z.ltb_spec (of_int (max_supply s - supply s)) 0) as [Ng|Nn].
    + inversion H; subst. apply OAbove; auto. unfold of_int in Ng. pose proof prec_pos. nia.
    + rewrite round_int_of_int in H.
      destruct (fits_int (max_supply s - supply s) && fits_int (supply s + (max_supply s - supply s))); [|discriminate].
      inversion H; subst. apply ORemainder; auto. unfold of_int in Nn. pose proof prec_pos. nia.
  - cbn [andb] in H.
    destruct (Z.ltb_spec bm 0) as [Ng|Nn].
    + inversion H; subst. apply ONegative; auto. unfold capped. fold bm. lia.
    + destruct (fits_int (round_int bm) && fits_int (supply s + round_int bm)); [|discriminate].
      inversion H; subst. apply OMint; auto. unfold capped. fold bm. lia.
Qed.

(** * the property, per block *)

(** in the ordinary case the amount minted is the fixed-point formula, rounded
    to the nearest unit; all of it goes to the fee collector; the block time is
    recorded *)
Theorem mint_formula s ts bonded s' :
  end_blocker s ts bonded = Some s' -> enabled s = true -> prev_ts s <> 0 ->
  let bm := dmul (dmul (of_int bonded) (dquo (rc s) (of_int 100)))
                 (dquo (dsub (of_int ts) (of_int (prev_ts s))) (of_int (year_ms (year_of_ms ts)))) in
  dadd (of_int (supply s)) bm <= of_int (max_supply s) -> 0 <= bm ->
  supply s' = supply s + round_int bm /\ fee_col s' = fee_col s + round_int bm /\
  mod_bal s' = mod_bal s /\ prev_ts s' = ts /\ enabled s' = true /\ rc s' = rc s /\ max_supply s' = max_supply s.
Proof.
  intros H En Pv bm Hc Hn.
  assert (Eb : bm = the_mint s ts bonded) by reflexivity.
  destruct (end_blocker_outcome _ _ _ _ H) as [D|F|? ? ? Ng|? ? ? ? ->|? ? C|? ? C]; try congruence.
  - rewrite <- Eb in Ng. lia.
  - rewrite <- Eb. cbn. repeat split; try lia. assumption.
  - unfold capped in C. rewrite <- Eb in C. lia.
  - unfold capped in C. rewrite <- Eb in C. lia.
Qed.

Theorem no_mint_when_disabled s ts bonded : enabled s = false -> end_blocker s ts bonded = Some (set_prev s 0).
Proof. intros E. unfold end_blocker. rewrite E. reflexivity. Qed.

Theorem first_block_only_records_ts s ts bonded : enabled s = true -> prev_ts s = 0 ->
  end_blocker s ts bonded = Some (set_prev s ts).
Proof. intros E P. unfold end_blocker. rewrite E, P. reflexivity. Qed.

(** minted amount and its destination, for every outcome *)
Theorem all_to_fee_collector s ts bonded s' : end_blocker s ts bonded = Some s' ->
  0 <= supply s' - supply s /\ fee_col s' - fee_col s = supply s' - supply s /\
  mod_bal s' = mod_bal s /\ max_supply s' = max_supply s /\ rc s' = rc s.
Proof.
  intros H. destruct (end_blocker_outcome _ _ _ _ H) as [? ->|? ? ->|? ? ? ? ->|? ? ? Hn ->|? ? ? ? ->|? ? ? ? ->];
    cbn; repeat split; try lia.
  pose proof (round_int_nonneg _ Hn). lia.
Qed.

(** the supply is never lifted above the maximum *)
Theorem cap_never_crossed s ts bonded s' : end_blocker s ts bonded = Some s' ->
  supply s' <= Z.max (supply s) (max_supply s).
Proof.
  intros H. destruct (end_blocker_outcome _ _ _ _ H) as [? ->|? ? ->|? ? ? ? ->|? ? NC Hn ->|? ? ? ? ->|? ? ? ? ->];
    cbn; try lia.
  unfold capped, dadd in NC.
  assert (Hle : the_mint s ts bonded <= of_int (max_supply s - supply s)) by (unfold of_int in *; lia).
  pose proof (round_int_le_int _ _ Hle). lia.
Qed.

(** the block that would cross the cap mints exactly the remainder and switches
    minting off; at or above the cap nothing is minted (and minting is switched off) *)
Theorem cap_block_mints_remainder_and_disables s ts bonded s' :
  end_blocker s ts bonded = Some s' -> enabled s = true -> prev_ts s <> 0 ->
  of_int (max_supply s) < dadd (of_int (supply s)) (the_mint s ts bonded) ->
  enabled s' = false /\
  (supply s <= max_supply s ->
     supply s' = max_supply s /\ fee_col s' = fee_col s + (max_supply s - supply s) /\ prev_ts s' = ts) /\
  (max_supply s < supply s -> supply s' = supply s /\ fee_col s' = fee_col s).
Proof.
  intros H En Pv C.
  destruct (end_blocker_outcome _ _ _ _ H) as [?|?|? ? NC|? ? NC|? ? ? ? ->|? ? ? ? ->]; try congruence;
    try (exfalso; apply NC; exact C); cbn; repeat split; intros; lia.
Qed.

(** a block is capped exactly when the formula amount does not fit under the maximum *)
Theorem not_capped_keeps_enabled s ts bonded s' :
  end_blocker s ts bonded = Some s' -> enabled s = true -> prev_ts s <> 0 ->
  dadd (of_int (supply s)) (the_mint s ts bonded) <= of_int (max_supply s) -> enabled s' = true.
Proof.
  intros H En Pv C.
  destruct (end_blocker_outcome _ _ _ _ H) as [?|? ? ->|? ? ? ? ->|? ? ? ? ->|? ? C'|? ? C']; try congruence;
    try (cbn; assumption); unfold capped in C'; lia.
Qed.

(** no time elapsed, or the clock went backwards: nothing is minted *)
Theorem nonpositive_elapsed_mints_nothing s ts bonded s' :
  end_blocker s ts bonded = Some s' -> 0 <= bonded -> 0 <= rc s -> ts <= prev_ts s ->
  supply s' = supply s /\ fee_col s' = fee_col s.
Proof.
  intros H Hb Hc Ht.
  assert (Hm : the_mint s ts bonded <= 0).
  { unfold the_mint. rewrite block_mint_unfold. apply dmul_nonpos_r.
    - pose proof (reward_rate_nonneg (rc s) Hc). nia.
    - apply elapsed_frac_nonpos; [apply year_ms_pos|assumption]. }
  destruct (end_blocker_outcome _ _ _ _ H) as [? ->|? ? ->|? ? ? ? ->|? ? NC Hn ->|? ? ? ? ->|? ? C Hs ->]; cbn; try lia.
  - assert (E : the_mint s ts bonded = 0) by lia. rewrite E. cbn. lia.
  - unfold capped, dadd, of_int in C. pose proof prec_pos. nia.
Qed.

(** a zero reward coefficient or an empty bonded pool mints nothing *)
Theorem zero_rate_mints_nothing s ts bonded s' :
  end_blocker s ts bonded = Some s' -> rc s = 0 \/ bonded = 0 -> supply s <= max_supply s ->
  supply s' = supply s.
Proof.
  intros H Hz Hs.
  assert (Hm : the_mint s ts bonded = 0).
  { unfold the_mint. rewrite block_mint_unfold. destruct Hz as [-> | ->].
    - rewrite reward_rate_0, Z.mul_0_r. apply dmul_0_l.
    - rewrite Z.mul_0_l. apply dmul_0_l. }
  destruct (end_blocker_outcome _ _ _ _ H) as [? ->|? ? ->|? ? ? ? ->|? ? NC Hn ->|? ? ? ? ->|? ? C ? ->]; cbn; try lia.
  - rewrite Hm. cbn. lia.
  - unfold capped, dadd, of_int in C. rewrite Hm in C. pose proof prec_pos. nia.
Qed.

(** * activation, re-activation and the elapsed time *)

(** a block with minting off mints nothing, keeps minting off and forgets the reference timestamp *)
Theorem disabled_block_forgets_ts s b s' : block s b = Some s' -> enabled (apply_params s (b_params b)) = false ->
  prev_ts s' = 0 /\ enabled s' = false /\ supply s' = supply s /\ fee_col s' = fee_col s.
Proof.
  unfold block. intros H E. rewrite (no_mint_when_disabled _ _ _ E) in H. inversion H; subst. cbn.
  repeat split; try assumption; destruct (b_params b) as [[e c]|]; reflexivity.
Qed.

(** the first block after minting was off — whether minting is switched on again by this block's parameter change or
    stays off — mints nothing; if it is on, the block records its own time and leaves minting on *)
Theorem block_after_disabled_block_mints_nothing s b1 s1 b2 s2 :
  block s b1 = Some s1 -> enabled (apply_params s (b_params b1)) = false -> block s1 b2 = Some s2 ->
  supply s2 = supply s1 /\ fee_col s2 = fee_col s1 /\
  (enabled (apply_params s1 (b_params b2)) = true -> prev_ts s2 = b_ts b2 /\ enabled s2 = true).
Proof.
  intros H1 E1 H2. destruct (disabled_block_forgets_ts _ _ _ H1 E1) as (P0 & _ & _ & _).
  unfold block in H2. set (t := apply_params s1 (b_params b2)) in *.
  assert (Pt : prev_ts t = 0) by (unfold t; destruct (b_params b2) as [[e c]|]; cbn; exact P0).
  assert (St : supply t = supply s1 /\ fee_col t = fee_col s1) by (unfold t; destruct (b_params b2) as [[e c]|]; cbn; auto).
  destruct St as [St Ft].
  destruct (enabled t) eqn:Et.
  - rewrite (first_block_only_records_ts _ _ _ Et Pt) in H2. inversion H2; subst s2. cbn.
    split; [exact St|]. split; [exact Ft|]. intros _. split; [reflexivity|exact Et].
  - rewrite (no_mint_when_disabled _ _ _ Et) in H2. inversion H2; subst s2. cbn.
    split; [exact St|]. split; [exact Ft|]. discriminate.
Qed.

Lemma the_mint_nonneg s ts bonded : 0 <= bonded -> 0 <= rc s -> prev_ts s <= ts -> 0 <= the_mint s ts bonded.
Proof.
  intros Hb Hc Ht. unfold the_mint. rewrite block_mint_unfold. apply dmul_nonneg.
  - pose proof (reward_rate_nonneg (rc s) Hc). nia.
  - apply elapsed_frac_nonneg; [apply year_ms_pos|assumption].
Qed.

(** with minting on, a block records its own time (so the elapsed time of the next block is measured between
    consecutive block timestamps) — unless the formula amount is negative or the supply is above the maximum *)
Theorem enabled_block_records_its_time s ts bonded s' :
  end_blocker s ts bonded = Some s' -> enabled s = true ->
  prev_ts s = 0 \/ (0 <= the_mint s ts bonded /\ supply s <= max_supply s) -> prev_ts s' = ts.
Proof.
  intros H En Hc.
  destruct (end_blocker_outcome _ _ _ _ H) as [D|? ? ->|? P0 ? Ng ->|? ? ? ? ->|? P0 ? Ab ->|? ? ? ? ->]; try congruence; cbn; try reflexivity.
  - destruct Hc as [Z0|[Nn _]]; [congruence|lia].
  - destruct Hc as [Z0|[_ Le]]; [congruence|lia].
Qed.

(** two consecutive minting blocks: the second mints the formula amount for the time between the two block timestamps *)
Theorem elapsed_is_between_consecutive_blocks s b1 s1 b2 s2 :
  block s b1 = Some s1 -> block s1 b2 = Some s2 ->
  let t1 := apply_params s (b_params b1) in let t2 := apply_params s1 (b_params b2) in
  enabled t1 = true -> enabled t2 = true ->
  0 <= b_bonded b1 -> 0 <= rc t1 -> prev_ts t1 <= b_ts b1 -> supply t1 <= max_supply t1 -> b_ts b1 <> 0 ->
  the_mint t2 (b_ts b2) (b_bonded b2) =
    block_mint (b_bonded b2) (rc t2) (b_ts b2) (b_ts b1) (year_ms (year_of_ms (b_ts b2))).
Proof.
  intros H1 H2 t1 t2 E1 E2 Hb Hc Ht Hs Hn. unfold block in H1. fold t1 in H1.
  assert (P1 : prev_ts s1 = b_ts b1).
  { apply (enabled_block_records_its_time t1 (b_ts b1) (b_bonded b1) s1 H1 E1).
    destruct (Z.eq_dec (prev_ts t1) 0) as [Z0|N0]; [left; exact Z0|right].
    split; [apply the_mint_nonneg; assumption|exact Hs]. }
  unfold the_mint. replace (prev_ts t2) with (b_ts b1); [reflexivity|].
  unfold t2. destruct (b_params b2) as [[e c]|]; cbn; congruence.
Qed.

(** * histories *)

Lemma block_supply s b s' : block s b = Some s' ->
  supply s <= supply s' /\ supply s' <= Z.max (supply s) (max_supply s) /\
  fee_col s' - fee_col s = supply s' - supply s /\ mod_bal s' = mod_bal s /\ max_supply s' = max_supply s.
Proof.
  unfold block. intros H.
  assert (A : forall pc, supply (apply_params s pc) = supply s /\ max_supply (apply_params s pc) = max_supply s /\
                         fee_col (apply_params s pc) = fee_col s /\ mod_bal (apply_params s pc) = mod_bal s).
  { intros [[b0 c0]|]; cbn; auto. }
  destruct (A (b_params b)) as (A1 & A2 & A3 & A4).
  pose proof (all_to_fee_collector _ _ _ _ H) as (P1 & P2 & P3 & P4 & _).
  pose proof (cap_never_crossed _ _ _ _ H) as P5.
  rewrite A1, A2, A3, A4 in *. repeat split; try lia; assumption.
Qed.

(** over any sequence of blocks — any timestamps (also equal or decreasing), any
    bonded amounts, any parameter changes including re-enabling after the
    automatic switch-off —: everything minted went to the fee collector, the
    supply never passed max(initial supply, maximum), hence the total minted is
    at most the headroom max(0, maximum - initial supply) *)
Theorem total_minted_le_headroom bs : forall s s', run s bs = Some s' ->
  supply s <= supply s' /\
  supply s' <= Z.max (supply s) (max_supply s) /\
  supply s' - supply s <= Z.max 0 (max_supply s - supply s) /\
  fee_col s' - fee_col s = supply s' - supply s /\
  mod_bal s' = mod_bal s /\ max_supply s' = max_supply s.
Proof.
  induction bs as [|b r IH]; intros s s' H; cbn [run] in H.
  - inversion H; subst. repeat split; lia.
  - destruct (block s b) as [s1|] eqn:Eb; [|discriminate].
    pose proof (block_supply _ _ _ Eb) as (B1 & B2 & B3 & B4 & B5).
    pose proof (IH _ _ H) as (I1 & I2 & I3 & I4 & I5 & I6).
    rewrite B5 in *. repeat split; try lia.
Qed.

(** once the supply has reached the maximum nothing more is ever minted *)
Theorem nothing_minted_at_cap bs : forall s s', run s bs = Some s' -> max_supply s <= supply s ->
  supply s' = supply s.
Proof.
  intros s s' H Hc. pose proof (total_minted_le_headroom bs s s' H). lia.
Qed.

(** * non-vacuity *)
(** 2023-11-14T22:13:20Z, one validator set bonded 10^27, 7.8 % per year, 5 s blocks *)
Definition ex_s : st := mkst 1700000000000 (of_int 100000000000) true 7800000000000000000 (of_int 20000000000) 0 0.

Example ex_mint :
  end_blocker ex_s 1700000005000 1000000000000000000000000000
  = Some (mint_to_collector ex_s 12366818873682000000 1700000005000).
Proof. vm_compute. reflexivity. Qed.

Example ex_year_boundaries :
  year_of_ms 1703980800000 = 2023 /\ year_of_ms 1704067199999 = 2023 /\ year_of_ms 1704067200000 = 2024 /\
  year_of_ms 1735689599999 = 2024 /\ year_of_ms 1735689600000 = 2025 /\
  year_of_ms 4102444799999 = 2099 /\ year_of_ms 4102444800000 = 2100 /\
  year_of_ms 13569465600000 = 2400 /\ year_of_ms (-1) = 1969 /\ year_of_ms 0 = 1970 /\
  is_leap 2023 = false /\ is_leap 2024 = true /\ is_leap 2100 = false /\ is_leap 2400 = true.
Proof. vm_compute. repeat split. Qed.

(** a block that crosses the cap: mints the remainder and disables; the next
    block mints nothing and forgets the reference timestamp; switched on again at the cap, the third block only records
    its time (first block after activation) *)
Definition ex_cap : st := mkst 1700000000000 (of_int 20000000000 + 1000) true 7800000000000000000 (of_int 20000000000) 0 0.
Example ex_cap_run :
  run ex_cap [mkblk 1700000005000 1000000000000000000000000000 None;
              mkblk 1700000010000 1000000000000000000000000000 None;
              mkblk 1700000015000 1000000000000000000000000000 (Some (true, 7800000000000000000))]
  = Some (mkst 1700000015000 (of_int 20000000000 + 1000) true 7800000000000000000 (of_int 20000000000 + 1000) 1000 0).
Proof. vm_compute. reflexivity. Qed.

(** the statements above, collected for Props/C13.v *)
Theorem leap_rule_correct :
  (forall ms, days_before_year (year_of_ms ms) * ms_per_day <= ms
              < days_before_year (year_of_ms ms + 1) * ms_per_day) /\
  (forall d y, days_before_year y <= d < days_before_year (y + 1) -> year_of_days d = y) /\
  days_before_year 1970 = 0 /\
  (forall y, days_before_year (y + 1) = days_before_year y + (if is_leap y then 366 else 365)) /\
  (forall y, is_leap y = true <-> (y mod 4 = 0 /\ y mod 100 <> 0) \/ y mod 400 = 0) /\
  (forall y, year_ms y = (days_before_year (y + 1) - days_before_year y) * ms_per_day).
Proof.
  exact (conj year_of_ms_spec (conj year_of_days_unique (conj days_before_year_1970
        (conj days_before_year_succ (conj is_leap_spec year_ms_is_year_length))))).
Qed.

Theorem nonvacuous :
  end_blocker ex_s 1700000005000 1000000000000000000000000000
    = Some (mint_to_collector ex_s 12366818873682000000 1700000005000) /\
  (year_of_ms 1704067199999 = 2023 /\ year_of_ms 1704067200000 = 2024 /\
   year_of_ms 4102444800000 = 2100 /\ year_of_ms 13569465600000 = 2400 /\
   is_leap 2024 = true /\ is_leap 2100 = false /\ is_leap 2400 = true) /\
  run ex_cap [mkblk 1700000005000 1000000000000000000000000000 None;
              mkblk 1700000010000 1000000000000000000000000000 None;
              mkblk 1700000015000 1000000000000000000000000000 (Some (true, 7800000000000000000))]
    = Some (mkst 1700000015000 (of_int 20000000000 + 1000) true 7800000000000000000
                 (of_int 20000000000 + 1000) 1000 0).
Proof.
  refine (conj ex_mint (conj _ ex_cap_run)).
  destruct ex_year_boundaries as (_ & a & b & _ & _ & _ & c & d & _ & _ & _ & e & f & g).
  exact (conj a (conj b (conj c (conj d (conj e (conj f g)))))).
Qed.
