(** Proofs about the fee market model (property C17). *)
From Coq Require Import ZArith List Bool Lia.
From HV Require Import Base.Dec Base.DecProofs Feemarket.BaseFeeModel.
Import ListNotations.
Local Open Scope Z_scope.

(** * the three-branch function *)

Lemma nbf_at_target base T d m : next_base_fee base T T d m = base.
Proof. unfold next_base_fee. rewrite Z.eqb_refl. reflexivity. Qed.

Lemma nbf_above base g T d m : T < g ->
  next_base_fee base g T d m = base + Z.max 1 (base * (g - T) / T / d).
Proof.
  intros H. unfold next_base_fee.
  destruct (Z.eqb_spec g T); [lia|]. destruct (Z.ltb_spec T g); [|lia].
  rewrite Z.max_comm. reflexivity.
Qed.

Lemma nbf_below base g T d m : g < T ->
  next_base_fee base g T d m = Z.max (base - base * (T - g) / T / d) m.
Proof.
  intros H. unfold next_base_fee.
  destruct (Z.eqb_spec g T); [lia|]. destruct (Z.ltb_spec T g); [lia|]. reflexivity.
Qed.

(** delta is monotone in the distance from the target and non-negative *)
Lemma delta_mono base x y T d : 0 <= base -> 0 < T -> 0 < d -> x <= y ->
  base * x / T / d <= base * y / T / d.
Proof.
  intros Hb HT Hd Hxy. apply Z.div_le_mono; [assumption|]. apply Z.div_le_mono; [assumption|].
  apply Z.mul_le_mono_nonneg_l; assumption.
Qed.

Lemma delta_nonneg base x T d : 0 <= base -> 0 < T -> 0 < d -> 0 <= x -> 0 <= base * x / T / d.
Proof.
  intros. apply Z.div_pos; [|assumption]. apply Z.div_pos; [|assumption]. apply Z.mul_nonneg_nonneg; assumption.
Qed.

(** the decrease never exceeds the fee itself: delta <= base for 0 <= x <= T *)
Lemma delta_le_base base x T d : 0 <= base -> 0 < T -> 0 < d -> 0 <= x <= T -> base * x / T / d <= base.
Proof.
  intros Hb HT Hd Hx.
  assert (H1 : base * x / T <= base).
  { apply Z.div_le_upper_bound; [assumption|]. rewrite (Z.mul_comm T). apply Z.mul_le_mono_nonneg_l; lia. }
  assert (H0 : 0 <= base * x / T) by (apply Z.div_pos; [apply Z.mul_nonneg_nonneg; lia|assumption]).
  assert (H2 : base * x / T / d <= base * x / T).
  { apply Z.div_le_upper_bound; [assumption|]. nia. }
  lia.
Qed.

Theorem increase_at_least_one base g T d m : T < g -> base + 1 <= next_base_fee base g T d m.
Proof. intros H. rewrite nbf_above by assumption. lia. Qed.

Theorem decrease_floor base g T d m : g < T -> m <= next_base_fee base g T d m.
Proof. intros H. rewrite nbf_below by assumption. lia. Qed.

(** in the decrease branch the fee does not rise (given min <= base) and stays non-negative *)
Theorem decrease_le_base base g T d m : 0 <= base -> m <= base -> 0 < T -> 0 < d -> 0 <= g < T ->
  next_base_fee base g T d m <= base /\ 0 <= next_base_fee base g T d m.
Proof.
  intros Hb Hm HT Hd Hg. rewrite nbf_below by lia.
  pose proof (delta_nonneg base (T - g) T d Hb HT Hd ltac:(lia)).
  pose proof (delta_le_base base (T - g) T d Hb HT Hd ltac:(lia)). lia.
Qed.

(** monotone in the gas figure when the parent fee is not below the minimum *)
Theorem mono_in_g base T d m g1 g2 :
  0 <= base -> m <= base -> 0 < T -> 0 < d -> g1 <= g2 ->
  next_base_fee base g1 T d m <= next_base_fee base g2 T d m.
Proof.
  intros Hb Hm HT Hd Hg.
  destruct (Z.lt_trichotomy g1 T) as [L1|[E1|G1]]; destruct (Z.lt_trichotomy g2 T) as [L2|[E2|G2]];
    try lia; subst;
    rewrite ?nbf_at_target, ?(nbf_above base g1), ?(nbf_above base g2),
            ?(nbf_below base g1), ?(nbf_below base g2) by assumption.
  - pose proof (delta_mono base (T - g2) (T - g1) T d Hb HT Hd ltac:(lia)). lia.
  - pose proof (delta_nonneg base (T - g1) T d Hb HT Hd ltac:(lia)). lia.
  - pose proof (delta_nonneg base (T - g1) T d Hb HT Hd ltac:(lia)). lia.
  - lia.
  - lia.
  - pose proof (delta_mono base (g1 - T) (g2 - T) T d Hb HT Hd ltac:(lia)). lia.
Qed.

(** strictly larger above the target than at or below it *)
Theorem above_gt_below base T d m g1 g2 :
  0 <= base -> m <= base -> 0 < T -> 0 < d -> g1 <= T -> T < g2 ->
  next_base_fee base g1 T d m < next_base_fee base g2 T d m.
Proof.
  intros Hb Hm HT Hd H1 H2.
  pose proof (increase_at_least_one base g2 T d m H2).
  pose proof (mono_in_g base T d m g1 T Hb Hm HT Hd H1). rewrite nbf_at_target in *. lia.
Qed.

(** * CalculateBaseFee *)

Definition target (p : params) (mg : option Z) : Z := gas_limit mg / p_elasticity p.
Definition min_int (p : params) : Z := truncate (p_min_gas_price p).

(** a value is produced, past the enable height, only in the guarded domain, and
    then it is the three-branch function *)
Theorem calc_value p h mg g v :
  calc_base_fee p h mg g = RVal v -> h <> p_enable_height p ->
  exists base, p_base_fee p = Some base /\ p_no_base_fee p = false /\ p_enable_height p < h /\
    p_elasticity p <> 0 /\ is_uint64 (target p mg) = true /\
    (g <> target p mg -> target p mg <> 0 /\ p_denom p <> 0) /\
    v = next_base_fee base g (target p mg) (p_denom p) (min_int p).
Proof.
  unfold calc_base_fee, target, min_int. intros H Hh.
  destruct (p_no_base_fee p) eqn:Enb; [discriminate|]. cbn [orb] in H.
  destruct (Z.ltb_spec h (p_enable_height p)); [discriminate|].
  destruct (Z.eqb_spec h (p_enable_height p)); [contradiction|].
  destruct (p_base_fee p) as [base|]; [|discriminate]. exists base.
  destruct (Z.eqb_spec (p_elasticity p) 0); [discriminate|].
  destruct (is_uint64 (gas_limit mg / p_elasticity p)) eqn:Eu; [|discriminate]. cbn [negb] in H.
  destruct (Z.eqb_spec g (gas_limit mg / p_elasticity p)) as [->|Hg].
  - inversion H; subst. rewrite nbf_at_target. repeat split; try assumption; try lia.
  - destruct (Z.eqb_spec (gas_limit mg / p_elasticity p) 0); [discriminate|].
    destruct (Z.eqb_spec (p_denom p) 0); [discriminate|]. cbn [orb] in H.
    inversion H; subst. repeat split; try assumption; lia.
Qed.

(** conversely, in the guarded domain the call returns the function's value *)
Theorem calc_in_domain p h mg g base :
  p_no_base_fee p = false -> p_enable_height p < h -> p_base_fee p = Some base ->
  0 < p_elasticity p -> 0 < target p mg -> 0 < p_denom p -> is_uint64 (target p mg) = true ->
  calc_base_fee p h mg g = RVal (next_base_fee base g (target p mg) (p_denom p) (min_int p)).
Proof.
  unfold calc_base_fee, target, min_int. intros -> Hh -> He HT Hd ->. cbn [orb negb].
  destruct (Z.ltb_spec h (p_enable_height p)); [lia|].
  destruct (Z.eqb_spec h (p_enable_height p)); [lia|].
  destruct (Z.eqb_spec (p_elasticity p) 0); [lia|].
  destruct (Z.eqb_spec g (gas_limit mg / p_elasticity p)) as [->|Hg].
  - rewrite nbf_at_target. reflexivity.
  - destruct (Z.eqb_spec (gas_limit mg / p_elasticity p) 0); [lia|].
    destruct (Z.eqb_spec (p_denom p) 0); [lia|]. reflexivity.
Qed.

(** unlimited block gas (MaxGas = -1, or no consensus params) is MaxUint64;
    the target then always fits a uint64, so the IsUint64 guard never fires *)
Lemma gas_limit_unlimited : gas_limit (Some (-1)) = max_uint64 /\ gas_limit None = max_uint64.
Proof. split; reflexivity. Qed.

Lemma gas_limit_configured m : 0 <= m -> gas_limit (Some m) = m.
Proof. intros. unfold gas_limit. destruct (Z.ltb_spec (-1) m); [reflexivity|lia]. Qed.

Lemma gas_limit_range mg : (forall m, mg = Some m -> m <= max_uint64) -> 0 <= gas_limit mg <= max_uint64.
Proof.
  intros H. unfold gas_limit. destruct mg as [m|]; [|unfold max_uint64; lia].
  destruct (Z.ltb_spec (-1) m); [specialize (H m eq_refl); lia|unfold max_uint64; lia].
Qed.

Lemma target_is_uint64 p mg : 0 < p_elasticity p -> (forall m, mg = Some m -> m <= max_uint64) ->
  is_uint64 (target p mg) = true.
Proof.
  intros He Hm. pose proof (gas_limit_range mg Hm) as [H0 H1]. unfold is_uint64, target.
  assert (0 <= gas_limit mg / p_elasticity p) by (apply Z.div_pos; assumption).
  assert (gas_limit mg / p_elasticity p <= gas_limit mg).
  { apply Z.div_le_upper_bound; [assumption|]. nia. }
  apply andb_true_intro. split; apply Z.leb_le; lia.
Qed.

(** the statement of the property, on the call itself *)
Theorem base_fee_formula p h mg g v :
  calc_base_fee p h mg g = RVal v -> h <> p_enable_height p ->
  exists base, p_base_fee p = Some base /\
    let T := target p mg in let d := p_denom p in
    (g = T -> v = base) /\
    (T < g -> T <> 0 /\ d <> 0 /\ v = base + Z.max 1 (base * (g - T) / T / d) /\ base + 1 <= v) /\
    (g < T -> T <> 0 /\ d <> 0 /\ v = Z.max (base - base * (T - g) / T / d) (min_int p) /\ min_int p <= v).
Proof.
  intros H Hh. destruct (calc_value p h mg g v H Hh) as (base & Hb & _ & _ & _ & _ & Hnz & ->).
  exists base. split; [assumption|]. cbn zeta. repeat split.
  - intros ->. apply nbf_at_target.
  - apply Hnz; lia.
  - apply Hnz; lia.
  - apply nbf_above; assumption.
  - apply increase_at_least_one; assumption.
  - apply Hnz; lia.
  - apply Hnz; lia.
  - apply nbf_below; assumption.
  - apply decrease_floor; assumption.
Qed.

(** the floor against the configured (decimal) minimum gas price: never below its
    integer part; hence never below the price itself when that is a whole number,
    and in general less than one unit below it *)
Theorem decrease_floor_dec p h mg g v :
  calc_base_fee p h mg g = RVal v -> h <> p_enable_height p -> g < target p mg ->
  0 <= p_min_gas_price p ->
  truncate (p_min_gas_price p) <= v /\
  p_min_gas_price p < of_int (v + 1) /\
  (is_integer (p_min_gas_price p) = true -> p_min_gas_price p <= of_int v).
Proof.
  intros H Hh Hg H0. destruct (base_fee_formula p h mg g v H Hh) as (base & _ & _ & _ & Hlt).
  destruct (Hlt Hg) as (_ & _ & _ & Hv). unfold min_int in Hv.
  pose proof (truncate_floor (p_min_gas_price p) H0) as [Hf1 Hf2]. unfold of_int.
  split; [assumption|]. split.
  - pose proof prec_pos. nia.
  - intros Hi. apply is_integer_spec in Hi as [n Hn]. rewrite Hn in *. rewrite truncate_of_int in *.
    unfold of_int. pose proof prec_pos. nia.
Qed.

Theorem calc_mono p h mg g1 g2 v1 v2 base :
  calc_base_fee p h mg g1 = RVal v1 -> calc_base_fee p h mg g2 = RVal v2 -> h <> p_enable_height p ->
  p_base_fee p = Some base -> 0 <= base -> min_int p <= base -> 0 < p_elasticity p -> 0 < target p mg ->
  0 < p_denom p -> g1 <= g2 -> v1 <= v2.
Proof.
  intros H1 H2 Hh Hb H0 Hm He HT Hd Hg.
  destruct (calc_value _ _ _ _ _ H1 Hh) as (b1 & Hb1 & _ & _ & _ & _ & _ & ->).
  destruct (calc_value _ _ _ _ _ H2 Hh) as (b2 & Hb2 & _ & _ & _ & _ & _ & ->).
  rewrite Hb in Hb1, Hb2. inversion Hb1; inversion Hb2; subst.
  apply mono_in_g; assumption.
Qed.

(** K2: with the parent fee below the minimum gas price the function is not
    monotone: base 100, minimum 200, target 10: g = 9 gives 200, g = 10 gives 100 *)
Definition k2_params : params :=
  mkparams false 8 2 (Some 100) 0 (of_int 200) (of_int 1 / 2).

Theorem mono_refuted_when_base_lt_min :
  calc_base_fee k2_params 5 (Some 20) 9 = RVal 200 /\
  calc_base_fee k2_params 5 (Some 20) 10 = RVal 100 /\
  calc_base_fee k2_params 5 (Some 20) 11 = RVal 101.
Proof. vm_compute. repeat split. Qed.

(** The minimum gas price acts through its integer part only: with a fractional
    minimum the literal reading "never below the minimum gas price" fails by
    less than one unit.  Base fee 1, minimum 0.5, target 10, denominator 1,
    empty block: the new base fee is 0. *)
Definition frac_params : params := mkparams false 1 1 (Some 1) 0 half half.

Theorem floor_fractional_min_refuted :
  calc_base_fee frac_params 5 (Some 10) 0 = RVal 0 /\ of_int 0 < p_min_gas_price frac_params.
Proof. vm_compute. split; reflexivity. Qed.

(** * the gas figure *)

Lemma is_uint64_spec x : is_uint64 x = true <-> 0 <= x <= max_uint64.
Proof. unfold is_uint64. rewrite andb_true_iff, !Z.leb_le. reflexivity. Qed.

(** the product wanted * multiplier is exact (the gas is a whole number), so the
    stored figure is exactly floor(max(wanted * mult, used)) *)
Theorem gas_figure_exact w u m v : 0 <= u ->
  end_block_gas w u m = GSet v -> v = Z.max (w * m) (u * prec) / prec.
Proof.
  unfold end_block_gas. intros Hu H.
  destruct ((max_int64 <? w) || (max_int64 <? u)); [discriminate|].
  rewrite dmul_of_int_l in H. destruct (fits (w * m)); [|discriminate]. cbn [negb] in H.
  destruct (is_uint64 _); [|discriminate]. inversion H; subst.
  rewrite dmax_spec. unfold of_int. apply truncate_nonneg. pose proof prec_pos. nia.
Qed.

Theorem gas_figure_ge_used w u m v : 0 <= u -> end_block_gas w u m = GSet v -> u <= v.
Proof.
  intros Hu H. rewrite (gas_figure_exact w u m v Hu H).
  apply Z.div_le_lower_bound; [apply prec_pos|]. lia.
Qed.

(** ... and at least the declared gas times the multiplier, rounded down *)
Theorem gas_figure_ge_mult_wanted w u m v : 0 <= u -> end_block_gas w u m = GSet v ->
  w * m / prec <= v /\ w * m < (v + 1) * prec.
Proof.
  intros Hu H. rewrite (gas_figure_exact w u m v Hu H). pose proof prec_pos. split.
  - apply Z.div_le_mono; lia.
  - pose proof (Z.mul_succ_div_gt (Z.max (w * m) (u * prec)) prec ltac:(lia)). lia.
Qed.

(** ... and is the least such integer: it equals max(floor(wanted*mult), used) *)
Theorem gas_figure_is_max w u m v : 0 <= u -> end_block_gas w u m = GSet v ->
  v = Z.max (w * m / prec) u.
Proof.
  intros Hu H. rewrite (gas_figure_exact w u m v Hu H). pose proof prec_pos.
  destruct (Z.max_spec (w * m) (u * prec)) as [[Hl ->]|[Hl ->]].
  - rewrite Z.div_mul by lia. assert (w * m / prec <= u) by (apply Z.div_le_upper_bound; lia). lia.
  - assert (u <= w * m / prec) by (apply Z.div_le_lower_bound; lia). lia.
Qed.

(** declaring more gas never lowers the figure (multiplier >= 0) *)
Theorem gas_figure_mono_wanted w1 w2 u m v1 v2 : 0 <= u -> 0 <= m -> w1 <= w2 ->
  end_block_gas w1 u m = GSet v1 -> end_block_gas w2 u m = GSet v2 -> v1 <= v2.
Proof.
  intros Hu Hm Hw H1 H2. rewrite (gas_figure_is_max _ _ _ _ Hu H1), (gas_figure_is_max _ _ _ _ Hu H2).
  assert (w1 * m / prec <= w2 * m / prec) by (apply Z.div_le_mono; [apply prec_pos|nia]). lia.
Qed.

(** the stored figure is defined for every block the chain can produce:
    gas below 2^63 and a multiplier in [0, 1] *)
Theorem gas_figure_defined w u m : 0 <= w <= max_int64 -> 0 <= u <= max_int64 -> 0 <= m <= prec ->
  exists v, end_block_gas w u m = GSet v.
Proof.
  intros Hw Hu Hm. unfold end_block_gas.
  destruct (Z.ltb_spec max_int64 w); [lia|]. destruct (Z.ltb_spec max_int64 u); [lia|]. cbn [orb].
  rewrite dmul_of_int_l.
  assert (Hb : 0 <= w * m <= max_int64 * prec) by (unfold max_int64, prec in *; nia).
  assert (Hf : fits (w * m) = true).
  { apply fits_spec. rewrite Z.abs_eq by lia. unfold max_int64, prec in *. lia. }
  rewrite Hf. cbn [negb]. rewrite dmax_spec. unfold of_int.
  assert (Hv : is_uint64 (truncate (Z.max (w * m) (u * prec))) = true).
  { apply is_uint64_spec. rewrite truncate_nonneg by (unfold prec; lia).
    split; [apply Z.div_pos; unfold prec; lia|].
    apply Z.div_le_upper_bound; unfold max_uint64, max_int64, prec in *; lia. }
  rewrite Hv. eexists; reflexivity.
Qed.

(** * block sequences *)

Definition base_ge_min (s : fstate) : Prop :=
  exists base, p_base_fee (fs_params s) = Some base /\ min_int (fs_params s) <= base.

(** everything except the base fee is constant over blocks *)
Definition same_config (p q : params) : Prop :=
  p_no_base_fee p = p_no_base_fee q /\ p_denom p = p_denom q /\ p_elasticity p = p_elasticity q /\
  p_enable_height p = p_enable_height q /\ p_min_gas_price p = p_min_gas_price q /\
  p_min_gas_mult p = p_min_gas_mult q.

Lemma same_config_refl p : same_config p p.
Proof. repeat split. Qed.
Lemma same_config_set_base p v : same_config p (set_base p v).
Proof. repeat split. Qed.
Lemma same_config_trans p q r : same_config p q -> same_config q r -> same_config p r.
Proof. unfold same_config. intuition congruence. Qed.

Lemma calc_ge_min p h mg g v base : p_base_fee p = Some base -> min_int p <= base ->
  calc_base_fee p h mg g = RVal v -> min_int p <= v.
Proof.
  intros Hb Hm H. destruct (Z.eq_dec h (p_enable_height p)) as [E|NE].
  - unfold calc_base_fee in H. rewrite Hb in H.
    destruct (p_no_base_fee p || (h <? p_enable_height p)); [discriminate|].
    destruct (Z.eqb_spec h (p_enable_height p)); [|contradiction]. inversion H; subst. assumption.
  - destruct (base_fee_formula p h mg g v H NE) as (b & Hb' & He & Hgt & Hlt).
    rewrite Hb in Hb'. inversion Hb'; subst b.
    destruct (Z.lt_trichotomy g (target p mg)) as [L|[E|G]].
    + apply Hlt; assumption.
    + rewrite (He E). assumption.
    + destruct (Hgt G) as (_ & _ & _ & Hv). clear - Hv Hm. lia.
Qed.

Lemma block_preserves s b s' : block s b = Some s' -> base_ge_min s ->
  base_ge_min s' /\ same_config (fs_params s) (fs_params s').
Proof.
  unfold block, begin_block, end_block. intros H (base & Hb & Hm).
  destruct (calc_base_fee (fs_params s) (b_height b) (b_max_gas b) (fs_bgw s)) as [|v|] eqn:Ec; [| |discriminate].
  - destruct (end_block_gas _ _ _) as [|g|]; inversion H; subst; cbn;
      (split; [exists base; split; assumption|apply same_config_refl]).
  - pose proof (calc_ge_min _ _ _ _ _ _ Hb Hm Ec) as Hv. cbn [fs_params] in H.
    destruct (end_block_gas _ _ _) as [|g|]; inversion H; subst; cbn [fs_params];
      (split; [exists v; split; [reflexivity|exact Hv]|apply same_config_set_base]).
Qed.

(** once the base fee is at or above the minimum gas price it stays there, over
    every sequence of blocks (any heights, gas limits, gas figures) *)
Theorem base_ge_min_invariant bs : forall s s', run s bs = Some s' -> base_ge_min s ->
  base_ge_min s' /\ same_config (fs_params s) (fs_params s').
Proof.
  induction bs as [|b r IH]; intros s s' H Hi; cbn [run] in H.
  - inversion H; subst. split; [assumption|apply same_config_refl].
  - destruct (block s b) as [s1|] eqn:Eb; [|discriminate].
    destruct (block_preserves _ _ _ Eb Hi) as [Hi1 Hc1].
    destruct (IH _ _ H Hi1) as [Hi' Hc']. split; [assumption|eapply same_config_trans; eassumption].
Qed.

(** ... and it is established by the first block below target even when
    governance raised the minimum above the current fee *)
Theorem below_target_establishes_min p h mg g v :
  calc_base_fee p h mg g = RVal v -> h <> p_enable_height p -> g < target p mg -> min_int p <= v.
Proof.
  intros H Hh Hg. destruct (base_fee_formula p h mg g v H Hh) as (base & _ & _ & _ & Hlt).
  apply Hlt; assumption.
Qed.

(** * non-vacuity: a mainnet-like configuration runs through all three branches *)
Definition ex_params : params :=
  mkparams false 8 2 (Some 1000000000) 0 (of_int 7) (of_int 1 / 2).

Example ex_three_branches :
  calc_base_fee ex_params 10 (Some 40000000) 20000000 = RVal 1000000000 /\
  calc_base_fee ex_params 10 (Some 40000000) 40000000 = RVal 1125000000 /\
  calc_base_fee ex_params 10 (Some 40000000) 20000001 = RVal 1000000006 /\
  calc_base_fee ex_params 10 (Some 40000000) 20000000 = RVal 1000000000 /\
  calc_base_fee ex_params 10 (Some 40000000) 0 = RVal 875000000 /\
  calc_base_fee (set_base ex_params 7) 10 (Some 40000000) 0 = RVal 7 /\
  calc_base_fee ex_params 10 (Some (-1)) 12345 = RVal 875000001 /\
  end_block_gas 1000 300 (of_int 1 / 2) = GSet 500 /\
  end_block_gas 1000 700 (of_int 1 / 2) = GSet 700.
Proof. vm_compute. repeat split. Qed.

Example ex_run :
  exists s', run (mkfs ex_params 0)
      [mkblk 1 (Some 40000000) 30000000 21000; mkblk 2 (Some 40000000) 50000000 30000000;
       mkblk 3 (Some 40000000) 0 0] = Some s' /\
    base_ge_min (mkfs ex_params 0) /\ p_base_fee (fs_params s') = Some 900634765.
Proof.
  eexists. split; [vm_compute; reflexivity|]. split; [|reflexivity].
  exists 1000000000. split; [reflexivity|]. vm_compute. discriminate.
Qed.

(** collected for Props/C17.v *)
Theorem gas_limit_facts :
  gas_limit (Some (-1)) = max_uint64 /\ gas_limit None = max_uint64 /\
  (forall m, 0 <= m -> gas_limit (Some m) = m) /\
  (forall p mg, 0 < p_elasticity p -> (forall m, mg = Some m -> m <= max_uint64) ->
     is_uint64 (target p mg) = true).
Proof.
  exact (conj (proj1 gas_limit_unlimited) (conj (proj2 gas_limit_unlimited)
        (conj gas_limit_configured target_is_uint64))).
Qed.

(** * the gas figure of a block of delivered transactions *)

(** what a transaction contributes to the declared gas of its block *)
Definition counted (t : dtx) : Z := if t_ante t then t_declared t else 0.

Fixpoint declared_sum (txs : list dtx) : Z :=
  match txs with [] => 0 | t :: r => counted t + declared_sum r end.

Fixpoint used_total (txs : list dtx) : Z :=
  match txs with [] => 0 | t :: r => t_used t + used_total r end.

Definition tx_wf (t : dtx) : Prop := 0 <= t_declared t /\ 0 <= t_used t.

Lemma counted_nonneg t : tx_wf t -> 0 <= counted t.
Proof. unfold counted, tx_wf. destruct (t_ante t); lia. Qed.

Lemma declared_sum_nonneg txs : Forall tx_wf txs -> 0 <= declared_sum txs.
Proof.
  induction 1 as [|t r Ht _ IH]; cbn [declared_sum]; [lia|].
  pose proof (counted_nonneg t Ht). lia.
Qed.

Lemma used_total_nonneg txs : Forall tx_wf txs -> 0 <= used_total txs.
Proof.
  induction 1 as [|t r Ht _ IH]; cbn [used_total]; [lia|]. destruct Ht. lia.
Qed.

(** the running total of the ante decorator is the plain sum as long as that
    fits a uint64 *)
Lemma fold_wanted_acc txs : forall acc, Forall tx_wf txs -> 0 <= acc -> acc + declared_sum txs < two64 ->
  fold_left add_wanted txs acc = acc + declared_sum txs.
Proof.
  induction txs as [|t r IH]; intros acc Hwf Ha Hs; cbn [fold_left declared_sum] in *.
  - lia.
  - inversion Hwf as [|? ? Ht Hr]; subst.
    pose proof (counted_nonneg t Ht) as Hc. pose proof (declared_sum_nonneg r Hr) as Hd.
    assert (Hstep : add_wanted acc t = acc + counted t).
    { unfold add_wanted, counted in *. destruct (t_ante t); [|lia]. apply Z.mod_small. lia. }
    rewrite Hstep. rewrite IH; [lia|assumption|lia|lia].
Qed.

Theorem fold_wanted_sum txs : Forall tx_wf txs -> declared_sum txs <= max_uint64 ->
  fold_wanted txs = declared_sum txs.
Proof.
  intros Hwf Hs. unfold fold_wanted. rewrite fold_wanted_acc; [lia|assumption|lia|].
  unfold two64, max_uint64 in *. lia.
Qed.

(** transactions whose ante handler failed leave no trace in the running total *)
Lemma fold_wanted_filter_acc txs : forall acc,
  fold_left add_wanted (filter t_ante txs) acc = fold_left add_wanted txs acc.
Proof.
  induction txs as [|t r IH]; intros acc; cbn [filter fold_left]; [reflexivity|].
  destruct (t_ante t) eqn:E.
  - cbn [fold_left]. apply IH.
  - rewrite IH. f_equal. unfold add_wanted. rewrite E. reflexivity.
Qed.

Theorem failed_ante_not_counted en txs : block_wanted en (filter t_ante txs) = block_wanted en txs.
Proof. unfold block_wanted, fold_wanted. destruct en; [apply fold_wanted_filter_acc|reflexivity]. Qed.

Lemma sum_used_acc txs : forall acc, fold_left (fun a t => a + t_used t) txs acc = acc + used_total txs.
Proof.
  induction txs as [|t r IH]; intros acc; cbn [fold_left used_total]; [lia|]. rewrite IH. lia.
Qed.

Lemma sum_used_total txs : sum_used txs = used_total txs.
Proof. unfold sum_used. rewrite sum_used_acc. lia. Qed.

Lemma block_used_nonneg mg txs : Forall tx_wf txs -> 0 <= block_used (meter_limit mg) txs.
Proof.
  intros Hwf. pose proof (used_total_nonneg txs Hwf). unfold block_used, meter_limit.
  rewrite sum_used_total. destruct mg as [m|]; [|assumption].
  destruct (Z.ltb_spec 0 m); [lia|assumption].
Qed.

(** the figure EndBlock stores for a block: max(floor(sum of the declared gas x
    multiplier), gas used), for every list of transactions *)
Theorem block_figure_is_max mg m txs v :
  Forall tx_wf txs -> declared_sum txs <= max_uint64 ->
  block_figure true mg m txs = GSet v ->
  v = Z.max (declared_sum txs * m / prec) (block_used (meter_limit mg) txs).
Proof.
  intros Hwf Hs H. unfold block_figure, block_wanted in H. rewrite (fold_wanted_sum txs Hwf Hs) in H.
  exact (gas_figure_is_max _ _ _ _ (block_used_nonneg mg txs Hwf) H).
Qed.

(** with the base fee disabled nothing is accumulated: the figure is the gas used *)
Theorem block_figure_disabled mg m txs v :
  Forall tx_wf txs -> block_figure false mg m txs = GSet v -> v = block_used (meter_limit mg) txs.
Proof.
  intros Hwf H. unfold block_figure, block_wanted in H.
  pose proof (block_used_nonneg mg txs Hwf) as Hu.
  rewrite (gas_figure_is_max _ _ _ _ Hu H). cbn [Z.mul]. rewrite Z.div_0_l by (pose proof prec_pos; lia). lia.
Qed.

(** monotone in the declared gas of every transaction *)
Definition tx_le (a b : dtx) : Prop :=
  t_ante a = t_ante b /\ t_used a = t_used b /\ t_declared a <= t_declared b.

Lemma tx_le_sums l1 l2 : Forall2 tx_le l1 l2 ->
  declared_sum l1 <= declared_sum l2 /\ used_total l1 = used_total l2.
Proof.
  induction 1 as [|a b r1 r2 (Ha & Hu & Hd) _ IH]; cbn [declared_sum used_total]; [lia|].
  unfold counted. rewrite Ha. destruct (t_ante b); lia.
Qed.

Theorem block_figure_mono_declared mg m l1 l2 v1 v2 :
  Forall2 tx_le l1 l2 -> Forall tx_wf l1 -> Forall tx_wf l2 -> declared_sum l2 <= max_uint64 -> 0 <= m ->
  block_figure true mg m l1 = GSet v1 -> block_figure true mg m l2 = GSet v2 -> v1 <= v2.
Proof.
  intros Hle W1 W2 Hs Hm H1 H2. destruct (tx_le_sums _ _ Hle) as [Hd Hu].
  rewrite (block_figure_is_max _ _ _ _ W1 ltac:(lia) H1), (block_figure_is_max _ _ _ _ W2 Hs H2).
  assert (Hb : block_used (meter_limit mg) l1 = block_used (meter_limit mg) l2).
  { unfold block_used. rewrite !sum_used_total, Hu. reflexivity. }
  rewrite Hb. pose proof (declared_sum_nonneg l1 W1).
  assert (declared_sum l1 * m / prec <= declared_sum l2 * m / prec) by (apply Z.div_le_mono; [apply prec_pos|nia]).
  lia.
Qed.

(** a block whose declared gas, scaled by the multiplier, exceeds the target
    raises the base fee of the next block, whatever gas it used *)
Theorem over_declared_raises p h h' mg txs g v :
  Forall tx_wf txs -> declared_sum txs <= max_uint64 -> fm_enabled p h = true ->
  block_figure (fm_enabled p h) mg (p_min_gas_mult p) txs = GSet g ->
  target p mg < declared_sum txs * p_min_gas_mult p / prec ->
  calc_base_fee p h' mg g = RVal v -> h' <> p_enable_height p ->
  exists base, p_base_fee p = Some base /\ target p mg < g /\
    v = base + Z.max 1 (base * (g - target p mg) / target p mg / p_denom p) /\ base + 1 <= v.
Proof.
  intros Hwf Hs Hen Hfig HT Hc Hh. rewrite Hen in Hfig.
  pose proof (block_figure_is_max _ _ _ _ Hwf Hs Hfig) as Hg.
  assert (HTg : target p mg < g) by lia.
  destruct (base_fee_formula p h' mg g v Hc Hh) as (base & Hb & _ & Hgt & _).
  destruct (Hgt HTg) as (_ & _ & Hv & Hge). exists base. repeat split; assumption.
Qed.

(** the shape of a capped running total: block gas limit 20 000 000, elasticity 2
    (target 10 000 000), multiplier 1/2, five transactions declaring 8 000 000
    each and using 106 918.  The code's accumulation gives the figure 20 000 000
    and the base fee rises by 1/8; capping the running total at the block gas
    limit gives 10 000 000 = T and an unchanged base fee, although the block's
    declared gas satisfies the hypothesis of [over_declared_raises]. *)
Definition seed_txs : list dtx := repeat (mkdtx 8000000 106918 true) 5.

Example capped_accumulation_refuted :
  block_figure true (Some 20000000) (p_min_gas_mult ex_params) seed_txs = GSet 20000000 /\
  calc_base_fee ex_params 10 (Some 20000000) 20000000 = RVal 1125000000 /\
  block_figure_capped (Some 20000000) (p_min_gas_mult ex_params) seed_txs = GSet 10000000 /\
  target ex_params (Some 20000000) = 10000000 /\
  calc_base_fee ex_params 10 (Some 20000000) 10000000 = RVal 1000000000 /\
  declared_sum seed_txs = 40000000 /\
  target ex_params (Some 20000000) < declared_sum seed_txs * p_min_gas_mult ex_params / prec.
Proof. vm_compute. repeat split. Qed.

(** non-vacuity of the hypotheses of the three theorems above on that block *)
Example ex_seed_block :
  Forall tx_wf seed_txs /\ declared_sum seed_txs <= max_uint64 /\ fm_enabled ex_params 9 = true /\
  block_figure (fm_enabled ex_params 9) (Some 20000000) (p_min_gas_mult ex_params) seed_txs = GSet 20000000 /\
  Forall2 tx_le (repeat (mkdtx 4000000 106918 true) 5) seed_txs /\
  block_figure true (Some 20000000) (p_min_gas_mult ex_params) (repeat (mkdtx 4000000 106918 true) 5) = GSet 10000000.
Proof.
  split; [repeat (apply Forall_cons; [split; cbn; lia|]); apply Forall_nil|].
  split; [vm_compute; discriminate|]. split; [reflexivity|]. split; [vm_compute; reflexivity|].
  split; [|vm_compute; reflexivity].
  repeat (apply Forall2_cons; [repeat split; cbn; lia|]). apply Forall2_nil.
Qed.

(** the hypothesis "the declared gas of the block fits a uint64" cannot be
    dropped: AddTransientGasWanted adds with Go's uint64 +; three transactions
    declaring 2^63-1 each (the most a transaction may declare; possible only
    with unlimited block gas) leave a running total of 2^63-3 *)
Example declared_sum_wrap_refuted :
  let txs := repeat (mkdtx 9223372036854775807 100000 true) 3 in
  Forall tx_wf txs /\ max_uint64 < declared_sum txs /\ fold_wanted txs = 9223372036854775805 /\
  block_figure true (Some (-1)) (of_int 1 / 2) txs = GSet 4611686018427387902.
Proof.
  cbn zeta. split; [repeat (apply Forall_cons; [split; cbn; lia|]); apply Forall_nil|].
  vm_compute. repeat split.
Qed.
