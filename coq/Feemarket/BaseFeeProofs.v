(** Proofs about the fee market model (property C17). *)
From Coq Require Import ZArith List Bool Lia.
From HV Require Import Base.Dec Base.DecProofs Feemarket.BaseFeeModel.
Import ListNotations.
Local Open Scope Z_scope.

(** * the three-branch function *)

Lemma nbf_at_target base T d m : next_base_fee base T T d m = base.
Proof. unfold next_base_fee. rewrite Z.eqb_refl. reflexivity. Qed.

Lemma nbf_above base g T d m : T < g ->
  next_base_fee base g T d m = base + Z.max 1 (base * (g - T) / T / d).
Proof.
  intros H. unfold next_base_fee.
  destruct (Z.eqb_spec g T); [lia|]. destruct (Z.ltb_spec T g); [|lia].
  rewrite Z.max_comm. reflexivity.
Qed.

Lemma nbf_below base g T d m : g < T ->
  next_base_fee base g T d m = Z.max (base - base * (T - g) / T / d) m.
Proof.
  intros H. unfold next_base_fee.
  destruct (Z.eqb_spec g T); [lia|]. destruct (Z.ltb_spec T g); [lia|]. reflexivity.
Qed.

(** delta is monotone in the distance from the target and non-negative *)
Lemma delta_mono base x y T d : 0 <= base -> 0 < T -> 0 < d -> x <= y ->
  base * x / T / d <= base * y / T / d.
Proof.
  intros Hb HT Hd Hxy. apply Z.div_le_mono; [assumption|]. apply Z.div_le_mono; [assumption|].
  apply Z.mul_le_mono_nonneg_l; assumption.
Qed.

Lemma delta_nonneg base x T d : 0 <= base -> 0 < T -> 0 < d -> 0 <= x -> 0 <= base * x / T / d.
Proof.
  intros. apply Z.div_pos; [|assumption]. apply Z.div_pos; [|assumption]. apply Z.mul_nonneg_nonneg; assumption.
Qed.

(** the decrease never exceeds the fee itself: delta <= base for 0 <= x <= T *)
Lemma delta_le_base base x T d : 0 <= base -> 0 < T -> 0 < d -> 0 <= x <= T -> base * x / T / d <= base.
Proof.
  intros Hb HT Hd Hx.
  assert (H1 : base * x / T <= base).
  { apply Z.div_le_upper_bound; [assumption|]. rewrite (Z.mul_comm T). apply Z.mul_le_mono_nonneg_l; lia. }
  assert (H0 : 0 <= base * x / T) by (apply Z.div_pos; [apply Z.mul_nonneg_nonneg; lia|assumption]).
  assert (H2 : base * x / T / d <= base * x / T).
  { apply Z.div_le_upper_bound; [assumption|]. nia. }
  lia.
Qed.

Theorem increase_at_least_one base g T d m : T < g -> base + 1 <= next_base_fee base g T d m.
Proof. intros H. rewrite nbf_above by assumption. lia. Qed.

Theorem decrease_floor base g T d m : g < T -> m <= next_base_fee base g T d m.
Proof. intros H. rewrite nbf_below by assumption. lia. Qed.

(** in the decrease branch the fee does not rise (given min <= base) and stays non-negative *)
Theorem decrease_le_base base g T d m : 0 <= base -> m <= base -> 0 < T -> 0 < d -> 0 <= g < T ->
  next_base_fee base g T d m <= base /\ 0 <= next_base_fee base g T d m.
Proof.
  intros Hb Hm HT Hd Hg. rewrite nbf_below by lia.
  pose proof (delta_nonneg base (T - g) T d Hb HT Hd ltac:(lia)).
  pose proof (delta_le_base base (T - g) T d Hb HT Hd ltac:(lia)). lia.
Qed.

(** monotone in the gas figure when the parent fee is not below the minimum *)
Theorem mono_in_g base T d m g1 g2 :
  0 <= base -> m <= base -> 0 < T -> 0 < d -> g1 <= g2 ->
  next_base_fee base g1 T d m <= next_base_fee base g2 T d m.
Proof.
  intros Hb Hm HT Hd Hg.
  destruct (Z.lt_trichotomy g1 T) as [L1|[E1|G1]]; destruct (Z.lt_trichotomy g2 T) as [L2|[E2|G2]];
    try lia; subst;
    rewrite ?nbf_at_target, ?(nbf_above base g1), ?(nbf_above base g2),
            ?(nbf_below base g1), ?(nbf_below base g2) by assumption.
  - pose proof (delta_mono base (T - g2) (T - g1) T d Hb HT Hd ltac:(lia)). lia.
  - pose proof (delta_nonneg base (T - g1) T d Hb HT Hd ltac:(lia)). lia.
  - pose proof (delta_nonneg base (T - g1) T d Hb HT Hd ltac:(lia)). lia.
  - lia.
  - lia.
  - pose proof (delta_mono base (g1 - T) (g2 - T) T d Hb HT Hd ltac:(lia)). lia.
Qed.

(** strictly larger above the target than at or below it *)
Theorem above_gt_below base T d m g1 g2 :
  0 <= base -> m <= base -> 0 < T -> 0 < d -> g1 <= T -> T < g2 ->
  next_base_fee base g1 T d m < next_base_fee base g2 T d m.
Proof.
  intros Hb Hm HT Hd H1 H2.
  pose proof (increase_at_least_one base g2 T d m H2).
  pose proof (mono_in_g base T d m g1 T Hb Hm HT Hd H1). rewrite nbf_at_target in *. lia.
Qed.

(** * CalculateBaseFee *)

Definition target (p : params) (mg : option Z) : Z := gas_limit mg / p_elasticity p.
Definition min_int (p : params) : Z := truncate (p_min_gas_price p).

(** a value is produced, past the enable height, only in the guarded domain, and
    then it is the three-branch function *)
Theorem calc_value p h mg g v :
  calc_base_fee p h mg g = RVal v -> h <> p_enable_height p ->
  exists base, p_base_fee p = Some base /\ p_no_base_fee p = false /\ p_enable_height p < h /\
    p_elasticity p <> 0 /\ is_uint64 (target p mg) = true /\
    (g <> target p mg -> target p mg <> 0 /\ p_denom p <> 0) /\
    v = next_base_fee base g (target p mg) (p_denom p) (min_int p).
Proof.
  unfold calc_base_fee, target, min_int. intros H Hh.
  destruct (p_no_base_fee p) eqn:Enb; [discriminate|]. cbn [orb] in H.
  destruct (Z.ltb_spec h (p_enable_height p)); [discriminate|].
  destruct (Z.eqb_spec h (p_enable_height p)); [contradiction|].
  destruct (p_base_fee p) as [base|]; [|discriminate]. exists base.
  destruct (Z.eqb_spec (p_elasticity p) 0); [discriminate|].
  destruct (is_uint64 (gas_limit mg / p_elasticity p)) eqn:Eu; [|discriminate]. cbn [negb] in H.
  destruct (Z.eqb_spec g (gas_limit mg / p_elasticity p)) as [->|Hg].
  - inversion H; subst. rewrite nbf_at_target. repeat split; try assumption; try lia.
  - destruct (Z.eqb_spec (gas_limit mg / p_elasticity p) 0); [discriminate|].
    destruct (Z.eqb_spec (p_denom p) 0); [discriminate|]. cbn [orb] in H.
    inversion H; subst. repeat split; try assumption; lia.
Qed.

(** conversely, in the guarded domain the call returns the function's value *)
Theorem calc_in_domain p h mg g base :
  p_no_base_fee p = false -> p_enable_height p < h -> p_base_fee p = Some base ->
  0 < p_elasticity p -> 0 < target p mg -> 0 < p_denom p -> is_uint64 (target p mg) = true ->
  calc_base_fee p h mg g = RVal (next_base_fee base g (target p mg) (p_denom p) (min_int p)).
Proof.
  unfold calc_base_fee, target, min_int. intros -> Hh -> He HT Hd ->. cbn [orb negb].
  destruct (Z.ltb_spec h (p_enable_height p)); [lia|].
  destruct (Z.eqb_spec h (p_enable_height p)); [lia|].
  destruct (Z.eqb_spec (p_elasticity p) 0); [lia|].
  destruct (Z.eqb_spec g (gas_limit mg / p_elasticity p)) as [->|Hg].
  - rewrite nbf_at_target. reflexivity.
  - destruct (Z.eqb_spec (gas_limit mg / p_elasticity p) 0); [lia|].
    destruct (Z.eqb_spec (p_denom p) 0); [lia|]. reflexivity.
Qed.

(** unlimited block gas (MaxGas = -1, or no consensus params) is MaxUint64;
    the target then always fits a uint64, so the IsUint64 guard never fires *)
Lemma gas_limit_unlimited : gas_limit (Some (-1)) = max_uint64 /\ gas_limit None = max_uint64.
Proof. split; reflexivity. Qed.

Lemma gas_limit_configured m : 0 <= m -> gas_limit (Some m) = m.
Proof. intros. unfold gas_limit. destruct (Z.ltb_spec (-1) m); [reflexivity|lia]. Qed.

Lemma gas_limit_range mg : (forall m, mg = Some m -> m <= max_uint64) -> 0 <= gas_limit mg <= max_uint64.
Proof.
  intros H. unfold gas_limit. destruct mg as [m|]; [|unfold max_uint64; lia].
  destruct (Z.ltb_spec (-1) m); [specialize (H m eq_refl); lia|unfold max_uint64; lia].
Qed.

Lemma target_is_uint64 p mg : 0 < p_elasticity p -> (forall m, mg = Some m -> m <= max_uint64) ->
  is_uint64 (target p mg) = true.
Proof.
  intros He Hm. pose proof (gas_limit_range mg Hm) as [H0 H1]. unfold is_uint64, target.
  assert (0 <= gas_limit mg / p_elasticity p) by (apply Z.div_pos; assumption).
  assert (gas_limit mg / p_elasticity p <= gas_limit mg).
  { apply Z.div_le_upper_bound; [assumption|]. nia. }
  apply andb_true_intro. split; apply Z.leb_le; lia.
Qed.

(** the statement of the property, on the call itself *)
Theorem base_fee_formula p h mg g v :
  calc_base_fee p h mg g = RVal v -> h <> p_enable_height p ->
  exists base, p_base_fee p = Some base /\
    let T := target p mg in let d := p_denom p in
    (g = T -> v = base) /\
    (T < g -> T <> 0 /\ d <> 0 /\ v = base + Z.max 1 (base * (g - T) / T / d) /\ base + 1 <= v) /\
    (g < T -> T <> 0 /\ d <> 0 /\ v = Z.max (base - base * (T - g) / T / d) (min_int p) /\ min_int p <= v).
Proof.
  intros H Hh. destruct (calc_value p h mg g v H Hh) as (base & Hb & _ & _ & _ & _ & Hnz & ->).
  exists base. split; [assumption|]. cbn zeta. repeat split.
  - intros ->. apply nbf_at_target.
  - apply Hnz; lia.
  - apply Hnz; lia.
  - apply nbf_above; assumption.
  - apply increase_at_least_one; assumption.
  - apply Hnz; lia.
  - apply Hnz; lia.
  - apply nbf_below; assumption.
  - apply decrease_floor; assumption.
Qed.

(** the floor against the configured (decimal) minimum gas price: never below its
    integer part; hence never below the price itself when that is a whole number,
    and in general less than one unit below it *)
Theorem decrease_floor_dec p h mg g v :
  calc_base_fee p h mg g = RVal v -> h <> p_enable_height p -> g < target p mg ->
  0 <= p_min_gas_price p ->
  truncate (p_min_gas_price p) <= v /\
  p_min_gas_price p < of_int (v + 1) /\
  (is_integer (p_min_gas_price p) = true -> p_min_gas_price p <= of_int v).
Proof.
  intros H Hh Hg H0. destruct (base_fee_formula p h mg g v H Hh) as (base & _ & _ & _ & Hlt).
  destruct (Hlt Hg) as (_ & _ & _ & Hv). unfold min_int in Hv.
  pose proof (truncate_floor (p_min_gas_price p) H0) as [Hf1 Hf2]. unfold of_int.
  split; [assumption|]. split.
  - pose proof prec_pos. nia.
  - intros Hi. apply is_integer_spec in Hi as [n Hn]. rewrite Hn in *. rewrite truncate_of_int in *.
    unfold of_int. pose proof prec_pos. nia.
Qed.

Theorem calc_mono p h mg g1 g2 v1 v2 base :
  calc_base_fee p h mg g1 = RVal v1 -> calc_base_fee p h mg g2 = RVal v2 -> h <> p_enable_height p ->
  p_base_fee p = Some base -> 0 <= base -> min_int p <= base -> 0 < p_elasticity p -> 0 < target p mg ->
  0 < p_denom p -> g1 <= g2 -> v1 <= v2.
Proof.
  intros H1 H2 Hh Hb H0 Hm He HT Hd Hg.
  destruct (calc_value _ _ _ _ _ H1 Hh) as (b1 & Hb1 & _ & _ & _ & _ & _ & ->).
  destruct (calc_value _ _ _ _ _ H2 Hh) as (b2 & Hb2 & _ & _ & _ & _ & _ & ->).
  rewrite Hb in Hb1, Hb2. inversion Hb1; inversion Hb2; subst.
  apply mono_in_g; assumption.
Qed.

(** K2: with the parent fee below the minimum gas price the function is not
    monotone: base 100, minimum 200, target 10: g = 9 gives 200, g = 10 gives 100 *)
Definition k2_params : params :=
  mkparams false 8 2 (Some 100) 0 (of_int 200) (of_int 1 / 2).

Theorem mono_refuted_when_base_lt_min :
  calc_base_fee k2_params 5 (Some 20) 9 = RVal 200 /\
  calc_base_fee k2_params 5 (Some 20) 10 = RVal 100 /\
  calc_base_fee k2_params 5 (Some 20) 11 = RVal 101.
Proof. vm_compute. repeat split. Qed.

(** The minimum gas price acts through its integer part only: with a fractional
    minimum the literal reading "never below the minimum gas price" fails by
    less than one unit.  Base fee 1, minimum 0.5, target 10, denominator 1,
    empty block: the new base fee is 0. *)
Definition frac_params : params := mkparams false 1 1 (Some 1) 0 half half.

Theorem floor_fractional_min_refuted :
  calc_base_fee frac_params 5 (Some 10) 0 = RVal 0 /\ of_int 0 < p_min_gas_price frac_params.
Proof. vm_compute. split; reflexivity. Qed.

(** * the gas figure *)

Lemma is_uint64_spec x : is_uint64 x = true <-> 0 <= x <= max_uint64.
Proof. unfold is_uint64. rewrite andb_true_iff, !Z.leb_le. reflexivity. Qed.

(** the product wanted * multiplier is exact (the gas is a whole number), so the
    stored figure is exactly floor(max(wanted * mult, used)) *)
Theorem gas_figure_exact w u m v : 0 <= u ->
  end_block_gas w u m = GSet v -> v = Z.max (w * m) (u * prec) / prec.
Proof.
  unfold end_block_gas. intros Hu H.
  destruct ((max_int64 <? w) || (max_int64 <? u)); [discriminate|].
  rewrite dmul_of_int_l in H. destruct (fits (w * m)); [|discriminate]. cbn [negb] in H.
  destruct (is_uint64 _); [|discriminate]. inversion H; subst.
  rewrite dmax_spec. unfold of_int. apply truncate_nonneg. pose proof prec_pos. nia.
Qed.

Theorem gas_figure_ge_used w u m v : 0 <= u -> end_block_gas w u m = GSet v -> u <= v.
Proof.
  intros Hu H. rewrite (gas_figure_exact w u m v Hu H).
  apply Z.div_le_lower_bound; [apply prec_pos|]. lia.
Qed.

(** ... and at least the declared gas times the multiplier, rounded down *)
Theorem gas_figure_ge_mult_wanted w u m v : 0 <= u -> end_block_gas w u m = GSet v ->
  w * m / prec <= v /\ w * m < (v + 1) * prec.
Proof.
  intros Hu H. rewrite (gas_figure_exact w u m v Hu H). pose proof prec_pos. split.
  - apply Z.div_le_mono; lia.
  - pose proof (Z.mul_succ_div_gt (Z.max (w * m) (u * prec)) prec ltac:(lia)). lia.
Qed.

(** ... and is the least such integer: it equals max(floor(wanted*mult), used) *)
Theorem gas_figure_is_max w u m v : 0 <= u -> end_block_gas w u m = GSet v ->
  v = Z.max (w * m / prec) u.
Proof.
  intros Hu H. rewrite (gas_figure_exact w u m v Hu H). pose proof prec_pos.
  destruct (Z.max_spec (w * m) (u * prec)) as [[Hl ->]|[Hl ->]].
  - rewrite Z.div_mul by lia. assert (w * m / prec <= u) by (apply Z.div_le_upper_bound; lia). lia.
  - assert (u <= w * m / prec) by (apply Z.div_le_lower_bound; lia). lia.
Qed.

(** declaring more gas never lowers the figure (multiplier >= 0) *)
Theorem gas_figure_mono_wanted w1 w2 u m v1 v2 : 0 <= u -> 0 <= m -> w1 <= w2 ->
  end_block_gas w1 u m = GSet v1 -> end_block_gas w2 u m = GSet v2 -> v1 <= v2.
Proof.
  intros Hu Hm Hw H1 H2. rewrite (gas_figure_is_max _ _ _ _ Hu H1), (gas_figure_is_max _ _ _ _ Hu H2).
  assert (w1 * m / prec <= w2 * m / prec) by (apply Z.div_le_mono; [apply prec_pos|nia]). lia.
Qed.

(** the stored figure is defined for every block the chain can produce:
    gas below 2^63 and a multiplier in [0, 1] *)
Theorem gas_figure_defined w u m : 0 <= w <= max_int64 -> 0 <= u <= max_int64 -> 0 <= m <= prec ->
  exists v, end_block_gas w u m = GSet v.
Proof.
  intros Hw Hu Hm. unfold end_block_gas.
  destruct (Z.ltb_spec max_int64 w); [lia|]. destruct (Z.ltb_spec max_int64 u); [lia|]. cbn [orb].
  rewrite dmul_of_int_l.
  assert (Hb : 0 <= w * m <= max_int64 * prec) by (unfold max_int64, prec in *; nia).
  assert (Hf : fits (w * m) = true).
  { apply fits_spec. rewrite Z.abs_eq by lia. unfold max_int64, prec in *. lia. }
  rewrite Hf. cbn [negb]. rewrite dmax_spec. unfold of_int.
  assert (Hv : is_uint64 (truncate (Z.max (w * m) (u * prec))) = true).
  { apply is_uint64_spec. rewrite truncate_nonneg by (unfold prec; lia).
    split; [apply Z.div_pos; unfold prec; lia|].
    apply Z.div_le_upper_bound; unfold max_uint64, max_int64, prec in *; lia. }
  rewrite Hv. eexists; reflexivity.
Qed.

(** * block sequences *)

Definition base_ge_min (s : fstate) : Prop :=
  exists base, p_base_fee (fs_params s) = Some base /\ min_int (fs_params s) <= base.

(** everything except the base fee is constant over blocks *)
Definition same_config (p q : params) : Prop :=
  p_no_base_fee p = p_no_base_fee q /\ p_denom p = p_denom q /\ p_elasticity p = p_elasticity q /\
  p_enable_height p = p_enable_height q /\ p_min_gas_price p = p_min_gas_price q /\
  p_min_gas_mult p = p_min_gas_mult q.

Lemma same_config_refl p : same_config p p.
Proof. repeat split. Qed.
Lemma same_config_set_base p v : same_config p (set_base p v).
Proof. repeat split. Qed.
Lemma same_config_trans p q r : same_config p q -> same_config q r -> same_config p r.
Proof. unfold same_config. intuition congruence. Qed.

Lemma calc_ge_min p h mg g v base : p_base_fee p = Some base -> min_int p <= base ->
  calc_base_fee p h mg g = RVal v -> min_int p <= v.
Proof.
  intros Hb Hm H. destruct (Z.eq_dec h (p_enable_height p)) as [E|NE].
  - unfold calc_base_fee in H. rewrite Hb in H.
    destruct (p_no_base_fee p || (h <? p_enable_height p)); [discriminate|].
    destruct (Z.eqb_spec h (p_enable_height p)); [|contradiction]. inversion H; subst. assumption.
  - destruct (base_fee_formula p h mg g v H NE) as (b & Hb' & He & Hgt & Hlt).
    rewrite Hb in Hb'. inversion Hb'; subst b.
    destruct (Z.lt_trichotomy g (target p mg)) as [L|[E|G]].
    + apply Hlt; assumption.
    + rewrite (He E). assumption.
    + destruct (Hgt G) as (_ & _ & _ & Hv). clear - Hv Hm. lia.
Qed.

Lemma block_preserves s b s' : block s b = Some s' -> base_ge_min s ->
  base_ge_min s' /\ same_config (fs_params s) (fs_params s').
Proof.
  unfold block, begin_block, end_block. intros H (base & Hb & Hm).
  destruct (calc_base_fee (fs_params s) (b_height b) (b_max_gas b) (fs_bgw s)) as [|v|] eqn:Ec; [| |discriminate].
  - destruct (end_block_gas _ _ _) as [|g|]; inversion H; subst; cbn;
      (split; [exists base; split; assumption|apply same_config_refl]).
  - pose proof (calc_ge_min _ _ _ _ _ _ Hb Hm Ec) as Hv. cbn [fs_params] in H.
    destruct (end_block_gas _ _ _) as [|g|]; inversion H; subst; cbn [fs_params];
      (split; [exists v; split; [reflexivity|exact Hv]|apply same_config_set_base]).
Qed.

(** once the base fee is at or above the minimum gas price it stays there, over
    every sequence of blocks (any heights, gas limits, gas figures) *)
Theorem base_ge_min_invariant bs : forall s s', run s bs = Some s' -> base_ge_min s ->
  base_ge_min s' /\ same_config (fs_params s) (fs_params s').
Proof.
  induction bs as [|b r IH]; intros s s' H Hi; cbn [run] in H.
  - inversion H; subst. split; [assumption|apply same_config_refl].
  - destruct (block s b) as [s1|] eqn:Eb; [|discriminate].
    destruct (block_preserves _ _ _ Eb Hi) as [Hi1 Hc1].
    destruct (IH _ _ H Hi1) as [Hi' Hc']. split; [assumption|eapply same_config_trans; eassumption].
Qed.

(** ... and it is established by the first block below target even when
    governance raised the minimum above the current fee *)
Theorem below_target_establishes_min p h mg g v :
  calc_base_fee p h mg g = RVal v -> h <> p_enable_height p -> g < target p mg -> min_int p <= v.
Proof.
  intros H Hh Hg. destruct (base_fee_formula p h mg g v H Hh) as (base & _ & _ & _ & Hlt).
  apply Hlt; assumption.
Qed.

(** * non-vacuity: a mainnet-like configuration runs through all three branches *)
Definition ex_params : params :=
  mkparams false 8 2 (Some 1000000000) 0 (of_int 7) (of_int 1 / 2).

Example ex_three_branches :
  calc_base_fee ex_params 10 (Some 40000000) 20000000 = RVal 1000000000 /\
  calc_base_fee ex_params 10 (Some 40000000) 40000000 = RVal 1125000000 /\
  calc_base_fee ex_params 10 (Some 40000000) 20000001 = RVal 1000000006 /\
  calc_base_fee ex_params 10 (Some 40000000) 20000000 = RVal 1000000000 /\
  calc_base_fee ex_params 10 (Some 40000000) 0 = RVal 875000000 /\
  calc_base_fee (set_base ex_params 7) 10 (Some 40000000) 0 = RVal 7 /\
  calc_base_fee ex_params 10 (Some (-1)) 12345 = RVal 875000001 /\
  end_block_gas 1000 300 (of_int 1 / 2) = GSet 500 /\
  end_block_gas 1000 700 (of_int 1 / 2) = GSet 700.
Proof. vm_compute. repeat split. Qed.

Example ex_run :
  exists s', run (mkfs ex_params 0)
      [mkblk 1 (Some 40000000) 30000000 21000; mkblk 2 (Some 40000000) 50000000 30000000;
       mkblk 3 (Some 40000000) 0 0] = Some s' /\
    base_ge_min (mkfs ex_params 0) /\ p_base_fee (fs_params s') = Some 900634765.
Proof.
  eexists. split; [vm_compute; reflexivity|]. split; [|reflexivity].
  exists 1000000000. split; [reflexivity|]. vm_compute. discriminate.
Qed.

(** collected for Props/C17.v *)
Theorem gas_limit_facts :
  gas_limit (Some (-1)) = max_uint64 /\ gas_limit None = max_uint64 /\
  (forall m, 0 <= m -> gas_limit (Some m) = m) /\
  (forall p mg, 0 < p_elasticity p -> (forall m, mg = Some m -> m <= max_uint64) ->
     is_uint64 (target p mg) = true).
Proof.
  exact (conj (proj1 gas_limit_unlimited) (conj (proj2 gas_limit_unlimited)
        (conj gas_limit_configured target_is_uint64))).
Qed.
