(** Fee market (property C17): executable model of
    x/feemarket/keeper/eip1559.go (CalculateBaseFee) and of the gas figure that
    x/feemarket/keeper/abci.go (EndBlock) stores for the next block, plus the
    BeginBlock/EndBlock fold over block sequences.
    Definitions only; proofs are in BaseFeeProofs.v.

    big.Int.Div is Euclidean division; every divisor below is positive when the
    division is reached, so it is Coq's [Z.div]. *)
From Coq Require Import ZArith List Bool.
From HV Require Import Base.Dec.
Import ListNotations.
Local Open Scope Z_scope.

Record params := mkparams {
  p_no_base_fee   : bool;
  p_denom         : Z;          (* BaseFeeChangeDenominator, uint32 *)
  p_elasticity    : Z;          (* ElasticityMultiplier, uint32 *)
  p_base_fee      : option Z;   (* math.Int; None = the nil Int of an unset Params *)
  p_enable_height : Z;
  p_min_gas_price : Z;          (* LegacyDec *)
  p_min_gas_mult  : Z           (* LegacyDec *)
}.

(** result of CalculateBaseFee: nil, a value, or a run-time panic (division by
    zero: outside the property's domain, recorded as such by the harness) *)
Inductive res := RNil | RVal (v : Z) | RPanic.

Definition max_uint64 : Z := 18446744073709551615.
Definition is_uint64 (x : Z) : bool := (0 <=? x) && (x <=? max_uint64).

(** the gas limit the code derives from the consensus parameters:
    [None] = no consensus params / no Block section, [Some m] = Block.MaxGas.
    "MaxGas > -1" keeps the configured value, anything else (-1 = unlimited)
    becomes MaxUint64. *)
Definition gas_limit (max_gas : option Z) : Z :=
  match max_gas with
  | Some m => if -1 <? m then m else max_uint64
  | None => max_uint64
  end.

(** the three-branch update, for a target [T] and denominator [d] already
    known to be non-zero; [m] = MinGasPrice.TruncateInt() *)
Definition next_base_fee (base g T d m : Z) : Z :=
  if g =? T then base
  else if T <? g then base + Z.max (base * (g - T) / T / d) 1
  else Z.max (base - base * (T - g) / T / d) m.

Definition calc_base_fee (p : params) (height : Z) (max_gas : option Z) (g : Z) : res :=
  if p_no_base_fee p || (height <? p_enable_height p) then RNil else
  if height =? p_enable_height p then
    match p_base_fee p with Some b => RVal b | None => RNil end
  else
  match p_base_fee p with
  | None => RNil
  | Some base =>
      if p_elasticity p =? 0 then RPanic else
      let T := gas_limit max_gas / p_elasticity p in
      if negb (is_uint64 T) then RNil else
      if g =? T then RVal base else
      if (T =? 0) || (p_denom p =? 0) then RPanic else
      RVal (next_base_fee base g T (p_denom p) (truncate (p_min_gas_price p)))
  end.

(** EndBlock: what is stored as "block gas wanted".  [wanted] = transient gas
    wanted (sum of the gas limits of the block's txs), [used] = block gas meter
    reading.  Values above MaxInt64 are logged and nothing is stored. *)
Inductive gres := GSkip | GSet (v : Z) | GPanic.

Definition max_int64 : Z := 9223372036854775807.

Definition end_block_gas (wanted used mult : Z) : gres :=
  if (max_int64 <? wanted) || (max_int64 <? used) then GSkip else
  let limited := dmul (of_int wanted) mult in
  if negb (fits limited) then GPanic else
  let v := truncate (dmax limited (of_int used)) in
  if is_uint64 v then GSet v else GPanic.

(** ---- block sequences ---- *)
Record fstate := mkfs { fs_params : params; fs_bgw : Z }.

Definition set_base (p : params) (v : Z) : params :=
  mkparams (p_no_base_fee p) (p_denom p) (p_elasticity p) (Some v) (p_enable_height p)
           (p_min_gas_price p) (p_min_gas_mult p).

(** one block: BeginBlock computes and stores the base fee from the stored gas
    figure of the previous block, EndBlock stores this block's gas figure.
    [None] = the block panicked. *)
Record blk := mkblk { b_height : Z; b_max_gas : option Z; b_wanted : Z; b_used : Z }.

Definition begin_block (s : fstate) (h : Z) (mg : option Z) : option fstate :=
  match calc_base_fee (fs_params s) h mg (fs_bgw s) with
  | RNil => Some s
  | RVal v => Some (mkfs (set_base (fs_params s) v) (fs_bgw s))
  | RPanic => None
  end.

Definition end_block (s : fstate) (wanted used : Z) : option fstate :=
  match end_block_gas wanted used (p_min_gas_mult (fs_params s)) with
  | GSkip => Some s
  | GSet v => Some (mkfs (fs_params s) v)
  | GPanic => None
  end.

Definition block (s : fstate) (b : blk) : option fstate :=
  match begin_block s (b_height b) (b_max_gas b) with
  | None => None
  | Some s1 => end_block s1 (b_wanted b) (b_used b)
  end.

Fixpoint run (s : fstate) (bs : list blk) : option fstate :=
  match bs with
  | [] => Some s
  | b :: r => match block s b with None => None | Some s' => run s' r end
  end.

(** ---- the gas figure of a block of delivered transactions ----
    app/ante/evm/fee_market.go (GasWantedDecorator, last-but-one decorator of
    the Ethereum route, last one of both Cosmos routes) adds the gas limit of
    every transaction to the transient "gas wanted" through
    x/feemarket/keeper/keeper.go AddTransientGasWanted:
        result := k.GetTransientGasWanted(ctx) + gasWanted     (uint64 +)
        k.SetTransientBlockGasWanted(ctx, result)
    when the base fee is enabled (not NoBaseFee, height >= EnableHeight).  The
    addition is Go's uint64 addition: it wraps, there is no guard and no cap.
    BaseApp keeps the ante handler's writes exactly when the handler succeeds
    (runTx: msCache.Write() after the ante handler, before the messages run), so a
    transaction that fails later, in execution, still counts.
    BaseApp charges every delivered transaction's gas meter reading (up to its
    limit) to the block gas meter, EndBlock reads GasConsumedToLimit. *)
Definition two64 : Z := 18446744073709551616.

Record dtx := mkdtx {
  t_declared : Z;      (* gas limit of the transaction (sum over its messages on the Ethereum route) *)
  t_used     : Z;      (* gas charged to the block for it *)
  t_ante     : bool    (* the ante handler succeeded *)
}.

Definition add_wanted (acc : Z) (t : dtx) : Z :=
  if t_ante t then (acc + t_declared t) mod two64 else acc.

Definition fold_wanted (txs : list dtx) : Z := fold_left add_wanted txs 0.

Definition fm_enabled (p : params) (height : Z) : bool :=
  negb (p_no_base_fee p) && (p_enable_height p <=? height).

Definition block_wanted (enabled : bool) (txs : list dtx) : Z :=
  if enabled then fold_wanted txs else 0.

(** BaseApp's block gas meter: a limit only for Block.MaxGas > 0 *)
Definition meter_limit (max_gas : option Z) : option Z :=
  match max_gas with
  | Some m => if 0 <? m then Some m else None
  | None => None
  end.

Definition sum_used (txs : list dtx) : Z := fold_left (fun a t => a + t_used t) txs 0.

Definition block_used (limit : option Z) (txs : list dtx) : Z :=
  match limit with Some l => Z.min (sum_used txs) l | None => sum_used txs end.

(** what EndBlock stores after a block of these transactions *)
Definition block_figure (enabled : bool) (max_gas : option Z) (mult : Z) (txs : list dtx) : gres :=
  end_block_gas (block_wanted enabled txs) (block_used (meter_limit max_gas) txs) mult.

(** the same pipeline with the running total capped at the block gas limit
    after every addition (NOT what the code does; kept for the refutation in
    Props/C17.v: the cap acts before the multiplier) *)
Definition add_wanted_capped (limit : Z) (acc : Z) (t : dtx) : Z :=
  if t_ante t then
    let r := (acc + t_declared t) mod two64 in if limit <? r then limit else r
  else acc.
Definition fold_wanted_capped (limit : Z) (txs : list dtx) : Z := fold_left (add_wanted_capped limit) txs 0.
Definition block_figure_capped (max_gas : option Z) (mult : Z) (txs : list dtx) : gres :=
  end_block_gas (fold_wanted_capped (gas_limit max_gas) txs) (block_used (meter_limit max_gas) txs) mult.

(** a block of a real history: height, Block.MaxGas, delivered transactions *)
Definition rblk := (Z * option Z * list dtx)%type.
Definition to_blk (p : params) (rb : rblk) : blk :=
  let '(h, mg, txs) := rb in
  mkblk h mg (block_wanted (fm_enabled p h) txs) (block_used (meter_limit mg) txs).

(** ---- correspondence with the harness ---- *)
Definition res_eqb (a b : res) : bool :=
  match a, b with
  | RNil, RNil => true
  | RVal x, RVal y => x =? y
  | RPanic, RPanic => true
  | _, _ => false
  end.
Definition gres_eqb (a b : gres) : bool :=
  match a, b with
  | GSkip, GSkip => true
  | GSet x, GSet y => x =? y
  | GPanic, GPanic => true
  | _, _ => false
  end.

(** a "calc" case: parameters, height, Block.MaxGas, and the results the real
    CalculateBaseFee returned for a list of stored gas figures *)
Definition calc_case := (params * Z * option Z * list (Z * res))%type.
Definition check_calc (c : calc_case) : bool :=
  let '(p, h, mg, obs) := c in
  forallb (fun gr => res_eqb (calc_base_fee p h mg (fst gr)) (snd gr)) obs.

(** a "gas" case: (wanted, used, multiplier, what EndBlock stored) *)
Definition gas_case := (Z * Z * Z * gres)%type.
Definition check_gas (c : gas_case) : bool :=
  let '(w, u, m, r) := c in gres_eqb (end_block_gas w u m) r.

(** a "seq" case: initial params and stored gas figure, then per block the
    observed (base fee param, stored gas figure), or [None] for a panic *)
Definition seq_obs := option (option Z * Z).
Definition seq_case := (params * Z * list (blk * seq_obs))%type.

Definition oz_eqb (a b : option Z) : bool :=
  match a, b with Some x, Some y => x =? y | None, None => true | _, _ => false end.

Fixpoint check_seq_from (s : fstate) (l : list (blk * seq_obs)) : bool :=
  match l with
  | [] => true
  | (b, o) :: r =>
      match block s b, o with
      | None, None => true          (* the chain halts: nothing follows *)
      | Some s', Some (bf, g) =>
          oz_eqb (p_base_fee (fs_params s')) bf && (fs_bgw s' =? g) && check_seq_from s' r
      | _, _ => false
      end
  end.
Definition check_seq (c : seq_case) : bool :=
  let '(p, g0, l) := c in check_seq_from (mkfs p g0) l.

(** a "real" case: initial params and stored gas figure, then per block the
    delivered transactions and the observed (base fee param, stored gas figure);
    NoBaseFee and EnableHeight are constant over the blocks *)
Definition real_case := (params * Z * list (rblk * seq_obs))%type.
Definition check_real (c : real_case) : bool :=
  let '(p, g0, l) := c in
  check_seq_from (mkfs p g0) (map (fun bo => (to_blk p (fst bo), snd bo)) l).

Section Mismatches.
  Context {A : Type} (chk : A -> bool).
  Fixpoint mismatches_from (i : nat) (cs : list A) : list nat :=
    match cs with
    | [] => []
    | c :: r => if chk c then mismatches_from (S i) r else i :: mismatches_from (S i) r
    end.
End Mismatches.
Definition calc_mismatches := mismatches_from check_calc 0.
Definition gas_mismatches := mismatches_from check_gas 0.
Definition seq_mismatches := mismatches_from check_seq 0.
Definition real_mismatches := mismatches_from check_real 0.
