(** Proofs about the redirected-burn model (property C14). *)
From Coq Require Import ZArith List Lia.
From stdpp Require Import gmap.
From HV Require Import Dao.LedgerModel Dao.LedgerProofs Bank.BurnModel.
Import ListNotations.
Local Open Scope Z_scope.

Definition balof (s : bank) (a d : N) : Z := zget (coins_of (b_bal s) a) d.
Definition supplyof (s : bank) (d : N) : Z := zget (b_supply s) d.
Definition poolof (s : bank) (d : N) : Z := zget (b_pool s) d.

(** * the primitives *)
Lemma send_coins_ok s a b amt s' : send_coins s a b amt = (s', B_OK) ->
  clist_valid amt = true /\
  (forall c d, balof s' c d = balof s c d - (if decide (a = c) then lsum amt d else 0)
                                          + (if decide (b = c) then lsum amt d else 0)) /\
  b_supply s' = b_supply s /\ b_pool s' = b_pool s.
Proof.
  unfold send_coins. destruct (clist_valid amt) eqn:Hv; cbn [negb]; [|discriminate].
  destruct (csub_list (coins_of (b_bal s) a) amt) as [fb|] eqn:Hs; [|discriminate].
  intros H; inversion H; subst s'; clear H. cbn [b_bal b_supply b_pool].
  pose proof (csub_list_spec _ _ _ Hs) as Hfb.
  split; [done|]. split; [|split; reflexivity].
  intros c d. unfold balof. cbn [b_bal]. rewrite !coins_of_set.
  destruct (decide (b = c)) as [->|Hbc].
  - rewrite zget_cadd_list. destruct (decide (a = c)) as [->|]; [rewrite Hfb|]; lia.
  - destruct (decide (a = c)) as [->|]; [rewrite Hfb|]; lia.
Qed.

Lemma send_coins_fail s a b amt s' r : send_coins s a b amt = (s', r) -> r <> B_OK -> s' = s.
Proof.
  unfold send_coins. destruct (clist_valid amt); cbn [negb]; [|by inversion 1].
  destruct (csub_list _ amt); inversion 1; subst; done.
Qed.

Lemma pool_add_get amt : forall p d, zget (pool_add p amt) d = zget p d + lsum amt d * dec_unit.
Proof.
  induction amt as [|[d0 x] r IH]; intros p d; cbn [pool_add fold_left lsum]; [lia|].
  fold (pool_add (zset p d0 (zget p d0 + x * dec_unit)) r). rewrite IH, zget_zset.
  destruct (decide (d0 = d)) as [->|]; lia.
Qed.

Lemma pool_adj_get adj : forall p d, zget (pool_adj p adj) d = zget p d + lsum adj d.
Proof.
  induction adj as [|[d0 x] r IH]; intros p d; cbn [pool_adj fold_left lsum]; [lia|].
  fold (pool_adj (zset p d0 (zget p d0 + x)) r). rewrite IH, zget_zset.
  destruct (decide (d0 = d)) as [->|]; lia.
Qed.

Lemma sdk_burn_ok s m amt s' : sdk_burn s m amt = (s', B_OK) ->
  burner m = true /\ clist_valid amt = true /\
  (forall c d, balof s' c d = balof s c d - (if decide (m = c) then lsum amt d else 0)) /\
  (forall d, supplyof s' d = supplyof s d - lsum amt d) /\
  b_pool s' = b_pool s.
Proof.
  unfold sdk_burn. destruct (burner m); cbn [negb]; [|discriminate].
  destruct (clist_valid amt); cbn [negb]; [|discriminate].
  destruct (csub_list (coins_of (b_bal s) m) amt) as [mb|] eqn:Hm; [|discriminate].
  destruct (csub_list (b_supply s) amt) as [sup|] eqn:Hs; [|discriminate].
  intros H; inversion H; subst s'; clear H. cbn [b_bal b_supply b_pool].
  repeat split; try done.
  - intros c d. unfold balof. cbn [b_bal]. rewrite coins_of_set.
    destruct (decide (m = c)) as [->|]; [rewrite (csub_list_spec _ _ _ Hm)|]; lia.
  - intros d. unfold supplyof. cbn [b_supply]. apply (csub_list_spec _ _ _ Hs).
Qed.

Lemma sdk_burn_fail s m amt s' r : sdk_burn s m amt = (s', r) -> r <> B_OK -> s' = s.
Proof.
  unfold sdk_burn. destruct (burner m); cbn [negb]; [|by inversion 1].
  destruct (clist_valid amt); cbn [negb]; [|by inversion 1].
  destruct (csub_list (coins_of _ _) amt); [|by inversion 1].
  destruct (csub_list (b_supply s) amt); inversion 1; subst; done.
Qed.

Lemma mint_coins_ok s m amt s' : mint_coins s m amt = (s', B_OK) ->
  minter m = true /\ clist_valid amt = true /\
  (forall c d, balof s' c d = balof s c d + (if decide (m = c) then lsum amt d else 0)) /\
  (forall d, supplyof s' d = supplyof s d + lsum amt d) /\
  b_pool s' = b_pool s.
Proof.
  unfold mint_coins. destruct (minter m); cbn [negb]; [|discriminate].
  destruct (clist_valid amt); cbn [negb]; [|discriminate].
  intros H; inversion H; subst s'; clear H. cbn [b_bal b_supply b_pool].
  repeat split; try done.
  - intros c d. unfold balof. cbn [b_bal]. rewrite coins_of_set.
    destruct (decide (m = c)) as [->|]; [rewrite zget_cadd_list|]; lia.
  - intros d. unfold supplyof. cbn [b_supply]. apply zget_cadd_list.
Qed.

Lemma mint_coins_fail s m amt s' r : mint_coins s m amt = (s', r) -> r <> B_OK -> s' = s.
Proof.
  unfold mint_coins. destruct (minter m); cbn [negb]; [|by inversion 1].
  destruct (clist_valid amt); cbn [negb]; inversion 1; subst; done.
Qed.

(** * Haqq's BurnCoins *)
Lemma redirected_not_distr m : redirected m = true -> m <> DISTR.
Proof.
  unfold redirected, GOV, BONDED, NOTBONDED, DISTR. intros H ->. cbn in H. discriminate.
Qed.

Lemma burn_redirect_ok s m amt s' : redirected m = true -> burn_coins s m amt = (s', B_OK) ->
  clist_valid amt = true /\
  (forall c d, balof s' c d = balof s c d - (if decide (m = c) then lsum amt d else 0)
                                          + (if decide (DISTR = c) then lsum amt d else 0)) /\
  b_supply s' = b_supply s /\
  (forall d, poolof s' d = poolof s d + lsum amt d * dec_unit).
Proof.
  intros Hr. unfold burn_coins. rewrite Hr.
  destruct (send_coins s m DISTR amt) as [s1 r] eqn:Hs.
  destruct r as [|p]; [|inversion 1].
  intros H; inversion H; subst s'; clear H.
  destruct (send_coins_ok _ _ _ _ _ Hs) as (Hv & Hb & Hsup & Hp).
  repeat split; try done.
  intros d. unfold poolof. cbn [b_pool]. rewrite pool_add_get, Hp. done.
Qed.

Lemma burn_coins_fail s m amt s' r : burn_coins s m amt = (s', r) -> r <> B_OK -> s' = s.
Proof.
  unfold burn_coins. destruct (redirected m).
  - destruct (send_coins s m DISTR amt) as [s1 r1] eqn:Hs. destruct r1 as [|p]; inversion 1; subst; [done|].
    done.
  - apply sdk_burn_fail.
Qed.

(** the four statements of the property, for one call *)
Lemma redirect_keeps_supply s m amt s' :
  redirected m = true -> burn_coins s m amt = (s', B_OK) -> forall d, supplyof s' d = supplyof s d.
Proof. intros Hr H d. destruct (burn_redirect_ok _ _ _ _ Hr H) as (_ & _ & Hs & _). unfold supplyof. by rewrite Hs. Qed.

Lemma redirect_pool_plus_x s m amt s' :
  redirected m = true -> burn_coins s m amt = (s', B_OK) ->
  forall d, poolof s' d = poolof s d + lsum amt d * 10 ^ 18.
Proof. intros Hr H. by destruct (burn_redirect_ok _ _ _ _ Hr H) as (_ & _ & _ & Hp). Qed.

Lemma redirect_distr_plus_x s m amt s' :
  redirected m = true -> burn_coins s m amt = (s', B_OK) ->
  (forall d, balof s' DISTR d = balof s DISTR d + lsum amt d) /\
  (forall d, balof s' m d = balof s m d - lsum amt d) /\
  (forall c d, c <> m -> c <> DISTR -> balof s' c d = balof s c d) /\
  (forall d, 0 <= lsum amt d).
Proof.
  intros Hr H. destruct (burn_redirect_ok _ _ _ _ Hr H) as (Hv & Hb & _ & _).
  pose proof (redirected_not_distr _ Hr) as Hne.
  repeat split.
  - intros d. rewrite Hb. destruct (decide (m = DISTR)); [done|]. destruct (decide (DISTR = DISTR)); [lia|done].
  - intros d. rewrite Hb. destruct (decide (m = m)); [|done]. destruct (decide (DISTR = m)); [by subst|lia].
  - intros c d H1 H2. rewrite Hb. destruct (decide (m = c)); [by subst|]. destruct (decide (DISTR = c)); [by subst|lia].
  - intros d. exact (lsum_nonneg _ _ d Hv).
Qed.

Lemma other_modules_burn_normally s m amt s' :
  redirected m = false -> burn_coins s m amt = (s', B_OK) ->
  (forall d, supplyof s' d = supplyof s d - lsum amt d) /\
  (forall d, balof s' m d = balof s m d - lsum amt d) /\
  (forall c d, c <> m -> balof s' c d = balof s c d) /\
  (forall d, poolof s' d = poolof s d) /\
  (forall d, 0 <= lsum amt d).
Proof.
  intros Hr. unfold burn_coins. rewrite Hr. intros H.
  destruct (sdk_burn_ok _ _ _ _ H) as (_ & Hv & Hb & Hs & Hp).
  repeat split; try done.
  - intros d. rewrite Hb. destruct (decide (m = m)); [lia|done].
  - intros c d Hc. rewrite Hb. destruct (decide (m = c)); [by subst|lia].
  - intros d. unfold poolof. by rewrite Hp.
  - intros d. exact (lsum_nonneg _ _ d Hv).
Qed.

(** the redirected names are exactly the three of the code *)
Lemma redirected_iff m : redirected m = true <-> m = GOV \/ m = BONDED \/ m = NOTBONDED.
Proof.
  unfold redirected. rewrite !orb_true_iff, !N.eqb_eq. tauto.
Qed.

Lemma bstep_fail s o s' r : bstep s o = (s', r) -> r <> B_OK -> s' = s.
Proof.
  destruct o; cbn [bstep]; [apply burn_coins_fail|apply mint_coins_fail|apply send_coins_fail|].
  inversion 1; subst. done.
Qed.

(** * histories *)
Definition ok (s : bank) (o : bop) : bool := (snd (bstep s o) =? B_OK)%N.

(** amount of a successful redirected burn / ordinary burn / mint, net flow into
    the distribution account by plain sends *)
Definition eff_red (s : bank) (o : bop) (d : N) : Z :=
  match o with Burn m amt => if ok s o && redirected m then lsum amt d else 0 | _ => 0 end.
Definition eff_burn (s : bank) (o : bop) (d : N) : Z :=
  match o with Burn m amt => if ok s o && negb (redirected m) then lsum amt d else 0 | _ => 0 end.
Definition eff_mint (s : bank) (o : bop) (d : N) : Z :=
  match o with Mint m amt => if ok s o then lsum amt d else 0 | _ => 0 end.
Definition eff_distr_send (s : bank) (o : bop) (d : N) : Z :=
  match o with
  | Send a b amt => if ok s o then (if decide (b = DISTR) then lsum amt d else 0)
                                   - (if decide (a = DISTR) then lsum amt d else 0) else 0
  | _ => 0
  end.

(** what the distribution keeper itself booked into the pool (10^-18 units) *)
Definition eff_book (s : bank) (o : bop) (d : N) : Z :=
  match o with DistrBook adj => lsum adj d | _ => 0 end.

Fixpoint hsum (f : bank -> bop -> N -> Z) (ops : list bop) (s : bank) (d : N) : Z :=
  match ops with
  | [] => 0
  | o :: r => f s o d + hsum f r (fst (bstep s o)) d
  end.

Lemma minter_not_distr m : minter m = true -> m <> DISTR.
Proof. unfold minter, DISTR, EVM, ERC20, LIQUIDVESTING, TRANSFER, COINOMICS. intros H ->. cbn in H. discriminate. Qed.
Lemma burner_not_distr m : burner m = true -> m <> DISTR.
Proof. unfold burner, DISTR, GOV, BONDED, NOTBONDED, EVM, ERC20, LIQUIDVESTING, TRANSFER. intros H ->. cbn in H. discriminate. Qed.

Lemma step_accounting s o d :
  let s' := fst (bstep s o) in
  poolof s' d = poolof s d + eff_red s o d * dec_unit + eff_book s o d /\
  supplyof s' d = supplyof s d + eff_mint s o d - eff_burn s o d /\
  balof s' DISTR d = balof s DISTR d + eff_red s o d + eff_distr_send s o d.
Proof.
  cbn zeta. destruct (bstep s o) as [s' r] eqn:E. cbn [fst].
  destruct (N.eq_dec r B_OK) as [->|Hr].
  2:{ rewrite (bstep_fail _ _ _ _ E Hr).
      assert (Hok : ok s o = false) by (unfold ok; rewrite E; cbn; by apply N.eqb_neq).
      unfold eff_red, eff_burn, eff_mint, eff_distr_send, eff_book.
      destruct o; try (rewrite Hok; cbn [andb]; lia). cbn [bstep] in E. inversion E; subst. done. }
  assert (Hok : ok s o = true) by (unfold ok; by rewrite E).
  unfold eff_red, eff_burn, eff_mint, eff_distr_send, eff_book. destruct o as [m amt|m amt|a b amt|adj]; rewrite ?Hok; cbn [andb bstep] in *.
  - destruct (redirected m) eqn:Hm; cbn [negb].
    + destruct (burn_redirect_ok _ _ _ _ Hm E) as (_ & Hb & Hs & Hp). pose proof (redirected_not_distr _ Hm).
      repeat split; [rewrite Hp; lia|unfold supplyof; rewrite Hs; lia|].
      rewrite Hb. destruct (decide (m = DISTR)); [done|]. destruct (decide (DISTR = DISTR)); [lia|done].
    + destruct (other_modules_burn_normally _ _ _ _ Hm E) as (Hs & _ & Hb & Hp & _).
      unfold burn_coins in E. rewrite Hm in E. destruct (sdk_burn_ok _ _ _ _ E) as (Hbu & _).
      pose proof (burner_not_distr _ Hbu).
      repeat split; [rewrite Hp; lia|rewrite Hs; lia|rewrite Hb by done; lia].
  - destruct (mint_coins_ok _ _ _ _ E) as (Hmi & _ & Hb & Hs & Hp). pose proof (minter_not_distr _ Hmi).
    repeat split; [unfold poolof; rewrite Hp; lia|rewrite Hs; lia|].
    rewrite Hb. destruct (decide (m = DISTR)); [done|lia].
  - destruct (send_coins_ok _ _ _ _ _ E) as (_ & Hb & Hs & Hp).
    repeat split; [unfold poolof; rewrite Hp; lia|unfold supplyof; rewrite Hs; lia|].
    rewrite Hb. destruct (decide (a = DISTR)), (decide (b = DISTR)); lia.
  - inversion E; subst s'; clear E. unfold poolof, supplyof, balof. cbn [b_pool b_supply b_bal].
    rewrite pool_adj_get. repeat split; lia.
Qed.

Lemma history_accounting ops : forall s d,
  poolof (brun ops s) d = poolof s d + hsum eff_red ops s d * dec_unit + hsum eff_book ops s d /\
  supplyof (brun ops s) d = supplyof s d + hsum eff_mint ops s d - hsum eff_burn ops s d /\
  balof (brun ops s) DISTR d = balof s DISTR d + hsum eff_red ops s d + hsum eff_distr_send ops s d.
Proof.
  induction ops as [|o r IH]; intros s d; cbn [brun fold_left hsum]; [lia|].
  fold (brun r (fst (bstep s o))).
  destruct (IH (fst (bstep s o)) d) as (H1 & H2 & H3).
  destruct (step_accounting s o d) as (G1 & G2 & G3). cbn zeta in *.
  rewrite H1, H2, H3, G1, G2, G3. lia.
Qed.

(** no plain send to or from the distribution account *)
Definition no_distr_send (o : bop) : Prop :=
  match o with Send a b _ => a <> DISTR /\ b <> DISTR | DistrBook _ => False | _ => True end.

Lemma hsum_distr_send_zero ops : Forall no_distr_send ops -> forall s d, hsum eff_distr_send ops s d = 0.
Proof.
  induction 1 as [|o r Ho _ IH]; intros s d; cbn [hsum]; [done|]. rewrite IH.
  destruct o as [| |a b amt|]; cbn [eff_distr_send]; try lia. destruct Ho.
  destruct (ok s _); [|lia]. destruct (decide (b = DISTR)), (decide (a = DISTR)); try done; lia.
Qed.

Lemma hsum_book_zero ops : Forall no_distr_send ops -> forall s d, hsum eff_book ops s d = 0.
Proof.
  induction 1 as [|o r Ho _ IH]; intros s d; cbn [hsum]; [done|]. rewrite IH.
  destruct o; cbn [eff_book]; try lia. destruct Ho.
Qed.

Lemma history_redirected_sum ops s d : Forall no_distr_send ops ->
  let R := hsum eff_red ops s d in
  poolof (brun ops s) d - poolof s d = R * 10 ^ 18 /\
  balof (brun ops s) DISTR d - balof s DISTR d = R /\
  supplyof (brun ops s) d - supplyof s d = hsum eff_mint ops s d - hsum eff_burn ops s d.
Proof.
  intros Hf. cbn zeta. destruct (history_accounting ops s d) as (H1 & H2 & H3).
  rewrite (hsum_distr_send_zero _ Hf) in H3. rewrite (hsum_book_zero _ Hf) in H1. unfold dec_unit in H1. lia.
Qed.

(** ordinary burns and mints never touch the pool or the distribution account *)
Lemma hsum_nonneg_red ops : forall s d, 0 <= hsum eff_red ops s d.
Proof.
  induction ops as [|o r IH]; intros s d; cbn [hsum]; [lia|]. specialize (IH (fst (bstep s o)) d).
  enough (0 <= eff_red s o d) by lia. unfold eff_red. destruct o as [m amt| | |]; try lia.
  destruct (ok s (Burn m amt)) eqn:Hok; cbn [andb]; [|lia]. destruct (redirected m) eqn:Hm; [|lia].
  unfold ok in Hok. destruct (bstep s (Burn m amt)) as [s' r'] eqn:E. cbn in Hok. apply N.eqb_eq in Hok. subst r'.
  cbn [bstep] in E. destruct (burn_redirect_ok _ _ _ _ Hm E) as (Hv & _). exact (lsum_nonneg _ _ d Hv).
Qed.

(** * invariants over histories *)
(** supply = sum of all balances (the bank module's invariant): redirected
    coins stay in circulation in this strong sense too *)
Definition supply_inv (s : bank) : Prop := forall d, dsum (b_bal s) d = supplyof s d.

Lemma dsum_balof m a c d : dsum (set_coins m a c) d = dsum m d - zget (coins_of m a) d + zget c d.
Proof. apply dsum_set. Qed.

Lemma send_preserves_dsum s a b amt s' d : send_coins s a b amt = (s', B_OK) -> dsum (b_bal s') d = dsum (b_bal s) d.
Proof.
  unfold send_coins. destruct (clist_valid amt); cbn [negb]; [|discriminate].
  destruct (csub_list (coins_of (b_bal s) a) amt) as [fb|] eqn:Hs; [|discriminate].
  intros H; inversion H; subst s'; clear H. cbn [b_bal].
  rewrite !dsum_set, zget_cadd_list, (csub_list_spec _ _ _ Hs). lia.
Qed.

Lemma bstep_supply_inv s o : supply_inv s -> supply_inv (fst (bstep s o)).
Proof.
  intros Hi d. destruct (bstep s o) as [s' r] eqn:E. cbn [fst].
  destruct (N.eq_dec r B_OK) as [->|Hr]; [|rewrite (bstep_fail _ _ _ _ E Hr); apply Hi].
  destruct o as [m amt|m amt|a b amt|adj]; cbn [bstep] in E.
  4:{ inversion E; subst s'. unfold supplyof. cbn [b_bal b_supply]. apply Hi. }
  - unfold burn_coins in E. destruct (redirected m) eqn:Hm.
    + destruct (send_coins s m DISTR amt) as [s1 r1] eqn:Hs. destruct r1 as [|p]; [|inversion E].
      inversion E; subst s'; clear E. unfold supplyof. cbn [b_bal b_supply].
      rewrite (send_preserves_dsum _ _ _ _ _ d Hs).
      destruct (send_coins_ok _ _ _ _ _ Hs) as (_ & _ & Hsup & _). rewrite Hsup. apply Hi.
    + destruct (sdk_burn_ok _ _ _ _ E) as (_ & _ & _ & Hs & _). rewrite Hs.
      unfold sdk_burn in E. destruct (burner m); cbn [negb] in E; [|discriminate].
      destruct (clist_valid amt); cbn [negb] in E; [|discriminate].
      destruct (csub_list (coins_of (b_bal s) m) amt) as [mb|] eqn:Hmb; [|discriminate].
      destruct (csub_list (b_supply s) amt); [|discriminate]. inversion E; subst s'. cbn [b_bal].
      rewrite dsum_set, (csub_list_spec _ _ _ Hmb), <- (Hi d). lia.
  - destruct (mint_coins_ok _ _ _ _ E) as (_ & _ & _ & Hs & _). rewrite Hs.
    unfold mint_coins in E. destruct (minter m); cbn [negb] in E; [|discriminate].
    destruct (clist_valid amt); cbn [negb] in E; [|discriminate]. inversion E; subst s'. cbn [b_bal].
    rewrite dsum_set, zget_cadd_list, <- (Hi d). lia.
  - rewrite (send_preserves_dsum _ _ _ _ _ d E).
    destruct (send_coins_ok _ _ _ _ _ E) as (_ & _ & Hsup & _). unfold supplyof. rewrite Hsup. apply Hi.
Qed.

Lemma brun_supply_inv ops : forall s, supply_inv s -> supply_inv (brun ops s).
Proof.
  induction ops as [|o r IH]; intros s Hi; cbn [brun fold_left]; [done|].
  apply IH. by apply bstep_supply_inv.
Qed.

(** the community pool stays backed by the distribution account's coins *)
Definition pool_backed (s : bank) : Prop := forall d, poolof s d <= balof s DISTR d * dec_unit.
Definition no_distr_debit (o : bop) : Prop :=
  match o with Send a _ _ => a <> DISTR | DistrBook _ => False | _ => True end.

Lemma send_amount_nonneg s a b amt s' d : send_coins s a b amt = (s', B_OK) -> 0 <= lsum amt d.
Proof. intros H. destruct (send_coins_ok _ _ _ _ _ H) as (Hv & _). exact (lsum_nonneg _ _ d Hv). Qed.

Lemma brun_pool_backed ops : Forall no_distr_debit ops -> forall s, pool_backed s -> pool_backed (brun ops s).
Proof.
  induction 1 as [|o r Ho _ IH]; intros s Hi; cbn [brun fold_left]; [done|].
  apply IH. intros d. destruct (step_accounting s o d) as (G1 & _ & G3). cbn zeta in *.
  rewrite G1, G3. specialize (Hi d).
  enough (0 <= eff_distr_send s o d /\ eff_book s o d = 0) by (unfold dec_unit in *; lia).
  destruct o as [| |a b amt|]; cbn [eff_distr_send eff_book]; try lia; [|destruct Ho]. cbn in Ho. split; [|done].
  destruct (ok s (Send a b amt)) eqn:Hok; [|lia].
  destruct (decide (a = DISTR)); [done|]. destruct (decide (b = DISTR)); [|lia].
  unfold ok in Hok. destruct (bstep s (Send a b amt)) as [s' r'] eqn:E. cbn in Hok. apply N.eqb_eq in Hok. subst r'.
  cbn [bstep] in E. pose proof (send_amount_nonneg _ _ _ _ _ d E). lia.
Qed.

(** * non-vacuity *)
Definition ex_state : bank :=
  load (mksnap [(BONDED, 0%N, 1000); (NOTBONDED, 0%N, 300); (GOV, 0%N, 50); (GOV, 3%N, 7); (EVM, 0%N, 40); (DISTR, 0%N, 5)]
               [(0%N, 1395); (3%N, 7)] [(0%N, 5 * 10 ^ 18)]).

Definition ex_history : list bop :=
  [Burn BONDED [(0%N, 100)]; Burn NOTBONDED [(0%N, 30)]; Burn GOV [(0%N, 50); (3%N, 7)];
   Burn EVM [(0%N, 40)]; Burn EVM [(0%N, 1)]; Mint COINOMICS [(0%N, 11)]; Burn DISTR [(0%N, 1)]].

Example ex_redirect :
  exists s', burn_coins ex_state GOV [(0%N, 50); (3%N, 7)] = (s', B_OK) /\ redirected GOV = true /\
             supplyof s' 3%N = 7 /\ poolof s' 3%N = 7 * 10 ^ 18 /\ balof s' DISTR 3%N = 7 /\ balof s' GOV 3%N = 0.
Proof. eexists. split; [vm_compute; reflexivity|]. vm_compute. repeat split. Qed.

Example ex_ordinary :
  exists s', burn_coins ex_state EVM [(0%N, 40)] = (s', B_OK) /\ redirected EVM = false /\
             supplyof s' 0%N = 1355 /\ poolof s' 0%N = 5 * 10 ^ 18 /\ balof s' DISTR 0%N = 5 /\ balof s' EVM 0%N = 0.
Proof. eexists. split; [vm_compute; reflexivity|]. vm_compute. repeat split. Qed.

Example ex_history_sums :
  Forall no_distr_send ex_history /\
  hsum eff_red ex_history ex_state 0%N = 180 /\ hsum eff_burn ex_history ex_state 0%N = 40 /\
  hsum eff_mint ex_history ex_state 0%N = 11 /\
  poolof (brun ex_history ex_state) 0%N = 185 * 10 ^ 18 /\ balof (brun ex_history ex_state) DISTR 0%N = 185 /\
  supplyof (brun ex_history ex_state) 0%N = 1366.
Proof. split; [repeat constructor|]. vm_compute. repeat split. Qed.

Definition empty_bank : bank := mkbank ∅ ∅ ∅.
Definition ex_setup : list bop :=
  [Mint COINOMICS [(0%N, 1390); (3%N, 7)]; Send COINOMICS BONDED [(0%N, 1000)]; Send COINOMICS NOTBONDED [(0%N, 300)];
   Send COINOMICS GOV [(0%N, 50); (3%N, 7)]; Send COINOMICS EVM [(0%N, 40)]].

Lemma empty_invariants : supply_inv empty_bank /\ pool_backed empty_bank.
Proof.
  split; intros d.
  - unfold supply_inv, dsum, supplyof, empty_bank. cbn. rewrite map_fold_empty. by rewrite zget_empty.
  - unfold poolof, balof, empty_bank, coins_of. cbn. rewrite lookup_empty. cbn. rewrite !zget_empty. lia.
Qed.

(** a reachable state with redirected and ordinary burns behind it satisfies both invariants *)
Example ex_invariants :
  let s := brun (ex_setup ++ ex_history) empty_bank in
  supply_inv s /\ pool_backed s /\ poolof s 0%N = 180 * 10 ^ 18 /\ balof s DISTR 0%N = 180 /\ supplyof s 0%N = 1361.
Proof.
  cbn zeta. destruct empty_invariants as [H1 H2]. split; [|split].
  - by apply brun_supply_inv.
  - apply brun_pool_backed; [|done]. repeat constructor; cbn; unfold COINOMICS, DISTR; lia.
  - vm_compute. repeat split.
Qed.

(** * sequences of community-pool events at one height and across heights *)
From Coq Require Import Permutation.

Ltac csimp := unfold get_fee_pool, set_fee_pool, cmove in *; cbn [c_supply c_pool c_distr c_out c_src c_other cadd cbal negb] in *.

(** amounts of the events that went through *)
Definition ce_red (s : cst) (e : cev) : Z :=
  match e with EvBurn m x => if cok s e && redirected m then x else 0 | _ => 0 end.
Definition ce_plain (s : cst) (e : cev) : Z :=
  match e with EvBurn m x => if cok s e && negb (redirected m) then x else 0 | _ => 0 end.
Definition ce_mint (s : cst) (e : cev) : Z :=
  match e with EvMint x => if cok s e then x else 0 | _ => 0 end.
Definition ce_fund (s : cst) (e : cev) : Z :=
  match e with EvFund y => if cok s e then y else 0 | _ => 0 end.
Definition ce_spend (s : cst) (e : cev) : Z :=
  match e with EvSpend z => if cok s e then z else 0 | _ => 0 end.
Definition ce_rem (s : cst) (e : cev) : Z :=          (* 10^-18 units *)
  match e with
  | EvRemainder _ r => if cok s e then r else 0
  | EvAllocate _ c => if cok s e then c else 0
  | _ => 0
  end.
(** net flow into the distribution account that is not a redirected burn, a
    donation or a spend: fees in, rewards out, plain sends *)
Definition ce_distr_other (s : cst) (e : cev) : Z :=
  match e with
  | EvRemainder p _ => if cok s e then - p else 0
  | EvAllocate f _ => if cok s e then f else 0
  | EvMove a b x => if cok s e then (match b with ADistr => x | _ => 0 end) - (match a with ADistr => x | _ => 0 end) else 0
  | _ => 0
  end.

Fixpoint csum (f : cst -> cev -> Z) (evs : list cev) (s : cst) : Z :=
  match evs with
  | [] => 0
  | e :: r => f s e + csum f r (cstep s e)
  end.

Lemma cstep_accounting s e :
  let s' := cstep s e in
  c_supply s' = c_supply s + ce_mint s e - ce_plain s e /\
  c_pool s' = c_pool s + (ce_red s e + ce_fund s e - ce_spend s e) * dec_unit + ce_rem s e /\
  c_distr s' = c_distr s + ce_red s e + ce_fund s e - ce_spend s e + ce_distr_other s e.
Proof.
  cbn zeta. unfold cstep, ce_mint, ce_plain, ce_red, ce_fund, ce_spend, ce_rem, ce_distr_other.
  destruct (cok s e) eqn:Hok; [|destruct e; cbn [andb]; repeat split; lia].
  destruct e as [m x|y|z|p r|f c|x|a b x|]; cbn [andb capply].
  - destruct (redirected m); csimp; repeat split; lia.
  - csimp; repeat split; lia.
  - csimp; repeat split; lia.
  - csimp; repeat split; lia.
  - csimp; repeat split; lia.
  - cbn [c_supply c_pool c_distr]; repeat split; lia.
  - destruct a, b; csimp; repeat split; lia.
  - repeat split; lia.
Qed.

(** over ALL sequences, from any state *)
Lemma crun_accounting evs : forall s,
  c_supply (crun evs s) = c_supply s + csum ce_mint evs s - csum ce_plain evs s /\
  c_pool (crun evs s) = c_pool s + (csum ce_red evs s + csum ce_fund evs s - csum ce_spend evs s) * 10 ^ 18
                        + csum ce_rem evs s /\
  c_distr (crun evs s) = c_distr s + csum ce_red evs s + csum ce_fund evs s - csum ce_spend evs s
                         + csum ce_distr_other evs s.
Proof.
  induction evs as [|e r IH]; intros s; cbn [crun fold_left csum]; [lia|].
  fold (crun r (cstep s e)). destruct (IH (cstep s e)) as (H1 & H2 & H3).
  destruct (cstep_accounting s e) as (G1 & G2 & G3). cbn zeta in *. unfold dec_unit in *.
  rewrite H1, H2, H3, G1, G2, G3. lia.
Qed.

Lemma crun_supply evs s :
  c_supply (crun evs s) = c_supply s + csum ce_mint evs s - csum ce_plain evs s.
Proof. apply crun_accounting. Qed.

Lemma crun_pool evs s :
  c_pool (crun evs s) = c_pool s + (csum ce_red evs s + csum ce_fund evs s - csum ce_spend evs s) * 10 ^ 18
                        + csum ce_rem evs s.
Proof. apply crun_accounting. Qed.

Lemma crun_distr evs s :
  c_distr (crun evs s) = c_distr s + csum ce_red evs s + csum ce_fund evs s - csum ce_spend evs s
                         + csum ce_distr_other evs s.
Proof. apply crun_accounting. Qed.

(** no ordinary burn and no mint in the sequence: the supply is untouched *)
Definition no_supply_event (e : cev) : Prop :=
  match e with EvBurn m _ => redirected m = true | EvMint _ => False | _ => True end.

Lemma crun_supply_unchanged evs : Forall no_supply_event evs -> forall s, c_supply (crun evs s) = c_supply s.
Proof.
  induction 1 as [|e r He _ IH]; intros s; cbn [crun fold_left]; [done|].
  fold (crun r (cstep s e)). rewrite IH. destruct (cstep_accounting s e) as (G1 & _). cbn zeta in G1. rewrite G1.
  unfold ce_mint, ce_plain. destruct e as [m x| | | | | | |]; cbn in He; try lia; try done.
  rewrite He. cbn [negb]. rewrite andb_false_r. lia.
Qed.

(** when every event goes through, the sums do not depend on the states, hence
    not on the order *)
Fixpoint all_ok (evs : list cev) (s : cst) : Prop :=
  match evs with
  | [] => True
  | e :: r => cok s e = true /\ all_ok r (cstep s e)
  end.

Definition pool_booking (e : cev) : Z :=      (* 10^-18 units *)
  match e with
  | EvBurn m x => if redirected m then x * 10 ^ 18 else 0
  | EvFund y => y * 10 ^ 18
  | EvSpend z => - (z * 10 ^ 18)
  | EvRemainder _ r => r
  | EvAllocate _ c => c
  | _ => 0
  end.
Fixpoint pool_bookings (evs : list cev) : Z :=
  match evs with [] => 0 | e :: r => pool_booking e + pool_bookings r end.

Lemma crun_pool_all_ok evs : forall s, all_ok evs s -> c_pool (crun evs s) = c_pool s + pool_bookings evs.
Proof.
  induction evs as [|e r IH]; intros s Hok; cbn [crun fold_left pool_bookings]; [lia|].
  destruct Hok as [Hk Hr]. fold (crun r (cstep s e)). rewrite (IH _ Hr).
  destruct (cstep_accounting s e) as (_ & G2 & _). cbn zeta in G2. rewrite G2.
  unfold ce_red, ce_fund, ce_spend, ce_rem, pool_booking, dec_unit. rewrite Hk.
  destruct e as [m x| | | | | | |]; cbn [andb]; try lia. destruct (redirected m); lia.
Qed.

Lemma pool_bookings_perm evs evs' : Permutation evs evs' -> pool_bookings evs = pool_bookings evs'.
Proof.
  induction 1; cbn [pool_bookings]; lia.
Qed.

Lemma crun_pool_any_interleaving evs evs' s :
  Permutation evs evs' -> all_ok evs s -> all_ok evs' s -> c_pool (crun evs' s) = c_pool (crun evs s).
Proof.
  intros Hp H1 H2. rewrite (crun_pool_all_ok _ _ H1), (crun_pool_all_ok _ _ H2), (pool_bookings_perm _ _ Hp). done.
Qed.

(** the distribution account covers the community pool and the outstanding
    rewards (the crisis invariant of x/distribution, as an inequality) *)
Definition covered (s : cst) : Prop := 0 <= c_out s /\ c_pool s + c_out s <= c_distr s * 10 ^ 18.
Definition no_distr_move_out (e : cev) : Prop := match e with EvMove ADistr _ _ => False | _ => True end.

Lemma cstep_covered s e : no_distr_move_out e -> covered s -> covered (cstep s e).
Proof.
  unfold covered, cstep. intros He [H0 H1]. destruct (cok s e) eqn:Hok; [|done].
  destruct e as [m x|y|z|p r|f c|x|a b x|]; cbn [cok capply] in *.
  - destruct (redirected m); csimp; unfold dec_unit in *;
      repeat (apply andb_prop in Hok; destruct Hok as [Hok ?]); lia.
  - csimp. unfold dec_unit in *.
    repeat (apply andb_prop in Hok; destruct Hok as [Hok ?]). lia.
  - csimp. unfold dec_unit in *.
    repeat (apply andb_prop in Hok; destruct Hok as [Hok ?]). lia.
  - csimp. unfold dec_unit in *.
    repeat (apply andb_prop in Hok; destruct Hok as [Hok ?]). lia.
  - csimp. unfold dec_unit in *.
    repeat (apply andb_prop in Hok; destruct Hok as [Hok ?]). lia.
  - cbn [c_out c_pool c_distr]. lia.
  - destruct a; [|done|]; destruct b; csimp;
      repeat (apply andb_prop in Hok; destruct Hok as [Hok ?]); lia.
  - done.
Qed.

Lemma crun_covered evs : Forall no_distr_move_out evs -> forall s, covered s -> covered (crun evs s).
Proof.
  induction 1 as [|e r He _ IH]; intros s Hi; cbn [crun fold_left]; [done|].
  apply IH. by apply cstep_covered.
Qed.

Lemma covered_pool_le_distr s : covered s -> c_pool s <= c_distr s * 10 ^ 18.
Proof. unfold covered. lia. Qed.

Lemma crun_covers_pool evs : Forall no_distr_move_out evs -> forall s, covered s ->
  covered (crun evs s) /\ c_pool (crun evs s) <= c_distr (crun evs s) * 10 ^ 18.
Proof. intros H s Hc. pose proof (crun_covered evs H s Hc). split; [done|]. by apply covered_pool_le_distr. Qed.

(** supply = sum of the three groups of balances *)
Definition csupply_inv (s : cst) : Prop := c_supply s = c_src s + c_distr s + c_other s.
Lemma cstep_supply_inv s e : csupply_inv s -> csupply_inv (cstep s e).
Proof.
  unfold csupply_inv, cstep. intros Hi. destruct (cok s e); [|done].
  destruct e as [m x|y|z|p r|f c|x|a b x|]; cbn [capply].
  - destruct (redirected m); csimp; lia.
  - csimp; lia.
  - csimp; lia.
  - csimp; lia.
  - csimp; lia.
  - cbn [c_supply c_src c_distr c_other]; lia.
  - destruct a, b; csimp; lia.
  - done.
Qed.
Lemma crun_supply_inv evs : forall s, csupply_inv s -> csupply_inv (crun evs s).
Proof.
  induction evs as [|e r IH]; intros s Hi; cbn [crun fold_left]; [done|]. apply IH. by apply cstep_supply_inv.
Qed.

(** ** the memoising variant loses what others book between two redirected burns of one height *)
Definition ex_cst : cst := mkcst 100000 (5 * 10 ^ 18) 12 (6 * 10 ^ 18 + 250) 5000 94988.
Definition ex_kst : kst := mkkst ex_cst 7 None.

(** slash 100; MsgFundCommunityPool 777; deposit burn 400 -- one height *)
Definition ex_one_block : list cev := [redirected_burn 100; EvFund 777; EvBurn GOV 400].
(** one slash: burn of an unbonding entry, the hook of Unbond books a remainder, burn of the redelegated stake *)
Definition ex_one_slash : list cev := [EvBurn NOTBONDED 30; EvRemainder 2 250; EvBurn BONDED 70].

Example ex_seq_faithful :
  covered ex_cst /\ csupply_inv ex_cst /\ all_ok ex_one_block ex_cst /\ all_ok ex_one_slash ex_cst /\
  crun ex_one_block ex_cst = mkcst 100000 (1282 * 10 ^ 18) 1289 (6 * 10 ^ 18 + 250) 4500 94211 /\
  crun ex_one_slash ex_cst = mkcst 100000 (105 * 10 ^ 18 + 250) 110 (4 * 10 ^ 18) 4900 94990.
Proof. vm_compute. repeat split; congruence. Qed.

Example memo_loses_interleaved_fund :
  let s := crun ex_one_block ex_cst in
  let s' := k_st (krun ex_one_block ex_kst) in
  c_pool s = c_pool ex_cst + (100 + 777 + 400) * 10 ^ 18 /\
  c_pool s' = c_pool ex_cst + (100 + 400) * 10 ^ 18 /\
  c_supply s' = c_supply s /\ c_distr s' = c_distr s /\ c_out s' = c_out s /\
  c_distr s' * 10 ^ 18 - (c_pool s' + c_out s') = (c_distr ex_cst * 10 ^ 18 - (c_pool ex_cst + c_out ex_cst)) + 777 * 10 ^ 18.
Proof. vm_compute. repeat split. Qed.

Example memo_loses_hook_remainder :
  let s := crun ex_one_slash ex_cst in
  let s' := k_st (krun ex_one_slash ex_kst) in
  c_pool s = c_pool ex_cst + 100 * 10 ^ 18 + 250 /\
  c_pool s' = c_pool ex_cst + 100 * 10 ^ 18 /\
  c_supply s' = c_supply s /\ c_distr s' = c_distr s /\ c_out s' = c_out s.
Proof. vm_compute. repeat split. Qed.

(** a single redirected burn per height, or several with nothing in between, show nothing *)
Example memo_agrees_across_heights :
  k_st (krun [redirected_burn 100; EvFund 777; EvNextBlock; EvBurn GOV 400] ex_kst)
    = crun [redirected_burn 100; EvFund 777; EvNextBlock; EvBurn GOV 400] ex_cst /\
  k_st (krun [redirected_burn 100; EvBurn GOV 400; EvFund 777] ex_kst)
    = crun [redirected_burn 100; EvBurn GOV 400; EvFund 777] ex_cst.
Proof. vm_compute. split; reflexivity. Qed.

Lemma memo_refuted :
  exists evs k, k_memo k = None /\ covered (k_st k) /\ all_ok evs (k_st k) /\
    Forall (fun e => e <> EvNextBlock) evs /\
    c_pool (k_st (krun evs k)) <> c_pool (crun evs (k_st k)).
Proof.
  exists ex_one_block, ex_kst. split; [done|]. split; [vm_compute; split; congruence|].
  split; [vm_compute; done|]. split; [repeat constructor; discriminate|]. vm_compute. discriminate.
Qed.
