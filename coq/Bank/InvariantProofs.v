(** Proofs about the bank primitives and the Haqq coin operations (property C15). *)
From Coq Require Import ZArith List Lia.
From stdpp Require Import gmap.
From HV Require Import Dao.LedgerModel Dao.LedgerProofs Bank.InvariantModel.
Local Open Scope Z_scope.

(** * the two accounting invariants *)

(** bank "total supply" invariant: per denomination the balances add up to the recorded supply *)
Definition SupplyInv (b : bank) : Prop := forall d, dsum (bal b) d = zget (sup b) d.

(** the part of the distribution "module account" invariant that Haqq's own code touches:
    the module account covers the community pool plus everything still owed *)
Definition DistrInv (s : st) : Prop :=
  forall d, zget (pool s) d + zget (outst s) d <= balance (bk s) M_DISTR d.

Definition NonNeg (b : bank) : Prop := forall a d, 0 <= balance b a d.

(** * credit *)
Lemma coins_of_credit m a d x a' :
  coins_of (credit m a d x) a' = if decide (a = a') then zset (coins_of m a) d (zget (coins_of m a) d + x) else coins_of m a'.
Proof. unfold credit. apply coins_of_set. Qed.

Lemma zget_credit m a d x a' d' :
  zget (coins_of (credit m a d x) a') d' = zget (coins_of m a') d' + (if decide (a = a' /\ d = d') then x else 0).
Proof.
  rewrite coins_of_credit. destruct (decide (a = a')) as [->|Ha].
  - rewrite zget_zset. destruct (decide (d = d')) as [->|Hd].
    + rewrite decide_True by done. lia.
    + rewrite decide_False by (intros [_ ?]; done). lia.
  - rewrite decide_False by (intros [? _]; done). lia.
Qed.

Lemma dsum_credit m a d x d' : dsum (credit m a d x) d' = dsum m d' + (if decide (d = d') then x else 0).
Proof.
  unfold credit. rewrite dsum_set, zget_zset. destruct (decide (d = d')) as [->|]; lia.
Qed.

(** * primitives: exact effect *)
Lemma send_spec b a c d x b' : b_send b a c d x = Some b' ->
  0 <= x /\ x <= balance b a d /\ sup b' = sup b /\
  forall a' d', balance b' a' d' = balance b a' d'
     - (if decide (a = a' /\ d = d') then x else 0) + (if decide (c = a' /\ d = d') then x else 0).
Proof.
  unfold b_send. destruct (Z.ltb_spec x 0); [discriminate|].
  destruct (Z.ltb_spec (balance b a d) x); [discriminate|]. intros H'; inversion H'; subst b'; clear H'.
  split; [lia|]. split; [lia|]. split; [done|]. intros a' d'. unfold balance. cbn [bal].
  rewrite !zget_credit. destruct (decide (a = a' /\ d = d')), (decide (c = a' /\ d = d')); lia.
Qed.

Lemma mint_spec b m d x b' : b_mint b m d x = Some b' ->
  0 <= x /\ (forall d', zget (sup b') d' = zget (sup b) d' + (if decide (d = d') then x else 0)) /\
  forall a' d', balance b' a' d' = balance b a' d' + (if decide (m = a' /\ d = d') then x else 0).
Proof.
  unfold b_mint. destruct (Z.ltb_spec x 0); [discriminate|]. intros H'; inversion H'; subst b'; clear H'.
  split; [lia|]. split.
  - intros d'. cbn [sup]. rewrite zget_zset. destruct (decide (d = d')) as [->|]; lia.
  - intros a' d'. unfold balance. cbn [bal]. apply zget_credit.
Qed.

Lemma burn_spec b m d x b' : b_burn b m d x = Some b' ->
  0 <= x /\ x <= balance b m d /\
  (forall d', zget (sup b') d' = zget (sup b) d' - (if decide (d = d') then x else 0)) /\
  forall a' d', balance b' a' d' = balance b a' d' - (if decide (m = a' /\ d = d') then x else 0).
Proof.
  unfold b_burn. destruct (Z.ltb_spec x 0); [discriminate|].
  destruct (Z.ltb_spec (balance b m d) x); [discriminate|]. intros H'; inversion H'; subst b'; clear H'.
  split; [lia|]. split; [lia|]. split.
  - intros d'. cbn [sup]. rewrite zget_zset. destruct (decide (d = d')) as [->|]; lia.
  - intros a' d'. unfold balance. cbn [bal]. rewrite zget_credit. destruct (decide (m = a' /\ d = d')); lia.
Qed.

(** * each primitive preserves "sum of balances = supply" *)
Lemma send_preserves_supply_inv b a c d x b' : b_send b a c d x = Some b' -> SupplyInv b -> SupplyInv b'.
Proof.
  unfold b_send. destruct (x <? 0); [discriminate|]. destruct (balance b a d <? x); [discriminate|].
  intros H' I; inversion H'; subst b'; clear H'. intros d'. cbn [bal sup]. rewrite !dsum_credit, <- (I d').
  destruct (decide (d = d')); lia.
Qed.

Lemma mint_preserves_supply_inv b m d x b' : b_mint b m d x = Some b' -> SupplyInv b -> SupplyInv b'.
Proof.
  unfold b_mint. destruct (x <? 0); [discriminate|]. intros H' I; inversion H'; subst b'; clear H'.
  intros d'. cbn [bal sup]. rewrite dsum_credit, zget_zset, <- (I d), <- (I d').
  destruct (decide (d = d')) as [->|]; lia.
Qed.

Lemma burn_preserves_supply_inv b m d x b' : b_burn b m d x = Some b' -> SupplyInv b -> SupplyInv b'.
Proof.
  unfold b_burn. destruct (x <? 0); [discriminate|]. destruct (balance b m d <? x); [discriminate|].
  intros H' I; inversion H'; subst b'; clear H'.
  intros d'. cbn [bal sup]. rewrite dsum_credit, zget_zset, <- (I d), <- (I d').
  destruct (decide (d = d')) as [->|]; lia.
Qed.

(** ... and never makes a balance negative *)
Lemma send_preserves_nonneg b a c d x b' : b_send b a c d x = Some b' -> NonNeg b -> NonNeg b'.
Proof.
  intros H' I a' d'. destruct (send_spec _ _ _ _ _ _ H') as (Hx & Hle & _ & E). rewrite E.
  specialize (I a' d'). destruct (decide (a = a' /\ d = d')) as [[Ha Hd]|], (decide (c = a' /\ d = d')); subst; lia.
Qed.
Lemma mint_preserves_nonneg b m d x b' : b_mint b m d x = Some b' -> NonNeg b -> NonNeg b'.
Proof.
  intros H' I a' d'. destruct (mint_spec _ _ _ _ _ H') as (Hx & _ & E). rewrite E.
  specialize (I a' d'). destruct (decide (m = a' /\ d = d')); lia.
Qed.
Lemma burn_preserves_nonneg b m d x b' : b_burn b m d x = Some b' -> NonNeg b -> NonNeg b'.
Proof.
  intros H' I a' d'. destruct (burn_spec _ _ _ _ _ H') as (Hx & Hle & _ & E). rewrite E.
  specialize (I a' d'). destruct (decide (m = a' /\ d = d')) as [[Ha Hd]|]; subst; lia.
Qed.

(** * lifting to the chain state *)
Definition SInv (s : st) : Prop := SupplyInv (bk s) /\ NonNeg (bk s).

Lemma s_send_inv s a c d x s' : s_send s a c d x = Some s' -> SInv s -> SInv s'.
Proof.
  unfold s_send. intros H' [I1 I2]. apply bind_Some in H' as (b & Hb & E). inversion E; subst s'. cbn.
  split; [eapply send_preserves_supply_inv | eapply send_preserves_nonneg]; eauto.
Qed.
Lemma s_mint_inv s m d x s' : s_mint s m d x = Some s' -> SInv s -> SInv s'.
Proof.
  unfold s_mint. intros H' [I1 I2]. apply bind_Some in H' as (b & Hb & E). inversion E; subst s'. cbn.
  split; [eapply mint_preserves_supply_inv | eapply mint_preserves_nonneg]; eauto.
Qed.
Lemma s_burn_inv s m d x s' : s_burn s m d x = Some s' -> SInv s -> SInv s'.
Proof.
  unfold s_burn. intros H' [I1 I2]. apply bind_Some in H' as (b & Hb & E). inversion E; subst s'. cbn.
  split; [eapply burn_preserves_supply_inv | eapply burn_preserves_nonneg]; eauto.
Qed.

Lemma haqq_burn_inv s m d x s' : haqq_burn s m d x = Some s' -> SInv s -> SInv s'.
Proof.
  unfold haqq_burn. destruct (redirected m).
  - intros H' I. apply bind_Some in H' as (s1 & H1 & E). inversion E; subst s'.
    apply (s_send_inv _ _ _ _ _ _ H1) in I. exact I.
  - apply s_burn_inv.
Qed.

Lemma s_send_coins_inv cs : forall s a c s', s_send_coins s a c cs = Some s' -> SInv s -> SInv s'.
Proof.
  induction cs as [|[d x] r IH]; intros s a c s' H' I; cbn [s_send_coins] in H'.
  - inversion H'; subst; exact I.
  - apply bind_Some in H' as (s1 & H1 & H2). eapply IH; [exact H2|]. eapply s_send_inv; eauto.
Qed.
Lemma s_burn_coins_inv cs : forall s m s', s_burn_coins s m cs = Some s' -> SInv s -> SInv s'.
Proof.
  induction cs as [|[d x] r IH]; intros s m s' H' I; cbn [s_burn_coins] in H'.
  - inversion H'; subst; exact I.
  - apply bind_Some in H' as (s1 & H1 & H2). eapply IH; [exact H2|]. eapply s_burn_inv; eauto.
Qed.
Lemma haqq_burn_coins_inv s m cs s' : haqq_burn_coins s m cs = Some s' -> SInv s -> SInv s'.
Proof.
  unfold haqq_burn_coins. destruct (valid_coins cs); [|discriminate]. cbn [negb]. destruct (redirected m).
  - intros H' I. apply bind_Some in H' as (s1 & H1 & E). inversion E; subst s'.
    apply (s_send_coins_inv _ _ _ _ _ H1) in I. exact I.
  - apply s_burn_coins_inv.
Qed.

Ltac step_inv :=
  repeat match goal with
  | H : (_ ≫= _) = Some _ |- _ => apply bind_Some in H as (? & ? & H)
  | H : s_send ?s _ _ _ _ = Some _, I : SInv ?s |- _ => apply (s_send_inv _ _ _ _ _ _ H) in I; clear H
  | H : s_mint ?s _ _ _ = Some _, I : SInv ?s |- _ => apply (s_mint_inv _ _ _ _ _ H) in I; clear H
  | H : s_burn ?s _ _ _ = Some _, I : SInv ?s |- _ => apply (s_burn_inv _ _ _ _ _ H) in I; clear H
  | H : haqq_burn ?s _ _ _ = Some _, I : SInv ?s |- _ => apply (haqq_burn_inv _ _ _ _ _ H) in I; clear H
  | H : haqq_burn_coins ?s _ _ = Some _, I : SInv ?s |- _ => apply (haqq_burn_coins_inv _ _ _ _ H) in I; clear H
  | H : Some _ = Some _ |- _ => inversion H; subst; clear H
  end.

(** every Haqq operation is a composition of primitives, hence preserves the invariant *)
Lemma hstep_inv s o s' : hstep s o = Some s' -> SInv s -> SInv s'.
Proof.
  destruct o; cbn [hstep]; intros H' I.
  - step_inv; exact I.
  - step_inv; exact I.
  - step_inv; exact I.
  - step_inv; exact I.
  - step_inv; exact I.
  - step_inv; exact I.
  - step_inv; exact I.
  - step_inv; exact I.
  - destruct native; step_inv; exact I.
  - destruct native; step_inv; exact I.
  - destruct (balance (bk s) a BASE <? v); [step_inv; exact I|].
    destruct (v <? balance (bk s) a BASE); step_inv; exact I.
Qed.

Lemma hstep_total_inv s o : SInv s -> SInv (hstep_total s o).
Proof.
  unfold hstep_total. destruct (hstep s o) as [s'|] eqn:E; cbn; [|done]. eauto using hstep_inv.
Qed.

Lemma run_inv ops : forall s, SInv s -> SInv (run ops s).
Proof.
  induction ops as [|o r IH]; intros s I; cbn; [done|]. apply IH, hstep_total_inv, I.
Qed.

Theorem haqq_ops_preserve_supply_inv ops s :
  SupplyInv (bk s) -> NonNeg (bk s) -> SupplyInv (bk (run ops s)) /\ NonNeg (bk (run ops s)).
Proof. intros I1 I2. exact (run_inv ops s (conj I1 I2)). Qed.

(** * the redirected burn *)
Lemma s_send_frame s a c d x s' : s_send s a c d x = Some s' -> pool s' = pool s /\ outst s' = outst s.
Proof. unfold s_send. intros H'. apply bind_Some in H' as (b & _ & E). inversion E; done. Qed.

(** exact effect: supply untouched, the module pays x, the distribution account and the community pool receive x *)
Theorem redirect_exact s m d x s' : redirected m = true -> m <> M_DISTR -> haqq_burn s m d x = Some s' ->
  sup (bk s') = sup (bk s) /\
  (forall d', zget (pool s') d' = zget (pool s) d' + (if decide (d = d') then x else 0)) /\
  outst s' = outst s /\
  (forall a' d', balance (bk s') a' d' = balance (bk s) a' d'
      - (if decide (m = a' /\ d = d') then x else 0) + (if decide (M_DISTR = a' /\ d = d') then x else 0)) /\
  0 <= x <= balance (bk s) m d.
Proof.
  unfold haqq_burn. intros -> Hm H'. apply bind_Some in H' as (s1 & H1 & E). inversion E; subst s'; clear E. cbn.
  pose proof (s_send_frame _ _ _ _ _ _ H1) as [Hp Ho]. unfold s_send in H1.
  apply bind_Some in H1 as (b & Hb & E). inversion E; subst s1; clear E. cbn in *.
  destruct (send_spec _ _ _ _ _ _ Hb) as (Hx & Hle & Hs & Hbal).
  split; [done|]. split.
  - intros d'. rewrite zget_zset. destruct (decide (d = d')) as [->|]; lia.
  - split; [done|]. split; [exact Hbal|lia].
Qed.

Theorem redirect_preserves_distr_account_inv s m d x s' :
  redirected m = true -> haqq_burn s m d x = Some s' -> DistrInv s -> DistrInv s'.
Proof.
  intros Hr H' I d'.
  assert (Hm : m <> M_DISTR) by (intros ->; vm_compute in Hr; discriminate).
  destruct (redirect_exact _ _ _ _ _ Hr Hm H') as (_ & Hp & Ho & Hb & Hx).
  rewrite Hp, Ho, Hb. specialize (I d'). unfold M_DISTR in *.
  destruct (decide (d = d')) as [->|Hd].
  - rewrite (decide_True (P := 101%N = 101%N /\ d' = d')) by done.
    rewrite (decide_False (P := m = 101%N /\ d' = d')) by (intros [? _]; done). lia.
  - rewrite (decide_False (P := 101%N = 101%N /\ d = d')) by (intros [_ ?]; done).
    rewrite (decide_False (P := m = 101%N /\ d = d')) by (intros [_ ?]; done). lia.
Qed.

(** ** the same for a coin LIST (a governance deposit in several denominations) *)
Lemma nodupb_NoDup l : nodupb l = true -> NoDup l.
Proof.
  induction l as [|a l IH]; cbn; [constructor|]. intros H'. apply andb_prop in H' as [H1 H2].
  apply NoDup_cons. split; [|auto]. intros Hin. apply negb_true_iff in H1.
  assert (existsb (N.eqb a) l = true) as E; [|congruence].
  apply existsb_exists. exists a. split; [by apply elem_of_list_In|apply N.eqb_refl].
Qed.

Lemma valid_coins_spec cs : valid_coins cs = true ->
  NoDup (map fst cs) /\ forall d x, In (d, x) cs -> 0 < x.
Proof.
  unfold valid_coins. intros H'. apply andb_prop in H' as [H1 H2]. split; [by apply nodupb_NoDup|].
  intros d x Hin. rewrite forallb_forall in H1. specialize (H1 _ Hin). cbn in H1. lia.
Qed.

Lemma amount_of_nil d : amount_of [] d = 0.
Proof. reflexivity. Qed.
Lemma amount_of_cons d x r d' : amount_of ((d, x) :: r) d' = (if decide (d = d') then x else 0) + amount_of r d'.
Proof. reflexivity. Qed.
Global Arguments amount_of : simpl never.

Lemma amount_of_notin cs d : ~ In d (map fst cs) -> amount_of cs d = 0.
Proof.
  induction cs as [|[d0 x0] r IH]; intros Hn; [apply amount_of_nil|]. rewrite amount_of_cons. cbn in Hn.
  rewrite decide_False by (intros ->; apply Hn; by left). rewrite IH; [lia|]. intros ?; apply Hn; by right.
Qed.

(** with no denomination twice, AmountOf is the amount written in the list *)
Lemma amount_of_in cs d x : NoDup (map fst cs) -> In (d, x) cs -> amount_of cs d = x.
Proof.
  induction cs as [|[d0 x0] r IH]; intros Hnd Hin; [destruct Hin|]. cbn [map fst] in Hnd.
  apply NoDup_cons in Hnd as [Hn Hnd]. rewrite amount_of_cons. destruct Hin as [E|Hin].
  - inversion E; subst. rewrite decide_True by done. rewrite amount_of_notin; [lia|].
    intros Hin. apply Hn. by apply elem_of_list_In.
  - rewrite decide_False.
    + rewrite (IH Hnd Hin). lia.
    + intros ->. apply Hn. apply elem_of_list_In. apply (in_map fst _ _ Hin).
Qed.

Lemma pool_add_spec cs : forall p d, zget (pool_add p cs) d = zget p d + amount_of cs d.
Proof.
  induction cs as [|[d0 x0] r IH]; intros p d; [rewrite amount_of_nil; cbn; lia|]. rewrite amount_of_cons.
  unfold pool_add in *. cbn [fold_left fst snd]. rewrite IH, zget_zset. destruct (decide (d0 = d)) as [->|]; lia.
Qed.

(** sending a coin list between two different accounts: per denomination exactly AmountOf moves,
    every written amount is non-negative and (no denomination twice) covered by the sender *)
Lemma s_send_coins_spec cs : forall s a c s', a <> c -> s_send_coins s a c cs = Some s' ->
  pool s' = pool s /\ outst s' = outst s /\ sup (bk s') = sup (bk s) /\
  (forall a' d', balance (bk s') a' d' = balance (bk s) a' d'
      - (if decide (a = a') then amount_of cs d' else 0) + (if decide (c = a') then amount_of cs d' else 0)) /\
  (forall d x, In (d, x) cs -> 0 <= x) /\
  (NoDup (map fst cs) -> forall d x, In (d, x) cs -> x <= balance (bk s) a d).
Proof.
  induction cs as [|[d x] r IH]; intros s a c s' Hac H'; cbn [s_send_coins] in H'.
  - inversion H'; subst s'. split; [done|]. split; [done|]. split; [done|]. split; [|split].
    + intros a' d'. rewrite amount_of_nil. destruct (decide (a = a')), (decide (c = a')); lia.
    + intros ? ? [].
    + intros _ ? ? [].
  - apply bind_Some in H' as (s1 & H1 & H2). destruct (IH _ _ _ _ Hac H2) as (Hp & Ho & Hs & Hb & Hx & Hle).
    pose proof (s_send_frame _ _ _ _ _ _ H1) as [Hp1 Ho1]. unfold s_send in H1.
    apply bind_Some in H1 as (b & Hb1 & E). inversion E; subst s1; clear E. cbn in *.
    destruct (send_spec _ _ _ _ _ _ Hb1) as (Hx1 & Hle1 & Hs1 & Hbal1).
    split; [congruence|]. split; [congruence|]. split; [congruence|]. split; [|split].
    + intros a' d'. rewrite Hb, Hbal1, amount_of_cons.
      destruct (decide (d = d')) as [->|Hd]; destruct (decide (a = a')) as [->|Ha]; destruct (decide (c = a')) as [->|Hc];
        repeat (first [rewrite decide_True by done | rewrite decide_False by (intros [? ?]; done)]); try lia; done.
    + intros d0 x0 [E|Hin]; [inversion E; subst; lia|eauto].
    + intros Hnd d0 x0 [E|Hin]; [inversion E; subst; exact Hle1|].
      apply NoDup_cons in Hnd as [Hn Hnd]. specialize (Hle Hnd _ _ Hin). rewrite Hbal1 in Hle.
      assert (d <> d0) as Hd by (intros ->; apply Hn; apply elem_of_list_In; apply (in_map fst _ _ Hin)).
      rewrite (decide_False (P := a = a /\ d = d0)) in Hle by (intros [_ ?]; done).
      rewrite (decide_False (P := c = a /\ d = d0)) in Hle by (intros [_ ?]; done). lia.
Qed.

(** exact effect of the redirected burn of a coin list: supply untouched; in EVERY denomination the
    module pays AmountOf, the distribution account and the community pool receive AmountOf *)
Theorem redirect_coins_exact s m cs s' : redirected m = true -> m <> M_DISTR -> haqq_burn_coins s m cs = Some s' ->
  sup (bk s') = sup (bk s) /\
  (forall d', zget (pool s') d' = zget (pool s) d' + amount_of cs d') /\
  outst s' = outst s /\
  (forall a' d', balance (bk s') a' d' = balance (bk s) a' d'
      - (if decide (m = a') then amount_of cs d' else 0) + (if decide (M_DISTR = a') then amount_of cs d' else 0)) /\
  NoDup (map fst cs) /\
  (forall d x, In (d, x) cs -> amount_of cs d = x /\ 0 < x <= balance (bk s) m d).
Proof.
  unfold haqq_burn_coins. intros -> Hm H'. destruct (valid_coins cs) eqn:Hv; [|discriminate]. cbn [negb] in H'.
  apply valid_coins_spec in Hv as [Hnd Hpos].
  apply bind_Some in H' as (s1 & H1 & E). inversion E; subst s'; clear E. cbn.
  destruct (s_send_coins_spec _ _ _ _ _ Hm H1) as (Hp & Ho & Hs & Hb & _ & Hle).
  split; [done|]. split; [|split; [done|split; [exact Hb|split; [exact Hnd|]]]].
  - intros d'. rewrite pool_add_spec, Hp. done.
  - intros d x Hin. split; [by apply amount_of_in|]. split; [eauto|]. by apply Hle.
Qed.

Theorem redirect_coins_preserves_distr_account_inv s m cs s' :
  redirected m = true -> haqq_burn_coins s m cs = Some s' -> DistrInv s -> DistrInv s'.
Proof.
  intros Hr H' I d'.
  assert (Hm : m <> M_DISTR) by (intros ->; vm_compute in Hr; discriminate).
  destruct (redirect_coins_exact _ _ _ _ Hr Hm H') as (_ & Hp & Ho & Hb & _).
  rewrite Hp, Ho, Hb. specialize (I d').
  rewrite (decide_False (P := m = M_DISTR)) by done. rewrite (decide_True (P := M_DISTR = M_DISTR)) by done. lia.
Qed.

(** a coin list burnt from any other module: the supply of every denomination shrinks by AmountOf *)
Lemma s_burn_coins_spec cs : forall s m s', s_burn_coins s m cs = Some s' ->
  pool s' = pool s /\ outst s' = outst s /\
  (forall d', zget (sup (bk s')) d' = zget (sup (bk s)) d' - amount_of cs d') /\
  (forall a' d', balance (bk s') a' d' = balance (bk s) a' d' - (if decide (m = a') then amount_of cs d' else 0)).
Proof.
  induction cs as [|[d x] r IH]; intros s m s' H'; cbn [s_burn_coins] in H'.
  - inversion H'; subst s'. split; [done|]. split; [done|]. split.
    + intros d'. rewrite amount_of_nil. lia.
    + intros a' d'. rewrite amount_of_nil. destruct (decide (m = a')); lia.
  - apply bind_Some in H' as (s1 & H1 & H2). destruct (IH _ _ _ H2) as (Hp & Ho & Hs & Hb).
    unfold s_burn in H1. apply bind_Some in H1 as (b & Hb1 & E). inversion E; subst s1; clear E. cbn in *.
    destruct (burn_spec _ _ _ _ _ Hb1) as (_ & _ & Hs1 & Hbal1).
    split; [done|]. split; [done|]. split.
    + intros d'. rewrite Hs, Hs1, amount_of_cons. lia.
    + intros a' d'. rewrite Hb, Hbal1, amount_of_cons.
      destruct (decide (d = d')) as [->|Hd]; destruct (decide (m = a')) as [->|Ha];
        repeat (first [rewrite decide_True by done | rewrite decide_False by (intros [? ?]; done)]); lia.
Qed.

Theorem plain_burn_coins_exact s m cs s' : redirected m = false -> haqq_burn_coins s m cs = Some s' ->
  (forall d', zget (sup (bk s')) d' = zget (sup (bk s)) d' - amount_of cs d') /\
  pool s' = pool s /\ outst s' = outst s.
Proof.
  unfold haqq_burn_coins. intros -> H'. destruct (valid_coins cs); [|discriminate]. cbn [negb] in H'.
  destruct (s_burn_coins_spec _ _ _ _ H') as (Hp & Ho & Hs & _). done.
Qed.

(** an ordinary burn elsewhere reduces the supply by exactly x *)
Theorem plain_burn_exact s m d x s' : redirected m = false -> haqq_burn s m d x = Some s' ->
  (forall d', zget (sup (bk s')) d' = zget (sup (bk s)) d' - (if decide (d = d') then x else 0)) /\
  pool s' = pool s /\ outst s' = outst s.
Proof.
  unfold haqq_burn. intros -> H'. unfold s_burn in H'. apply bind_Some in H' as (b & Hb & E).
  inversion E; subst s'; clear E. cbn. destruct (burn_spec _ _ _ _ _ Hb) as (_ & _ & Hs & _). done.
Qed.

(** Every Haqq operation that does not debit the distribution account keeps it able to pay:
    the slack  balance(distribution) - (community pool + outstanding)  never shrinks. *)
Definition debits_distr (o : hop) : bool :=
  match o with
  | HSend a _ _ _ | HDaoFund a _ _ | HRedeem a _ _ _ _ | HConvertCoin a _ _ _ | HSetBalance a _ => N.eqb a M_DISTR
  | HBurn m _ _ | HBurnCoins m _ => N.eqb m M_DISTR
  | HLiquidate a c _ _ => N.eqb a M_DISTR || N.eqb c M_DISTR
  | HMint _ _ _ | HCoinomicsMint _ | HConvertERC20 _ _ _ _ => false
  end.

Definition Keeps (s s' : st) : Prop :=
  forall d, zget (pool s') d + zget (outst s') d - balance (bk s') M_DISTR d
            <= zget (pool s) d + zget (outst s) d - balance (bk s) M_DISTR d.

Lemma keeps_refl s : Keeps s s. Proof. intros d. lia. Qed.
Lemma keeps_trans s1 s2 s3 : Keeps s1 s2 -> Keeps s2 s3 -> Keeps s1 s3.
Proof. intros H1 H2 d. specialize (H1 d). specialize (H2 d). lia. Qed.

Lemma s_send_keeps s a c d x s' : a <> M_DISTR -> s_send s a c d x = Some s' -> Keeps s s'.
Proof.
  intros Ha H'. pose proof (s_send_frame _ _ _ _ _ _ H') as [Hp Ho]. unfold s_send in H'.
  apply bind_Some in H' as (b & Hb & E). inversion E; subst s'; clear E. cbn in *.
  destruct (send_spec _ _ _ _ _ _ Hb) as (Hx & _ & _ & Hbal). intros d'. cbn. rewrite Hbal.
  rewrite (decide_False (P := a = M_DISTR /\ d = d')) by (intros [? _]; done).
  destruct (decide (c = M_DISTR /\ d = d')); lia.
Qed.
Lemma s_mint_keeps s m d x s' : s_mint s m d x = Some s' -> Keeps s s'.
Proof.
  unfold s_mint. intros H'. apply bind_Some in H' as (b & Hb & E). inversion E; subst s'; clear E.
  destruct (mint_spec _ _ _ _ _ Hb) as (Hx & _ & Hbal). intros d'. cbn. rewrite Hbal.
  destruct (decide (m = M_DISTR /\ d = d')); lia.
Qed.
Lemma s_burn_keeps s m d x s' : m <> M_DISTR -> s_burn s m d x = Some s' -> Keeps s s'.
Proof.
  unfold s_burn. intros Hm H'. apply bind_Some in H' as (b & Hb & E). inversion E; subst s'; clear E.
  destruct (burn_spec _ _ _ _ _ Hb) as (Hx & _ & _ & Hbal). intros d'. cbn. rewrite Hbal.
  rewrite (decide_False (P := m = M_DISTR /\ d = d')) by (intros [? _]; done). lia.
Qed.
Lemma haqq_burn_keeps s m d x s' : m <> M_DISTR -> haqq_burn s m d x = Some s' -> Keeps s s'.
Proof.
  intros Hm H'. destruct (redirected m) eqn:Hr.
  - destruct (redirect_exact _ _ _ _ _ Hr Hm H') as (_ & Hp & Ho & Hb & Hx). intros d'.
    rewrite Hp, Ho, Hb. rewrite (decide_False (P := m = M_DISTR /\ d = d')) by (intros [? _]; done).
    destruct (decide (d = d')) as [->|Hd].
    + rewrite (decide_True (P := M_DISTR = M_DISTR /\ d' = d')) by done. lia.
    + rewrite (decide_False (P := M_DISTR = M_DISTR /\ d = d')) by (intros [_ ?]; done). lia.
  - unfold haqq_burn in H'. rewrite Hr in H'. eapply s_burn_keeps; eauto.
Qed.

Lemma haqq_burn_coins_keeps s m cs s' : m <> M_DISTR -> haqq_burn_coins s m cs = Some s' -> Keeps s s'.
Proof.
  intros Hm H'. destruct (redirected m) eqn:Hr.
  - destruct (redirect_coins_exact _ _ _ _ Hr Hm H') as (_ & Hp & Ho & Hb & _). intros d'.
    rewrite Hp, Ho, Hb. rewrite (decide_False (P := m = M_DISTR)) by done.
    rewrite (decide_True (P := M_DISTR = M_DISTR)) by done. lia.
  - unfold haqq_burn_coins in H'. rewrite Hr in H'. destruct (valid_coins cs); [|discriminate]. cbn [negb] in H'.
    destruct (s_burn_coins_spec _ _ _ _ H') as (Hp & Ho & _ & Hb). intros d'.
    rewrite Hp, Ho, Hb. rewrite (decide_False (P := m = M_DISTR)) by done. lia.
Qed.

Lemma neqb_ne a : N.eqb a M_DISTR = false -> a <> M_DISTR.
Proof. intros H' ->. rewrite N.eqb_refl in H'. discriminate. Qed.

Ltac keeps_chain :=
  repeat match goal with
  | H : (_ ≫= _) = Some _ |- _ => apply bind_Some in H as (? & ? & H)
  | H : Some _ = Some _ |- _ => inversion H; subst; clear H
  end;
  repeat match goal with
  | H : s_send ?s ?a _ _ _ = Some ?s' |- Keeps ?s _ =>
      apply (keeps_trans _ s'); [eapply s_send_keeps; [|exact H]; first [assumption | by vm_compute]|]; clear H
  | H : s_mint ?s _ _ _ = Some ?s' |- Keeps ?s _ =>
      apply (keeps_trans _ s'); [apply (s_mint_keeps _ _ _ _ _ H)|]; clear H
  | H : s_burn ?s ?m _ _ = Some ?s' |- Keeps ?s _ =>
      apply (keeps_trans _ s'); [eapply s_burn_keeps; [|exact H]; first [assumption | by vm_compute]|]; clear H
  end; try apply keeps_refl.

Lemma hstep_keeps s o s' : debits_distr o = false -> hstep s o = Some s' -> Keeps s s'.
Proof.
  destruct o; cbn [hstep debits_distr]; intros Hd H'.
  - apply neqb_ne in Hd. keeps_chain.
  - keeps_chain.
  - apply neqb_ne in Hd. eapply haqq_burn_keeps; eauto.
  - apply neqb_ne in Hd. eapply haqq_burn_coins_keeps; eauto.
  - keeps_chain.
  - apply neqb_ne in Hd. keeps_chain.
  - apply orb_false_elim in Hd as [Ha Hc]. apply neqb_ne in Ha, Hc. keeps_chain.
  - apply neqb_ne in Hd. keeps_chain.
  - apply neqb_ne in Hd. destruct native; keeps_chain.
  - destruct native; keeps_chain.
  - apply neqb_ne in Hd. destruct (balance (bk s) a BASE <? v); [keeps_chain|].
    destruct (v <? balance (bk s) a BASE); keeps_chain.
Qed.

Lemma keeps_distr_inv s s' : Keeps s s' -> DistrInv s -> DistrInv s'.
Proof. intros K I d. specialize (K d). specialize (I d). lia. Qed.

Theorem haqq_ops_preserve_distr_inv ops : forall s,
  (forall o, In o ops -> debits_distr o = false) -> DistrInv s -> DistrInv (run ops s).
Proof.
  induction ops as [|o r IH]; intros s Hall I; cbn; [done|]. apply IH.
  - intros o' Hin. apply Hall. by right.
  - unfold hstep_total. destruct (hstep s o) as [s'|] eqn:E; cbn; [|done].
    eapply keeps_distr_inv; [|exact I]. eapply hstep_keeps; [|exact E]. apply Hall. by left.
Qed.

(** * the empty chain satisfies the invariants, and loading an observation is well defined *)
Definition st0 : st := mkst (mkbank ∅ ∅) ∅ ∅.
Lemma inv0 : SInv st0.
Proof.
  split.
  - intros d. cbn. unfold dsum. rewrite map_fold_empty. by rewrite zget_empty.
  - intros a d. unfold balance, coins_of. cbn. rewrite lookup_empty. cbn. by rewrite zget_empty.
Qed.
Lemma distr_inv0 : DistrInv st0.
Proof. intros d. unfold balance, coins_of. cbn. rewrite lookup_empty. cbn. rewrite !zget_empty. lia. Qed.

(** non-vacuity: a history in which every kind of operation succeeds *)
Definition demo_ops : list hop :=
  [ HMint M_COINOMICS BASE 1000; HSend M_COINOMICS 1 BASE 1000;      (* fund user 1 *)
    HCoinomicsMint 50; HSend 1 M_BONDED BASE 300; HSend 1 M_GOV BASE 40;
    HBurn M_BONDED BASE 30; HBurn M_GOV BASE 40; HDaoFund 1 BASE 10;
    HLiquidate 1 2 5 100; HRedeem 2 3 5 60 60; HConvertCoin 1 BASE 7 true; HConvertERC20 1 BASE 7 true;
    HConvertERC20 1 9 5 false; HConvertCoin 1 9 5 false; HSetBalance 1 600; HSetBalance 1 100; HBurn M_LV 5 0;
    (* a governance deposit in two denominations, burnt = redirected as a whole *)
    HMint M_COINOMICS 7 20; HSend M_COINOMICS 2 7 20; HSend 2 M_GOV 7 20; HSend 1 M_GOV BASE 15;
    HBurnCoins M_GOV [(BASE, 15%Z); (7, 12%Z)]; HMint M_LV 7 3; HBurnCoins M_LV [(7, 3%Z)] ]%N.

Lemma demo_all_succeed :
  (fix go (s : st) (l : list hop) : bool :=
     match l with [] => true | o :: r => match hstep s o with Some s' => go s' r | None => false end end) st0 demo_ops = true.
Proof. vm_compute. reflexivity. Qed.

Lemma demo_final :
  observe [0; 5; 7; 9]%N (run demo_ops st0) =
  mkobs [(1%N, 0%N, 85); (3%N, 0%N, 60); (M_FEECOLL, 0%N, 50); (M_DISTR, 0%N, 85); (M_DISTR, 7%N, 12); (M_BONDED, 0%N, 270);
         (M_GOV, 7%N, 8); (M_DAO, 0%N, 10); (M_LV, 0%N, 40); (M_ERC20, 5%N, 40)]
        [(0%N, 600); (5%N, 40); (7%N, 20)] [(0%N, 85); (7%N, 12)].
Proof. vm_compute. reflexivity. Qed.

(** the whole list or nothing: a deposit of which one denomination is not covered, a denomination
    written twice, a zero amount: nothing moves *)
Lemma demo_burn_coins_all_or_nothing :
  let s := run demo_ops st0 in
  let rejected (cs : coin_list) := match haqq_burn_coins s M_GOV cs with None => true | Some _ => false end in
  rejected [(7%N, 8); (BASE, 1)] = true /\ rejected [(7%N, 2); (7%N, 2)] = true /\ rejected [(7%N, 0)] = true /\
  option_map (fun s' => (zget (pool s') 7%N, balance (bk s') M_DISTR 7%N, balance (bk s') M_GOV 7%N))
             (haqq_burn_coins s M_GOV [(7%N, 8)]) = Some (20, 20, 0).
Proof. vm_compute. repeat split; reflexivity. Qed.

(** * user level: signed sends, the ERC20 parameter, blocked addresses *)

(** the rule: a send to a blocked address is refused in every state, under both values of the flag *)
Lemma send_to_blocked_rejected u a c d x paired conv : blocked c = true -> ustep u (UMsgSend a c d x paired conv) = None.
Proof. intros Hc. cbn [ustep]. unfold u_send. rewrite Hc. reflexivity. Qed.

Lemma multisend_to_blocked_rejected u a d outs : any_blocked outs = true -> ustep u (UMsgMultiSend a d outs) = None.
Proof. intros Hc. cbn [ustep]. unfold u_multisend. rewrite Hc. reflexivity. Qed.

Lemma rejects_blocked_sound o : rejects_blocked o = true -> forall u, ustep u o = None.
Proof.
  destruct o; cbn [rejects_blocked]; intros H' u; try discriminate.
  - by apply send_to_blocked_rejected.
  - by apply multisend_to_blocked_rejected.
Qed.

(** what the accounting invariants of the modules read: the community pool, the outstanding rewards, the supply
    and the balances of the blocked accounts.  The escrow account of the erc20 module is left out: ConvertCoin,
    which Haqq's MsgSend runs for a paired denomination, is that module's own operation and pays into it. *)
Definition ModView (s s' : st) : Prop :=
  pool s' = pool s /\ outst s' = outst s /\ sup (bk s') = sup (bk s) /\
  forall m d, blocked m = true -> m <> M_ERC20 -> balance (bk s') m d = balance (bk s) m d.

Lemma modview_refl s : ModView s s.
Proof. repeat split. Qed.
Lemma modview_trans s1 s2 s3 : ModView s1 s2 -> ModView s2 s3 -> ModView s1 s3.
Proof.
  intros (P1 & O1 & S1 & B1) (P2 & O2 & S2 & B2). repeat split; try congruence.
  intros m d Hm Hne. rewrite B2, B1; done.
Qed.

Lemma s_send_modview s a c d x s' :
  blocked a = false -> (blocked c = false \/ c = M_ERC20) -> s_send s a c d x = Some s' -> ModView s s'.
Proof.
  intros Ha Hc H'. pose proof (s_send_frame _ _ _ _ _ _ H') as [Hp Ho]. unfold s_send in H'.
  apply bind_Some in H' as (b & Hb & E). inversion E; subst s'; clear E. cbn in *.
  destruct (send_spec _ _ _ _ _ _ Hb) as (_ & _ & Hs & Hbal).
  split; [done|]. split; [done|]. split; [done|]. intros m d' Hm Hne. rewrite Hbal.
  rewrite (decide_False (P := a = m /\ d = d')) by (intros [-> _]; congruence).
  rewrite (decide_False (P := c = m /\ d = d')); [lia|].
  intros [-> _]. destruct Hc as [Hc|Hc]; congruence.
Qed.

Lemma any_blocked_cons c x r : any_blocked ((c, x) :: r) = blocked c || any_blocked r.
Proof. reflexivity. Qed.

Lemma s_pay_out_modview outs : forall s a d s',
  blocked a = false -> any_blocked outs = false -> s_pay_out s a d outs = Some s' -> ModView s s'.
Proof.
  induction outs as [|[c x] r IH]; intros s a d s' Ha Hb H'; cbn [s_pay_out] in H'.
  - inversion H'; subst. apply modview_refl.
  - rewrite any_blocked_cons in Hb. apply orb_false_elim in Hb as [Hc Hr].
    apply bind_Some in H' as (s1 & H1 & H2). eapply modview_trans.
    + eapply s_send_modview; [exact Ha| left; exact Hc | exact H1].
    + exact (IH s1 a d s' Ha Hr H2).
Qed.

Lemma negb_blocked a : negb (blocked a) = true -> blocked a = false.
Proof. by destruct (blocked a). Qed.

(** one accepted user operation (a parameter change, a send, a multi-send) leaves that view untouched *)
Lemma user_step_modview u o u' :
  is_user_op o = true -> signed_by_user o = true -> ustep u o = Some u' -> ModView (ust_st u) (ust_st u').
Proof.
  destruct o; cbn [is_user_op signed_by_user ustep]; intros Hu Hs H'; try discriminate.
  - inversion H'; subst. apply modview_refl.
  - apply negb_blocked in Hs. apply bind_Some in H' as (s1 & H1 & E). inversion E; subst u'; clear E. cbn [ust_st].
    unfold u_send in H1. destruct (blocked c) eqn:Hc; [discriminate|].
    destruct (erc20_on u && paired).
    + eapply s_send_modview; [exact Hs | by right | exact H1].
    + eapply s_send_modview; [exact Hs | by left | exact H1].
  - apply negb_blocked in Hs. apply bind_Some in H' as (s1 & H1 & E). inversion E; subst u'; clear E. cbn [ust_st].
    unfold u_multisend in H1. destruct (any_blocked outs) eqn:Hb; [discriminate|].
    destruct (negb (forallb _ outs)); [discriminate|].
    destruct (balance (bk (ust_st u)) a d <? total_out outs); [discriminate|].
    eapply s_pay_out_modview; eauto.
Qed.

Definition users_only (ops : list uop) : Prop := forall o, In o ops -> is_user_op o = true /\ signed_by_user o = true.

(** ALL histories of user operations, whatever the parameter is set to along the way: the balances of the module
    accounts, the community pool, the outstanding rewards and the supply are what they were *)
Theorem user_histories_modview ops : forall u, users_only ops -> ModView (ust_st u) (ust_st (urun ops u)).
Proof.
  induction ops as [|o r IH]; intros u Hall; [apply modview_refl|].
  change (urun (o :: r) u) with (urun r (ustep_total u o)).
  assert (users_only r) as Hr by (intros o' Hin; apply Hall; by right).
  unfold ustep_total. destruct (ustep u o) as [u'|] eqn:E; cbn [default].
  - eapply modview_trans; [|apply IH, Hr]. destruct (Hall o (or_introl eq_refl)) as [H1 H2].
    eapply user_step_modview; eauto.
  - apply IH, Hr.
Qed.

(** ... hence in histories that MIX user operations, parameter changes and module operations every property that
    reads only that view and is preserved by the module operations of the history is preserved by the history:
    module accounts change only through module operations *)
Theorem module_view_invariants_preserved (P : st -> Prop) ops :
  (forall s s', ModView s s' -> P s -> P s') ->
  (forall o, In (UMod o) ops -> forall s s', hstep s o = Some s' -> P s -> P s') ->
  (forall o, In o ops -> signed_by_user o = true) ->
  forall u, P (ust_st u) -> P (ust_st (urun ops u)).
Proof.
  intros Hview. induction ops as [|o r IH]; intros Hmod Hsig u HP; [done|].
  change (urun (o :: r) u) with (urun r (ustep_total u o)).
  apply IH.
  - intros o' Hin. apply Hmod. by right.
  - intros o' Hin. apply Hsig. by right.
  - unfold ustep_total. destruct (ustep u o) as [u'|] eqn:E; cbn [default]; [|done].
    destruct (is_user_op o) eqn:Hu.
    + eapply Hview; [|exact HP]. eapply user_step_modview; eauto. apply Hsig. by left.
    + destruct o; try discriminate. cbn [ustep] in E. apply bind_Some in E as (s1 & H1 & E).
      inversion E; subst u'; clear E. cbn [ust_st]. eapply (Hmod o); [by left|exact H1|exact HP].
Qed.

(** the registered invariants of the SDK as far as this model has their ingredients *)
Definition DistrEq (s : st) : Prop := forall d, balance (bk s) M_DISTR d = zget (pool s) d + zget (outst s) d.

Lemma modview_distr_eq s s' : ModView s s' -> DistrEq s -> DistrEq s'.
Proof. intros (Hp & Ho & _ & Hb) I d. rewrite Hp, Ho, Hb; [apply I|reflexivity|by vm_compute]. Qed.
Lemma modview_distr_inv s s' : ModView s s' -> DistrInv s -> DistrInv s'.
Proof. intros (Hp & Ho & _ & Hb) I d. rewrite Hp, Ho, Hb; [apply I|reflexivity|by vm_compute]. Qed.

Theorem user_histories_preserve_module_accounts ops u : users_only ops ->
  let u' := urun ops u in
  (DistrEq (ust_st u) -> DistrEq (ust_st u')) /\
  (forall m d, In m [M_FEECOLL; M_DISTR; M_BONDED; M_NOTBONDED; M_GOV; M_COINOMICS; M_DAO; M_LV; M_EVM; M_TRANSFER; M_ICA; M_VESTING] ->
     balance (bk (ust_st u')) m d = balance (bk (ust_st u)) m d) /\
  pool (ust_st u') = pool (ust_st u) /\ outst (ust_st u') = outst (ust_st u) /\ sup (bk (ust_st u')) = sup (bk (ust_st u)).
Proof.
  intros Hall u'. pose proof (user_histories_modview ops u Hall) as V. fold u' in V.
  split; [apply modview_distr_eq, V|]. destruct V as (Hp & Ho & Hs & Hb). split; [|done].
  intros m d Hin. apply Hb.
  - cbn in Hin. repeat (destruct Hin as [<-|Hin]; [reflexivity|]). destruct Hin.
  - cbn in Hin. repeat (destruct Hin as [<-|Hin]; [by vm_compute|]). destruct Hin.
Qed.

(** mixed histories: the distribution account stays able to pay as long as no MODULE operation of the history
    debits it; no condition on the user operations and on the parameter *)
Theorem mixed_histories_preserve_distr_inv ops :
  (forall o, In (UMod o) ops -> debits_distr o = false) ->
  (forall o, In o ops -> signed_by_user o = true) ->
  forall u, DistrInv (ust_st u) -> DistrInv (ust_st (urun ops u)).
Proof.
  intros Hd Hs. apply (module_view_invariants_preserved DistrInv ops).
  - apply modview_distr_inv.
  - intros o Hin s s' H' I. eapply keeps_distr_inv; [|exact I]. eapply hstep_keeps; [|exact H']. by apply Hd.
  - exact Hs.
Qed.

(** the supply invariant through mixed histories *)
Lemma s_pay_out_inv outs : forall s a d s', s_pay_out s a d outs = Some s' -> SInv s -> SInv s'.
Proof.
  induction outs as [|[c x] r IH]; intros s a d s' H' I; cbn [s_pay_out] in H'.
  - inversion H'; subst; exact I.
  - apply bind_Some in H' as (s1 & H1 & H2). eapply IH; [exact H2|]. eapply s_send_inv; eauto.
Qed.

Lemma ustep_inv u o u' : ustep u o = Some u' -> SInv (ust_st u) -> SInv (ust_st u').
Proof.
  destruct o; cbn [ustep]; intros H' I.
  - apply bind_Some in H' as (s1 & H1 & E). inversion E; subst u'. cbn. eapply hstep_inv; eauto.
  - inversion H'; subst. exact I.
  - apply bind_Some in H' as (s1 & H1 & E). inversion E; subst u'. cbn. unfold u_send in H1.
    destruct (blocked c); [discriminate|]. destruct (erc20_on u && paired); eapply s_send_inv; eauto.
  - apply bind_Some in H' as (s1 & H1 & E). inversion E; subst u'. cbn. unfold u_multisend in H1.
    destruct (any_blocked outs); [discriminate|]. destruct (negb _); [discriminate|].
    destruct (_ <? _); [discriminate|]. eapply s_pay_out_inv; eauto.
Qed.

Theorem mixed_histories_preserve_supply_inv ops : forall u,
  SupplyInv (bk (ust_st u)) -> NonNeg (bk (ust_st u)) ->
  SupplyInv (bk (ust_st (urun ops u))) /\ NonNeg (bk (ust_st (urun ops u))).
Proof.
  induction ops as [|o r IH]; intros u I1 I2; [done|].
  change (urun (o :: r) u) with (urun r (ustep_total u o)).
  unfold ustep_total. destruct (ustep u o) as [u'|] eqn:E; cbn [default]; [|by apply IH].
  destruct (ustep_inv _ _ _ E (conj I1 I2)) as [J1 J2]. by apply IH.
Qed.

(** non-vacuity: user 1 is funded; governance disables the ERC20 module; a send to the distribution account and
    one to the bonded pool are refused, a send to user 2 goes through; the module is enabled again, the send to
    the distribution account is refused again, a multi-send with the not-bonded pool among its outputs too *)
Definition demo_uops : list uop :=
  [ UMod (HMint M_COINOMICS BASE 1000); UMod (HSend M_COINOMICS 1 BASE 1000);
    UMod (HSend 1 M_DISTR BASE 100);                              (* a module operation pays the distribution account *)
    UParamErc20 false;
    UMsgSend 1 M_DISTR BASE 5 false 0; UMsgSend 1 M_BONDED BASE 5 false 0; UMsgSend 1 2 BASE 5 false 0;
    UParamErc20 true;
    UMsgSend 1 M_DISTR BASE 5 false 0; UMsgMultiSend 1 BASE [(2, 3%Z); (M_NOTBONDED, 4%Z)]; UMsgMultiSend 1 BASE [(2, 3%Z); (3, 4%Z)];
    UMsgSend 1 3 7 6 true 0 ]%N.

Definition u0 : ust := mkust st0 true.

Definition accepted_flags (ops : list uop) (u : ust) : list bool :=
  (fix go (u : ust) (l : list uop) : list bool :=
     match l with [] => [] | o :: r => match ustep u o with Some u' => true :: go u' r | None => false :: go u r end end) u ops.

Lemma demo_uops_flags :
  accepted_flags demo_uops u0 = [true; true; true; true; false; false; true; true; false; false; true; true] /\
  (let u := urun demo_uops u0 in
   (balance (bk (ust_st u)) 1%N BASE, balance (bk (ust_st u)) 2%N BASE, balance (bk (ust_st u)) 3%N BASE,
    balance (bk (ust_st u)) M_DISTR BASE, balance (bk (ust_st u)) M_BONDED BASE, balance (bk (ust_st u)) M_NOTBONDED BASE,
    erc20_on u)) = (888, 8, 4, 100, 0, 0, true).
Proof. vm_compute. split; reflexivity. Qed.

(** why the rule matters: the same step function WITHOUT the check of the recipient when the ERC20 module is
    disabled (the check moved behind that early return) lets a user break the equality of the distribution account *)
Definition u_send_late_check (u : ust) (a c d : N) (x : Z) (paired : bool) (conv : Z) : option st :=
  if negb (erc20_on u) then s_send (ust_st u) a c d x else u_send u a c d x paired conv.

Definition late_u : ust :=
  urun [UMod (HMint M_COINOMICS BASE 1000); UMod (HSend M_COINOMICS 1 BASE 1000); UParamErc20 false]%N u0.
Definition distr_sides (s : st) : Z * Z := (balance (bk s) M_DISTR BASE, zget (pool s) BASE + zget (outst s) BASE).

Lemma late_check_data :
  distr_sides (ust_st late_u) = (0, 0) /\
  option_map distr_sides (u_send_late_check late_u 1%N M_DISTR BASE 5 false 0) = Some (5, 0) /\
  ustep late_u (UMsgSend 1%N M_DISTR BASE 5 false 0) = None.
Proof. vm_compute. repeat split; reflexivity. Qed.

Lemma late_check_breaks_distr_eq :
  exists s', u_send_late_check late_u 1%N M_DISTR BASE 5 false 0 = Some s' /\ ~ DistrEq s' /\
             ustep late_u (UMsgSend 1%N M_DISTR BASE 5 false 0) = None.
Proof.
  destruct late_check_data as (_ & H2 & H3).
  destruct (u_send_late_check late_u 1%N M_DISTR BASE 5 false 0) as [s'|]; [|discriminate].
  exists s'. split; [reflexivity|]. split; [|exact H3].
  intros I. specialize (I BASE). cbn [option_map] in H2. unfold distr_sides in H2. inversion H2 as [[Hb Hp]]. lia.
Qed.
