(** Bank primitives and the Haqq operations that move coins (property C15).
    Executable definitions only; proofs are in InvariantProofs.v.

    The bank is (balances : account -> denom -> Z, supply : denom -> Z).  The
    three primitives are the SDK bank keeper's SendCoins / MintCoins / BurnCoins
    (delegating and undelegating coins are sends to and from the staking pools).
    Every Haqq operation that touches coins is transcribed as the sequence of
    primitive calls its Go code makes:

      x/coinomics/keeper/inflation.go  MintAndAllocate   mint to coinomics, send to fee collector
      x/bank/keeper/keeper.go          BurnCoins         gov / bonded / not-bonded: send to distribution and
                                                         add to the community pool; other modules: burn.
                                                         The amount is a coin LIST (a governance deposit may hold
                                                         any denominations): every coin of the list is sent and
                                                         every coin of the list is added to the pool
      x/ucdao/keeper                   Fund              send depositor -> dao module
      x/liquidvesting/keeper           Liquidate         send to module, mint liquid denom, send to receiver,
                                                         ConvertCoin (escrow in the erc20 module)
                                       Redeem            ConvertERC20 of the missing part (unescrow), send liquid
                                                         denom to module, burn it, send original coins out
      x/erc20/keeper                   ConvertCoin / ConvertERC20   native coin: escrow / unescrow;
                                                         registered ERC20: burn / mint of the voucher coin
      x/evm/keeper/statedb.go          SetBalance        mint or burn the difference through the evm module *)
From stdpp Require Import gmap.
From Coq Require Import ZArith List.
From HV Require Import Dao.LedgerModel.
Import ListNotations.
Local Open Scope Z_scope.

Record bank := mkbank { bal : gmap N coins; sup : coins }.

(** add [x] (possibly negative) to the balance of [a] in denomination [d] *)
Definition credit (m : gmap N coins) (a d : N) (x : Z) : gmap N coins :=
  set_coins m a (zset (coins_of m a) d (zget (coins_of m a) d + x)).

Definition balance (b : bank) (a d : N) : Z := zget (coins_of (bal b) a) d.

(** SendCoins: the amount must be a valid coin (non-negative; a zero amount is a
    no-op) and covered by the sender; debit first, then credit. *)
Definition b_send (b : bank) (a c d : N) (x : Z) : option bank :=
  if x <? 0 then None else
  if balance b a d <? x then None else
  Some (mkbank (credit (credit (bal b) a d (- x)) c d x) (sup b)).

(** MintCoins into a module account. *)
Definition b_mint (b : bank) (m d : N) (x : Z) : option bank :=
  if x <? 0 then None else
  Some (mkbank (credit (bal b) m d x) (zset (sup b) d (zget (sup b) d + x))).

(** BurnCoins from a module account (SDK implementation). *)
Definition b_burn (b : bank) (m d : N) (x : Z) : option bank :=
  if x <? 0 then None else
  if balance b m d <? x then None else
  Some (mkbank (credit (bal b) m d (- x)) (zset (sup b) d (zget (sup b) d - x))).

(** module accounts (interned by the harness) *)
Definition M_FEECOLL : N := 100.
Definition M_DISTR : N := 101.
Definition M_BONDED : N := 102.
Definition M_NOTBONDED : N := 103.
Definition M_GOV : N := 104.
Definition M_COINOMICS : N := 105.
Definition M_DAO : N := 106.
Definition M_LV : N := 107.
Definition M_ERC20 : N := 108.
Definition M_EVM : N := 109.
Definition BASE : N := 0.

(** chain state as far as coins are concerned: the bank, the distribution
    module's community pool (integer part) and the rewards it still owes *)
Record st := mkst { bk : bank; pool : coins; outst : coins }.

Definition with_bank (s : st) (b : bank) : st := mkst b (pool s) (outst s).
Definition s_send (s : st) (a c d : N) (x : Z) : option st := b ← b_send (bk s) a c d x; Some (with_bank s b).
Definition s_mint (s : st) (m d : N) (x : Z) : option st := b ← b_mint (bk s) m d x; Some (with_bank s b).
Definition s_burn (s : st) (m d : N) (x : Z) : option st := b ← b_burn (bk s) m d x; Some (with_bank s b).

Definition redirected (m : N) : bool := N.eqb m M_GOV || N.eqb m M_BONDED || N.eqb m M_NOTBONDED.

(** x/bank/keeper/keeper.go BurnCoins *)
Definition haqq_burn (s : st) (m d : N) (x : Z) : option st :=
  if redirected m then
    s1 ← s_send s m M_DISTR d x;
    Some (mkst (bk s1) (zset (pool s1) d (zget (pool s1) d + x)) (outst s1))
  else s_burn s m d x.

(** ---- coin lists (sdk.Coins) ----
    [amounts] of SendCoins / BurnCoins is a list of (denomination, amount).  The bank accepts it only if it is
    valid (Coins.Validate): every amount strictly positive, no denomination twice (and sorted by denomination
    string: the harness and every caller present the list in that order, the model does not know the strings).
    subUnlockedCoins checks and debits coin after coin and fails as a whole if one coin is not covered (the
    message's branch of the store is then dropped), addCoins credits coin after coin. *)
Definition coin_list := list (N * Z).

Fixpoint nodupb (l : list N) : bool :=
  match l with [] => true | x :: r => negb (existsb (N.eqb x) r) && nodupb r end.
Definition valid_coins (cs : coin_list) : bool := forallb (fun c : N * Z => 0 <? snd c) cs && nodupb (map fst cs).

(** Coins.AmountOf *)
Definition amount_of (cs : coin_list) (d : N) : Z :=
  fold_right (fun (c : N * Z) acc => (if decide (fst c = d) then snd c else 0) + acc) 0 cs.

Fixpoint s_send_coins (s : st) (a c : N) (cs : coin_list) : option st :=
  match cs with [] => Some s | (d, x) :: r => s1 ← s_send s a c d x; s_send_coins s1 a c r end.
Fixpoint s_burn_coins (s : st) (m : N) (cs : coin_list) : option st :=
  match cs with [] => Some s | (d, x) :: r => s1 ← s_burn s m d x; s_burn_coins s1 m r end.
(** feePool.CommunityPool.Add(NewDecCoinsFromCoins(amounts...)...) *)
Definition pool_add (p : coins) (cs : coin_list) : coins :=
  fold_left (fun (p : coins) (c : N * Z) => zset p (fst c) (zget p (fst c) + snd c)) cs p.

(** x/bank/keeper/keeper.go BurnCoins with a coin list *)
Definition haqq_burn_coins (s : st) (m : N) (cs : coin_list) : option st :=
  if negb (valid_coins cs) then None else
  if redirected m then
    s1 ← s_send_coins s m M_DISTR cs;
    Some (mkst (bk s1) (pool_add (pool s1) cs) (outst s1))
  else s_burn_coins s m cs.

Inductive hop :=
| HSend (a c d : N) (x : Z)                 (* bank send; delegate / undelegate coins with c / a a staking pool *)
| HMint (m d : N) (x : Z)
| HBurn (m d : N) (x : Z)                   (* through the Haqq bank keeper *)
| HBurnCoins (m : N) (cs : list (N * Z))    (* the same with a list of coins of several denominations *)
| HCoinomicsMint (x : Z)
| HDaoFund (a d : N) (x : Z)
| HLiquidate (a c ld : N) (x : Z)           (* from a, liquid tokens to c, liquid denomination ld *)
| HRedeem (a c ld : N) (x conv : Z)         (* conv = part taken back from the ERC20 representation first *)
| HConvertCoin (a d : N) (x : Z) (native : bool)
| HConvertERC20 (a d : N) (x : Z) (native : bool)
| HSetBalance (a : N) (v : Z).

Definition hstep (s : st) (o : hop) : option st :=
  match o with
  | HSend a c d x => s_send s a c d x
  | HMint m d x => s_mint s m d x
  | HBurn m d x => haqq_burn s m d x
  | HBurnCoins m cs => haqq_burn_coins s m cs
  | HCoinomicsMint x =>
      s1 ← s_mint s M_COINOMICS BASE x; s_send s1 M_COINOMICS M_FEECOLL BASE x
  | HDaoFund a d x => s_send s a M_DAO d x
  | HLiquidate a c ld x =>
      s1 ← s_send s a M_LV BASE x;
      s2 ← s_mint s1 M_LV ld x;
      s3 ← s_send s2 M_LV c ld x;
      s_send s3 c M_ERC20 ld x                     (* ConvertCoin of the fresh liquid tokens: escrow *)
  | HRedeem a c ld x conv =>
      s1 ← s_send s M_ERC20 a ld conv;             (* ConvertERC20 of the missing part: unescrow *)
      s2 ← s_send s1 a M_LV ld x;
      s3 ← s_burn s2 M_LV ld x;
      s_send s3 M_LV c BASE x
  | HConvertCoin a d x native =>
      s1 ← s_send s a M_ERC20 d x;
      if native then Some s1 else s_burn s1 M_ERC20 d x
  | HConvertERC20 a d x native =>
      if native then s_send s M_ERC20 a d x
      else s1 ← s_mint s M_ERC20 d x; s_send s1 M_ERC20 a d x
  | HSetBalance a v =>
      let cur := balance (bk s) a BASE in
      if cur <? v then s1 ← s_mint s M_EVM BASE (v - cur); s_send s1 M_EVM a BASE (v - cur)
      else if v <? cur then s1 ← s_send s a M_EVM BASE (cur - v); s_burn s1 M_EVM BASE (cur - v)
      else Some s
  end.

(** a failed operation leaves no trace (message atomicity) *)
Definition hstep_total (s : st) (o : hop) : st := default s (hstep s o).
Definition run (ops : list hop) (s : st) : st := fold_left hstep_total ops s.

(** ---- user level: signed bank messages and the governance parameter that gates them ----
    x/bank/keeper/msg_server.go (Haqq's bank message server):

      Send       IsSendEnabledCoins; BlockedAddr(to) -> "is not allowed to receive funds"; then sendCoinsWithERC20:
                 if the ERC20 module is disabled (x/erc20 parameter EnableErc20) plain SendCoins, otherwise per coin: a
                 denomination with an enabled token pair moves as ERC20 tokens (subUnlockedERC20Tokens: everything the
                 sender can spend of it is first converted = escrowed in the erc20 module account, then the contract's
                 transfer is called: no bank coin reaches the recipient), any other denomination by SendCoins
      MultiSend  BlockedAddr(out) for every output -> "is not allowed to receive transactions"; InputOutputCoins

    The check of the recipient comes BEFORE the branch on the parameter: a send to a blocked address (every module
    account, every precompile address) is refused whatever the value of the flag.  The flag is part of the state
    and is changed by the parameter operation (MsgUpdateParams of x/erc20, signed by the governance authority).
    Accounts are interned by the harness: users below 100, blocked addresses 100..199 (module accounts 100..112,
    precompile addresses 120..125). *)
Definition M_TRANSFER : N := 110.
Definition M_ICA : N := 111.
Definition M_VESTING : N := 112.
Definition PRECOMPILE0 : N := 120.
Definition blocked (a : N) : bool := (100 <=? a)%N && (a <? 200)%N.

Record ust := mkust { ust_st : st; erc20_on : bool }.

Inductive uop :=
| UMod (o : hop)                                        (* an operation of a module (keeper level), as above *)
| UParamErc20 (on : bool)                               (* x/erc20 MsgUpdateParams by the governance authority *)
| UMsgSend (a c d : N) (x : Z) (paired : bool) (conv : Z)  (* signed MsgSend of x of d from a to c; paired: d has an enabled
                                                           token pair; conv: what a could spend of d (converted first) *)
| UMsgMultiSend (a d : N) (outs : list (N * Z)).        (* signed MsgMultiSend, one input, one denomination *)

Definition total_out (outs : list (N * Z)) : Z := fold_right (fun (o : N * Z) acc => snd o + acc) 0 outs.
Fixpoint s_pay_out (s : st) (a d : N) (outs : list (N * Z)) : option st :=
  match outs with [] => Some s | (c, x) :: r => s1 ← s_send s a c d x; s_pay_out s1 a d r end.
Definition any_blocked (outs : list (N * Z)) : bool := existsb (fun o : N * Z => blocked (fst o)) outs.

Definition u_send (u : ust) (a c d : N) (x : Z) (paired : bool) (conv : Z) : option st :=
  if blocked c then None else
  if erc20_on u && paired then s_send (ust_st u) a M_ERC20 d conv
  else s_send (ust_st u) a c d x.

Definition u_multisend (s : st) (a d : N) (outs : list (N * Z)) : option st :=
  if any_blocked outs then None else
  if negb (forallb (fun o : N * Z => 0 <? snd o) outs) then None else     (* Coins.Validate of every output *)
  if balance (bk s) a d <? total_out outs then None else                  (* the input is debited as a whole first *)
  s_pay_out s a d outs.

Definition ustep (u : ust) (o : uop) : option ust :=
  match o with
  | UMod o => s ← hstep (ust_st u) o; Some (mkust s (erc20_on u))
  | UParamErc20 on => Some (mkust (ust_st u) on)
  | UMsgSend a c d x paired conv => s ← u_send u a c d x paired conv; Some (mkust s (erc20_on u))
  | UMsgMultiSend a d outs => s ← u_multisend (ust_st u) a d outs; Some (mkust s (erc20_on u))
  end.

Definition ustep_total (u : ust) (o : uop) : ust := default u (ustep u o).
Definition urun (ops : list uop) (u : ust) : ust := fold_left ustep_total ops u.

(** a message is signed by a user key; a module account has no key *)
Definition signed_by_user (o : uop) : bool :=
  match o with
  | UMod _ | UParamErc20 _ => true
  | UMsgSend a _ _ _ _ _ | UMsgMultiSend a _ _ => negb (blocked a)
  end.
Definition is_user_op (o : uop) : bool := match o with UMod _ => false | _ => true end.
(** the messages every state refuses because of the recipient *)
Definition rejects_blocked (o : uop) : bool :=
  match o with
  | UMsgSend _ c _ _ _ _ => blocked c
  | UMsgMultiSend _ _ outs => any_blocked outs
  | _ => false
  end.

(** ---- correspondence with the harness ---- *)
(** observation: balances of the tracked accounts, supply and community pool per
    tracked denomination, as sparse sorted lists *)
Record obs := mkobs { o_bal : list (N * N * Z); o_sup : list (N * Z); o_pool : list (N * Z) }.
Global Instance obs_eq_dec : EqDecision obs.
Proof. solve_decision. Defined.

Definition tracked_accounts : list N :=
  [0; 1; 2; 3; M_FEECOLL; M_DISTR; M_BONDED; M_NOTBONDED; M_GOV; M_COINOMICS; M_DAO; M_LV; M_ERC20; M_EVM]%N.

Definition dumpb (m : gmap N coins) (ds : list N) : list (N * N * Z) :=
  flat_map (fun a => flat_map (fun d =>
     let v := zget (coins_of m a) d in if v =? 0 then [] else [(a, d, v)]) ds) tracked_accounts.
Definition dumpc (m : coins) (ds : list N) : list (N * Z) :=
  flat_map (fun d => let v := zget m d in if v =? 0 then [] else [(d, v)]) ds.

Definition observe (ds : list N) (s : st) : obs :=
  mkobs (dumpb (bal (bk s)) ds) (dumpc (sup (bk s)) ds) (dumpc (pool s) ds).

Definition load_bal (l : list (N * N * Z)) : gmap N coins :=
  fold_left (fun m '(a, d, v) => credit m a d v) l ∅.
Definition load_coins (l : list (N * Z)) : coins := fold_left (fun m '(d, v) => zset m d v) l ∅.
Definition load (o : obs) : st := mkst (mkbank (load_bal (o_bal o)) (load_coins (o_sup o))) (load_coins (o_pool o)) ∅.

(** one case: tracked denominations, the state before (the ERC20 module is enabled, as at genesis), and a
    list of (operation, did the implementation accept it, state after) *)
Definition case := (list N * obs * list (uop * bool * obs))%type.

(** Operations whose failure conditions the model transcribes completely (a burn through the Haqq bank
    keeper from a module account that may burn: invalid coin list, or a coin not covered).  For these a
    rejection by the implementation must be a rejection in the model too; for the other operations the
    implementation has further reasons to refuse (vesting schedules, allowed denominations, blocked
    addresses, ...) that are not part of this model, and a refused operation only has to leave no trace. *)
Definition burner (m : N) : bool := existsb (N.eqb m) [M_BONDED; M_NOTBONDED; M_GOV; M_LV; M_ERC20; M_EVM].
Definition rejection_modelled (o : hop) : bool :=
  match o with HBurn m _ _ | HBurnCoins m _ => burner m | _ => false end.
Definition urejection_modelled (o : uop) : bool := match o with UMod o => rejection_modelled o | _ => false end.
Definition accepts (s : ust) (o : uop) : bool := match ustep s o with Some _ => true | None => false end.

(** A message accepted by the implementation that the model refuses (a send to a blocked address, under either
    value of the flag) is a mismatch; so is an accepted operation after which the balances differ. *)
Fixpoint check_steps (ds : list N) (s : ust) (h : list (uop * bool * obs)) : bool :=
  match h with
  | [] => true
  | (o, ok, ob) :: r =>
      if negb ok && urejection_modelled o && accepts s o then false   (* refused by the implementation only *)
      else
      match (if ok then ustep s o else Some s) with
      | None => false                              (* accepted by the implementation, impossible in the model *)
      | Some s' => if bool_decide (observe ds (ust_st s') = ob) then check_steps ds s' r else false
      end
  end.
Definition check_case (c : case) : bool := let '(ds, o0, h) := c in check_steps ds (mkust (load o0) true) h.

Fixpoint mismatches_from (i : nat) (cs : list case) : list nat :=
  match cs with
  | [] => []
  | c :: r => if check_case c then mismatches_from (S i) r else i :: mismatches_from (S i) r
  end.
Definition mismatches cs := mismatches_from 0 cs.

(** Block histories (driver "invariants"): the parameter operations and the signed sends to blocked addresses of
    a history on the real application, each with "did DeliverTx accept it".  The balances of a whole chain are not
    part of this model; what is compared is the rule itself: a message the model refuses in EVERY state
    ([rejects_blocked], see InvariantProofs.rejects_blocked_sound) must not have been accepted. *)
Definition hcase := list (uop * bool).
Definition hcheck (h : hcase) : bool := forallb (fun c : uop * bool => negb (snd c && rejects_blocked (fst c))) h.
Fixpoint hmismatches_from (i : nat) (cs : list hcase) : list nat :=
  match cs with
  | [] => []
  | c :: r => if hcheck c then hmismatches_from (S i) r else i :: hmismatches_from (S i) r
  end.
Definition hmismatches cs := hmismatches_from 0 cs.
