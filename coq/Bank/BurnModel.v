(** Redirected burns (property C14): executable model of
    x/bank/keeper/keeper.go (Haqq's [BurnCoins] override) on top of the three SDK
    bank primitives it is built from (x/bank/keeper: [SendCoins] =
    subUnlockedCoins + addCoins, [BurnCoins], [MintCoins]) and of the community
    pool field of the distribution module's [FeePool] (sdk.DecCoins, modelled as
    integers scaled by 10^18).  Definitions only; proofs are in BurnProofs.v.

    Accounts are interned by the harness: the module accounts below, user
    accounts from 16 upwards.  Coins ([clist]), balances ([coins]) and the
    debit / credit helpers are the ones of Dao/LedgerModel.v. *)
From stdpp Require Import gmap.
From Coq Require Import ZArith List.
From HV Require Import Dao.LedgerModel.
Import ListNotations.
Local Open Scope Z_scope.

(** module accounts (app/app.go maccPerms) *)
Definition GOV : N := 0.          (* govtypes.ModuleName            "gov"                    *)
Definition BONDED : N := 1.       (* stakingtypes.BondedPoolName    "bonded_tokens_pool"     *)
Definition NOTBONDED : N := 2.    (* stakingtypes.NotBondedPoolName "not_bonded_tokens_pool" *)
Definition DISTR : N := 3.        (* distrtypes.ModuleName          "distribution"           *)
Definition EVM : N := 4.
Definition ERC20 : N := 5.
Definition LIQUIDVESTING : N := 6.
Definition TRANSFER : N := 7.
Definition COINOMICS : N := 8.
Definition FEECOLLECTOR : N := 9.
Definition VESTING : N := 10.
Definition UCDAO : N := 11.

(** the [switch moduleName] of the override: exactly these three names *)
Definition redirected (m : N) : bool := (m =? GOV)%N || (m =? BONDED)%N || (m =? NOTBONDED)%N.

(** authtypes.Burner / authtypes.Minter permissions of maccPerms *)
Definition burner (m : N) : bool :=
  (m =? GOV)%N || (m =? BONDED)%N || (m =? NOTBONDED)%N || (m =? EVM)%N || (m =? ERC20)%N
  || (m =? LIQUIDVESTING)%N || (m =? TRANSFER)%N.
Definition minter (m : N) : bool :=
  (m =? EVM)%N || (m =? ERC20)%N || (m =? LIQUIDVESTING)%N || (m =? TRANSFER)%N || (m =? COINOMICS)%N.

(** result codes *)
Definition B_OK : N := 0.
Definition B_INVALID : N := 1.       (* ErrInvalidCoins *)
Definition B_INSUFFICIENT : N := 2.  (* ErrInsufficientFunds *)
Definition B_PANIC : N := 3.         (* missing permission / negative supply: the keeper panics *)

Record bank := mkbank {
  b_bal : gmap N coins;     (* account -> denom -> amount *)
  b_supply : coins;         (* bank supply per denomination *)
  b_pool : coins            (* FeePool.CommunityPool per denomination, in 10^-18 units *)
}.

Definition dec_unit : Z := 10 ^ 18.

(** SendCoins: debit (fails when the balance is too small; module and plain
    accounts have no locked coins), then credit.  A failing call leaves no state
    behind: every caller either aborts the transaction or panics. *)
Definition send_coins (s : bank) (from to : N) (amt : clist) : bank * N :=
  if negb (clist_valid amt) then (s, B_INVALID) else
  match csub_list (coins_of (b_bal s) from) amt with
  | None => (s, B_INSUFFICIENT)
  | Some fb =>
      let m1 := set_coins (b_bal s) from fb in
      (mkbank (set_coins m1 to (cadd_list (coins_of m1 to) amt)) (b_supply s) (b_pool s), B_OK)
  end.

(** feePool.CommunityPool.Add(NewDecCoinsFromCoins(amounts...)...) *)
Definition pool_add (p : coins) (amt : clist) : coins :=
  fold_left (fun m '(d, x) => zset m d (zget m d + x * dec_unit)) amt p.

(** the SDK's BurnCoins (bankkeeper.BaseKeeper) *)
Definition sdk_burn (s : bank) (m : N) (amt : clist) : bank * N :=
  if negb (burner m) then (s, B_PANIC) else
  if negb (clist_valid amt) then (s, B_INVALID) else
  match csub_list (coins_of (b_bal s) m) amt with
  | None => (s, B_INSUFFICIENT)
  | Some mb =>
      match csub_list (b_supply s) amt with
      | None => (s, B_PANIC)                      (* supply.Sub panics on a negative result *)
      | Some sup => (mkbank (set_coins (b_bal s) m mb) sup (b_pool s), B_OK)
      end
  end.

(** Haqq's BurnCoins *)
Definition burn_coins (s : bank) (m : N) (amt : clist) : bank * N :=
  if redirected m then
    match send_coins s m DISTR amt with
    | (s1, 0%N) => (mkbank (b_bal s1) (b_supply s1) (pool_add (b_pool s1) amt), B_OK)
    | (_, r) => (s, r)
    end
  else sdk_burn s m amt.

Definition mint_coins (s : bank) (m : N) (amt : clist) : bank * N :=
  if negb (minter m) then (s, B_PANIC) else
  if negb (clist_valid amt) then (s, B_INVALID) else
  (mkbank (set_coins (b_bal s) m (cadd_list (coins_of (b_bal s) m) amt))
          (cadd_list (b_supply s) amt) (b_pool s), B_OK).

(** the distribution keeper's own update of the FeePool (GetFeePool / add / SetFeePool):
    MsgFundCommunityPool, community-pool spend, truncation remainders of reward
    withdrawals, the community share of AllocateTokens.  [adj] is in 10^-18 units
    and may be negative (spend). *)
Definition pool_adj (p : coins) (adj : list (N * Z)) : coins :=
  fold_left (fun m '(d, x) => zset m d (zget m d + x)) adj p.

Inductive bop :=
| Burn (m : N) (amt : clist)          (* BurnCoins through the keeper that staking and gov hold *)
| Mint (m : N) (amt : clist)
| Send (a b : N) (amt : clist)
| DistrBook (adj : list (N * Z)).     (* FeePool.CommunityPool += adj, written by the distribution keeper *)

Definition bstep (s : bank) (o : bop) : bank * N :=
  match o with
  | Burn m amt => burn_coins s m amt
  | Mint m amt => mint_coins s m amt
  | Send a b amt => send_coins s a b amt
  | DistrBook adj => (mkbank (b_bal s) (b_supply s) (pool_adj (b_pool s) adj), B_OK)
  end.

Definition brun (ops : list bop) (s : bank) : bank := fold_left (fun s o => fst (bstep s o)) ops s.

(** ---- correspondence with the harness ---- *)
Record snap := mksnap {
  sn_bal : list (N * N * Z);     (* (account, denom, amount), non-zero entries, sorted *)
  sn_supply : list (N * Z);
  sn_pool : list (N * Z)         (* community pool in 10^-18 units *)
}.
Global Instance snap_eq_dec : EqDecision snap.
Proof. solve_decision. Defined.

Definition load (sn : snap) : bank :=
  mkbank (fold_left (fun m '(a, d, v) => set_coins m a (zset (coins_of m a) d v)) (sn_bal sn) ∅)
         (fold_left (fun m '(d, v) => zset m d v) (sn_supply sn) ∅)
         (fold_left (fun m '(d, v) => zset m d v) (sn_pool sn) ∅).

Definition nseq (n : nat) : list N := map N.of_nat (seq 0 n).
Definition dump2 (m : gmap N coins) (na nd : nat) : list (N * N * Z) :=
  flat_map (fun a => flat_map (fun d =>
     let v := zget (coins_of m a) d in if v =? 0 then [] else [(a, d, v)]) (nseq nd)) (nseq na).
Definition dump1 (m : coins) (nd : nat) : list (N * Z) :=
  flat_map (fun d => let v := zget m d in if v =? 0 then [] else [(d, v)]) (nseq nd).

Definition NACC : nat := 28.   (* 16 module slots + 12 users *)
Definition NDEN : nat := 5.
Definition observe (s : bank) : snap :=
  mksnap (dump2 (b_bal s) NACC NDEN) (dump1 (b_supply s) NDEN) (dump1 (b_pool s) NDEN).

(** one observed event of the implementation: state before, the bank calls the
    event consists of (all but possibly the last succeed), result of the last
    call, state after *)
Definition event : Type := snap * list bop * N * snap.

Fixpoint run_res (ops : list bop) (s : bank) (last : N) : bank * N :=
  match ops with
  | [] => (s, last)
  | o :: r => let '(s', res) := bstep s o in
              if (res =? B_OK)%N then run_res r s' res else (s', res)
  end.

Definition check_event (e : event) : bool :=
  let '(pre, ops, res, post) := e in
  let '(s', r) := run_res ops (load pre) B_OK in
  bool_decide (observe s' = post) && (r =? res)%N.


(** ---- sequences of community-pool events (one denomination) ----

    The second model looks at ONE denomination and at the order in which the
    FeePool is read and written when redirected burns are interleaved with the
    distribution module's own community-pool traffic, within one block and
    across blocks.  State: bank supply, the stored FeePool.CommunityPool and the
    sum of the validators' outstanding rewards (both in 10^-18 units), the
    balance of the distribution module account, the balances of the three
    redirected module accounts together ([c_src]) and of everybody else
    together ([c_other]). *)
Record cst := mkcst {
  c_supply : Z;
  c_pool : Z;
  c_distr : Z;
  c_out : Z;
  c_src : Z;
  c_other : Z
}.
Global Instance cst_eq_dec : EqDecision cst.
Proof. solve_decision. Defined.

Inductive acl := ASrc | ADistr | AOther.

Inductive cev :=
| EvBurn (m : N) (x : Z)        (* BurnCoins(m, x): redirected for gov / bonded / not-bonded, ordinary otherwise *)
| EvFund (y : Z)                (* MsgFundCommunityPool *)
| EvSpend (z : Z)               (* community-pool spend (DistributeFromFeePool) *)
| EvRemainder (p r : Z)         (* a distribution hook / withdrawal: rewards p*10^18 + r leave the outstanding
                                   rewards, p coins are paid out, the remainder r is booked into the pool *)
| EvAllocate (f c : Z)          (* BeginBlock AllocateTokens: f coins of fees enter the distribution account,
                                   c (10^-18) of them for the community pool, the rest outstanding rewards *)
| EvMint (x : Z)
| EvMove (a b : acl) (x : Z)    (* plain bank send between the three groups of accounts *)
| EvNextBlock.

Definition redirected_burn (x : Z) : cev := EvBurn BONDED x.
Definition plain_burn (m : N) (x : Z) : cev := EvBurn m x.
Definition pool_remainder (r : Z) : cev := EvRemainder 0 r.

(** keeper.GetFeePool / keeper.SetFeePool: the pool lives in the store, every
    writer reads it, adds, and writes it back *)
Definition get_fee_pool (s : cst) : Z := c_pool s.
Definition set_fee_pool (s : cst) (p : Z) : cst :=
  mkcst (c_supply s) p (c_distr s) (c_out s) (c_src s) (c_other s).

Definition cbal (a : acl) (s : cst) : Z :=
  match a with ASrc => c_src s | ADistr => c_distr s | AOther => c_other s end.
Definition cadd (a : acl) (x : Z) (s : cst) : cst :=
  match a with
  | ASrc => mkcst (c_supply s) (c_pool s) (c_distr s) (c_out s) (c_src s + x) (c_other s)
  | ADistr => mkcst (c_supply s) (c_pool s) (c_distr s + x) (c_out s) (c_src s) (c_other s)
  | AOther => mkcst (c_supply s) (c_pool s) (c_distr s) (c_out s) (c_src s) (c_other s + x)
  end.
Definition cmove (a b : acl) (x : Z) (s : cst) : cst := cadd b x (cadd a (- x) s).

(** does the call go through (otherwise the transaction / block is aborted and
    nothing is written) *)
Definition cok (s : cst) (e : cev) : bool :=
  match e with
  | EvBurn m x =>
      if redirected m then (0 <=? x) && (x <=? c_src s)
      else burner m && (0 <=? x) && (x <=? c_other s) && (x <=? c_supply s)
  | EvFund y => (0 <=? y) && (y <=? c_other s)
  | EvSpend z => (0 <=? z) && (z * dec_unit <=? c_pool s) && (z <=? c_distr s)
  | EvRemainder p r => (0 <=? p) && (0 <=? r) && (p * dec_unit + r <=? c_out s) && (p <=? c_distr s)
  | EvAllocate f c => (0 <=? f) && (f <=? c_other s) && (0 <=? c) && (c <=? f * dec_unit)
  | EvMint x => 0 <=? x
  | EvMove a _ x => (0 <=? x) && (x <=? cbal a s)
  | EvNextBlock => true
  end.

Definition capply (s : cst) (e : cev) : cst :=
  match e with
  | EvBurn m x =>
      if redirected m then
        let s1 := cmove ASrc ADistr x s in                      (* SendCoinsFromModuleToModule(m, distribution) *)
        set_fee_pool s1 (get_fee_pool s1 + x * dec_unit)         (* read the pool from the store, add, write back *)
      else mkcst (c_supply s - x) (c_pool s) (c_distr s) (c_out s) (c_src s) (c_other s - x)
  | EvFund y =>
      let s1 := cmove AOther ADistr y s in
      set_fee_pool s1 (get_fee_pool s1 + y * dec_unit)
  | EvSpend z =>
      let s1 := set_fee_pool s (get_fee_pool s - z * dec_unit) in
      cmove ADistr AOther z s1
  | EvRemainder p r =>
      let s1 := cmove ADistr AOther p s in
      let s2 := mkcst (c_supply s1) (c_pool s1) (c_distr s1) (c_out s1 - (p * dec_unit + r)) (c_src s1) (c_other s1) in
      set_fee_pool s2 (get_fee_pool s2 + r)
  | EvAllocate f c =>
      let s1 := cmove AOther ADistr f s in
      let s2 := mkcst (c_supply s1) (c_pool s1) (c_distr s1) (c_out s1 + (f * dec_unit - c)) (c_src s1) (c_other s1) in
      set_fee_pool s2 (get_fee_pool s2 + c)
  | EvMint x => mkcst (c_supply s + x) (c_pool s) (c_distr s) (c_out s) (c_src s) (c_other s + x)
  | EvMove a b x => cmove a b x s
  | EvNextBlock => s
  end.

Definition cstep (s : cst) (e : cev) : cst := if cok s e then capply s e else s.
Definition crun (evs : list cev) (s : cst) : cst := fold_left cstep evs s.

(** The same machine with the decoded FeePool memoised per block height by the
    redirecting BurnCoins (NOT what /repo does; the shape of a plausible
    optimisation): only the first redirected burn of a height reads the store,
    later ones start from the memo; everybody else reads and writes the store. *)
Record kst := mkkst {
  k_st : cst;
  k_height : Z;
  k_memo : option (Z * Z)       (* height, pool *)
}.
Definition kget_fee_pool (k : kst) : Z :=
  match k_memo k with
  | Some (h, p) => if h =? k_height k then p else c_pool (k_st k)
  | None => c_pool (k_st k)
  end.
Definition kstep (k : kst) (e : cev) : kst :=
  match e with
  | EvNextBlock => mkkst (k_st k) (k_height k + 1) (k_memo k)
  | EvBurn m x =>
      if redirected m && cok (k_st k) e then
        let s1 := cmove ASrc ADistr x (k_st k) in
        let p := kget_fee_pool k + x * dec_unit in
        mkkst (set_fee_pool s1 p) (k_height k) (Some (k_height k, p))
      else mkkst (cstep (k_st k) e) (k_height k) (k_memo k)
  | _ => mkkst (cstep (k_st k) e) (k_height k) (k_memo k)
  end.
Definition krun (evs : list cev) (k : kst) : kst := fold_left kstep evs k.

(** one observed sequence: state before, the events in the order the
    implementation executed them, state after *)
Definition seqcase : Type := cst * list cev * cst.
Definition check_seq (c : seqcase) : bool :=
  let '(pre, evs, post) := c in bool_decide (crun evs pre = post).

(** a case of the harness: the per-event bank view and, per denomination that
    moved, the whole history as one sequence *)
Definition hcase : Type := list event * list seqcase.
Definition check_case (c : hcase) : bool := forallb check_event (fst c) && forallb check_seq (snd c).

Fixpoint mismatches_from (i : nat) (cs : list hcase) : list nat :=
  match cs with
  | [] => []
  | c :: r => if check_case c then mismatches_from (S i) r else i :: mismatches_from (S i) r
  end.
Definition mismatches cs := mismatches_from 0 cs.
