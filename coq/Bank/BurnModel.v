(** Redirected burns (property C14): executable model of
    x/bank/keeper/keeper.go (Haqq's [BurnCoins] override) on top of the three SDK
    bank primitives it is built from (x/bank/keeper: [SendCoins] =
    subUnlockedCoins + addCoins, [BurnCoins], [MintCoins]) and of the community
    pool field of the distribution module's [FeePool] (sdk.DecCoins, modelled as
    integers scaled by 10^18).  Definitions only; proofs are in BurnProofs.v.

    Accounts are interned by the harness: the module accounts below, user
    accounts from 16 upwards.  Coins ([clist]), balances ([coins]) and the
    debit / credit helpers are the ones of Dao/LedgerModel.v. *)
From stdpp Require Import gmap.
From Coq Require Import ZArith List.
From HV Require Import Dao.LedgerModel.
Import ListNotations.
Local Open Scope Z_scope.

(** module accounts (app/app.go maccPerms) *)
Definition GOV : N := 0.          (* govtypes.ModuleName            "gov"                    *)
Definition BONDED : N := 1.       (* stakingtypes.BondedPoolName    "bonded_tokens_pool"     *)
Definition NOTBONDED : N := 2.    (* stakingtypes.NotBondedPoolName "not_bonded_tokens_pool" *)
Definition DISTR : N := 3.        (* distrtypes.ModuleName          "distribution"           *)
Definition EVM : N := 4.
Definition ERC20 : N := 5.
Definition LIQUIDVESTING : N := 6.
Definition TRANSFER : N := 7.
Definition COINOMICS : N := 8.
Definition FEECOLLECTOR : N := 9.
Definition VESTING : N := 10.
Definition UCDAO : N := 11.

(** the [switch moduleName] of the override: exactly these three names *)
Definition redirected (m : N) : bool := (m =? GOV)%N || (m =? BONDED)%N || (m =? NOTBONDED)%N.

(** authtypes.Burner / authtypes.Minter permissions of maccPerms *)
Definition burner (m : N) : bool :=
  (m =? GOV)%N || (m =? BONDED)%N || (m =? NOTBONDED)%N || (m =? EVM)%N || (m =? ERC20)%N
  || (m =? LIQUIDVESTING)%N || (m =? TRANSFER)%N.
Definition minter (m : N) : bool :=
  (m =? EVM)%N || (m =? ERC20)%N || (m =? LIQUIDVESTING)%N || (m =? TRANSFER)%N || (m =? COINOMICS)%N.

(** result codes *)
Definition B_OK : N := 0.
Definition B_INVALID : N := 1.       (* ErrInvalidCoins *)
Definition B_INSUFFICIENT : N := 2.  (* ErrInsufficientFunds *)
Definition B_PANIC : N := 3.         (* missing permission / negative supply: the keeper panics *)

Record bank := mkbank {
  b_bal : gmap N coins;     (* account -> denom -> amount *)
  b_supply : coins;         (* bank supply per denomination *)
  b_pool : coins            (* FeePool.CommunityPool per denomination, in 10^-18 units *)
}.

Definition dec_unit : Z := 10 ^ 18.

(** SendCoins: debit (fails when the balance is too small; module and plain
    accounts have no locked coins), then credit.  A failing call leaves no state
    behind: every caller either aborts the transaction or panics. *)
Definition send_coins (s : bank) (from to : N) (amt : clist) : bank * N :=
  if negb (clist_valid amt) then (s, B_INVALID) else
  match csub_list (coins_of (b_bal s) from) amt with
  | None => (s, B_INSUFFICIENT)
  | Some fb =>
      let m1 := set_coins (b_bal s) from fb in
      (mkbank (set_coins m1 to (cadd_list (coins_of m1 to) amt)) (b_supply s) (b_pool s), B_OK)
  end.

(** feePool.CommunityPool.Add(NewDecCoinsFromCoins(amounts...)...) *)
Definition pool_add (p : coins) (amt : clist) : coins :=
  fold_left (fun m '(d, x) => zset m d (zget m d + x * dec_unit)) amt p.

(** the SDK's BurnCoins (bankkeeper.BaseKeeper) *)
Definition sdk_burn (s : bank) (m : N) (amt : clist) : bank * N :=
  if negb (burner m) then (s, B_PANIC) else
  if negb (clist_valid amt) then (s, B_INVALID) else
  match csub_list (coins_of (b_bal s) m) amt with
  | None => (s, B_INSUFFICIENT)
  | Some mb =>
      match csub_list (b_supply s) amt with
      | None => (s, B_PANIC)                      (* supply.Sub panics on a negative result *)
      | Some sup => (mkbank (set_coins (b_bal s) m mb) sup (b_pool s), B_OK)
      end
  end.

(** Haqq's BurnCoins *)
Definition burn_coins (s : bank) (m : N) (amt : clist) : bank * N :=
  if redirected m then
    match send_coins s m DISTR amt with
    | (s1, 0%N) => (mkbank (b_bal s1) (b_supply s1) (pool_add (b_pool s1) amt), B_OK)
    | (_, r) => (s, r)
    end
  else sdk_burn s m amt.

Definition mint_coins (s : bank) (m : N) (amt : clist) : bank * N :=
  if negb (minter m) then (s, B_PANIC) else
  if negb (clist_valid amt) then (s, B_INVALID) else
  (mkbank (set_coins (b_bal s) m (cadd_list (coins_of (b_bal s) m) amt))
          (cadd_list (b_supply s) amt) (b_pool s), B_OK).

Inductive bop :=
| Burn (m : N) (amt : clist)          (* BurnCoins through the keeper that staking and gov hold *)
| Mint (m : N) (amt : clist)
| Send (a b : N) (amt : clist).

Definition bstep (s : bank) (o : bop) : bank * N :=
  match o with
  | Burn m amt => burn_coins s m amt
  | Mint m amt => mint_coins s m amt
  | Send a b amt => send_coins s a b amt
  end.

Definition brun (ops : list bop) (s : bank) : bank := fold_left (fun s o => fst (bstep s o)) ops s.

(** ---- correspondence with the harness ---- *)
Record snap := mksnap {
  sn_bal : list (N * N * Z);     (* (account, denom, amount), non-zero entries, sorted *)
  sn_supply : list (N * Z);
  sn_pool : list (N * Z)         (* community pool in 10^-18 units *)
}.
Global Instance snap_eq_dec : EqDecision snap.
Proof. solve_decision. Defined.

Definition load (sn : snap) : bank :=
  mkbank (fold_left (fun m '(a, d, v) => set_coins m a (zset (coins_of m a) d v)) (sn_bal sn) ∅)
         (fold_left (fun m '(d, v) => zset m d v) (sn_supply sn) ∅)
         (fold_left (fun m '(d, v) => zset m d v) (sn_pool sn) ∅).

Definition nseq (n : nat) : list N := map N.of_nat (seq 0 n).
Definition dump2 (m : gmap N coins) (na nd : nat) : list (N * N * Z) :=
  flat_map (fun a => flat_map (fun d =>
     let v := zget (coins_of m a) d in if v =? 0 then [] else [(a, d, v)]) (nseq nd)) (nseq na).
Definition dump1 (m : coins) (nd : nat) : list (N * Z) :=
  flat_map (fun d => let v := zget m d in if v =? 0 then [] else [(d, v)]) (nseq nd).

Definition NACC : nat := 28.   (* 16 module slots + 12 users *)
Definition NDEN : nat := 5.
Definition observe (s : bank) : snap :=
  mksnap (dump2 (b_bal s) NACC NDEN) (dump1 (b_supply s) NDEN) (dump1 (b_pool s) NDEN).

(** one observed event of the implementation: state before, the bank calls the
    event consists of (all but possibly the last succeed), result of the last
    call, state after *)
Definition event : Type := snap * list bop * N * snap.

Fixpoint run_res (ops : list bop) (s : bank) (last : N) : bank * N :=
  match ops with
  | [] => (s, last)
  | o :: r => let '(s', res) := bstep s o in
              if (res =? B_OK)%N then run_res r s' res else (s', res)
  end.

Definition check_event (e : event) : bool :=
  let '(pre, ops, res, post) := e in
  let '(s', r) := run_res ops (load pre) B_OK in
  bool_decide (observe s' = post) && (r =? res)%N.

Definition check_case (c : list event) : bool := forallb check_event c.

Fixpoint mismatches_from (i : nat) (cs : list (list event)) : list nat :=
  match cs with
  | [] => []
  | c :: r => if check_case c then mismatches_from (S i) r else i :: mismatches_from (S i) r
  end.
Definition mismatches cs := mismatches_from 0 cs.
