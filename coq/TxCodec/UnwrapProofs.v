(** Proofs about the by-hash unwrap of TxCodec/EthTxModel.v (property C18):
    what [UnwrapEthereumMsg] returns has the requested hash, a refreshed recorded
    hash and is a member of the envelope; it refuses exactly the hashes no member
    has; the recorded [Hash] / [From] texts of the envelope play no part. *)
From Coq Require Import Ascii String.
From Coq Require Import NArith ZArith List Bool Lia.
From HV Require Import Base.Bytes Base.Rlp TxCodec.EthTxModel TxCodec.EthTxProofs.
Import ListNotations.
Local Open Scope Z_scope.

(** same transaction, same [From]: only the recorded hash may differ *)
Definition same_tx (m m0 : emsg) : Prop := m_data m = m_data m0 /\ m_from m = m_from m0.

Section UnwrapProofs.
  Variable hash : bytes -> bytes.

  (** the Ethereum transaction inside [m] hashes to [h] *)
  Definition has_hash (m : emsg) (h : bytes) : Prop :=
    exists tx, as_tx m = Some tx /\ tx_hash hash tx = h.

  Lemma has_hash_same m m0 h : m_data m = m_data m0 -> has_hash m0 h -> has_hash m h.
  Proof. intros E (tx & Ha & Hh). exists tx. unfold as_tx in *. rewrite E. split; assumption. Qed.

  Lemma refresh_same m h : same_tx (refresh m h) m.
  Proof. split; reflexivity. Qed.

  (** ** soundness: a successful unwrap *)
  Theorem unwrap_sound msgs h m :
    unwrap hash msgs h = Some m ->
    has_hash m h /\
    m_hash m = hash_hex h /\
    exists i m0, nth_error msgs i = Some m0 /\ same_tx m m0 /\
                 forall j mj, (j < i)%nat -> nth_error msgs j = Some mj -> ~ has_hash mj h.
  Proof.
    revert m. induction msgs as [|a r IH]; intros m H; [discriminate|].
    cbn [unwrap] in H. destruct (as_tx a) as [tx|] eqn:Ea.
    - destruct (bytes_eq_dec (tx_hash hash tx) h) as [Eh|Nh].
      + injection H as <-. split; [|split].
        * exists tx. split; [exact Ea|exact Eh].
        * cbn. rewrite Eh. reflexivity.
        * exists 0%nat, a. split; [reflexivity|]. split; [apply refresh_same|].
          intros j mj Hj. lia.
      + destruct (IH m H) as (Hh & Hr & i & m0 & Hn & Hs & Hfirst).
        split; [exact Hh|]. split; [exact Hr|].
        exists (S i), m0. split; [exact Hn|]. split; [exact Hs|].
        intros [|j] mj Hj Hnj.
        * cbn in Hnj. injection Hnj as <-. intros (tx' & Ha' & Hh').
          rewrite Ea in Ha'. injection Ha' as <-. exact (Nh Hh').
        * apply (Hfirst j mj); [lia|exact Hnj].
    - destruct (IH m H) as (Hh & Hr & i & m0 & Hn & Hs & Hfirst).
      split; [exact Hh|]. split; [exact Hr|].
      exists (S i), m0. split; [exact Hn|]. split; [exact Hs|].
      intros [|j] mj Hj Hnj.
      + cbn in Hnj. injection Hnj as <-. intros (tx' & Ha' & _). rewrite Ea in Ha'. discriminate.
      + apply (Hfirst j mj); [lia|exact Hnj].
  Qed.

  (** ** a refusal: exactly when no member has the requested hash *)
  Theorem unwrap_none_iff msgs h :
    unwrap hash msgs h = None <-> forall m, In m msgs -> ~ has_hash m h.
  Proof.
    induction msgs as [|a r IH]; cbn [unwrap].
    - split; [intros _ m []|reflexivity].
    - destruct (as_tx a) as [tx|] eqn:Ea.
      + destruct (bytes_eq_dec (tx_hash hash tx) h) as [Eh|Nh].
        * split; [discriminate|]. intros H. exfalso. apply (H a (or_introl eq_refl)).
          exists tx. split; assumption.
        * rewrite IH. split.
          -- intros H m [<-|Hin]; [|exact (H m Hin)].
             intros (tx' & Ha' & Hh'). rewrite Ea in Ha'. injection Ha' as <-. exact (Nh Hh').
          -- intros H m Hin. apply H. right. exact Hin.
      + rewrite IH. split.
        * intros H m [<-|Hin]; [|exact (H m Hin)].
          intros (tx' & Ha' & _). rewrite Ea in Ha'. discriminate.
        * intros H m Hin. apply H. right. exact Hin.
  Qed.

  (** ** completeness: a member's hash is found *)
  Theorem unwrap_complete msgs h m0 :
    In m0 msgs -> has_hash m0 h ->
    exists m, unwrap hash msgs h = Some m /\ has_hash m h /\ m_hash m = hash_hex h.
  Proof.
    intros Hin Hh. destruct (unwrap hash msgs h) as [m|] eqn:E.
    - exists m. destruct (unwrap_sound msgs h m E) as (A & B & _). split; [reflexivity|]. split; assumption.
    - exfalso. exact (proj1 (unwrap_none_iff msgs h) E m0 Hin Hh).
  Qed.

  (** ** the recorded hashes and [From] texts of the envelope are irrelevant *)
  Theorem unwrap_forge_independent msgs msgs' h :
    map m_data msgs = map m_data msgs' ->
    option_map m_data (unwrap hash msgs h) = option_map m_data (unwrap hash msgs' h) /\
    option_map m_hash (unwrap hash msgs h) = option_map m_hash (unwrap hash msgs' h).
  Proof.
    revert msgs'. induction msgs as [|a r IH]; intros [|a' r'] E; try discriminate.
    - split; reflexivity.
    - cbn [map] in E. injection E as Ea Er. cbn [unwrap]. unfold as_tx. rewrite <- Ea.
      destruct (of_txdata (m_data a)) as [tx|]; [|exact (IH r' Er)].
      destruct (bytes_eq_dec (tx_hash hash tx) h); [|exact (IH r' Er)].
      cbn. rewrite Ea. split; reflexivity.
  Qed.

  (** ** the instrumented scan computes [unwrap]; the position it reports is the
      position of the message returned; it keeps the envelope's shape *)
  Lemma unwrap_scan_unwrap msgs : forall i h,
    option_map snd (snd (unwrap_scan hash i msgs h)) = unwrap hash msgs h.
  Proof.
    induction msgs as [|a r IH]; intros i h; [reflexivity|].
    cbn [unwrap_scan unwrap]. destruct (as_tx a) as [tx|].
    - destruct (bytes_eq_dec (tx_hash hash tx) h); [reflexivity|].
      specialize (IH (S i) h). destruct (unwrap_scan hash (S i) r h) as [r' res]. exact IH.
    - specialize (IH (S i) h). destruct (unwrap_scan hash (S i) r h) as [r' res]. exact IH.
  Qed.

  Lemma unwrap_scan_position msgs : forall i h k m,
    snd (unwrap_scan hash i msgs h) = Some (k, m) ->
    (i <= k)%nat /\ exists m0, nth_error msgs (k - i) = Some m0 /\ same_tx m m0.
  Proof.
    induction msgs as [|a r IH]; intros i h k m H; [discriminate|].
    cbn [unwrap_scan] in H.
    assert (Hrec : snd (unwrap_scan hash (S i) r h) = Some (k, m) ->
                   (i <= k)%nat /\ exists m0, nth_error (a :: r) (k - i) = Some m0 /\ same_tx m m0).
    { intros H'. destruct (IH (S i) h k m H') as (Hle & m0 & Hn & Hs).
      split; [lia|]. exists m0. split; [|exact Hs].
      replace (k - i)%nat with (S (k - S i)) by lia. exact Hn. }
    destruct (as_tx a) as [tx|].
    - destruct (bytes_eq_dec (tx_hash hash tx) h).
      + cbn in H. injection H as <- <-. split; [lia|]. exists a. rewrite PeanoNat.Nat.sub_diag.
        split; [reflexivity|apply refresh_same].
      + destruct (unwrap_scan hash (S i) r h) as [r' res]. exact (Hrec H).
    - destruct (unwrap_scan hash (S i) r h) as [r' res]. exact (Hrec H).
  Qed.

  Lemma unwrap_scan_after msgs : forall i h,
    map m_data (fst (unwrap_scan hash i msgs h)) = map m_data msgs /\
    map m_from (fst (unwrap_scan hash i msgs h)) = map m_from msgs.
  Proof.
    induction msgs as [|a r IH]; intros i h; [split; reflexivity|].
    cbn [unwrap_scan]. destruct (as_tx a) as [tx|].
    - destruct (bytes_eq_dec (tx_hash hash tx) h); [split; reflexivity|].
      destruct (IH (S i) h) as [A B]. destruct (unwrap_scan hash (S i) r h) as [r' res].
      cbn in *. rewrite A, B. split; reflexivity.
    - destruct (IH (S i) h) as [A B]. destruct (unwrap_scan hash (S i) r h) as [r' res].
      cbn in *. rewrite A, B. split; reflexivity.
  Qed.

  (** ** end to end: an envelope that contains the wrapped transaction [tx],
      whatever else it contains and whatever was written into the recorded hashes,
      asked for the hash of [tx], answers a message with that hash and a correct
      recorded hash; if no other member collides with [tx] under [hash], the
      message unwraps to [tx] itself (hence the same fields and, for any recovery
      function, the same sender). *)
  Theorem unwrap_wrapped_member csum tx d msgs m0 :
    shape_ok tx -> to_txdata csum tx = Wrapped d ->
    In m0 msgs -> m_data m0 = d ->
    exists m, unwrap hash msgs (tx_hash hash tx) = Some m /\
              has_hash m (tx_hash hash tx) /\
              m_hash m = hash_hex (tx_hash hash tx) /\
              ((forall m' tx', In m' msgs -> as_tx m' = Some tx' -> tx_hash hash tx' = tx_hash hash tx -> tx' = tx) ->
               as_tx m = Some tx).
  Proof.
    intros Hs Hw Hin Hd.
    assert (Ha : as_tx m0 = Some tx).
    { unfold as_tx. rewrite Hd. exact (roundtrip_fields csum tx d Hs Hw). }
    destruct (unwrap_complete msgs (tx_hash hash tx) m0 Hin) as (m & Hu & Hh & Hr).
    { exists tx. split; [exact Ha|reflexivity]. }
    exists m. split; [exact Hu|]. split; [exact Hh|]. split; [exact Hr|].
    intros Hnc. destruct (unwrap_sound msgs _ m Hu) as ((tx' & Ha' & Hh') & _ & i & m1 & Hn & (Hsd & _) & _).
    assert (Hin1 : In m1 msgs) by (eapply nth_error_In; exact Hn).
    assert (Ha1 : as_tx m1 = Some tx') by (unfold as_tx in *; rewrite <- Hsd; exact Ha').
    rewrite (Hnc m1 tx' Hin1 Ha1 Hh') in Ha'. exact Ha'.
  Qed.
End UnwrapProofs.

(** * the one-message fast path is wrong

    With the identity as hash function, the envelope [[A]] asked for a hash that
    is not A's: [unwrap] refuses, the fast path hands out A (a transaction whose
    hash differs from the requested one); and with a forged recorded hash the fast
    path hands the message out with a recorded hash that is not its Ethereum hash,
    even when asked for A's own hash. *)
Definition id_hash : bytes -> bytes := fun b => b.
Definition ex_msg (tx : eth_tx) : emsg :=
  match from_eth_tx id_hash no_csum tx with Some m => m | None => mk_emsg (DLegacy (mk_legacy_pb 0 None 0 "" None [] [] [] [])) "" "" end.
Definition ex_forged (tx : eth_tx) (s : string) : emsg := mk_emsg (m_data (ex_msg tx)) s "".

Example unwrap_fast_refuted :
  (* asked for a foreign hash *)
  (unwrap id_hash [ex_msg ex_legacy] (tx_hash id_hash ex_access) = None /\
   exists m, unwrap_fast id_hash [ex_msg ex_legacy] (tx_hash id_hash ex_access) = Some m /\
             as_tx m = Some ex_legacy /\ tx_hash id_hash ex_legacy <> tx_hash id_hash ex_access) /\
  (* forged recorded hash, asked for the own hash *)
  (exists m, unwrap id_hash [ex_forged ex_legacy "0xdead"] (tx_hash id_hash ex_legacy) = Some m /\
             m_hash m = hash_hex (tx_hash id_hash ex_legacy)) /\
  (exists m, unwrap_fast id_hash [ex_forged ex_legacy "0xdead"] (tx_hash id_hash ex_legacy) = Some m /\
             as_tx m = Some ex_legacy /\ m_hash m <> hash_hex (tx_hash id_hash ex_legacy)).
Proof.
  split; [split|split].
  - vm_compute. reflexivity.
  - eexists. split; [vm_compute; reflexivity|]. split; [vm_compute; reflexivity|]. vm_compute. discriminate.
  - eexists. split; [vm_compute; reflexivity|]. vm_compute. reflexivity.
  - eexists. split; [vm_compute; reflexivity|]. split; [vm_compute; reflexivity|]. vm_compute. discriminate.
Qed.

(** the fast path and the scan agree on every envelope of two or more messages,
    and on one-message envelopes asked for the hash of their message when the
    recorded hash is the true one: the shortcut is invisible to round trips that
    only ever ask an envelope for its own transaction *)
Lemma unwrap_fast_agrees_elsewhere hash msgs h :
  length msgs <> 1%nat -> unwrap_fast hash msgs h = unwrap hash msgs h.
Proof. destruct msgs as [|a [|b r]]; cbn [length]; intros H; try reflexivity. congruence. Qed.

(** * non-vacuity: a three-message envelope with forged hashes, asked for each
    member, a foreign hash and the empty hash *)
Example ex_unwrap_envelope :
  let env := [ex_forged ex_access "0xdead"; ex_forged ex_legacy (m_hash (ex_msg ex_access)); ex_msg ex_dynamic] in
  (exists m, unwrap id_hash env (tx_hash id_hash ex_legacy) = Some m /\ as_tx m = Some ex_legacy /\
             m_hash m = hash_hex (tx_hash id_hash ex_legacy)) /\
  (exists m, unwrap id_hash env (tx_hash id_hash ex_access) = Some m /\ as_tx m = Some ex_access) /\
  (exists m, unwrap id_hash env (tx_hash id_hash ex_dynamic) = Some m /\ as_tx m = Some ex_dynamic) /\
  unwrap id_hash env [] = None /\
  unwrap id_hash [ex_msg ex_access; ex_msg ex_dynamic] (tx_hash id_hash ex_legacy) = None /\
  snd (unwrap_scan id_hash 0 env (tx_hash id_hash ex_legacy)) = option_map (fun m => (1%nat, m)) (unwrap id_hash env (tx_hash id_hash ex_legacy)).
Proof.
  cbv zeta. split; [|split; [|split; [|split; [|split]]]].
  - eexists. split; [vm_compute; reflexivity|]. split; vm_compute; reflexivity.
  - eexists. split; vm_compute; reflexivity.
  - eexists. split; vm_compute; reflexivity.
  - vm_compute. reflexivity.
  - vm_compute. reflexivity.
  - vm_compute. reflexivity.
Qed.

(** * the memoised check of the correspondence run is the plain one *)
Section Memo.
  Variable hash : bytes -> bytes.

  Definition memo_ok (p : emsg * option bytes) : Prop := snd p = eth_hash hash (fst p).

  Lemma scan_memo_correct l : Forall memo_ok l -> forall i h,
    scan_memo i l h = unwrap_scan hash i (map fst l) h.
  Proof.
    induction 1 as [|[m a] r Hm Hr IH]; intros i h; [reflexivity|].
    unfold memo_ok in Hm. cbn [fst snd] in Hm. subst a.
    cbn [map fst scan_memo unwrap_scan]. unfold eth_hash. destruct (as_tx m) as [tx|]; cbn [option_map].
    - destruct (bytes_eq_dec (tx_hash hash tx) h); [reflexivity|]. rewrite IH. reflexivity.
    - rewrite IH. reflexivity.
  Qed.

  Lemma map_update_nth {A B} (g : A -> B) (f : A -> A) (f' : B -> B) :
    (forall x, g (f x) = f' (g x)) -> forall n l, map g (update_nth f n l) = update_nth f' n (map g l).
  Proof.
    intros Hc n l. revert n. induction l as [|x r IH]; intros [|n]; cbn; try reflexivity.
    - rewrite Hc. reflexivity.
    - rewrite IH. reflexivity.
  Qed.

  Lemma Forall_update_nth {A} (P : A -> Prop) (f : A -> A) :
    (forall x, P x -> P (f x)) -> forall n l, Forall P l -> Forall P (update_nth f n l).
  Proof.
    intros Hf n l. revert n. induction l as [|x r IH]; intros [|n] H; cbn; try assumption;
      inversion H; subst; constructor; auto.
  Qed.

  Lemma forge_hashes_memo_ok fs : forall l, Forall memo_ok l ->
    Forall memo_ok (forge_hashes_memo fs l) /\ map fst (forge_hashes_memo fs l) = forge_hashes fs (map fst l).
  Proof.
    induction fs as [|f fs IH]; intros l Hl; [split; [assumption|reflexivity]|].
    unfold forge_hashes_memo, forge_hashes. cbn [fold_left].
    match goal with |- context [update_nth ?F (fst f) l] => set (F1 := F) end.
    assert (H1 : Forall memo_ok (update_nth F1 (fst f) l)).
    { apply Forall_update_nth; [|assumption]. intros [m a] Hm. exact Hm. }
    destruct (IH _ H1) as [A B]. split; [exact A|].
    unfold forge_hashes_memo, forge_hashes in B. rewrite B. f_equal.
    apply map_update_nth. intros [m a]. reflexivity.
  Qed.

  Lemma forge_froms_memo_ok fs : forall l, Forall memo_ok l ->
    Forall memo_ok (forge_froms_memo fs l) /\ map fst (forge_froms_memo fs l) = forge_froms fs (map fst l).
  Proof.
    induction fs as [|f fs IH]; intros l Hl; [split; [assumption|reflexivity]|].
    unfold forge_froms_memo, forge_froms. cbn [fold_left].
    match goal with |- context [update_nth ?F (fst f) l] => set (F1 := F) end.
    assert (H1 : Forall memo_ok (update_nth F1 (fst f) l)).
    { apply Forall_update_nth; [|assumption]. intros [m a] Hm. exact Hm. }
    destruct (IH _ H1) as [A B]. split; [exact A|].
    unfold forge_froms_memo, forge_froms in B. rewrite B. f_equal.
    apply map_update_nth. intros [m a]. reflexivity.
  Qed.

  Lemma all_some_map {A B} (g : A -> B) (l : list (option A)) :
    all_some (map (option_map g) l) = option_map (map g) (all_some l).
  Proof.
    induction l as [|[x|] r IH]; cbn; [reflexivity| |reflexivity].
    rewrite IH. destruct (all_some r); reflexivity.
  Qed.

  Lemma all_some_Forall {A} (P : A -> Prop) (l : list (option A)) t :
    Forall (fun o => match o with Some x => P x | None => True end) l -> all_some l = Some t -> Forall P t.
  Proof.
    revert t. induction l as [|[x|] r IH]; intros t H E; cbn in E.
    - injection E as <-. constructor.
    - destruct (all_some r) as [t'|] eqn:Er; [|discriminate]. injection E as <-.
      inversion H; subst. constructor; [assumption|]. apply IH; [assumption|reflexivity].
    - discriminate.
  Qed.

  Lemma forallb_ext' {A} (f g : A -> bool) l : (forall x, f x = g x) -> forallb f l = forallb g l.
  Proof. intros H. induction l as [|x r IH]; [reflexivity|]. cbn. rewrite H, IH. reflexivity. Qed.

  Theorem check_envelope_memo_eq (wp : list (option emsg)) ev :
    check_envelope_memo (map (option_map (annot hash)) wp) ev = check_envelope hash wp ev.
  Proof.
    unfold check_envelope_memo, check_envelope.
    set (sel := map (fun i => nth i wp None) (ev_members ev)).
    assert (Hsel : map (fun i => nth i (map (option_map (annot hash)) wp) None) (ev_members ev)
                   = map (option_map (annot hash)) sel).
    { unfold sel. rewrite map_map. apply map_ext. intros i.
      exact (map_nth (option_map (annot hash)) wp None i). }
    rewrite Hsel, all_some_map. destruct (all_some sel) as [msgs0|]; cbn [option_map]; [|reflexivity].
    assert (H0 : Forall memo_ok (map (annot hash) msgs0)).
    { apply Forall_forall. intros p Hp. apply in_map_iff in Hp. destruct Hp as (m & <- & _). reflexivity. }
    destruct (forge_hashes_memo_ok (ev_forge_hash ev) _ H0) as [H1 E1].
    destruct (forge_froms_memo_ok (ev_forge_from ev) _ H1) as [H2 E2].
    apply forallb_ext'. intros rq.
    rewrite (scan_memo_correct _ H2), E2, E1, map_map. cbn [annot fst]. rewrite map_id. reflexivity.
  Qed.

End Memo.

Theorem check_unwrap_case_memo_eq c : check_unwrap_case_memo c = check_unwrap_case c.
Proof.
  unfold check_unwrap_case_memo, check_unwrap_case.
  rewrite <- (map_map (from_eth_tx (table_hash (uc_table c)) no_csum) (option_map (annot (table_hash (uc_table c))))).
  apply forallb_ext'. intros ev. apply check_envelope_memo_eq.
Qed.
