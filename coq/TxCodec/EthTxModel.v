(** Ethereum transactions inside the Cosmos envelope (properties C18, C03):
    executable model of

      x/evm/types/{msg,tx_data,legacy_tx,access_list_tx,dynamic_fee_tx,access_list,utils}.go
      types/int.go (SafeNewIntFromBigInt)
      go-ethereum core/types/{transaction,transaction_signing,legacy_tx,access_list_tx,dynamic_fee_tx}.go

    Definitions only; the proofs are in EthTxProofs.v.

    What is on which side:
    - [eth_tx]: a go-ethereum [*types.Transaction] after [types.NewTx] (which copies
      the inner struct and replaces every nil big integer by 0): amounts and
      signature values are [Z] (a [big.Int] may be negative), nonce and gas [N]
      (uint64), [To] an optional 20-byte address, access list of
      (20-byte address, list of 32-byte keys).
    - [tx_data]: the chain's protobuf TxData as it sits in memory after
      [NewTxDataFromTx] and again after protobuf decoding: big integers are
      optional [sdkmath.Int] (modelled [option Z]; the wire form, a decimal
      string, is part of the protobuf boundary), [V/R/S] are the minimal
      big-endian bytes of [big.Int.Bytes] (sign dropped, zero = empty), [To] is
      the hex text of [Address.Hex] or the empty string, the access list is hex
      text.  [Address.Hex] mixes upper and lower case by a Keccak checksum
      (EIP-55); the case pattern enters as the function [csum] and parsing
      ignores case, exactly like [common.HexToAddress]. *)
From Coq Require Import Ascii String.
From Coq Require Import NArith ZArith List Bool.
From HV Require Import Base.Bytes Base.Rlp.
Import ListNotations.
Local Open Scope Z_scope.

(** * the go-ethereum side *)
Record access_tuple := mk_at { at_addr : bytes; at_keys : list bytes }.

Record legacy_tx := mk_legacy {
  l_nonce : N; l_gas_price : Z; l_gas : N; l_to : option bytes; l_value : Z; l_data : bytes;
  l_v : Z; l_r : Z; l_s : Z }.

Record al_tx := mk_al {
  a_chain_id : Z; a_nonce : N; a_gas_price : Z; a_gas : N; a_to : option bytes; a_value : Z;
  a_data : bytes; a_accesses : list access_tuple; a_v : Z; a_r : Z; a_s : Z }.

Record df_tx := mk_df {
  d_chain_id : Z; d_nonce : N; d_tip : Z; d_fee_cap : Z; d_gas : N; d_to : option bytes; d_value : Z;
  d_data : bytes; d_accesses : list access_tuple; d_v : Z; d_r : Z; d_s : Z }.

Inductive eth_tx :=
| TxLegacy (t : legacy_tx)
| TxAccessList (t : al_tx)
| TxDynamicFee (t : df_tx).

Definition tx_type (tx : eth_tx) : N :=
  match tx with TxLegacy _ => 0%N | TxAccessList _ => 1%N | TxDynamicFee _ => 2%N end.

(** [isProtectedV]: a legacy V of 27, 28, 0 or 1 is "unprotected" *)
Definition protected_v (v : Z) : bool :=
  negb ((v =? 27) || (v =? 28) || (v =? 1) || (v =? 0)).

Definition protected (tx : eth_tx) : bool :=
  match tx with TxLegacy t => protected_v (l_v t) | _ => true end.

(** [deriveChainId] (go-ethereum) for a non-negative V, including the uint64
    wrap-around of [(v - 35) / 2] below 35 *)
Definition derive_chain_id (v : Z) : Z :=
  if v <? 2 ^ 64 then
    if (v =? 27) || (v =? 28) then 0
    else if v <? 35 then (v + 2 ^ 64 - 35) / 2 else (v - 35) / 2
  else (v - 35) / 2.

(** [tx.ChainId()] *)
Definition chain_id (tx : eth_tx) : Z :=
  match tx with
  | TxLegacy t => derive_chain_id (l_v t)
  | TxAccessList t => a_chain_id t
  | TxDynamicFee t => d_chain_id t
  end.

Definition tx_nonce (tx : eth_tx) : N :=
  match tx with TxLegacy t => l_nonce t | TxAccessList t => a_nonce t | TxDynamicFee t => d_nonce t end.
Definition tx_gas (tx : eth_tx) : N :=
  match tx with TxLegacy t => l_gas t | TxAccessList t => a_gas t | TxDynamicFee t => d_gas t end.
Definition tx_value (tx : eth_tx) : Z :=
  match tx with TxLegacy t => l_value t | TxAccessList t => a_value t | TxDynamicFee t => d_value t end.
(** [GasPrice()] = [GasFeeCap()]; [GasTipCap()] *)
Definition tx_fee_cap (tx : eth_tx) : Z :=
  match tx with TxLegacy t => l_gas_price t | TxAccessList t => a_gas_price t | TxDynamicFee t => d_fee_cap t end.
Definition tx_tip_cap (tx : eth_tx) : Z :=
  match tx with TxLegacy t => l_gas_price t | TxAccessList t => a_gas_price t | TxDynamicFee t => d_tip t end.
Definition tx_vrs (tx : eth_tx) : Z * Z * Z :=
  match tx with
  | TxLegacy t => (l_v t, l_r t, l_s t)
  | TxAccessList t => (a_v t, a_r t, a_s t)
  | TxDynamicFee t => (d_v t, d_r t, d_s t)
  end.

(** ** RLP preimages *)
Definition rlp_z (x : Z) : item := rlp_n (Z.to_N x).
Definition rlp_to (to : option bytes) : item := match to with None => Str [] | Some a => Str a end.
Definition rlp_tuple (t : access_tuple) : item := Lst [Str (at_addr t); Lst (map Str (at_keys t))].
Definition rlp_access (al : list access_tuple) : item := Lst (map rlp_tuple al).

(** what [signer.Hash(tx)] hashes, for a signer of chain id [cid]
    (EIP155Signer / eip2930Signer / londonSigner; HomesteadSigner for an
    unprotected legacy transaction) *)
Definition sign_item (cid : Z) (tx : eth_tx) : item :=
  match tx with
  | TxLegacy t =>
      let base := [rlp_n (l_nonce t); rlp_z (l_gas_price t); rlp_n (l_gas t); rlp_to (l_to t);
                   rlp_z (l_value t); Str (l_data t)] in
      if protected_v (l_v t) then Lst (base ++ [rlp_z cid; rlp_n 0; rlp_n 0]) else Lst base
  | TxAccessList t =>
      Lst [rlp_z cid; rlp_n (a_nonce t); rlp_z (a_gas_price t); rlp_n (a_gas t); rlp_to (a_to t);
           rlp_z (a_value t); Str (a_data t); rlp_access (a_accesses t)]
  | TxDynamicFee t =>
      Lst [rlp_z cid; rlp_n (d_nonce t); rlp_z (d_tip t); rlp_z (d_fee_cap t); rlp_n (d_gas t); rlp_to (d_to t);
           rlp_z (d_value t); Str (d_data t); rlp_access (d_accesses t)]
  end.

(** typed transactions are prefixed by their type byte ([prefixedRlpHash]) *)
Definition envelope (tx : eth_tx) (body : bytes) : bytes :=
  match tx with TxLegacy _ => body | TxAccessList _ => 1%N :: body | TxDynamicFee _ => 2%N :: body end.

Definition sign_preimage (cid : Z) (tx : eth_tx) : bytes := envelope tx (encode (sign_item cid tx)).

(** what [tx.Hash()] hashes = [tx.MarshalBinary()] *)
Definition hash_item (tx : eth_tx) : item :=
  match tx with
  | TxLegacy t =>
      Lst [rlp_n (l_nonce t); rlp_z (l_gas_price t); rlp_n (l_gas t); rlp_to (l_to t);
           rlp_z (l_value t); Str (l_data t); rlp_z (l_v t); rlp_z (l_r t); rlp_z (l_s t)]
  | TxAccessList t =>
      Lst [rlp_z (a_chain_id t); rlp_n (a_nonce t); rlp_z (a_gas_price t); rlp_n (a_gas t); rlp_to (a_to t);
           rlp_z (a_value t); Str (a_data t); rlp_access (a_accesses t);
           rlp_z (a_v t); rlp_z (a_r t); rlp_z (a_s t)]
  | TxDynamicFee t =>
      Lst [rlp_z (d_chain_id t); rlp_n (d_nonce t); rlp_z (d_tip t); rlp_z (d_fee_cap t); rlp_n (d_gas t);
           rlp_to (d_to t); rlp_z (d_value t); Str (d_data t); rlp_access (d_accesses t);
           rlp_z (d_v t); rlp_z (d_r t); rlp_z (d_s t)]
  end.
Definition hash_preimage (tx : eth_tx) : bytes := envelope tx (encode (hash_item tx)).

(** ** hash and sender, for an arbitrary hash function and recovery function

    [recover h r s v] stands for [recoverPlain(h, R, S, V, true)] where [v] is
    the 27-based recovery value handed to it (it includes
    [ValidateSignatureValues]).  [sender cid tx] is [signer.Sender(tx)] for the
    signer of chain id [cid] ([ethtypes.MakeSigner] / [LatestSignerForChainID]). *)
Section Crypto.
  Variable hash : bytes -> bytes.
  Variable recover : bytes -> Z -> Z -> Z -> option bytes.

  Definition tx_hash (tx : eth_tx) : bytes := hash (hash_preimage tx).

  Definition sender (cid : Z) (tx : eth_tx) : option bytes :=
    let '(v, r, s) := tx_vrs tx in
    match tx with
    | TxLegacy t =>
        if protected_v v then
          if chain_id tx =? cid then recover (hash (sign_preimage cid tx)) r s (v - 2 * cid - 8) else None
        else recover (hash (sign_preimage cid tx)) r s v
    | _ =>
        if chain_id tx =? cid then recover (hash (sign_preimage cid tx)) r s (v + 27) else None
    end.
End Crypto.

(** ** fee figures of go-ethereum *)
Definition geth_fee (tx : eth_tx) : Z := tx_fee_cap tx * Z.of_N (tx_gas tx).
(** [tx.Cost()] *)
Definition geth_cost (tx : eth_tx) : Z := tx_fee_cap tx * Z.of_N (tx_gas tx) + tx_value tx.
(** [tx.AsMessage(signer, baseFee).GasPrice()] *)
Definition geth_effective_price (tx : eth_tx) (base_fee : option Z) : Z :=
  match base_fee with
  | None => tx_fee_cap tx
  | Some b => Z.min (tx_tip_cap tx + b) (tx_fee_cap tx)
  end.

(** * the chain's side *)
Record access_tuple_pb := mk_atp { p_addr : string; p_keys : list string }.

Record legacy_pb := mk_legacy_pb {
  lp_nonce : N; lp_gas_price : option Z; lp_gas : N; lp_to : string; lp_value : option Z; lp_data : bytes;
  lp_v : bytes; lp_r : bytes; lp_s : bytes }.

Record al_pb := mk_al_pb {
  ap_chain_id : option Z; ap_nonce : N; ap_gas_price : option Z; ap_gas : N; ap_to : string;
  ap_value : option Z; ap_data : bytes; ap_accesses : list access_tuple_pb;
  ap_v : bytes; ap_r : bytes; ap_s : bytes }.

Record df_pb := mk_df_pb {
  dp_chain_id : option Z; dp_nonce : N; dp_tip : option Z; dp_fee_cap : option Z; dp_gas : N; dp_to : string;
  dp_value : option Z; dp_data : bytes; dp_accesses : list access_tuple_pb;
  dp_v : bytes; dp_r : bytes; dp_s : bytes }.

Inductive tx_data :=
| DLegacy (t : legacy_pb)
| DAccessList (t : al_pb)
| DDynamicFee (t : df_pb).

(** outcome of wrapping *)
Inductive wrapped :=
| Wrapped (d : tx_data)
| ErrOutOfBound        (* SafeNewIntFromBigInt: "big int out of bound" (error returned) *)
| PanicChainId         (* SetSignatureValues: sdkmath.NewIntFromBigInt(chainID) panics above 256 bits *)
| PanicFee.            (* BuildTx: sdkmath.NewIntFromBigInt(txData.Fee()) panics above 256 bits *)

Section Wrap.
  (** EIP-55 case pattern of [Address.Hex]: from the 20 address bytes to
      "is the k-th hex character upper case" (a Keccak of the lower-case text) *)
  Variable csum : bytes -> nat -> bool.

  Definition addr_hex (a : bytes) : string := hex0x (csum a) a.
  Definition hash_hex (h : bytes) : string := hex0x (fun _ => false) h.   (* Hash.Hex: lower case *)
  Definition to_hex (to : option bytes) : string := match to with None => EmptyString | Some a => addr_hex a end.

  (** [NewAccessList] *)
  Definition access_pb (al : list access_tuple) : list access_tuple_pb :=
    map (fun t => mk_atp (addr_hex (at_addr t)) (map hash_hex (at_keys t))) al.

  (** [SafeNewIntFromBigInt] *)
  Definition safe_int (x : Z) : option Z := if fits256 x then Some x else None.

  (** [NewTxDataFromTx]: the three constructors, each followed by
      [SetSignatureValues(tx.ChainId(), v, r, s)] *)
  Definition to_txdata (tx : eth_tx) : wrapped :=
    match tx with
    | TxLegacy t =>
        match safe_int (l_value t), safe_int (l_gas_price t) with
        | Some v, Some gp =>
            Wrapped (DLegacy (mk_legacy_pb (l_nonce t) (Some gp) (l_gas t) (to_hex (l_to t)) (Some v) (l_data t)
                                           (z_bytes (l_v t)) (z_bytes (l_r t)) (z_bytes (l_s t))))
        | _, _ => ErrOutOfBound
        end
    | TxAccessList t =>
        match safe_int (a_value t), safe_int (a_gas_price t) with
        | Some v, Some gp =>
            if fits256 (a_chain_id t) then
              Wrapped (DAccessList (mk_al_pb (Some (a_chain_id t)) (a_nonce t) (Some gp) (a_gas t) (to_hex (a_to t))
                                             (Some v) (a_data t) (access_pb (a_accesses t))
                                             (z_bytes (a_v t)) (z_bytes (a_r t)) (z_bytes (a_s t))))
            else PanicChainId
        | _, _ => ErrOutOfBound
        end
    | TxDynamicFee t =>
        match safe_int (d_value t), safe_int (d_fee_cap t), safe_int (d_tip t) with
        | Some v, Some fc, Some tip =>
            if fits256 (d_chain_id t) then
              Wrapped (DDynamicFee (mk_df_pb (Some (d_chain_id t)) (d_nonce t) (Some tip) (Some fc) (d_gas t)
                                             (to_hex (d_to t)) (Some v) (d_data t) (access_pb (d_accesses t))
                                             (z_bytes (d_v t)) (z_bytes (d_r t)) (z_bytes (d_s t))))
            else PanicChainId
        | _, _, _ => ErrOutOfBound
        end
    end.
End Wrap.

(** ** figures computed from the message ([None] = the Go code dereferences nil) *)
Definition omul (p : option Z) (g : N) : option Z := match p with Some x => Some (x * Z.of_N g) | None => None end.
(** [cost(fee, value)]: a nil value adds nothing *)
Definition ocost (fee : option Z) (value : option Z) : option Z :=
  match fee, value with Some f, Some v => Some (f + v) | Some f, None => Some f | None, _ => None end.

Definition d_gas_of (d : tx_data) : N :=
  match d with DLegacy t => lp_gas t | DAccessList t => ap_gas t | DDynamicFee t => dp_gas t end.
Definition d_value_of (d : tx_data) : option Z :=
  match d with DLegacy t => lp_value t | DAccessList t => ap_value t | DDynamicFee t => dp_value t end.
(** [GetGasPrice] = [GetGasFeeCap] *)
Definition d_fee_cap_of (d : tx_data) : option Z :=
  match d with DLegacy t => lp_gas_price t | DAccessList t => ap_gas_price t | DDynamicFee t => dp_fee_cap t end.

(** [TxData.Fee] = [MsgEthereumTx.GetFee] *)
Definition msg_fee (d : tx_data) : option Z := omul (d_fee_cap_of d) (d_gas_of d).
(** [TxData.Cost] *)
Definition msg_cost (d : tx_data) : option Z := ocost (msg_fee d) (d_value_of d).
(** [TxData.EffectiveGasPrice(baseFee)]: legacy and access-list ignore the base
    fee; dynamic-fee computes [BigMin(tip + baseFee, feeCap)] and dereferences a
    nil base fee *)
Definition msg_effective_price (d : tx_data) (base_fee : option Z) : option Z :=
  match d with
  | DLegacy t => lp_gas_price t
  | DAccessList t => ap_gas_price t
  | DDynamicFee t =>
      match dp_tip t, dp_fee_cap t, base_fee with
      | Some tip, Some fc, Some b => Some (Z.min (tip + b) fc)
      | _, _, _ => None
      end
  end.
(** [TxData.EffectiveFee] = [MsgEthereumTx.GetEffectiveFee]; [TxData.EffectiveCost] *)
Definition msg_effective_fee (d : tx_data) (base_fee : option Z) : option Z :=
  match d with
  | DDynamicFee _ => omul (msg_effective_price d base_fee) (d_gas_of d)
  | _ => msg_fee d
  end.
Definition msg_effective_cost (d : tx_data) (base_fee : option Z) : option Z :=
  match d with
  | DDynamicFee _ => ocost (msg_effective_fee d base_fee) (d_value_of d)
  | _ => msg_cost d
  end.

(** [FromEthereumTx] followed by [BuildTx] (whose fee coin is
    [sdkmath.NewIntFromBigInt(txData.Fee())]) *)
Definition wrap (csum : bytes -> nat -> bool) (tx : eth_tx) : wrapped :=
  match to_txdata csum tx with
  | Wrapped d =>
      match msg_fee d with
      | Some f => if fits256 f then Wrapped d else PanicFee
      | None => PanicFee
      end
  | e => e
  end.

(** ** unwrapping: [AsEthereumData] + [ethtypes.NewTx] (nil big integer -> 0) *)
Definition oz (o : option Z) : Z := match o with Some x => x | None => 0 end.

(** [GetTo]: empty text = contract creation.  [None] at the outer level = the
    text is not "0x" + 40 hex digits (see [parse_hex_fixed]). *)
Definition parse_to (s : string) : option (option bytes) :=
  match s with
  | EmptyString => Some None
  | _ => match parse_hex_fixed 20 s with Some a => Some (Some a) | None => None end
  end.

Fixpoint parse_keys (ks : list string) : option (list bytes) :=
  match ks with
  | [] => Some []
  | k :: r => match parse_hex_fixed 32 k, parse_keys r with
              | Some b, Some t => Some (b :: t) | _, _ => None end
  end.

(** [ToEthAccessList] *)
Fixpoint parse_access (al : list access_tuple_pb) : option (list access_tuple) :=
  match al with
  | [] => Some []
  | t :: r => match parse_hex_fixed 20 (p_addr t), parse_keys (p_keys t), parse_access r with
              | Some a, Some ks, Some rest => Some (mk_at a ks :: rest) | _, _, _ => None end
  end.

Definition of_txdata (d : tx_data) : option eth_tx :=
  match d with
  | DLegacy t =>
      match parse_to (lp_to t) with
      | Some to => Some (TxLegacy (mk_legacy (lp_nonce t) (oz (lp_gas_price t)) (lp_gas t) to (oz (lp_value t)) (lp_data t)
                                             (z_of_bytes (lp_v t)) (z_of_bytes (lp_r t)) (z_of_bytes (lp_s t))))
      | None => None
      end
  | DAccessList t =>
      match parse_to (ap_to t), parse_access (ap_accesses t) with
      | Some to, Some al =>
          Some (TxAccessList (mk_al (oz (ap_chain_id t)) (ap_nonce t) (oz (ap_gas_price t)) (ap_gas t) to
                                    (oz (ap_value t)) (ap_data t) al
                                    (z_of_bytes (ap_v t)) (z_of_bytes (ap_r t)) (z_of_bytes (ap_s t))))
      | _, _ => None
      end
  | DDynamicFee t =>
      match parse_to (dp_to t), parse_access (dp_accesses t) with
      | Some to, Some al =>
          Some (TxDynamicFee (mk_df (oz (dp_chain_id t)) (dp_nonce t) (oz (dp_tip t)) (oz (dp_fee_cap t)) (dp_gas t) to
                                    (oz (dp_value t)) (dp_data t) al
                                    (z_of_bytes (dp_v t)) (z_of_bytes (dp_r t)) (z_of_bytes (dp_s t))))
      | _, _ => None
      end
  end.

(** * comparison with the implementation (correspondence run) *)
Definition bytes_eq_dec : forall a b : bytes, {a = b} + {a <> b} := list_eq_dec N.eq_dec.
Definition obytes_eq_dec : forall a b : option bytes, {a = b} + {a <> b}.
Proof. decide equality. apply bytes_eq_dec. Defined.
Definition oz_eq_dec : forall a b : option Z, {a = b} + {a <> b}.
Proof. decide equality. apply Z.eq_dec. Defined.
Definition at_eq_dec : forall a b : access_tuple, {a = b} + {a <> b}.
Proof. decide equality; [apply (list_eq_dec bytes_eq_dec)|apply bytes_eq_dec]. Defined.
Definition atp_eq_dec : forall a b : access_tuple_pb, {a = b} + {a <> b}.
Proof. decide equality; [apply (list_eq_dec string_dec)|apply string_dec]. Defined.

Definition eth_tx_eq_dec : forall a b : eth_tx, {a = b} + {a <> b}.
Proof.
  decide equality;
    decide equality; try apply Z.eq_dec; try apply N.eq_dec; try apply bytes_eq_dec;
    try apply obytes_eq_dec; try apply (list_eq_dec at_eq_dec).
Defined.

Definition tx_data_eq_dec : forall a b : tx_data, {a = b} + {a <> b}.
Proof.
  decide equality;
    decide equality; try apply oz_eq_dec; try apply N.eq_dec; try apply bytes_eq_dec;
    try apply string_dec; try apply (list_eq_dec atp_eq_dec).
Defined.

Definition eqb {A} (dec : forall a b : A, {a = b} + {a <> b}) (a b : A) : bool := if dec a b then true else false.

(** the case pattern of checksummed addresses is not modelled (it needs
    Keccak): hex text is compared in lower case *)
Definition lower_atp (t : access_tuple_pb) : access_tuple_pb := mk_atp (lower (p_addr t)) (map lower (p_keys t)).
Definition lower_txdata (d : tx_data) : tx_data :=
  match d with
  | DLegacy t => DLegacy (mk_legacy_pb (lp_nonce t) (lp_gas_price t) (lp_gas t) (lower (lp_to t)) (lp_value t) (lp_data t)
                                        (lp_v t) (lp_r t) (lp_s t))
  | DAccessList t => DAccessList (mk_al_pb (ap_chain_id t) (ap_nonce t) (ap_gas_price t) (ap_gas t) (lower (ap_to t))
                                           (ap_value t) (ap_data t) (map lower_atp (ap_accesses t))
                                           (ap_v t) (ap_r t) (ap_s t))
  | DDynamicFee t => DDynamicFee (mk_df_pb (dp_chain_id t) (dp_nonce t) (dp_tip t) (dp_fee_cap t) (dp_gas t) (lower (dp_to t))
                                           (dp_value t) (dp_data t) (map lower_atp (dp_accesses t))
                                           (dp_v t) (dp_r t) (dp_s t))
  end.

Definition no_csum : bytes -> nat -> bool := fun _ _ => false.

(** one recorded run of the implementation *)
Record obs := mkobs {
  o_res : N;                    (* 0 wrapped and unwrapped; 1 FromEthereumTx error; 2 FromEthereumTx panic; 3 BuildTx panic *)
  o_txdata : option tx_data;    (* TxData of the decoded message *)
  o_back : option eth_tx;       (* AsTransaction of the decoded message *)
  o_sign_pre : bytes;           (* RLP bytes go-ethereum's signer hashes (own chain id) *)
  o_hash_pre : bytes;           (* tx.MarshalBinary() *)
  o_base_fee : Z;               (* the non-nil base fee used below *)
  o_fee : option Z;             (* msg.GetFee() *)
  o_cost : option Z;            (* txData.Cost() *)
  o_price_nil : option Z;       (* txData.EffectiveGasPrice(nil); None = panic *)
  o_price : option Z;           (* txData.EffectiveGasPrice(baseFee) *)
  o_eff_fee : option Z;         (* msg.GetEffectiveFee(baseFee) *)
  o_eff_cost : option Z         (* txData.EffectiveCost(baseFee) *)
}.

Definition res_code (w : wrapped) : N :=
  match w with Wrapped _ => 0%N | ErrOutOfBound => 1%N | PanicChainId => 2%N | PanicFee => 3%N end.

(** the model's verdict on one case: every recorded figure is what the model
    computes from the input transaction *)
Definition check_case (c : eth_tx * obs) : bool :=
  let '(tx, o) := c in
  let pre_ok :=
    eqb bytes_eq_dec (sign_preimage (chain_id tx) tx) (o_sign_pre o) &&
    eqb bytes_eq_dec (hash_preimage tx) (o_hash_pre o) in
  let figures d :=
    eqb oz_eq_dec (msg_fee d) (o_fee o) &&
    eqb oz_eq_dec (msg_cost d) (o_cost o) &&
    eqb oz_eq_dec (msg_effective_price d None) (o_price_nil o) &&
    eqb oz_eq_dec (msg_effective_price d (Some (o_base_fee o))) (o_price o) &&
    eqb oz_eq_dec (msg_effective_fee d (Some (o_base_fee o))) (o_eff_fee o) &&
    eqb oz_eq_dec (msg_effective_cost d (Some (o_base_fee o))) (o_eff_cost o) in
  pre_ok &&
  N.eqb (res_code (wrap no_csum tx)) (o_res o) &&
  match to_txdata no_csum tx with
  | Wrapped d =>
      match o_txdata o with
      | Some d' =>
          eqb tx_data_eq_dec (lower_txdata d) (lower_txdata d') && figures d &&
          match o_back o with
          | Some tx' => match of_txdata d' with Some m => eqb eth_tx_eq_dec m tx' | None => false end
          | None => negb (N.eqb (o_res o) 0)
          end
      | None => false
      end
  | _ => match o_txdata o with None => true | Some _ => false end
  end.

Fixpoint mismatches_from (i : nat) (cs : list (eth_tx * obs)) : list nat :=
  match cs with
  | [] => []
  | c :: r => if check_case c then mismatches_from (S i) r else i :: mismatches_from (S i) r
  end.
Definition mismatches (cs : list (eth_tx * obs)) : list nat := mismatches_from 0 cs.

(** shorthand used by the generated case files *)
Definition hx (s : string) : bytes := unhex_or_nil s.
Definition hxs (l : list string) : bytes := concat (map unhex_or_nil l).

(** * unwrapping by hash: [UnwrapEthereumMsg] (x/evm/types/utils.go)

    A decoded Cosmos transaction carries a list of [MsgEthereumTx].  Each has
    the TxData ([Data]), the recorded hash ([Hash], hex text) and the deprecated
    [From] text.  Nothing on the decoding path validates [Hash] or [From]
    ([ValidateBasic] is not part of TxDecoder), so both are arbitrary text here. *)
Record emsg := mk_emsg {
  m_data : tx_data;     (* Data, unpacked *)
  m_hash : string;      (* Hash: what the sender of the envelope recorded *)
  m_from : string }.    (* From *)

(** [MsgEthereumTx.AsTransaction].  [None] = a To / access-list text that is not
    "0x" + hex digits of the right length: [FromEthereumTx] never writes such text
    ([roundtrip_fields]); the scan below passes over such a member. *)
Definition as_tx (m : emsg) : option eth_tx := of_txdata (m_data m).

Section Unwrap.
  (** Keccak-256 enters as an arbitrary function *)
  Variable hash : bytes -> bytes.

  (** [FromEthereumTx]: [Data := NewTxDataFromTx(tx)], [Hash := tx.Hash().Hex()];
      [From] stays empty ([BuildTx] clears it) *)
  Definition from_eth_tx (csum : bytes -> nat -> bool) (tx : eth_tx) : option emsg :=
    match to_txdata csum tx with
    | Wrapped d => Some (mk_emsg d (hash_hex (tx_hash hash tx)) EmptyString)
    | _ => None
    end.

  (** [ethMsg.Hash = txHash.Hex()] *)
  Definition refresh (m : emsg) (h : bytes) : emsg := mk_emsg (m_data m) (hash_hex h) (m_from m).

  (** [UnwrapEthereumMsg(tx, ethHash)]: scan the messages in order, recompute the
      Ethereum hash of each one, overwrite its recorded hash with it, return the
      first message whose recomputed hash is the requested one; none = the error
      "eth tx not found". *)
  Fixpoint unwrap (msgs : list emsg) (h : bytes) : option emsg :=
    match msgs with
    | [] => None
    | m :: r =>
        match as_tx m with
        | Some tx => if bytes_eq_dec (tx_hash hash tx) h then Some (refresh m (tx_hash hash tx)) else unwrap r h
        | None => unwrap r h
        end
    end.

  (** the same scan, instrumented for the comparison with the implementation:
      position of the message returned and the envelope as the call leaves it (the
      recorded hash of every visited message has been overwritten) *)
  Fixpoint unwrap_scan (i : nat) (msgs : list emsg) (h : bytes) : list emsg * option (nat * emsg) :=
    match msgs with
    | [] => ([], None)
    | m :: r =>
        match as_tx m with
        | Some tx =>
            let m' := refresh m (tx_hash hash tx) in
            if bytes_eq_dec (tx_hash hash tx) h then (m' :: r, Some (i, m'))
            else let '(r', res) := unwrap_scan (S i) r h in (m' :: r', res)
        | None => let '(r', res) := unwrap_scan (S i) r h in (m :: r', res)
        end
    end.

  (** NOT the code of /repo: the scan with a fast path for envelopes of exactly one
      message (returned at once: no hash recomputed, none compared, recorded hash
      not refreshed).  Kept to state what such a shortcut breaks
      ([unwrap_fast_refuted]). *)
  Definition unwrap_fast (msgs : list emsg) (h : bytes) : option emsg :=
    match msgs with
    | [m] => Some m
    | _ => unwrap msgs h
    end.
End Unwrap.

(** ** comparison with the implementation: lookups by hash over envelopes *)
Record request := mk_rq {
  rq_hash : bytes;                        (* the requested hash *)
  rq_found : option nat;                  (* position of the message UnwrapEthereumMsg returned; None = error *)
  rq_after : list string }.               (* Hash of every member after the call *)

Record cosmos_env := mk_ev {
  ev_members : list nat;                  (* members of the envelope: positions in the pool *)
  ev_forge_hash : list (nat * string);    (* (position in the envelope, text put into Hash before encoding) *)
  ev_forge_from : list (nat * string);    (* (position in the envelope, text put into From before encoding) *)
  ev_from_after : list string;            (* From of every member after every call *)
  ev_requests : list request }.           (* each on a freshly decoded copy of the envelope *)

Record unwrap_case := mk_uc {
  uc_pool : list eth_tx;                  (* the signed transactions that are members of some envelope *)
  uc_hashes : list bytes;                 (* tx.Hash() of each, as go-ethereum computed it *)
  uc_envs : list cosmos_env }.

(** the hash function given by a finite graph; a preimage the implementation did
    not hash gets the empty hash (and the comparison fails) *)
Definition table_hash (tbl : list (bytes * bytes)) (pre : bytes) : bytes :=
  match find (fun e => eqb bytes_eq_dec (fst e) pre) tbl with Some e => snd e | None => [] end.

(** Keccak restricted to the pool: the graph pairing the hash preimage of every
    pool transaction (that these are the bytes go-ethereum hashes is what the
    [cases] list checks, byte for byte, for every transaction) with the hash
    go-ethereum computed *)
Definition uc_table (c : unwrap_case) : list (bytes * bytes) := combine (map hash_preimage (uc_pool c)) (uc_hashes c).

Fixpoint update_nth {A} (f : A -> A) (n : nat) (l : list A) : list A :=
  match l, n with
  | [], _ => []
  | x :: r, O => f x :: r
  | x :: r, S k => x :: update_nth f k r
  end.

Definition forge_hashes (fs : list (nat * string)) (msgs : list emsg) : list emsg :=
  fold_left (fun ms f => update_nth (fun m => mk_emsg (m_data m) (snd f) (m_from m)) (fst f) ms) fs msgs.
Definition forge_froms (fs : list (nat * string)) (msgs : list emsg) : list emsg :=
  fold_left (fun ms f => update_nth (fun m => mk_emsg (m_data m) (m_hash m) (snd f)) (fst f) ms) fs msgs.

Fixpoint all_some {A} (l : list (option A)) : option (list A) :=
  match l with
  | [] => Some []
  | Some x :: r => match all_some r with Some t => Some (x :: t) | None => None end
  | None :: _ => None
  end.

Definition onat_eq_dec : forall a b : option nat, {a = b} + {a <> b}.
Proof. decide equality. apply PeanoNat.Nat.eq_dec. Defined.
Definition strings_eq_dec : forall a b : list string, {a = b} + {a <> b} := list_eq_dec string_dec.

(** what one call must have left behind, given the result of the model's scan *)
Definition request_ok (ev : cosmos_env) (rq : request) (r : list emsg * option (nat * emsg)) : bool :=
  eqb onat_eq_dec (option_map fst (snd r)) (rq_found rq) &&
  eqb strings_eq_dec (map m_hash (fst r)) (rq_after rq) &&
  eqb strings_eq_dec (map m_from (fst r)) (ev_from_after ev).

Definition check_envelope (hash : bytes -> bytes) (wrapped_pool : list (option emsg)) (ev : cosmos_env) : bool :=
  match all_some (map (fun i => nth i wrapped_pool None) (ev_members ev)) with
  | None => false
  | Some msgs0 =>
      let msgs := forge_froms (ev_forge_from ev) (forge_hashes (ev_forge_hash ev) msgs0) in
      forallb (fun rq => request_ok ev rq (unwrap_scan hash 0 msgs (rq_hash rq))) (ev_requests ev)
  end.

Definition check_unwrap_case (c : unwrap_case) : bool :=
  let hash := table_hash (uc_table c) in
  let wrapped_pool := map (from_eth_tx hash no_csum) (uc_pool c) in
  forallb (check_envelope hash wrapped_pool) (uc_envs c).

(** The same check, evaluated faster: the Ethereum hash of a pool member is
    computed once per case instead of once per visit, and carried along with the
    message (forging [Hash] / [From] does not touch the TxData it is computed
    from).  [check_unwrap_case_memo_eq] (UnwrapProofs.v) proves the two checks
    equal on every input; the correspondence run evaluates this one. *)
Definition eth_hash (hash : bytes -> bytes) (m : emsg) : option bytes := option_map (tx_hash hash) (as_tx m).
Definition annot (hash : bytes -> bytes) (m : emsg) : emsg * option bytes := (m, eth_hash hash m).

Fixpoint scan_memo (i : nat) (msgs : list (emsg * option bytes)) (h : bytes) : list emsg * option (nat * emsg) :=
  match msgs with
  | [] => ([], None)
  | (m, Some x) :: r =>
      let m' := refresh m x in
      if bytes_eq_dec x h then (m' :: map fst r, Some (i, m'))
      else let '(r', res) := scan_memo (S i) r h in (m' :: r', res)
  | (m, None) :: r => let '(r', res) := scan_memo (S i) r h in (m :: r', res)
  end.

Definition forge_hashes_memo (fs : list (nat * string)) (msgs : list (emsg * option bytes)) :=
  fold_left (fun ms f => update_nth (fun p => (mk_emsg (m_data (fst p)) (snd f) (m_from (fst p)), snd p)) (fst f) ms) fs msgs.
Definition forge_froms_memo (fs : list (nat * string)) (msgs : list (emsg * option bytes)) :=
  fold_left (fun ms f => update_nth (fun p => (mk_emsg (m_data (fst p)) (m_hash (fst p)) (snd f), snd p)) (fst f) ms) fs msgs.

Definition check_envelope_memo (pool : list (option (emsg * option bytes))) (ev : cosmos_env) : bool :=
  match all_some (map (fun i => nth i pool None) (ev_members ev)) with
  | None => false
  | Some msgs0 =>
      let msgs := forge_froms_memo (ev_forge_from ev) (forge_hashes_memo (ev_forge_hash ev) msgs0) in
      forallb (fun rq => request_ok ev rq (scan_memo 0 msgs (rq_hash rq))) (ev_requests ev)
  end.

Definition check_unwrap_case_memo (c : unwrap_case) : bool :=
  let hash := table_hash (uc_table c) in
  let pool := map (fun tx => option_map (annot hash) (from_eth_tx hash no_csum tx)) (uc_pool c) in
  forallb (check_envelope_memo pool) (uc_envs c).

Fixpoint mismatches_unwrap_from (i : nat) (cs : list unwrap_case) : list nat :=
  match cs with
  | [] => []
  | c :: r => if check_unwrap_case_memo c then mismatches_unwrap_from (S i) r else i :: mismatches_unwrap_from (S i) r
  end.
Definition mismatches_unwrap (cs : list unwrap_case) : list nat := mismatches_unwrap_from 0 cs.

(** shorthands of the generated case files.  [flip h k]: the hash [h] with bit
    [k] flipped (bit [k mod 8] of byte [k / 8]); [rq]: a request that left the
    recorded hashes [after] *)
Definition zero_hash : bytes := repeat 0%N 32.
Definition flip (h : bytes) (k : nat) : bytes :=
  update_nth (fun b => N.lxor b (N.shiftl 1 (N.of_nat (Nat.modulo k 8)))) (Nat.div k 8) h.
