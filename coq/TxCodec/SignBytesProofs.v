(** The bytes an Ethereum signer hashes determine everything that was signed:
    transaction type, replay protection, chain id and every field (property
    C03, "a valid signature ... over exactly the transaction content, the chain
    id and the ... sequence number").  Consequence of the injectivity of RLP. *)
From Coq Require Import Ascii String.
From Coq Require Import NArith ZArith List Bool Lia.
From HV Require Import Base.Bytes Base.Rlp Base.RlpProofs TxCodec.EthTxModel.
Import ListNotations.
Local Open Scope Z_scope.

(** what the signature covers *)
Record signed_content := mk_sc {
  sc_type : N;                 (* 0 legacy, 1 access list, 2 dynamic fee *)
  sc_protected : bool;         (* EIP-155 / typed: the chain id is part of the signed bytes *)
  sc_chain : Z;                (* the signer's chain id (0 when not protected) *)
  sc_nonce : N;
  sc_tip : Z;                  (* = gas price for legacy and access-list transactions *)
  sc_cap : Z;
  sc_gas : N;
  sc_to : option bytes;
  sc_value : Z;
  sc_data : bytes;
  sc_accesses : list access_tuple
}.

Definition signed_content_of (cid : Z) (tx : eth_tx) : signed_content :=
  match tx with
  | TxLegacy t =>
      mk_sc 0 (protected_v (l_v t)) (if protected_v (l_v t) then cid else 0)
            (l_nonce t) (l_gas_price t) (l_gas_price t) (l_gas t) (l_to t) (l_value t) (l_data t) []
  | TxAccessList t =>
      mk_sc 1 true cid (a_nonce t) (a_gas_price t) (a_gas_price t) (a_gas t) (a_to t) (a_value t) (a_data t) (a_accesses t)
  | TxDynamicFee t =>
      mk_sc 2 true cid (d_nonce t) (d_tip t) (d_fee_cap t) (d_gas t) (d_to t) (d_value t) (d_data t) (d_accesses t)
  end.

(** side conditions: integers are non-negative (RLP has no negative
    integers: go-ethereum refuses to encode one), a present [To] is not the
    empty string (it is 20 bytes), and the whole payload is shorter than 2^64
    bytes (lengths are uint64 in go-ethereum) *)
Definition to_nonempty (to : option bytes) : Prop := match to with Some [] => False | _ => True end.

Definition signable (cid : Z) (tx : eth_tx) : Prop :=
  0 <= cid /\ wf (sign_item cid tx) /\
  match tx with
  | TxLegacy t => 0 <= l_gas_price t /\ 0 <= l_value t /\ to_nonempty (l_to t)
  | TxAccessList t => 0 <= a_gas_price t /\ 0 <= a_value t /\ to_nonempty (a_to t)
  | TxDynamicFee t => 0 <= d_tip t /\ 0 <= d_fee_cap t /\ 0 <= d_value t /\ to_nonempty (d_to t)
  end.

Lemma rlp_z_inj a b : 0 <= a -> 0 <= b -> rlp_z a = rlp_z b -> a = b.
Proof. intros Ha Hb H. apply rlp_n_inj in H. lia. Qed.

Lemma rlp_to_inj a b : to_nonempty a -> to_nonempty b -> rlp_to a = rlp_to b -> a = b.
Proof.
  destruct a as [[|x a]|], b as [[|y b]|]; cbn; intros Ha Hb H; try tauto; try discriminate.
  inversion H; reflexivity.
Qed.

Lemma map_inj {A B} (f : A -> B) (Hf : forall a b, f a = f b -> a = b) (l1 l2 : list A) :
  map f l1 = map f l2 -> l1 = l2.
Proof.
  revert l2. induction l1 as [|a r IH]; intros [|b r2] H; try discriminate; [reflexivity|].
  cbn [map] in H. inversion H as [[H1 H2]]. apply Hf in H1. apply IH in H2. subst. reflexivity.
Qed.

Lemma Str_inj (a b : bytes) : Str a = Str b -> a = b.
Proof. intros H. inversion H. reflexivity. Qed.

Lemma rlp_tuple_inj t1 t2 : rlp_tuple t1 = rlp_tuple t2 -> t1 = t2.
Proof.
  destruct t1 as [a1 k1], t2 as [a2 k2]. unfold rlp_tuple. cbn [at_addr at_keys]. intros H.
  inversion H as [[Ha Hk]]. apply (map_inj Str Str_inj) in Hk. subst. reflexivity.
Qed.

Lemma rlp_access_inj l1 l2 : rlp_access l1 = rlp_access l2 -> l1 = l2.
Proof.
  unfold rlp_access. intros H. inversion H as [Hm]. exact (map_inj rlp_tuple rlp_tuple_inj _ _ Hm).
Qed.

Lemma envelope_legacy_head tx cid : tx_type tx = 0%N -> wf (sign_item cid tx) ->
  exists h t, sign_preimage cid tx = h :: t /\ (192 <= h)%N.
Proof.
  destruct tx as [t| |]; try discriminate. intros _ Hw. unfold sign_preimage, envelope.
  cbn [sign_item] in *. destruct (protected_v (l_v t)); apply encode_Lst_head; exact Hw.
Qed.

(** * the theorem *)
Lemma cons_inj {A} (a b : A) (l1 l2 : list A) : a :: l1 = b :: l2 -> a = b /\ l1 = l2.
Proof. intros H. inversion H. split; reflexivity. Qed.
Lemma Lst_inj (l1 l2 : list item) : Lst l1 = Lst l2 -> l1 = l2.
Proof. intros H. inversion H. reflexivity. Qed.

Local Opaque rlp_n rlp_z rlp_to rlp_access.

Ltac split_list E := repeat (let Q := fresh "Q" in apply cons_inj in E; destruct E as [Q E]).
Ltac fields :=
  repeat match goal with
         | H : rlp_n _ = rlp_n _ |- _ => apply rlp_n_inj in H
         | H : rlp_z _ = rlp_z _ |- _ => apply rlp_z_inj in H; [|assumption|assumption]
         | H : rlp_to _ = rlp_to _ |- _ => apply rlp_to_inj in H; [|assumption|assumption]
         | H : Str _ = Str _ |- _ => apply Str_inj in H
         | H : rlp_access _ = rlp_access _ |- _ => apply rlp_access_inj in H
         end.

Theorem sign_preimage_inj cid1 tx1 cid2 tx2 :
  signable cid1 tx1 -> signable cid2 tx2 ->
  sign_preimage cid1 tx1 = sign_preimage cid2 tx2 ->
  signed_content_of cid1 tx1 = signed_content_of cid2 tx2.
Proof.
  intros (Hc1 & Hw1 & Hf1) (Hc2 & Hw2 & Hf2) E.
  destruct tx1 as [t1|t1|t1], tx2 as [t2|t2|t2].
  - (* legacy / legacy *)
    unfold sign_preimage, envelope in E. apply (rlp_encode_inj _ _ Hw1 Hw2) in E.
    cbn [sign_item] in E. cbn [signed_content_of].
    destruct Hf1 as (G1 & V1 & T1), Hf2 as (G2 & V2 & T2).
    destruct (protected_v (l_v t1)), (protected_v (l_v t2)); cbn [app] in E;
      apply Lst_inj in E; split_list E; try discriminate E; fields; congruence.
  - exfalso. destruct (envelope_legacy_head (TxLegacy t1) cid1 eq_refl Hw1) as (h & t & Eh & Hh).
    rewrite Eh in E. unfold sign_preimage, envelope in E. inversion E. lia.
  - exfalso. destruct (envelope_legacy_head (TxLegacy t1) cid1 eq_refl Hw1) as (h & t & Eh & Hh).
    rewrite Eh in E. unfold sign_preimage, envelope in E. inversion E. lia.
  - exfalso. destruct (envelope_legacy_head (TxLegacy t2) cid2 eq_refl Hw2) as (h & t & Eh & Hh).
    rewrite Eh in E. unfold sign_preimage, envelope in E. inversion E. lia.
  - (* access list / access list *)
    unfold sign_preimage, envelope in E. apply cons_inj in E as [_ E]. apply (rlp_encode_inj _ _ Hw1 Hw2) in E.
    cbn [sign_item] in E. cbn [signed_content_of].
    destruct Hf1 as (G1 & V1 & T1), Hf2 as (G2 & V2 & T2).
    apply Lst_inj in E; split_list E; fields; congruence.
  - exfalso. unfold sign_preimage, envelope in E. apply cons_inj in E as [E _]. discriminate E.
  - exfalso. destruct (envelope_legacy_head (TxLegacy t2) cid2 eq_refl Hw2) as (h & t & Eh & Hh).
    rewrite Eh in E. unfold sign_preimage, envelope in E. inversion E. lia.
  - exfalso. unfold sign_preimage, envelope in E. apply cons_inj in E as [E _]. discriminate E.
  - (* dynamic fee / dynamic fee *)
    unfold sign_preimage, envelope in E. apply cons_inj in E as [_ E]. apply (rlp_encode_inj _ _ Hw1 Hw2) in E.
    cbn [sign_item] in E. cbn [signed_content_of].
    destruct Hf1 as (G1 & F1 & V1 & T1), Hf2 as (G2 & F2 & V2 & T2).
    apply Lst_inj in E; split_list E; fields; congruence.
Qed.

Local Transparent rlp_n rlp_z rlp_to rlp_access.

(** a decidable sufficient condition for [wf], so that examples compute *)
Fixpoint wfb (x : item) : bool :=
  match x with
  | Str b => (len b <? 256 ^ 8)%N
  | Lst l => (fix all (l : list item) : bool := match l with [] => true | y :: r => wfb y && all r end) l
             && (len (encode_all l) <? 256 ^ 8)%N
  end.

Lemma wfb_wf : forall x, wfb x = true -> wf x.
Proof.
  apply (item_ind2 (fun x => wfb x = true -> wf x)).
  - intros b H. apply N.ltb_lt in H. exact H.
  - intros l IH H. cbn [wfb] in H. apply andb_prop in H as [Ha Hl]. apply wf_Lst. split.
    + clear Hl. induction IH as [|y r Hy Hr IHr]; [exact I|]. apply andb_prop in Ha as [H1 H2].
      split; [apply Hy, H1|apply IHr, H2].
    + apply N.ltb_lt. exact Hl.
Qed.
