(** Proofs about TxCodec/EthTxModel.v (property C18; the last section serves
    C03: the signing bytes determine what was signed). *)
From Coq Require Import Ascii String.
From Coq Require Import NArith ZArith List Bool Lia.
From HV Require Import Base.Bytes Base.Rlp Base.RlpProofs TxCodec.EthTxModel.
Import ListNotations.
Local Open Scope Z_scope.

(** * shape invariants of a go-ethereum transaction

    These are not guards of the chain's code but facts about the Go types:
    [common.Address] is [20]byte, [common.Hash] is [32]byte, a byte is below
    256, and signature values are never negative (they come out of RLP decoding
    or of [WithSignature], both of which produce non-negative integers).
    [big.Int.Bytes] drops the sign, so a negative V/R/S would not survive. *)
Definition addr_ok (a : bytes) : Prop := valid_bytes a /\ length a = 20%nat.
Definition key_ok (k : bytes) : Prop := valid_bytes k /\ length k = 32%nat.
Definition tuple_ok (t : access_tuple) : Prop := addr_ok (at_addr t) /\ Forall key_ok (at_keys t).
Definition to_ok (to : option bytes) : Prop := match to with None => True | Some a => addr_ok a end.
Definition sig_ok (tx : eth_tx) : Prop := let '(v, r, s) := tx_vrs tx in 0 <= v /\ 0 <= r /\ 0 <= s.

Definition shape_ok (tx : eth_tx) : Prop :=
  sig_ok tx /\
  match tx with
  | TxLegacy t => to_ok (l_to t)
  | TxAccessList t => to_ok (a_to t) /\ Forall tuple_ok (a_accesses t)
  | TxDynamicFee t => to_ok (d_to t) /\ Forall tuple_ok (d_accesses t)
  end.

(** the bounds the chain's code enforces when wrapping *)
Definition bounds_ok (tx : eth_tx) : Prop :=
  match tx with
  | TxLegacy t => Z.abs (l_value t) < 2 ^ 256 /\ Z.abs (l_gas_price t) < 2 ^ 256
  | TxAccessList t => Z.abs (a_value t) < 2 ^ 256 /\ Z.abs (a_gas_price t) < 2 ^ 256 /\ Z.abs (a_chain_id t) < 2 ^ 256
  | TxDynamicFee t => Z.abs (d_value t) < 2 ^ 256 /\ Z.abs (d_fee_cap t) < 2 ^ 256 /\ Z.abs (d_tip t) < 2 ^ 256
                      /\ Z.abs (d_chain_id t) < 2 ^ 256
  end.

(** * hex text *)
Lemma parse_to_to_hex csum to : to_ok to -> parse_to (to_hex csum to) = Some to.
Proof.
  destruct to as [a|]; [|reflexivity]. intros [Hv Hl]. unfold to_hex, addr_hex.
  unfold parse_to. rewrite (parse_hex0x _ 20 a Hv Hl). reflexivity.
Qed.

Lemma parse_keys_hex ks : Forall key_ok ks -> parse_keys (map hash_hex ks) = Some ks.
Proof.
  induction 1 as [|k r [Hv Hl] Hr IH]; [reflexivity|]. cbn [map parse_keys].
  unfold hash_hex at 1. rewrite (parse_hex0x _ 32 k Hv Hl), IH. reflexivity.
Qed.

Lemma parse_access_pb csum al : Forall tuple_ok al -> parse_access (access_pb csum al) = Some al.
Proof.
  induction 1 as [|t r [[Hv Hl] Hk] Hr IH]; [reflexivity|].
  cbn [access_pb map parse_access p_addr p_keys]. unfold addr_hex at 1.
  rewrite (parse_hex0x _ 20 _ Hv Hl), (parse_keys_hex _ Hk).
  fold (access_pb csum r). rewrite IH. destruct t; reflexivity.
Qed.

Lemma safe_int_some x y : safe_int x = Some y -> y = x /\ Z.abs x < 2 ^ 256.
Proof.
  unfold safe_int, fits256. destruct (Z.ltb_spec (Z.abs x) (2 ^ 256)); [|discriminate].
  intros E; inversion E; subst; split; [reflexivity|assumption].
Qed.

(** * C18: wrapping then unwrapping is the identity on every field *)
Theorem roundtrip_fields csum tx d :
  shape_ok tx -> to_txdata csum tx = Wrapped d -> of_txdata d = Some tx.
Proof.
  intros [Hsig Hshape] Hw. destruct tx as [t|t|t]; cbn [to_txdata] in Hw;
    unfold sig_ok in Hsig; cbn [tx_vrs] in Hsig; destruct Hsig as (Hv & Hr & Hs).
  - destruct (safe_int (l_value t)) as [v'|] eqn:E1; [|discriminate].
    destruct (safe_int (l_gas_price t)) as [gp'|] eqn:E2; [|discriminate].
    apply safe_int_some in E1 as [-> _]. apply safe_int_some in E2 as [-> _].
    inversion Hw; subst d; clear Hw.
    cbn [of_txdata lp_to lp_nonce lp_gas_price lp_gas lp_value lp_data lp_v lp_r lp_s oz].
    rewrite (parse_to_to_hex csum (l_to t) Hshape).
    rewrite !z_bytes_roundtrip by assumption. destruct t; reflexivity.
  - destruct Hshape as [Hto Hal].
    destruct (safe_int (a_value t)) as [v'|] eqn:E1; [|discriminate].
    destruct (safe_int (a_gas_price t)) as [gp'|] eqn:E2; [|discriminate].
    apply safe_int_some in E1 as [-> _]. apply safe_int_some in E2 as [-> _].
    destruct (fits256 (a_chain_id t)); [|discriminate].
    inversion Hw; subst d; clear Hw.
    cbn [of_txdata ap_to ap_chain_id ap_nonce ap_gas_price ap_gas ap_value ap_data ap_accesses ap_v ap_r ap_s oz].
    rewrite (parse_to_to_hex csum (a_to t) Hto), (parse_access_pb csum (a_accesses t) Hal).
    rewrite !z_bytes_roundtrip by assumption. destruct t; reflexivity.
  - destruct Hshape as [Hto Hal].
    destruct (safe_int (d_value t)) as [v'|] eqn:E1; [|discriminate].
    destruct (safe_int (d_fee_cap t)) as [fc'|] eqn:E2; [|discriminate].
    destruct (safe_int (d_tip t)) as [tip'|] eqn:E3; [|discriminate].
    apply safe_int_some in E1 as [-> _]. apply safe_int_some in E2 as [-> _]. apply safe_int_some in E3 as [-> _].
    destruct (fits256 (d_chain_id t)); [|discriminate].
    inversion Hw; subst d; clear Hw.
    cbn [of_txdata dp_to dp_chain_id dp_nonce dp_tip dp_fee_cap dp_gas dp_value dp_data dp_accesses dp_v dp_r dp_s oz].
    rewrite (parse_to_to_hex csum (d_to t) Hto), (parse_access_pb csum (d_accesses t) Hal).
    rewrite !z_bytes_roundtrip by assumption. destruct t; reflexivity.
Qed.

(** ... and wrapping succeeds exactly under the 256-bit bounds *)
Lemma safe_int_fits x : Z.abs x < 2 ^ 256 -> safe_int x = Some x.
Proof. intros H. unfold safe_int, fits256. destruct (Z.ltb_spec (Z.abs x) (2 ^ 256)); [reflexivity|lia]. Qed.
Lemma fits256_true x : Z.abs x < 2 ^ 256 -> fits256 x = true.
Proof. intros H. unfold fits256. apply Z.ltb_lt. exact H. Qed.

Theorem wrap_succeeds_iff_bounds csum tx : bounds_ok tx <-> exists d, to_txdata csum tx = Wrapped d.
Proof.
  split.
  - intros Hb. destruct tx as [t|t|t]; cbn [to_txdata]; cbn [bounds_ok] in Hb.
    + destruct Hb as [H1 H2]. rewrite (safe_int_fits _ H1), (safe_int_fits _ H2). eexists; reflexivity.
    + destruct Hb as (H1 & H2 & H3). rewrite (safe_int_fits _ H1), (safe_int_fits _ H2), (fits256_true _ H3).
      eexists; reflexivity.
    + destruct Hb as (H1 & H2 & H3 & H4).
      rewrite (safe_int_fits _ H1), (safe_int_fits _ H2), (safe_int_fits _ H3), (fits256_true _ H4).
      eexists; reflexivity.
  - intros [d Hw]. destruct tx as [t|t|t]; cbn [to_txdata] in Hw; cbn [bounds_ok].
    + destruct (safe_int (l_value t)) eqn:E1; [|discriminate]. destruct (safe_int (l_gas_price t)) eqn:E2; [|discriminate].
      apply safe_int_some in E1 as [_ ?]. apply safe_int_some in E2 as [_ ?]. tauto.
    + destruct (safe_int (a_value t)) eqn:E1; [|discriminate]. destruct (safe_int (a_gas_price t)) eqn:E2; [|discriminate].
      apply safe_int_some in E1 as [_ ?]. apply safe_int_some in E2 as [_ ?].
      unfold fits256 in Hw. destruct (Z.ltb_spec (Z.abs (a_chain_id t)) (2 ^ 256)); [|discriminate]. tauto.
    + destruct (safe_int (d_value t)) eqn:E1; [|discriminate]. destruct (safe_int (d_fee_cap t)) eqn:E2; [|discriminate].
      destruct (safe_int (d_tip t)) eqn:E3; [|discriminate].
      apply safe_int_some in E1 as [_ ?]. apply safe_int_some in E2 as [_ ?]. apply safe_int_some in E3 as [_ ?].
      unfold fits256 in Hw. destruct (Z.ltb_spec (Z.abs (d_chain_id t)) (2 ^ 256)); [|discriminate]. tauto.
Qed.

Lemma wrap_wrapped csum tx d : wrap csum tx = Wrapped d -> to_txdata csum tx = Wrapped d.
Proof.
  unfold wrap. destruct (to_txdata csum tx) as [d'| | |]; try discriminate.
  destruct (msg_fee d') as [f|]; [|discriminate]. destruct (fits256 f); [|discriminate]. auto.
Qed.

(** * C18: same preimages, hence same hash and same sender *)
Section Crypto.
  Variable hash : bytes -> bytes.
  Variable recover : bytes -> Z -> Z -> Z -> option bytes.

  Theorem roundtrip_same_preimage csum tx d tx' :
    shape_ok tx -> to_txdata csum tx = Wrapped d -> of_txdata d = Some tx' ->
    hash_preimage tx' = hash_preimage tx /\ forall cid, sign_preimage cid tx' = sign_preimage cid tx.
  Proof.
    intros Hs Hw Hu. rewrite (roundtrip_fields csum tx d Hs Hw) in Hu. inversion Hu. split; reflexivity.
  Qed.

  (** for any hash function and any recovery function: the unwrapped
      transaction has the hash of the original (which is the hash
      [FromEthereumTx] records in the message) and the same recovered sender
      under every signer *)
  Corollary roundtrip_same_hash_and_sender csum tx d tx' :
    shape_ok tx -> to_txdata csum tx = Wrapped d -> of_txdata d = Some tx' ->
    tx_hash hash tx' = tx_hash hash tx /\
    forall cid, sender hash recover cid tx' = sender hash recover cid tx.
  Proof.
    intros Hs Hw Hu. rewrite (roundtrip_fields csum tx d Hs Hw) in Hu. inversion Hu. split; reflexivity.
  Qed.
End Crypto.

(** * C18: fee, cost and effective price *)
Lemma wrapped_figures csum tx d : to_txdata csum tx = Wrapped d ->
  d_fee_cap_of d = Some (tx_fee_cap tx) /\ d_gas_of d = tx_gas tx /\ d_value_of d = Some (tx_value tx) /\
  match d with
  | DLegacy _ => tx_type tx = 0%N /\ tx_tip_cap tx = tx_fee_cap tx
  | DAccessList _ => tx_type tx = 1%N /\ tx_tip_cap tx = tx_fee_cap tx
  | DDynamicFee t => tx_type tx = 2%N /\ dp_tip t = Some (tx_tip_cap tx) /\ dp_fee_cap t = Some (tx_fee_cap tx)
  end.
Proof.
  intros Hw. destruct tx as [t|t|t]; cbn [to_txdata] in Hw.
  - destruct (safe_int (l_value t)) eqn:E1; [|discriminate]. destruct (safe_int (l_gas_price t)) eqn:E2; [|discriminate].
    apply safe_int_some in E1 as [-> _]. apply safe_int_some in E2 as [-> _]. inversion Hw; subst d.
    repeat split; reflexivity.
  - destruct (safe_int (a_value t)) eqn:E1; [|discriminate]. destruct (safe_int (a_gas_price t)) eqn:E2; [|discriminate].
    apply safe_int_some in E1 as [-> _]. apply safe_int_some in E2 as [-> _].
    destruct (fits256 (a_chain_id t)); [|discriminate]. inversion Hw; subst d.
    repeat split; reflexivity.
  - destruct (safe_int (d_value t)) eqn:E1; [|discriminate]. destruct (safe_int (d_fee_cap t)) eqn:E2; [|discriminate].
    destruct (safe_int (d_tip t)) eqn:E3; [|discriminate].
    apply safe_int_some in E1 as [-> _]. apply safe_int_some in E2 as [-> _]. apply safe_int_some in E3 as [-> _].
    destruct (fits256 (d_chain_id t)); [|discriminate]. inversion Hw; subst d.
    repeat split; reflexivity.
Qed.

(** The message's [GetFee] / [Cost] / [EffectiveGasPrice] / [GetEffectiveFee] /
    [EffectiveCost] equal go-ethereum's [GasPrice*Gas], [Cost()] and
    [AsMessage(signer, baseFee).GasPrice()] (times gas, plus value) of the
    original transaction, for a nil base fee and for every non-negative base
    fee -- except that a dynamic-fee message cannot be asked for its effective
    price with a nil base fee (see [dynamic_nil_base_fee_panics]). *)
Theorem fee_cost_price_agree csum tx d :
  to_txdata csum tx = Wrapped d ->
  msg_fee d = Some (geth_fee tx) /\
  msg_cost d = Some (geth_cost tx) /\
  forall base_fee,
    (tx_type tx = 2%N -> base_fee <> None) ->
    (forall b, base_fee = Some b -> 0 <= b) ->
    msg_effective_price d base_fee = Some (geth_effective_price tx base_fee) /\
    msg_effective_fee d base_fee = Some (geth_effective_price tx base_fee * Z.of_N (tx_gas tx)) /\
    msg_effective_cost d base_fee = Some (geth_effective_price tx base_fee * Z.of_N (tx_gas tx) + tx_value tx).
Proof.
  intros Hw. destruct (wrapped_figures csum tx d Hw) as (Hfc & Hgas & Hval & Hty).
  assert (Hfee : msg_fee d = Some (geth_fee tx)).
  { unfold msg_fee, geth_fee. rewrite Hfc, Hgas. reflexivity. }
  assert (Hcost : msg_cost d = Some (geth_cost tx)).
  { unfold msg_cost, geth_cost. rewrite Hfee, Hval. reflexivity. }
  split; [exact Hfee|]. split; [exact Hcost|].
  intros base_fee Hdyn Hnn.
  assert (Hstatic : tx_tip_cap tx = tx_fee_cap tx -> geth_effective_price tx base_fee = tx_fee_cap tx).
  { intros Htip. unfold geth_effective_price. destruct base_fee as [b|]; [|reflexivity].
    specialize (Hnn b eq_refl). rewrite Htip. lia. }
  destruct d as [t|t|t].
  - destruct Hty as [_ Htip]. rewrite (Hstatic Htip).
    cbn [msg_effective_price msg_effective_fee msg_effective_cost].
    split; [exact Hfc|]. split; [exact Hfee|exact Hcost].
  - destruct Hty as [_ Htip]. rewrite (Hstatic Htip).
    cbn [msg_effective_price msg_effective_fee msg_effective_cost].
    split; [exact Hfc|]. split; [exact Hfee|exact Hcost].
  - destruct Hty as (Hty & Htip & Hcap). destruct base_fee as [b|]; [|destruct (Hdyn Hty eq_refl)].
    assert (Hp : msg_effective_price (DDynamicFee t) (Some b) = Some (geth_effective_price tx (Some b))).
    { cbn [msg_effective_price geth_effective_price]. rewrite Htip, Hcap. reflexivity. }
    split; [exact Hp|].
    assert (Hf : msg_effective_fee (DDynamicFee t) (Some b)
                 = Some (geth_effective_price tx (Some b) * Z.of_N (tx_gas tx))).
    { cbn [msg_effective_fee]. rewrite Hp. cbn [omul]. cbn [d_gas_of] in Hgas. cbn [d_gas_of]. rewrite Hgas. reflexivity. }
    split; [exact Hf|].
    cbn [msg_effective_cost]. rewrite Hf. cbn [d_value_of] in Hval. cbn [d_value_of]. rewrite Hval. reflexivity.
Qed.

(** with a nil base fee the dynamic-fee message's effective price is not
    computed at all: [EffectiveGasPrice(nil)] adds a nil [*big.Int] and panics,
    while go-ethereum answers the fee cap *)
Theorem dynamic_nil_base_fee_panics csum tx d :
  to_txdata csum tx = Wrapped d -> tx_type tx = 2%N ->
  msg_effective_price d None = None /\ geth_effective_price tx None = tx_fee_cap tx.
Proof.
  intros Hw Hty. destruct (wrapped_figures csum tx d Hw) as (_ & _ & _ & H).
  destruct d as [t|t|t]; destruct H as [H _]; rewrite H in Hty; try discriminate.
  split; [|reflexivity]. cbn [msg_effective_price]. destruct (dp_tip t); [|reflexivity].
  destruct (dp_fee_cap t); reflexivity.
Qed.

(** * non-vacuity: concrete transactions satisfying every hypothesis *)
Definition ex_addr : bytes := repeat 171%N 20.
Definition ex_key : bytes := repeat 7%N 32.
Definition ex_dynamic : eth_tx :=
  TxDynamicFee (mk_df 11235 3 (2 ^ 256 - 1) (2 ^ 256 - 1) 21000 None 0 [1; 2; 255]%N
                      [mk_at ex_addr [ex_key; ex_key]; mk_at ex_addr []] 1 (2 ^ 255) 12345).
Definition ex_legacy : eth_tx :=
  TxLegacy (mk_legacy 0 1000000000 21000 (Some ex_addr) (10 ^ 18) [] (11235 * 2 + 36) 77 88).
Definition ex_access : eth_tx :=
  TxAccessList (mk_al 54211 9 5 100000 (Some ex_addr) 0 (repeat 0%N 100) [mk_at ex_addr [ex_key]] 0 1 2).

Lemma repeat_valid b n : (b < 256)%N -> valid_bytes (repeat b n).
Proof. intros H. induction n; constructor; assumption. Qed.

Example ex_shapes : shape_ok ex_dynamic /\ shape_ok ex_legacy /\ shape_ok ex_access.
Proof.
  assert (A : addr_ok ex_addr) by (split; [apply repeat_valid; reflexivity|reflexivity]).
  assert (K : key_ok ex_key) by (split; [apply repeat_valid; reflexivity|reflexivity]).
  repeat split; cbn; try lia; try exact I; try apply repeat_valid; try reflexivity;
    repeat (constructor; try assumption).
Qed.

Example ex_wrapped :
  (exists d, to_txdata no_csum ex_dynamic = Wrapped d /\ of_txdata d = Some ex_dynamic) /\
  (exists d, to_txdata no_csum ex_legacy = Wrapped d /\ of_txdata d = Some ex_legacy) /\
  (exists d, to_txdata no_csum ex_access = Wrapped d /\ of_txdata d = Some ex_access).
Proof. repeat split; eexists; split; vm_compute; reflexivity. Qed.

(** the maximal price times 21000 gas exceeds 256 bits: [BuildTx] panics, and
    [Validate] would refuse the transaction ("out of bound") *)
Example ex_fee_overflow : wrap no_csum ex_dynamic = PanicFee /\ exists d, wrap no_csum ex_legacy = Wrapped d.
Proof. split; [vm_compute; reflexivity|eexists; vm_compute; reflexivity]. Qed.

Example ex_legacy_chain_id : chain_id ex_legacy = 11235 /\ protected ex_legacy = true.
Proof. split; reflexivity. Qed.
