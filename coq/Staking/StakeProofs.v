(** Lemmas about Staking/StakeModel.v (statements used by Props/C16.v). *)
From Coq Require Import ZArith NArith List Bool Lia.
From HV Require Import Base.Dec Base.DecProofs Staking.StakeModel.
Import ListNotations.
Local Open Scope Z_scope.

(** well-formed validator numbers: what the store can hold *)
Definition wf_val (v : validator) : Prop := 0 <= v_tokens v /\ 0 <= v_shares v.
Definition wf (s : sin) : Prop := match i_val s with Some v => wf_val v | None => True end.

(** ** the owner's precompile call = the native message *)

Lemma decode_owner a amt : a <> 0 -> 0 <= amt < 2 ^ 256 -> decode a amt = Some amt.
Proof.
  intros Ha [H0 H1]. unfold decode.
  destruct (Z.eqb_spec a 0); [contradiction|].
  destruct (Z.ltb_spec amt 0); [lia|].
  destruct (Z.leb_spec (2 ^ 256) amt); [lia|]. reflexivity.
Qed.

Lemma native_fail_unchanged s m amt : o_ok (native s m amt) = false -> native s m amt = unchanged s.
Proof.
  destruct m; cbn [native]; unfold native_delegate, native_undelegate.
  - destruct (amt <=? 0); [reflexivity|].
    destruct (i_val s) as [v|]; [|reflexivity].
    destruct (invalid_ex_rate v); [reflexivity|].
    destruct (i_bal s + i_rew s <? amt); [reflexivity|].
    destruct (add_tokens_from_del v amt) as [[v' iss]|]; [|reflexivity].
    cbn. discriminate.
  - destruct (amt <=? 0); [reflexivity|].
    destruct (i_val s) as [v|]; [|reflexivity].
    destruct (i_del s) as [d|]; [|reflexivity].
    destruct (shares_from_tokens v amt) as [sh0|]; [|reflexivity].
    destruct (shares_from_tokens_trunc v amt) as [sht|]; [|reflexivity].
    destruct (d <? sht); [reflexivity|].
    destruct (i_max s <=? i_entries s)%N; [reflexivity|].
    destruct (d <? (if d <? sh0 then d else sh0)); [reflexivity|].
    destruct (v_shares v =? 0); [reflexivity|].
    match goal with |- context [remove_del_shares ?a ?b] => destruct (remove_del_shares a b) as [[v2 iss]|] end;
      [|reflexivity].
    cbn. discriminate.
Qed.

(** after a successful delegation the validator holds tokens: the event's SharesFromTokens cannot fail *)
Lemma delegate_ok_tokens_positive s amt v' :
  wf s -> o_ok (native_delegate s amt) = true -> o_val (native_delegate s amt) = Some v' ->
  0 < v_tokens v'.
Proof.
  unfold wf, native_delegate. intros Hwf.
  destruct (Z.leb_spec amt 0) as [|Hpos]; [cbn; discriminate|].
  destruct (i_val s) as [v|]; [|cbn; discriminate].
  destruct (invalid_ex_rate v); [cbn; discriminate|].
  destruct (i_bal s + i_rew s <? amt); [cbn; discriminate|].
  unfold add_tokens_from_del, shares_from_tokens.
  destruct Hwf as [Ht Hs].
  destruct (v_shares v =? 0).
  - cbn. intros _ E. inversion E; subst; cbn. lia.
  - destruct (v_tokens v =? 0); [cbn; discriminate|].
    cbn. intros _ E. inversion E; subst; cbn. lia.
Qed.

Theorem owner_body_eq_native s a g m amt :
  a <> 0 -> 0 <= amt < 2 ^ 256 -> wf s ->
  precompile_body s a a a g m amt = native s m amt.
Proof.
  intros Ha Hamt Hwf. unfold precompile_body.
  rewrite (decode_owner a amt Ha Hamt).
  rewrite Z.eqb_refl. cbn [negb andb].
  destruct (Z.leb_spec amt 0) as [Hle|Hpos].
  - destruct m; cbn [native]; unfold native_delegate, native_undelegate;
      destruct (Z.leb_spec amt 0); try lia; reflexivity.
  - destruct (o_ok (native s m amt)) eqn:Hok; cbn [negb].
    + destruct m; [|reflexivity].
      cbn [native] in *.
      destruct (o_val (native_delegate s amt)) as [v'|] eqn:Hv.
      * pose proof (delegate_ok_tokens_positive s amt v' Hwf Hok Hv) as Hp.
        unfold shares_from_tokens. destruct (Z.eqb_spec (v_tokens v') 0); [lia|reflexivity].
      * exfalso. revert Hok Hv. unfold native_delegate.
        destruct (amt <=? 0); [cbn; discriminate|].
        destruct (i_val s); [|cbn; discriminate].
        destruct (invalid_ex_rate v); [cbn; discriminate|].
        destruct (i_bal s + i_rew s <? amt); [cbn; discriminate|].
        destruct (add_tokens_from_del v amt) as [[? ?]|]; cbn; discriminate.
    + symmetry. apply native_fail_unchanged. exact Hok.
Qed.

(** the whole transaction agrees as well when the hook pays nothing to the delegator itself *)
Theorem owner_tx_eq_native_without_self_rewards s a g m amt :
  a <> 0 -> 0 <= amt < 2 ^ 256 -> wf s -> i_rew s = 0 ->
  precompile_tx_impl s a a a g m amt = native s m amt.
Proof.
  intros Ha Hamt Hwf Hr. unfold precompile_tx_impl.
  rewrite (owner_body_eq_native s a g m amt Ha Hamt Hwf).
  destruct m; [|reflexivity].
  rewrite Z.eqb_refl, andb_true_r.
  destruct (o_ok (native s SDelegate amt)) eqn:Hok; [|reflexivity].
  destruct (Z.ltb_spec (i_bal s - amt) 0) as [Hneg|]; [|reflexivity].
  exfalso. revert Hok. cbn [native]. unfold native_delegate.
  destruct (amt <=? 0); [cbn; discriminate|].
  destruct (i_val s); [|cbn; discriminate].
  destruct (invalid_ex_rate v); [cbn; discriminate|].
  destruct (Z.ltb_spec (i_bal s + i_rew s) amt); [cbn; discriminate|]. lia.
Qed.

(** ** delegation to an emptied validator *)
Theorem delegate_to_empty_validator s v amt :
  i_val s = Some v -> v_tokens v = 0 -> v_shares v = 0 -> 0 < amt <= i_bal s + i_rew s ->
  native s SDelegate amt =
    mk_sout true (Some (set_ts v amt (of_int amt))) (Some (opt0 (i_del s) + of_int amt)).
Proof.
  intros Hv Ht Hs [Hpos Hle]. cbn [native]. unfold native_delegate.
  destruct (Z.leb_spec amt 0); [lia|]. rewrite Hv.
  unfold invalid_ex_rate. rewrite Hs. cbn [Z.ltb Z.compare andb].
  rewrite andb_false_r.
  destruct (Z.ltb_spec (i_bal s + i_rew s) amt); [lia|].
  unfold add_tokens_from_del. rewrite Hs, Ht. cbn [Z.eqb Z.add]. reflexivity.
Qed.

Corollary owner_delegate_to_empty_validator s v a g amt :
  a <> 0 -> i_val s = Some v -> v_tokens v = 0 -> v_shares v = 0 ->
  0 < amt <= i_bal s + i_rew s -> amt < 2 ^ 256 ->
  precompile_body s a a a g SDelegate amt =
    mk_sout true (Some (set_ts v amt (of_int amt))) (Some (opt0 (i_del s) + of_int amt)).
Proof.
  intros Ha Hv Ht Hs Hamt Hmax.
  rewrite owner_body_eq_native; [| exact Ha | lia |].
  - apply delegate_to_empty_validator; assumption.
  - unfold wf. rewrite Hv. unfold wf_val. lia.
Qed.

(** the variant that computes the event's shares first refuses exactly this state *)
Theorem event_first_refuses_empty_validator s v a g amt :
  i_val s = Some v -> v_tokens v = 0 ->
  o_ok (precompile_body_event_first s a a a g amt) = false.
Proof.
  intros Hv Ht. unfold precompile_body_event_first.
  destruct (decode a amt); [|reflexivity].
  destruct (z <=? 0); [reflexivity|].
  destruct (negb (a =? a) && negb (a =? a)); [reflexivity|].
  destruct (negb (a =? a) && negb g); [reflexivity|].
  rewrite Hv. unfold shares_from_tokens. rewrite Ht. reflexivity.
Qed.

(** ** max-entries rule *)
Theorem undelegate_max_entries s amt :
  (i_max s <= i_entries s)%N -> native s SUndelegate amt = unchanged s.
Proof.
  intros H. cbn [native]. unfold native_undelegate.
  destruct (amt <=? 0); [reflexivity|].
  destruct (i_val s) as [v|]; [|reflexivity].
  destruct (i_del s) as [d|]; [|reflexivity].
  destruct (shares_from_tokens v amt); [|reflexivity].
  destruct (shares_from_tokens_trunc v amt); [|reflexivity].
  destruct (d <? z0); [reflexivity|].
  destruct (N.leb_spec (i_max s) (i_entries s)); [reflexivity|lia].
Qed.

(** ** exact effect of a successful delegation / undelegation on the numbers *)
Theorem delegate_effect s amt :
  wf s -> o_ok (native s SDelegate amt) = true ->
  exists v v' iss, i_val s = Some v /\ o_val (native s SDelegate amt) = Some v' /\
    0 < amt <= i_bal s + i_rew s /\ 0 <= iss /\
    v_tokens v' = v_tokens v + amt /\ v_shares v' = v_shares v + iss /\
    o_del (native s SDelegate amt) = Some (opt0 (i_del s) + iss).
Proof.
  unfold wf. cbn [native]. unfold native_delegate. intros Hwf.
  destruct (Z.leb_spec amt 0) as [|Hpos]; [cbn; discriminate|].
  destruct (i_val s) as [v|]; [|cbn; discriminate].
  destruct (invalid_ex_rate v); [cbn; discriminate|].
  destruct (Z.ltb_spec (i_bal s + i_rew s) amt); [cbn; discriminate|].
  destruct Hwf as [Ht Hs]. pose proof prec_pos as Hp.
  unfold add_tokens_from_del, shares_from_tokens.
  destruct (Z.eqb_spec (v_shares v) 0).
  - cbn. intros _. exists v, (set_ts v (v_tokens v + amt) (v_shares v + of_int amt)), (of_int amt).
    cbn. unfold of_int. repeat split; try lia; nia.
  - destruct (Z.eqb_spec (v_tokens v) 0); [cbn; discriminate|].
    cbn. intros _.
    exists v, (set_ts v (v_tokens v + amt) (v_shares v + dquo_int (dmul_int (v_shares v) amt) (v_tokens v))),
           (dquo_int (dmul_int (v_shares v) amt) (v_tokens v)).
    cbn. repeat split; try lia.
    unfold dquo_int, dmul_int. apply Z.quot_pos; nia.
Qed.

Theorem undelegate_effect s amt :
  wf s -> o_ok (native s SUndelegate amt) = true ->
  exists v d sh, i_val s = Some v /\ i_del s = Some d /\ 0 <= sh <= d /\ (i_entries s < i_max s)%N /\
    o_del (native s SUndelegate amt) = (if d - sh =? 0 then None else Some (d - sh)) /\
    match o_val (native s SUndelegate amt) with
    | Some v2 => v_shares v2 = v_shares v - sh /\ 0 <= v_tokens v2 <= v_tokens v /\ v_status v2 = v_status v
    | None => v_shares v = sh /\ v_status v = 1%N
    end.
Proof.
  unfold wf. cbn [native]. unfold native_undelegate. intros Hwf.
  destruct (Z.leb_spec amt 0) as [|Hpos]; [cbn; discriminate|].
  destruct (i_val s) as [v|]; [|cbn; discriminate].
  destruct (i_del s) as [d|]; [|cbn; discriminate].
  destruct Hwf as [Ht Hs]. pose proof prec_pos as Hp.
  unfold shares_from_tokens, shares_from_tokens_trunc.
  destruct (Z.eqb_spec (v_tokens v) 0) as [|HT]; [cbn; discriminate|].
  set (sh0 := dquo_int (dmul_int (v_shares v) amt) (v_tokens v)).
  set (sht := dquo_trunc (dmul_int (v_shares v) amt) (of_int (v_tokens v))).
  assert (H0 : 0 <= sh0) by (unfold sh0, dquo_int, dmul_int; apply Z.quot_pos; nia).
  assert (Ht0 : 0 <= sht).
  { unfold sht, dquo_trunc, chop_trunc, dmul_int, of_int.
    apply Z.quot_pos; [|lia]. apply Z.quot_pos; nia. }
  destruct (Z.ltb_spec d sht) as [|Hd]; [cbn; discriminate|].
  set (sh := if d <? sh0 then d else sh0).
  assert (Hsh : 0 <= sh <= d).
  { unfold sh. destruct (Z.ltb_spec d sh0); lia. }
  destruct (N.leb_spec (i_max s) (i_entries s)) as [|Hent]; [cbn; discriminate|].
  destruct (Z.ltb_spec d sh); [cbn; discriminate|].
  destruct (Z.eqb_spec (v_shares v) 0) as [|HS]; [cbn; discriminate|].
  set (v1 := if i_oper s && negb (v_jailed v) && (truncate (tokens_from_shares v (d - sh)) <? v_minself v)
             then set_jailed v else v).
  assert (Hv1 : v_tokens v1 = v_tokens v /\ v_shares v1 = v_shares v /\ v_status v1 = v_status v).
  { unfold v1. destruct (_ && _ && _); cbn; auto. }
  destruct Hv1 as (E1 & E2 & E3).
  unfold remove_del_shares. rewrite E1, E2.
  destruct (Z.eqb_spec (v_shares v - sh) 0) as [Hrem|Hrem].
  - cbn [o_ok o_val o_del set_ts v_shares v_status v_tokens]. intros _.
    exists v, d, sh. repeat split; try lia; try assumption.
    rewrite Hrem. cbn [Z.eqb]. rewrite E3.
    destruct (N.eqb_spec (v_status v) 1); cbn [andb]; [split; [lia|assumption]|].
    cbn. repeat split; lia.
  - destruct (Z.eqb_spec (v_shares v) 0); [contradiction|].
    set (iss := truncate (tokens_from_shares v1 sh)).
    assert (Hiss : 0 <= iss).
    { unfold iss. rewrite truncate_nonneg.
      - apply Z.div_pos; [|lia]. unfold tokens_from_shares, dmul_int. rewrite E1, E2. apply dquo_nonneg; nia.
      - unfold tokens_from_shares, dmul_int. rewrite E1, E2. apply dquo_nonneg; nia. }
    destruct (Z.ltb_spec (v_tokens v - iss) 0); [cbn; discriminate|].
    cbn [o_ok o_val o_del set_ts v_shares v_status v_tokens]. intros _.
    exists v, d, sh. repeat split; try lia; try assumption.
    destruct (Z.eqb_spec (v_shares v - sh) 0); [contradiction|]. cbn [andb].
    cbn. rewrite E3. repeat split; lia.
Qed.

(** ** shares <-> tokens round trip *)
Lemma quot_nonneg_div a b : 0 <= a -> 0 < b -> Z.quot a b = a / b.
Proof. intros. apply Z.quot_div_nonneg; lia. Qed.

(** bonding [a] tokens and turning the shares back into tokens never yields more than [a] *)
Theorem roundtrip_le v a sh :
  0 < v_tokens v -> 0 < v_shares v -> 0 <= a ->
  shares_from_tokens v a = Some sh ->
  0 <= sh /\ truncate (tokens_from_shares v sh) <= a.
Proof.
  intros HT HS Ha. unfold shares_from_tokens.
  destruct (Z.eqb_spec (v_tokens v) 0); [lia|]. intros E. inversion E as [E1]. clear E.
  set (T := v_tokens v) in *. set (S := v_shares v) in *.
  unfold dquo_int, dmul_int. rewrite quot_nonneg_div by nia.
  set (s := S * a / T).
  assert (Hs0 : 0 <= s) by (apply Z.div_pos; nia).
  assert (HsT : s * T <= S * a).
  { unfold s. rewrite Z.mul_comm. apply Z.mul_div_le. lia. }
  split; [exact Hs0|].
  unfold tokens_from_shares, dmul_int. fold T S.
  (* dquo (s*T) S <= of_int a, then truncate *)
  assert (Hq : dquo (s * T) S <= of_int a).
  { unfold dquo. pose proof prec_pos.
    rewrite quot_nonneg_div by nia.
    apply chop_le_int.
    assert (s * T * prec * prec / S <= a * prec * prec) as Hd.
    { apply Z.div_le_upper_bound; [lia|]. nia. }
    unfold of_int in *. nia. }
  apply truncate_mono in Hq. rewrite truncate_of_int in Hq. exact Hq.
Qed.

(** at exchange rate one the round trip is exact *)
Theorem roundtrip_exact_rate_one v a :
  0 < v_tokens v -> v_shares v = of_int (v_tokens v) -> 0 <= a ->
  shares_from_tokens v a = Some (of_int a) /\ truncate (tokens_from_shares v (of_int a)) = a.
Proof.
  intros HT HS Ha. unfold shares_from_tokens, tokens_from_shares.
  destruct (Z.eqb_spec (v_tokens v) 0); [lia|].
  rewrite HS. set (T := v_tokens v) in *. pose proof prec_pos as Hp.
  split.
  - f_equal. unfold dquo_int, dmul_int, of_int.
    rewrite quot_nonneg_div by nia.
    replace (T * prec * a) with (a * prec * T) by ring. apply Z.div_mul. lia.
  - unfold dmul_int.
    replace (of_int a * T) with (of_int (a * T)) by (unfold of_int; ring).
    rewrite dquo_of_int_div by lia. apply truncate_of_int.
Qed.

(** ... and loses at most two tokens plus the token worth of one share unit *)
Theorem roundtrip_ge v a sh :
  0 < v_tokens v -> 0 < v_shares v -> 0 <= a ->
  shares_from_tokens v a = Some sh ->
  a - v_tokens v / v_shares v - 2 <= truncate (tokens_from_shares v sh).
Proof.
  intros HT HS Ha. unfold shares_from_tokens.
  destruct (Z.eqb_spec (v_tokens v) 0); [lia|]. intros E. inversion E as [E1]. clear E.
  set (T := v_tokens v) in *. set (S := v_shares v) in *.
  unfold dquo_int, dmul_int. rewrite quot_nonneg_div by nia.
  set (s := S * a / T).
  assert (Hs0 : 0 <= s) by (apply Z.div_pos; nia).
  assert (HsT : S * a < s * T + T).
  { unfold s. pose proof (Z.mod_pos_bound (S * a) T HT). pose proof (Z.div_mod (S * a) T). nia. }
  unfold tokens_from_shares, dmul_int. fold T S.
  pose proof prec_pos as Hp.
  unfold dquo. rewrite quot_nonneg_div by nia.
  set (q := s * T * prec * prec / S).
  assert (Hq : s * T * prec * prec < q * S + S).
  { unfold q. pose proof (Z.mod_pos_bound (s * T * prec * prec) S HS).
    pose proof (Z.div_mod (s * T * prec * prec) S). nia. }
  assert (Hq0 : 0 <= q) by (apply Z.div_pos; nia).
  pose proof (chop_error q) as Hc.
  assert (Hc0 : 0 <= chop q) by (apply chop_nonneg_sign; exact Hq0).
  pose proof (truncate_floor (chop q) Hc0) as [_ Htr].
  set (b := truncate (chop q)) in *.
  set (k := T / S).
  assert (Hk : T < (k + 1) * S).
  { unfold k. pose proof (Z.mod_pos_bound T S HS). pose proof (Z.div_mod T S). nia. }
  (* chop q * prec >= q - prec/2 ; (b+1) * prec > chop q *)
  assert (H1 : 2 * q - prec <= 2 * (chop q * prec)) by lia.
  (* derive: (b + 1) * prec * prec * 2 > 2*q - prec *)
  assert (H2 : 2 * q - prec < 2 * ((b + 1) * prec * prec)) by nia.
  (* q*S > s*T*P^2 - S > (S*a - T) * P^2 - S *)
  assert (H3 : (S * a - T) * (prec * prec) - S < q * S) by nia.
  (* combine: 2*(b+1)*P^2*S > 2*q*S - P*S > 2*(S*a - T)*P^2 - 2*S - P*S *)
  assert (H4 : 2 * ((S * a - T) * (prec * prec)) - 2 * S - prec * S < 2 * ((b + 1) * prec * prec) * S) by nia.
  (* T < (k+1)*S *)
  assert (H5 : 2 * (S * a - (k + 1) * S) * (prec * prec) - 2 * S - prec * S < 2 * ((b + 1) * prec * prec) * S) by nia.
  assert (H6 : 2 * (a - (k + 1)) * (prec * prec) - 2 - prec < 2 * ((b + 1) * prec * prec)).
  { apply Z.mul_lt_mono_pos_r with (p := S); [lia|]. nia. }
  assert (Hpp : prec = 1000000000000000000) by reflexivity.
  nia.
Qed.

(** ** concrete witnesses *)
(** the seeded change's state: every delegator left validator 0, the record stays (unbonding, zero
    tokens, zero shares); an account without a delegation there bonds 3e17 *)
Definition w_emptied : sin :=
  mk_sin (Some (mk_val 0 0 2%N false 0)) None 0%N 7%N 50000000000000000000 0 false.

Lemma emptied_validator_example :
  native w_emptied SDelegate 300000000000000000 =
    mk_sout true (Some (mk_val 300000000000000000 300000000000000000000000000000000000 2%N false 0))
                 (Some 300000000000000000000000000000000000) /\
  precompile_tx_impl w_emptied 1 1 1 false SDelegate 300000000000000000 =
    native w_emptied SDelegate 300000000000000000 /\
  o_ok (precompile_body_event_first w_emptied 1 1 1 false 300000000000000000) = false.
Proof. vm_compute. auto. Qed.

(** K6 at the level of these numbers: balance 100, the hook pays 50 pending rewards to the delegator,
    120 are bonded: the message succeeds, the precompile body succeeds with the same numbers, the
    transaction fails at the final commit (cached balance 100 - 120 < 0) *)
Definition w_k6 : sin :=
  mk_sin (Some (mk_val 2000000000000000000 2000000000000000000000000000000000000 3%N false 0))
         (Some 1000000000000000000000000000000000000) 0%N 7%N 100 50 false.

Lemma k6_commit_refuted :
  o_ok (native w_k6 SDelegate 120) = true /\
  precompile_body w_k6 1 1 1 false SDelegate 120 = native w_k6 SDelegate 120 /\
  precompile_tx_impl w_k6 1 1 1 false SDelegate 120 = unchanged w_k6.
Proof. vm_compute. auto. Qed.

(** 3 tokens for 2 shares (excess tokens left by earlier truncations): the round trip of 1 token loses it *)
Lemma roundtrip_example :
  let v := mk_val 3 2000000000000000000 3%N false 0 in
  shares_from_tokens v 1 = Some 666666666666666666 /\
  truncate (tokens_from_shares v 666666666666666666) = 0.
Proof. vm_compute. auto. Qed.

(** the list is full: the 8th undelegation is refused, an undelegation with 6 entries goes through *)
Lemma max_entries_example :
  let v := mk_val 2000000000000000000 2000000000000000000000000000000000000 3%N false 0 in
  let d := Some 1000000000000000000000000000000000000 in
  o_ok (native (mk_sin (Some v) d 7%N 7%N 0 0 false) SUndelegate 5) = false /\
  o_ok (native (mk_sin (Some v) d 6%N 7%N 0 0 false) SUndelegate 5) = true.
Proof. vm_compute. auto. Qed.

(** ** the read-only method [delegation] = the native Query/Delegation *)

(** an existing delegation: both report the shares and their worth in whole tokens, rounded DOWN *)
Lemma delegation_query_eq_native v sh :
  native_delegation_query (Some v) (Some sh) = QOk sh (truncate (tokens_from_shares v sh)) /\
  precompile_delegation_query (Some v) (Some sh) = Some (sh, truncate (tokens_from_shares v sh)).
Proof. split; reflexivity. Qed.

(** no delegation record: the query says NotFound, the precompile answers (0, 0) *)
Lemma delegation_query_not_found ov :
  native_delegation_query ov None = QNotFound /\ precompile_delegation_query ov None = Some (0, 0).
Proof. split; reflexivity. Qed.

(** in every state the precompile reports a delegation exactly when the query does, with its numbers *)
Lemma delegation_query_agrees ov od sh b :
  precompile_delegation_query ov od = Some (sh, b) <->
  native_delegation_query ov od = QOk sh b \/ (native_delegation_query ov od = QNotFound /\ sh = 0 /\ b = 0).
Proof.
  unfold precompile_delegation_query.
  destruct (native_delegation_query ov od) as [| |s0 b0]; split; intros H.
  - inversion H; subst. right. auto.
  - destruct H as [H|[_ [-> ->]]]; [discriminate|reflexivity].
  - discriminate.
  - destruct H as [H|[H _]]; discriminate.
  - inversion H; subst. left. reflexivity.
  - destruct H as [H|[H _]]; [inversion H; reflexivity|discriminate].
Qed.

(** the numbers behind the balance: N = shares * tokens (a LegacyDec integer times an Int), S = the
    validator's shares; TokensFromShares = Quo at 18 digits (banker's rounding), then TruncateInt *)
Lemma tokens_from_shares_nonneg_form v sh :
  0 <= sh -> 0 <= v_tokens v -> 0 < v_shares v ->
  tokens_from_shares v sh = chop_nonneg (sh * v_tokens v * prec * prec / v_shares v) /\
  0 <= sh * v_tokens v * prec * prec / v_shares v.
Proof.
  intros Hs HT HS. unfold tokens_from_shares, dquo, dmul_int.
  pose proof prec_pos as Hp.
  assert (H0 : 0 <= sh * v_tokens v * prec * prec) by nia.
  rewrite Z.quot_div_nonneg by lia.
  assert (Hq : 0 <= sh * v_tokens v * prec * prec / v_shares v) by (apply Z.div_pos; lia).
  split; [apply chop_of_nonneg; exact Hq|exact Hq].
Qed.

Lemma div_prec_prec N S : 0 <= N -> 0 < S -> N * prec * prec / S / prec / prec = N / S.
Proof.
  intros HN HS. pose proof prec_pos as Hp.
  rewrite !Z.div_div by lia.
  replace (N * prec * prec) with (N * (prec * prec)) by ring.
  replace (S * prec * prec) with (S * (prec * prec)) by ring.
  apply Z.div_mul_cancel_r; nia.
Qed.

(** the truncation rule: the reported balance is floor(shares * tokens / total shares), or one more
    when the quotient lies within 10^-18 / 2 of the next integer (the rounding of Quo) *)
Lemma delegation_balance_floor v sh :
  0 <= sh -> 0 <= v_tokens v -> 0 < v_shares v ->
  sh * v_tokens v / v_shares v <= delegation_balance v sh <= sh * v_tokens v / v_shares v + 1.
Proof.
  intros Hs HT HS. unfold delegation_balance.
  destruct (tokens_from_shares_nonneg_form v sh Hs HT HS) as [-> Hq].
  set (q := sh * v_tokens v * prec * prec / v_shares v) in *.
  pose proof prec_pos as Hp.
  pose proof (chop_nonneg_range q Hq) as [Hlo Hhi].
  rewrite truncate_nonneg by (apply chop_nonneg_nonneg; exact Hq).
  assert (Hk : q / prec / prec = sh * v_tokens v / v_shares v) by (apply div_prec_prec; nia).
  split.
  - rewrite <- Hk. apply Z.div_le_mono; lia.
  - rewrite <- Hk.
    apply Z.le_trans with ((q / prec + prec) / prec).
    + apply Z.div_le_mono; lia.
    + replace (q / prec + prec) with (q / prec + 1 * prec) by ring.
      rewrite Z.div_add by lia. lia.
Qed.

(** ... and exactly the floor unless the fractional part of the quotient is 1 - 10^-18 / 2 or more *)
Lemma delegation_balance_exact v sh :
  0 <= sh -> 0 <= v_tokens v -> 0 < v_shares v ->
  2 * prec * ((sh * v_tokens v) mod v_shares v) < (2 * prec - 1) * v_shares v ->
  delegation_balance v sh = sh * v_tokens v / v_shares v.
Proof.
  intros Hs HT HS Hfrac.
  pose proof (delegation_balance_floor v sh Hs HT HS) as [Hlo _].
  apply Z.le_antisymm; [|exact Hlo].
  unfold delegation_balance.
  destruct (tokens_from_shares_nonneg_form v sh Hs HT HS) as [-> Hq].
  set (N := sh * v_tokens v) in *. set (S := v_shares v) in *.
  set (q := N * prec * prec / S) in *.
  pose proof prec_pos as Hp.
  rewrite truncate_nonneg by (apply chop_nonneg_nonneg; exact Hq).
  set (k := N / S). set (r := N mod S) in *.
  assert (HN : N = S * k + r) by (apply Z.div_mod; lia).
  assert (Hr : 0 <= r < S) by (apply Z.mod_pos_bound; lia).
  assert (HqS : q * S <= N * prec * prec) by (unfold q; rewrite Z.mul_comm; apply Z.mul_div_le; lia).
  pose proof (chop_nonneg_error q Hq) as He.
  set (c := chop_nonneg q) in *.
  assert (Hc2 : 2 * (c * prec) <= 2 * q + prec) by lia.
  (* 2q + prec < 2 (k+1) prec^2 *)
  assert (H1 : 2 * q * S < (2 * (k + 1) * prec * prec - prec) * S) by nia.
  assert (H2 : 2 * q < 2 * (k + 1) * prec * prec - prec) by nia.
  assert (H3 : c < (k + 1) * prec) by nia.
  assert (H4 : c / prec < k + 1) by (apply Z.div_lt_upper_bound; lia).
  lia.
Qed.

(** at exchange rate one (never slashed) the balance is the integer part of the shares *)
Lemma delegation_balance_rate_one v sh :
  0 <= sh -> 0 < v_tokens v -> v_shares v = of_int (v_tokens v) ->
  delegation_balance v sh = truncate sh.
Proof.
  intros Hs HT HS.
  pose proof prec_pos as Hp.
  rewrite delegation_balance_exact; try lia.
  - rewrite HS. unfold of_int. rewrite truncate_nonneg by lia.
    rewrite (Z.mul_comm sh), Z.div_mul_cancel_l; lia.
  - rewrite HS. unfold of_int. nia.
  - rewrite HS. unfold of_int.
    rewrite (Z.mul_comm sh), Zmult_mod_distr_l.
    assert (0 <= sh mod prec < prec) by (apply Z.mod_pos_bound; lia). nia.
Qed.

(** two delegators, 10^18 and 10^18 + 10, the validator slashed by 5 %: the second delegation is worth
    950000000000000009.75 tokens.  Query and precompile report ...009; rounding to the nearest integer
    would report ...010, one unit more than can be undelegated *)
Definition w_slashed : validator :=
  mk_val 1900000000000000010 2000000000000000010000000000000000000 3%N false 0.
Definition w_slashed_del : Z := 1000000000000000010000000000000000000.

Lemma delegation_query_slashed_example :
  precompile_delegation_query (Some w_slashed) (Some w_slashed_del) = Some (w_slashed_del, 950000000000000009) /\
  native_delegation_query (Some w_slashed) (Some w_slashed_del) = QOk w_slashed_del 950000000000000009 /\
  w_slashed_del * v_tokens w_slashed / v_shares w_slashed = 950000000000000009.
Proof. vm_compute. auto. Qed.

Lemma delegation_balance_rounded_refuted :
  exists v sh, 0 <= sh /\ 0 <= v_tokens v /\ 0 < v_shares v /\
    delegation_balance_rounded v sh = delegation_balance v sh + 1 /\
    (* more than the delegation can give back: ValidateUnbondAmount refuses the reported balance *)
    (exists sht, shares_from_tokens_trunc v (delegation_balance_rounded v sh) = Some sht /\ sh < sht).
Proof.
  exists w_slashed, w_slashed_del. vm_compute. repeat split; try discriminate.
  eexists. split; reflexivity.
Qed.
