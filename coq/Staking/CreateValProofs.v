(** Lemmas about Staking/CreateValModel.v (statements used by Props/C16.v). *)
From Coq Require Import ZArith NArith List Bool Lia.
From HV Require Import Staking.CreateValModel.
Import ListNotations.
Local Open Scope Z_scope.

(** the five numbers of the ABI arguments are uint256 *)
Definition args_u256 (g : cmsg) : Prop :=
  0 <= m_rate g < 2 ^ 256 /\ 0 <= m_max g < 2 ^ 256 /\ 0 <= m_change g < 2 ^ 256 /\
  0 <= m_minself g < 2 ^ 256 /\ 0 <= m_value g < 2 ^ 256.

Lemma u256_true x : 0 <= x < 2 ^ 256 -> u256 x = true.
Proof.
  intros [H0 H1]. unfold u256.
  destruct (Z.leb_spec 0 x); [|lia]. destruct (Z.ltb_spec x (2 ^ 256)); [reflexivity|lia].
Qed.

Lemma abi_ok_owner a g : a <> 0 -> args_u256 g -> abi_ok a g = true.
Proof.
  intros Ha (H1 & H2 & H3 & H4 & H5). unfold abi_ok.
  destruct (Z.eqb_spec a 0); [contradiction|].
  rewrite !u256_true by assumption. reflexivity.
Qed.

Lemma conv_msg_id g : conv_msg conv_id g = g.
Proof. destruct g; reflexivity. Qed.

(** ** the owner's call = the native message *)
Lemma create_owner_eq_native st a g :
  a <> 0 -> args_u256 g -> precompile_create conv_id st a a a g = native_create st g.
Proof.
  intros Ha Hu. unfold precompile_create, native_create.
  rewrite (abi_ok_owner a g Ha Hu), conv_msg_id, Z.eqb_refl. cbn.
  destruct (validate_basic g); reflexivity.
Qed.

Lemma create_owner_accepts_iff st a g :
  a <> 0 -> args_u256 g ->
  (c_ok (precompile_create conv_id st a a a g) = true <-> c_ok (native_create st g) = true).
Proof. intros Ha Hu. rewrite (create_owner_eq_native st a g Ha Hu). tauto. Qed.

(** ** a caller that is not the signer is refused, whatever the conversion (F10) *)
Lemma create_by_another_caller_refused conv st caller a g :
  caller <> a -> precompile_create conv st caller a a g = cfail st.
Proof.
  intros Hc. unfold precompile_create.
  destruct (negb (abi_ok a g)); [reflexivity|].
  destruct (negb (validate_basic (conv_msg conv g))); [reflexivity|].
  rewrite Z.eqb_refl. cbn.
  destruct (Z.eqb_spec caller a); [contradiction|]. reflexivity.
Qed.

Ltac bad := let X := fresh in intros X; cbn [c_ok cfail] in X; discriminate X.

(** ** what an accepted message satisfies, and what it does *)
Lemma commission_valid_inv r m c :
  commission_valid r m c = true -> 0 <= r <= m /\ m <= one_dec /\ 0 <= c <= m.
Proof.
  unfold commission_valid. intros H.
  repeat (apply andb_prop in H; destruct H as [H ?]).
  repeat match goal with X : negb (_ <? _) = true |- _ => apply negb_true_iff, Z.ltb_ge in X end.
  lia.
Qed.

Lemma native_create_effect st g :
  c_ok (native_create st g) = true ->
  s_mincomm st <= m_rate g /\ 0 <= m_rate g <= m_max g /\ m_max g <= one_dec /\
  0 <= m_change g <= m_max g /\ 0 < m_minself g <= m_value g /\ m_value g <= s_bal st /\
  s_owner st = false /\ m_pk g = 0%N /\ m_valaddr_ok g = true /\ desc_empty g = false /\ desc_len_ok g = true /\
  native_create st g =
    mk_cout true
      (Some (mk_cnew (m_rate g) (m_max g) (m_change g) (m_minself g) (m_value g)
                     (m_value g * one_dec) (m_value g * one_dec)))
      (s_bal st - m_value g).
Proof.
  unfold native_create, handler.
  destruct (validate_basic g) eqn:Hvb; [|bad].
  destruct (Z.ltb_spec (m_rate g) (s_mincomm st)) as [|Hmin]; [bad|].
  destruct (s_owner st) eqn:Hown; [bad|].
  destruct (N.eqb_spec (m_pk g) 0) as [Hpk|]; [|bad]. cbn [negb].
  destruct (desc_len_ok g) eqn:Hlen; [|bad]. cbn [negb].
  destruct (commission_valid (m_rate g) (m_max g) (m_change g)) eqn:Hcv; [|bad]. cbn [negb].
  destruct (Z.ltb_spec (s_bal st) (m_value g)) as [|Hbal]; [bad|].
  intros _.
  apply commission_valid_inv in Hcv.
  unfold validate_basic in Hvb.
  repeat (apply andb_prop in Hvb; destruct Hvb as [Hvb ?]).
  repeat match goal with X : negb (_ <? _) = true |- _ => apply negb_true_iff, Z.ltb_ge in X end.
  repeat match goal with X : (_ <? _) = true |- _ => apply Z.ltb_lt in X end.
  match goal with X : negb (desc_empty g) = true |- _ => apply negb_true_iff in X end.
  repeat split; try lia; try assumption; reflexivity.
Qed.

(** ** the low-64-bits conversion *)
Lemma low64_id_below_2_63 x : 0 <= x < 2 ^ 63 -> conv_low64 x = x.
Proof.
  intros H. unfold conv_low64.
  rewrite Z.mod_small by lia.
  destruct (Z.ltb_spec x (2 ^ 63)); [reflexivity|lia].
Qed.

(** on everything the native message accepts the variant behaves as the code: valid rates are below 2^63 *)
Lemma low64_agrees_where_native_accepts st a g :
  a <> 0 -> args_u256 g -> c_ok (native_create st g) = true ->
  precompile_create conv_low64 st a a a g = native_create st g.
Proof.
  intros Ha Hu Hok.
  destruct (native_create_effect st g Hok) as (_ & Hr & Hm & Hc & _).
  assert (Hone : one_dec < 2 ^ 63) by (unfold one_dec; lia).
  assert (E : conv_msg conv_low64 g = g).
  { clear Hu Hok. destruct g as [r m c ms v mo i w s d va pk].
    cbn [m_rate m_max m_change] in Hr, Hm, Hc. unfold conv_msg.
    cbn [m_rate m_max m_change m_minself m_value m_moniker m_identity m_website m_security m_details
         m_valaddr_ok m_pk].
    rewrite !low64_id_below_2_63 by lia. reflexivity. }
  rewrite <- (create_owner_eq_native st a g Ha Hu).
  unfold precompile_create. rewrite E, conv_msg_id. reflexivity.
Qed.

(** ... but it accepts rate sets no native message is accepted with *)
Definition w_cv_state : cstate := mk_cst 50000000000000000 false 50000000000000000000.
Definition w_cv_huge : cmsg :=
  mk_cmsg (2 ^ 64 + 50000000000000000) (2 ^ 64 + 200000000000000000) (2 ^ 64 + 50000000000000000)
          1 1000000000000000000 1%N 0%N 0%N 0%N 0%N true 0%N.
Definition w_cv_plain : cmsg :=
  mk_cmsg 50000000000000000 200000000000000000 50000000000000000
          1 1000000000000000000 1%N 0%N 0%N 0%N 0%N true 0%N.

Lemma low64_refuted :
  args_u256 w_cv_huge /\
  native_create w_cv_state w_cv_huge = cfail w_cv_state /\
  precompile_create conv_id w_cv_state 1 1 1 w_cv_huge = cfail w_cv_state /\
  precompile_create conv_low64 w_cv_state 1 1 1 w_cv_huge =
    mk_cout true
      (Some (mk_cnew 50000000000000000 200000000000000000 50000000000000000 1 1000000000000000000
                     1000000000000000000000000000000000000 1000000000000000000000000000000000000))
      49000000000000000000.
Proof.
  split; [unfold args_u256, w_cv_huge; cbn [m_rate m_max m_change m_minself m_value]; lia|].
  vm_compute. auto.
Qed.

(** a single rate above 2^64 is enough: rate = 5 % + 2^64 against an ordinary maximum *)
Definition w_cv_rate_only : cmsg :=
  mk_cmsg (2 ^ 64 + 50000000000000000) 200000000000000000 50000000000000000
          1 1000000000000000000 1%N 0%N 0%N 0%N 0%N true 0%N.

Lemma low64_refuted_one_rate :
  args_u256 w_cv_rate_only /\
  c_ok (native_create w_cv_state w_cv_rate_only) = false /\
  c_ok (precompile_create conv_low64 w_cv_state 1 1 1 w_cv_rate_only) = true.
Proof.
  split; [unfold args_u256, w_cv_rate_only; cbn [m_rate m_max m_change m_minself m_value]; lia|].
  vm_compute. auto.
Qed.

(** non-vacuity: an ordinary creation, both routes *)
Lemma create_example :
  args_u256 w_cv_plain /\
  native_create w_cv_state w_cv_plain =
    mk_cout true
      (Some (mk_cnew 50000000000000000 200000000000000000 50000000000000000 1 1000000000000000000
                     1000000000000000000000000000000000000 1000000000000000000000000000000000000))
      49000000000000000000 /\
  precompile_create conv_id w_cv_state 1 1 1 w_cv_plain = native_create w_cv_state w_cv_plain /\
  precompile_create conv_low64 w_cv_state 1 1 1 w_cv_plain = native_create w_cv_state w_cv_plain /\
  c_ok (precompile_create conv_id w_cv_state 2 1 1 w_cv_plain) = false.
Proof.
  split; [unfold args_u256, w_cv_plain; cbn [m_rate m_max m_change m_minself m_value]; lia|].
  vm_compute. auto.
Qed.
