(** Staking share arithmetic behind the staking precompile's delegate / undelegate and the
    native MsgDelegate / MsgUndelegate (cosmos-sdk v0.47.12 x/staking, Haqq precompiles/staking).

    Executable definitions only (proofs: StakeProofs.v).  Transcribed:
    - types/validator.go: InvalidExRate, SharesFromTokens, SharesFromTokensTruncated,
      TokensFromShares, AddTokensFromDel (the first delegation to a validator without shares
      sets the exchange rate to one), RemoveDelShares (the last share takes all tokens);
    - keeper/delegation.go: Delegate, ValidateUnbondAmount, Undelegate (max-entries rule),
      Unbond (operator below its minimum self-delegation is jailed; an unbonded validator
      without shares is removed);
    - keeper/msg_server.go + MsgDelegate/MsgUndelegate.ValidateBasic: positive amount;
    - precompiles/staking: NewMsgDelegate / NewMsgUndelegate (argument decoding, ValidateBasic),
      the identity rule (delegator = caller or origin), the authorization check (only when
      caller <> origin; a premise), the message server call, EmitDelegateEvent (which
      recomputes SharesFromTokens on the validator AFTER the delegation), the SubBalance
      mirror and the transaction's final StateDB commit (fails on a negative balance).

    A LegacyDec is its integer (value * 10^18), arithmetic from Base/Dec.v.

    Not modelled: the 315-bit overflow panic of LegacyDec (both routes run the same
    multiplications first, the comparison with the implementation covers the amounts the
    generator produces, 2^256-1 included); the hooks of other modules except for the one number
    that matters to the debit: [i_rew], the pending rewards the distribution hook pays to the
    delegator itself before the coins are taken (an input, like reward amounts elsewhere). *)
From Coq Require Import ZArith NArith List Bool.
From HV Require Import Base.Dec.
Import ListNotations.
Local Open Scope Z_scope.

(** status: 1 unbonded, 2 unbonding, 3 bonded (stakingtypes.BondStatus) *)
Record validator := mk_val {
  v_tokens : Z;
  v_shares : Z;      (* DelegatorShares, a LegacyDec *)
  v_status : N;
  v_jailed : bool;
  v_minself : Z
}.

Definition set_ts (v : validator) (t s : Z) : validator :=
  mk_val t s (v_status v) (v_jailed v) (v_minself v).
Definition set_jailed (v : validator) : validator :=
  mk_val (v_tokens v) (v_shares v) (v_status v) true (v_minself v).

Definition invalid_ex_rate (v : validator) : bool := (v_tokens v =? 0) && (0 <? v_shares v).

(** SharesFromTokens: ErrInsufficientShares when the validator has no tokens *)
Definition shares_from_tokens (v : validator) (amt : Z) : option Z :=
  if v_tokens v =? 0 then None
  else Some (dquo_int (dmul_int (v_shares v) amt) (v_tokens v)).

Definition shares_from_tokens_trunc (v : validator) (amt : Z) : option Z :=
  if v_tokens v =? 0 then None
  else Some (dquo_trunc (dmul_int (v_shares v) amt) (of_int (v_tokens v))).

(** TokensFromShares (Quo panics on a zero divisor: callers test [v_shares] first) *)
Definition tokens_from_shares (v : validator) (sh : Z) : Z :=
  dquo (dmul_int sh (v_tokens v)) (v_shares v).

(** AddTokensFromDel: new validator and the issued shares; None = panic *)
Definition add_tokens_from_del (v : validator) (amt : Z) : option (validator * Z) :=
  if v_shares v =? 0 then
    Some (set_ts v (v_tokens v + amt) (v_shares v + of_int amt), of_int amt)
  else match shares_from_tokens v amt with
       | None => None
       | Some s => Some (set_ts v (v_tokens v + amt) (v_shares v + s), s)
       end.

(** RemoveDelShares: new validator and the issued tokens; None = panic *)
Definition remove_del_shares (v : validator) (sh : Z) : option (validator * Z) :=
  let rem := v_shares v - sh in
  if rem =? 0 then Some (set_ts v 0 rem, v_tokens v)
  else if v_shares v =? 0 then None
  else let issued := truncate (tokens_from_shares v sh) in
       if v_tokens v - issued <? 0 then None
       else Some (set_ts v (v_tokens v - issued) rem, issued).

(** what a delegate / undelegate of one delegator at one validator depends on *)
Record sin := mk_sin {
  i_val : option validator;   (* None: no validator record *)
  i_del : option Z;           (* the delegator's shares; None: no delegation *)
  i_entries : N;              (* the delegator's unbonding entries at this validator *)
  i_max : N;                  (* staking parameter MaxEntries *)
  i_bal : Z;                  (* the delegator's balance of the bond denomination *)
  i_rew : Z;                  (* pending rewards the hook pays to the delegator itself first *)
  i_oper : bool               (* the delegator is the validator's operator *)
}.

Inductive smethod := SDelegate | SUndelegate.

(** success, and the numbers afterwards (on failure: unchanged) *)
Record sout := mk_sout { o_ok : bool; o_val : option validator; o_del : option Z }.

Definition unchanged (s : sin) : sout := mk_sout false (i_val s) (i_del s).

Definition opt0 (o : option Z) : Z := match o with Some x => x | None => 0 end.

(** MsgDelegate through the message server *)
Definition native_delegate (s : sin) (amt : Z) : sout :=
  if amt <=? 0 then unchanged s else
  match i_val s with
  | None => unchanged s
  | Some v =>
      if invalid_ex_rate v then unchanged s else
      if i_bal s + i_rew s <? amt then unchanged s else
      match add_tokens_from_del v amt with
      | None => unchanged s
      | Some (v', issued) => mk_sout true (Some v') (Some (opt0 (i_del s) + issued))
      end
  end.

(** MsgUndelegate through the message server *)
Definition native_undelegate (s : sin) (amt : Z) : sout :=
  if amt <=? 0 then unchanged s else
  match i_val s, i_del s with
  | Some v, Some d =>
      match shares_from_tokens v amt, shares_from_tokens_trunc v amt with
      | Some sh0, Some sht =>
          if d <? sht then unchanged s else
          let sh := if d <? sh0 then d else sh0 in
          if (i_max s <=? i_entries s)%N then unchanged s else
          if d <? sh then unchanged s else
          if v_shares v =? 0 then unchanged s else
          let d' := d - sh in
          let jail := i_oper s && negb (v_jailed v) &&
                      (truncate (tokens_from_shares v d') <? v_minself v) in
          let v1 := if jail then set_jailed v else v in
          match remove_del_shares v1 sh with
          | None => unchanged s
          | Some (v2, _) =>
              let gone := (v_shares v2 =? 0) && (v_status v2 =? 1)%N in
              mk_sout true (if gone then None else Some v2) (if d' =? 0 then None else Some d')
          end
      | _, _ => unchanged s
      end
  | _, _ => unchanged s
  end.

Definition native (s : sin) (m : smethod) (amt : Z) : sout :=
  match m with SDelegate => native_delegate s amt | SUndelegate => native_undelegate s amt end.

(** * the precompile route *)
(** ABI decoding + checkDelegationUndelegationArgs: a non-zero delegator address, a uint256 *)
Definition decode (deleg amt : Z) : option Z :=
  if deleg =? 0 then None
  else if (amt <? 0) || (2 ^ 256 <=? amt) then None else Some amt.

(** The body of Delegate / Undelegate in precompiles/staking/tx.go.  [grant_ok]: the caller holds a
    sufficient authorization of the delegator (consulted only when caller <> origin). *)
Definition precompile_body (s : sin) (caller origin deleg : Z) (grant_ok : bool)
    (m : smethod) (amt : Z) : sout :=
  match decode deleg amt with
  | None => unchanged s
  | Some a =>
      if a <=? 0 then unchanged s else
      if negb (caller =? deleg) && negb (origin =? deleg) then unchanged s else
      if negb (caller =? origin) && negb grant_ok then unchanged s else
      let r := native s m a in
      if negb (o_ok r) then unchanged s else
      match m with
      | SUndelegate => r
      | SDelegate =>
          (* EmitDelegateEvent: newShares from the validator as it is now, after the delegation *)
          match o_val r with
          | None => unchanged s
          | Some v' => match shares_from_tokens v' a with None => unchanged s | Some _ => r end
          end
      end
  end.

(** The whole transaction of a direct call, as the code does it: the delegate mirror subtracts the
    amount from the caller's balance as cached BEFORE the call; the final commit writes that
    balance and fails when it is negative (then nothing of the transaction remains). *)
Definition precompile_tx_impl (s : sin) (caller origin deleg : Z) (grant_ok : bool)
    (m : smethod) (amt : Z) : sout :=
  let r := precompile_body s caller origin deleg grant_ok m amt in
  match m with
  | SDelegate => if o_ok r && (caller =? deleg) && (i_bal s - amt <? 0) then unchanged s else r
  | SUndelegate => r
  end.

(** The seeded variant studied in Props/C16.v: newShares computed from the validator BEFORE the
    message runs ("a delegation does not change the exchange rate"). *)
Definition precompile_body_event_first (s : sin) (caller origin deleg : Z) (grant_ok : bool)
    (amt : Z) : sout :=
  match decode deleg amt with
  | None => unchanged s
  | Some a =>
      if a <=? 0 then unchanged s else
      if negb (caller =? deleg) && negb (origin =? deleg) then unchanged s else
      if negb (caller =? origin) && negb grant_ok then unchanged s else
      match i_val s with
      | None => unchanged s
      | Some v =>
          match shares_from_tokens v a with
          | None => unchanged s
          | Some _ => let r := native s SDelegate a in if o_ok r then r else unchanged s
          end
      end
  end.

(** * comparison with the implementation *)
Definition val_eqb (a b : validator) : bool :=
  (v_tokens a =? v_tokens b) && (v_shares a =? v_shares b) && (v_status a =? v_status b)%N &&
  Bool.eqb (v_jailed a) (v_jailed b) && (v_minself a =? v_minself b).

Definition oval_eqb (a b : option validator) : bool :=
  match a, b with
  | Some x, Some y => val_eqb x y
  | None, None => true
  | _, _ => false
  end.

Definition oz_eqb (a b : option Z) : bool :=
  match a, b with Some x, Some y => x =? y | None, None => true | _, _ => false end.

Definition sout_eqb (a b : sout) : bool :=
  Bool.eqb (o_ok a) (o_ok b) && oval_eqb (o_val a) (o_val b) && oz_eqb (o_del a) (o_del b).

(** a case: the pre-state numbers, the call, what the Ethereum transaction (signer = caller =
    delegator) did, what the native message did *)
Definition scase := (sin * smethod * Z * sout * sout)%type.

Definition check_case (c : scase) : bool :=
  let '(s, m, amt, o_eth, o_nat) := c in
  sout_eqb (precompile_tx_impl s 1 1 1 false m amt) o_eth && sout_eqb (native s m amt) o_nat.

Fixpoint mismatches_from (i : nat) (cs : list scase) : list nat :=
  match cs with
  | [] => []
  | c :: t => if check_case c then mismatches_from (S i) t else i :: mismatches_from (S i) t
  end.
Definition stake_mismatches (cs : list scase) : list nat := mismatches_from 0 cs.

(** * the read-only method [delegation] and the native Query/Delegation

    keeper/grpc_query.go Delegation + DelegationToDelegationResponse: NotFound when there is no
    delegation record; otherwise the delegation's shares and
    [NewCoin(bondDenom, validator.TokensFromShares(shares).TruncateInt())] (an Internal error when the
    validator record is missing).  The truncation rule: the reported balance is what the shares are
    worth in WHOLE tokens, rounded down - the amount [Undelegate] can actually take out.
    (TokensFromShares divides by the validator's shares: a delegation record implies positive shares.)

    precompiles/staking/query.go Delegation: calls that query server; NotFound becomes the answer
    (0, 0 bondDenom); DelegationOutput.FromResponse copies shares and balance. *)
Definition delegation_balance (v : validator) (sh : Z) : Z := truncate (tokens_from_shares v sh).

Inductive qres := QNotFound | QError | QOk (shares balance : Z).

Definition native_delegation_query (ov : option validator) (od : option Z) : qres :=
  match od with
  | None => QNotFound
  | Some sh => match ov with
               | None => QError
               | Some v => QOk sh (delegation_balance v sh)
               end
  end.

(** None: the call fails; Some (shares, balance) *)
Definition precompile_delegation_query (ov : option validator) (od : option Z) : option (Z * Z) :=
  match native_delegation_query ov od with
  | QNotFound => Some (0, 0)
  | QError => None
  | QOk sh b => Some (sh, b)
  end.

(** the variant studied in Props/C16.v: the balance rounded to the NEAREST integer (RoundInt) *)
Definition delegation_balance_rounded (v : validator) (sh : Z) : Z := round_int (tokens_from_shares v sh).

(** comparison with the implementation: one [delegation] question = the validator record, the
    delegation's shares, what the precompile answered (None: failed), what Query/Delegation answered *)
Definition dq := (option validator * option Z * option (Z * Z) * qres)%type.

Definition ozz_eqb (a b : option (Z * Z)) : bool :=
  match a, b with
  | Some (x1, y1), Some (x2, y2) => (x1 =? x2) && (y1 =? y2)
  | None, None => true
  | _, _ => false
  end.

Definition qres_eqb (a b : qres) : bool :=
  match a, b with
  | QNotFound, QNotFound => true
  | QError, QError => true
  | QOk s1 b1, QOk s2 b2 => (s1 =? s2) && (b1 =? b2)
  | _, _ => false
  end.

Definition check_dq (q : dq) : bool :=
  let '(ov, od, pre, nat) := q in
  ozz_eqb (precompile_delegation_query ov od) pre && qres_eqb (native_delegation_query ov od) nat.

(** a case of the stakequery driver: every [delegation] question asked in one state *)
Definition qcase := list dq.

Fixpoint qmismatches_from (i : nat) (cs : list qcase) : list nat :=
  match cs with
  | [] => []
  | c :: t => if forallb check_dq c then qmismatches_from (S i) t else i :: qmismatches_from (S i) t
  end.
Definition query_mismatches (cs : list qcase) : list nat := qmismatches_from 0 cs.
