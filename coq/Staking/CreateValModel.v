(** MsgCreateValidator and the staking precompile's createValidator
    (cosmos-sdk v0.47.12 x/staking, Haqq precompiles/staking/types.go + tx.go).

    Executable definitions only (proofs: CreateValProofs.v).  Transcribed:
    - types/msg.go MsgCreateValidator.ValidateBasic: delegator / validator address (the validator
      address must be the delegator's bytes), positive value, non-empty description,
      CommissionRates.Validate (0 <= rate <= max <= 1, 0 <= change <= max), positive minimum
      self-delegation, value >= minimum self-delegation;
    - keeper/msg_server.go CreateValidator: rate >= MinCommissionRate, no validator of this operator,
      consensus key not in use (sdk.GetConsAddress panics on a key that is not 32 bytes long: the
      transaction fails), Description.EnsureLength, SetInitialCommission (Validate again), the
      self-delegation (first delegation: shares = tokens; the coins leave the delegator's balance);
    - precompiles/staking/types.go NewMsgCreateValidator: the ABI arguments (three uint256 commission
      rates with 18 decimals, uint256 minimum self-delegation and value, a non-zero delegator address,
      five strings, the validator address string, the consensus key) become the message; the
      conversion of a rate is a PARAMETER [conv] of the definition: the code's
      LegacyNewDecFromBigIntWithPrec(x, 18) is the identity on the integer ([conv_id]); the variant
      studied in Props/C16.v, LegacyNewDecWithPrec(x.Int64(), 18), keeps the low 64 bits
      ([conv_low64]); then ValidateBasic;
    - precompiles/staking/tx.go CreateValidator: origin = delegator, caller = origin (F10), the
      message server, the event (cannot fail: the validator address was validated).

    A LegacyDec is its integer (value * 10^18).  Strings enter by their byte length.  Not modelled:
    a consensus key that is not valid base64 (no native message can carry it; never generated),
    vesting accounts (the signers are plain accounts), the hooks of other modules. *)
From Coq Require Import ZArith NArith List Bool.
Import ListNotations.
Local Open Scope Z_scope.

Definition one_dec : Z := 10 ^ 18.
Definition u256 (x : Z) : bool := (0 <=? x) && (x <? 2 ^ 256).

(** the message (and, with uint256 numbers, the ABI arguments) *)
Record cmsg := mk_cmsg {
  m_rate : Z; m_max : Z; m_change : Z;        (* commission rates *)
  m_minself : Z; m_value : Z;
  m_moniker : N; m_identity : N; m_website : N; m_security : N; m_details : N;   (* byte lengths *)
  m_valaddr_ok : bool;   (* the validator address string is a well-formed operator address of this chain
                            whose bytes are the delegator's *)
  m_pk : N               (* consensus key: 0 = 32 bytes, used by no validator; 1 = the key of an existing
                            validator; 2 = not 32 bytes long *)
}.

Record cstate := mk_cst {
  s_mincomm : Z;    (* staking parameter MinCommissionRate *)
  s_owner : bool;   (* a validator record of this operator exists *)
  s_bal : Z         (* the delegator's balance of the bond denomination *)
}.

(** the new validator: rate, max rate, max change rate, minimum self-delegation, tokens, shares, and the
    operator's delegation shares *)
Record cnew := mk_cnew { n_rate : Z; n_max : Z; n_change : Z; n_minself : Z; n_tokens : Z; n_shares : Z; n_del : Z }.

(** success, the record created (None: none), the delegator's balance afterwards *)
Record cout := mk_cout { c_ok : bool; c_new : option cnew; c_bal : Z }.

Definition cfail (st : cstate) : cout := mk_cout false None (s_bal st).

(** CommissionRates.Validate *)
Definition commission_valid (r m c : Z) : bool :=
  negb (m <? 0) && negb (one_dec <? m) && negb (r <? 0) && negb (m <? r) && negb (c <? 0) && negb (m <? c).

Definition desc_empty (g : cmsg) : bool :=
  (m_moniker g =? 0)%N && (m_identity g =? 0)%N && (m_website g =? 0)%N && (m_security g =? 0)%N &&
  (m_details g =? 0)%N.

Definition desc_len_ok (g : cmsg) : bool :=
  (m_moniker g <=? 70)%N && (m_identity g <=? 3000)%N && (m_website g <=? 140)%N &&
  (m_security g <=? 140)%N && (m_details g <=? 280)%N.

(** MsgCreateValidator.ValidateBasic *)
Definition validate_basic (g : cmsg) : bool :=
  m_valaddr_ok g && (0 <? m_value g) && negb (desc_empty g) &&
  commission_valid (m_rate g) (m_max g) (m_change g) &&
  (0 <? m_minself g) && negb (m_value g <? m_minself g).

(** msgServer.CreateValidator *)
Definition handler (st : cstate) (g : cmsg) : cout :=
  if m_rate g <? s_mincomm st then cfail st else
  if s_owner st then cfail st else
  if negb (m_pk g =? 0)%N then cfail st else
  if negb (desc_len_ok g) then cfail st else
  if negb (commission_valid (m_rate g) (m_max g) (m_change g)) then cfail st else
  if s_bal st <? m_value g then cfail st else
  mk_cout true
    (Some (mk_cnew (m_rate g) (m_max g) (m_change g) (m_minself g) (m_value g)
                   (m_value g * one_dec) (m_value g * one_dec)))
    (s_bal st - m_value g).

(** the native message: ValidateBasic, then the message server *)
Definition native_create (st : cstate) (g : cmsg) : cout :=
  if validate_basic g then handler st g else cfail st.

(** * the precompile route *)
Definition conv_id (x : Z) : Z := x.

(** big.Int.Int64 of a non-negative integer: the low 64 bits, read as a two's-complement number *)
Definition conv_low64 (x : Z) : Z :=
  let l := x mod 2 ^ 64 in if l <? 2 ^ 63 then l else l - 2 ^ 64.

Definition conv_msg (conv : Z -> Z) (g : cmsg) : cmsg :=
  mk_cmsg (conv (m_rate g)) (conv (m_max g)) (conv (m_change g)) (m_minself g) (m_value g)
          (m_moniker g) (m_identity g) (m_website g) (m_security g) (m_details g) (m_valaddr_ok g) (m_pk g).

(** ABI decoding: five uint256, a non-zero delegator address *)
Definition abi_ok (deleg : Z) (g : cmsg) : bool :=
  negb (deleg =? 0) && u256 (m_rate g) && u256 (m_max g) && u256 (m_change g) &&
  u256 (m_minself g) && u256 (m_value g).

Definition precompile_create (conv : Z -> Z) (st : cstate) (caller origin deleg : Z) (g : cmsg) : cout :=
  if negb (abi_ok deleg g) then cfail st else
  let msg := conv_msg conv g in
  if negb (validate_basic msg) then cfail st else
  if negb (origin =? deleg) then cfail st else
  if negb (caller =? origin) then cfail st else
  handler st msg.

(** * comparison with the implementation *)
Definition cnew_eqb (a b : cnew) : bool :=
  (n_rate a =? n_rate b) && (n_max a =? n_max b) && (n_change a =? n_change b) &&
  (n_minself a =? n_minself b) && (n_tokens a =? n_tokens b) && (n_shares a =? n_shares b) &&
  (n_del a =? n_del b).

Definition ocnew_eqb (a b : option cnew) : bool :=
  match a, b with
  | Some x, Some y => cnew_eqb x y
  | None, None => true
  | _, _ => false
  end.

Definition cout_eqb (a b : cout) : bool :=
  Bool.eqb (c_ok a) (c_ok b) && ocnew_eqb (c_new a) (c_new b) && (c_bal a =? c_bal b).

(** a case: the state, the arguments, what the Ethereum transaction of the signer (caller = origin =
    delegator) did, what the native message did *)
Definition ccase := (cstate * cmsg * cout * cout)%type.

Definition check_ccase (c : ccase) : bool :=
  let '(st, g, o_eth, o_nat) := c in
  cout_eqb (precompile_create conv_id st 1 1 1 g) o_eth && cout_eqb (native_create st g) o_nat.

Fixpoint cmismatches_from (i : nat) (cs : list ccase) : list nat :=
  match cs with
  | [] => []
  | c :: t => if check_ccase c then cmismatches_from (S i) t else i :: cmismatches_from (S i) t
  end.
Definition create_mismatches (cs : list ccase) : list nat := cmismatches_from 0 cs.
