(** Multi-denomination coins (sdk.Coins) as finite maps denom -> amount.
    Denominations are interned to [N] by the harness (index order = string
    order).  [coins] is a Notation, not a Definition, so that the std++ map
    lemmas match syntactically.  Every characterising lemma is stated through
    [amt]; all multi-denomination theorems of the development are pointwise
    statements about [amt].

    Executable part first (used by the *Model.v files and evaluated with
    vm_compute), lemmas below. *)
From Coq Require Import ZArith List Lia.
From stdpp Require Import gmap.
Import ListNotations.
Local Open Scope Z_scope.

Notation denom := N (only parsing).
Notation coins := (gmap N Z).          (* denom -> amount *)
Notation clist := (list (N * Z)).      (* sdk.Coins as printed by the harness *)

(** sdk.Coins.AmountOf *)
Definition amt (c : coins) (d : N) : Z := default 0 (c !! d).

Definition nz (v : Z) : option Z := if v =? 0 then None else Some v.

(** pointwise combination; a zero result is never stored (sdk.Coins drops
    zero coins in [safeAdd], [Min], [NewCoins]) *)
Definition cop (f : Z -> Z -> Z) (a b : coins) : coins :=
  merge (fun x y => nz (f (default 0 x) (default 0 y))) a b.

Definition cadd : coins -> coins -> coins := cop Z.add.   (* Coins.Add *)
Definition csub : coins -> coins -> coins := cop Z.sub.   (* Coins.SafeSub, first component *)
Definition cmin : coins -> coins -> coins := cop Z.min.   (* Coins.Min (non-negative operands) *)

Definition cset (c : coins) (d : N) (v : Z) : coins :=
  if v =? 0 then delete d c else <[d := v]> c.

(** NewCoins of a list of (denom, amount) pairs *)
Definition of_list (l : clist) : coins :=
  fold_left (fun m '(d, x) => cset m d (amt m d + x)) l ∅.

(** Coins.IsZero *)
Definition is_zero (c : coins) : bool := forallb (fun kv => snd kv =? 0) (map_to_list c).
(** Coins.IsAnyNegative *)
Definition any_neg (c : coins) : bool := existsb (fun kv => snd kv <? 0) (map_to_list c).
(** a.IsAllLTE(b) = b.IsAllGTE(a): every coin of [a] is at most the amount of
    that denomination in [b] *)
Definition is_all_lte (a b : coins) : bool :=
  forallb (fun kv => snd kv <=? amt b (fst kv)) (map_to_list a).
(** x/vesting/types.CoinEq *)
Definition coin_eq (a b : coins) : bool := is_all_lte a b && is_all_lte b a.

(** Coins.Sub: panics (None) when a result is negative *)
Definition csub_chk (a b : coins) : option coins :=
  let d := csub a b in if any_neg d then None else Some d.

(** canonical list: non-zero entries, ascending denominations *)
Fixpoint cinsert (x : N * Z) (l : clist) : clist :=
  match l with
  | [] => [x]
  | y :: r => if N.leb (fst x) (fst y) then x :: y :: r else y :: cinsert x r
  end.
Definition canon (c : coins) : clist :=
  fold_right cinsert [] (filter (fun kv => negb (snd kv =? 0)) (map_to_list c)).

(** equality of the denoted amounts, decided on the stored entries *)
Definition ceqb (a b : coins) : bool := is_zero (csub a b).

(** * Lemmas *)

Definition nonneg (c : coins) : Prop := forall d, 0 <= amt c d.
(** no zero amount is stored *)
Definition wfc (c : coins) : Prop := forall d, c !! d <> Some 0.

Lemma amt_empty d : amt ∅ d = 0.
Proof. unfold amt. by rewrite lookup_empty. Qed.

Lemma nz_default v : default 0 (nz v) = v.
Proof. unfold nz. destruct (Z.eqb_spec v 0); simpl; lia. Qed.

Lemma amt_cop f a b d : f 0 0 = 0 -> amt (cop f a b) d = f (amt a d) (amt b d).
Proof.
  intros Hf. unfold amt, cop. rewrite lookup_merge. unfold diag_None.
  destruct (a !! d) as [x|], (b !! d) as [y|]; simpl; rewrite ?nz_default; auto.
Qed.

Lemma amt_cadd a b d : amt (cadd a b) d = amt a d + amt b d.
Proof. by apply amt_cop. Qed.
Lemma amt_csub a b d : amt (csub a b) d = amt a d - amt b d.
Proof. by apply amt_cop. Qed.
Lemma amt_cmin a b d : amt (cmin a b) d = Z.min (amt a d) (amt b d).
Proof. by apply amt_cop. Qed.

Lemma amt_cset c d v d' : amt (cset c d v) d' = if decide (d = d') then v else amt c d'.
Proof.
  unfold amt, cset. destruct (Z.eqb_spec v 0) as [->|Hv]; destruct (decide (d = d')) as [->|Hd].
  - by rewrite lookup_delete.
  - by rewrite lookup_delete_ne.
  - by rewrite lookup_insert.
  - by rewrite lookup_insert_ne.
Qed.

Lemma wfc_empty : wfc ∅.
Proof. intros d. by rewrite lookup_empty. Qed.

Lemma wfc_cop f a b : wfc (cop f a b).
Proof.
  intros d. unfold cop. rewrite lookup_merge. unfold diag_None, nz.
  destruct (a !! d), (b !! d); simpl; try done;
    match goal with |- context [?v =? 0] => destruct (Z.eqb_spec v 0) end; congruence.
Qed.

Lemma wfc_cset c d v : wfc c -> wfc (cset c d v).
Proof.
  intros H d'. unfold cset. destruct (Z.eqb_spec v 0) as [->|Hv].
  - destruct (decide (d = d')) as [->|]; [by rewrite lookup_delete|by rewrite lookup_delete_ne].
  - destruct (decide (d = d')) as [->|]; [rewrite lookup_insert; congruence|by rewrite lookup_insert_ne].
Qed.

(** two maps without stored zeros are equal as soon as all amounts agree *)
Lemma wfc_ext a b : wfc a -> wfc b -> (forall d, amt a d = amt b d) -> a = b.
Proof.
  intros Ha Hb H. apply map_eq. intros d. specialize (H d). specialize (Ha d). specialize (Hb d).
  unfold amt in H. destruct (a !! d) as [x|], (b !! d) as [y|]; simpl in H; subst; try done.
Qed.

Lemma in_map_to_list (c : coins) d v : In (d, v) (map_to_list c) <-> c !! d = Some v.
Proof. rewrite <- elem_of_list_In. apply elem_of_map_to_list. Qed.

Lemma is_zero_spec c : is_zero c = true <-> forall d, amt c d = 0.
Proof.
  unfold is_zero. rewrite forallb_forall. split.
  - intros H d. unfold amt. destruct (c !! d) as [v|] eqn:E; [|done].
    apply in_map_to_list in E. apply H in E. simpl in *. lia.
  - intros H [d v] Hin. apply in_map_to_list in Hin. specialize (H d). unfold amt in H.
    rewrite Hin in H. simpl in *. lia.
Qed.

Lemma is_zero_false c : is_zero c = false <-> exists d, amt c d <> 0.
Proof.
  split.
  - intros H. unfold is_zero in H.
    assert (Hex : existsb (fun kv : N * Z => negb (snd kv =? 0)) (map_to_list c) = true).
    { induction (map_to_list c) as [|x l IH]; simpl in *; [discriminate|].
      destruct (snd x =? 0); simpl in *; auto. }
    apply existsb_exists in Hex as [[d v] [Hin Hv]]. apply in_map_to_list in Hin.
    exists d. unfold amt. rewrite Hin. simpl in *. destruct (Z.eqb_spec v 0); [discriminate|done].
  - intros [d Hd]. destruct (is_zero c) eqn:E; [|done].
    exfalso. apply Hd. by apply is_zero_spec.
Qed.

Lemma any_neg_false c : any_neg c = false <-> nonneg c.
Proof.
  unfold any_neg, nonneg. split.
  - intros H d. unfold amt. destruct (c !! d) as [v|] eqn:E; simpl; [|lia].
    destruct (Z.ltb_spec v 0); [|lia]. exfalso.
    assert (existsb (fun kv : N * Z => snd kv <? 0) (map_to_list c) = true); [|congruence].
    apply existsb_exists. exists (d, v). split; [by apply in_map_to_list|simpl; lia].
  - intros H. destruct (existsb _ _) eqn:E; [|done]. apply existsb_exists in E as [[d v] [Hin Hv]].
    apply in_map_to_list in Hin. specialize (H d). unfold amt in H. rewrite Hin in H. simpl in *. lia.
Qed.

Lemma is_all_lte_spec a b :
  is_all_lte a b = true <-> forall d, is_Some (a !! d) -> amt a d <= amt b d.
Proof.
  unfold is_all_lte. rewrite forallb_forall. split.
  - intros H d [v E]. unfold amt at 1. rewrite E. apply in_map_to_list in E. apply H in E. simpl in *. lia.
  - intros H [d v] Hin. apply in_map_to_list in Hin. specialize (H d (ex_intro _ v Hin)).
    unfold amt at 1 in H. rewrite Hin in H. simpl in *. lia.
Qed.

(** when the right-hand side is non-negative the guard is the pointwise order *)
Lemma is_all_lte_nonneg a b : nonneg b ->
  (is_all_lte a b = true <-> forall d, amt a d <= amt b d).
Proof.
  intros Hb. rewrite is_all_lte_spec. split; intros H d; [|by intros _].
  destruct (a !! d) as [v|] eqn:E; [apply H; eauto|].
  unfold amt at 1. rewrite E. simpl. apply Hb.
Qed.

Lemma coin_eq_spec a b : nonneg a -> nonneg b ->
  (coin_eq a b = true <-> forall d, amt a d = amt b d).
Proof.
  intros Ha Hb. unfold coin_eq. rewrite andb_true_iff, (is_all_lte_nonneg a b Hb), (is_all_lte_nonneg b a Ha).
  split; [intros [H1 H2] d; specialize (H1 d); specialize (H2 d); lia|intros H; split; intros d; rewrite H; lia].
Qed.

Lemma ceqb_spec a b : ceqb a b = true <-> forall d, amt a d = amt b d.
Proof.
  unfold ceqb. rewrite is_zero_spec. split; intros H d; specialize (H d); rewrite amt_csub in *; lia.
Qed.

Lemma csub_chk_Some a b c : csub_chk a b = Some c ->
  c = csub a b /\ forall d, amt b d <= amt a d.
Proof.
  unfold csub_chk. destruct (any_neg (csub a b)) eqn:E; [discriminate|]. intros [= <-]. split; [done|].
  apply any_neg_false in E. intros d. specialize (E d). rewrite amt_csub in E. lia.
Qed.

Lemma csub_chk_nonneg a b : (forall d, amt b d <= amt a d) -> csub_chk a b = Some (csub a b).
Proof.
  intros H. unfold csub_chk. replace (any_neg (csub a b)) with false; [done|]. symmetry.
  apply any_neg_false. intros d. rewrite amt_csub. specialize (H d). lia.
Qed.

Lemma nonneg_empty : nonneg ∅.
Proof. intros d. rewrite amt_empty. lia. Qed.
Lemma nonneg_cadd a b : nonneg a -> nonneg b -> nonneg (cadd a b).
Proof. intros Ha Hb d. rewrite amt_cadd. specialize (Ha d). specialize (Hb d). lia. Qed.
Lemma nonneg_cmin a b : nonneg a -> nonneg b -> nonneg (cmin a b).
Proof. intros Ha Hb d. rewrite amt_cmin. specialize (Ha d). specialize (Hb d). lia. Qed.

(** the canonical list contains exactly the non-zero stored entries *)
Lemma in_cinsert x y l : In x (cinsert y l) <-> x = y \/ In x l.
Proof.
  induction l as [|z r IH]; simpl; [intuition|].
  destruct (N.leb (fst y) (fst z)); simpl; [intuition|]. rewrite IH. intuition.
Qed.

Lemma in_canon c d v : In (d, v) (canon c) <-> v <> 0 /\ c !! d = Some v.
Proof.
  unfold canon. rewrite <- in_map_to_list.
  induction (map_to_list c) as [|[d' v'] l IH]; simpl; [intuition|].
  unfold filter in *. simpl. destruct (Z.eqb_spec v' 0) as [->|Hv]; simpl.
  - rewrite IH. split; [intuition|]. intros [H1 [H2|H2]]; [congruence|auto].
  - rewrite in_cinsert, IH. split.
    + intros [[= -> ->]|[H1 H2]]; auto.
    + intros [H1 [[= -> ->]|H2]]; auto.
Qed.
