(** Characterising lemmas for the LegacyDec model of Base/Dec.v: error bounds,
    exactness on integers, sign symmetry, monotonicity. *)
From Coq Require Import ZArith Lia.
From HV Require Import Base.Dec.
Local Open Scope Z_scope.

Local Ltac Zify.zify_post_hook ::= Z.to_euclidean_division_equations.

Ltac unf := unfold prec, half in *.

Lemma prec_eq : prec = 10 ^ 18.
Proof. reflexivity. Qed.
Lemma half_eq : half = prec / 2.
Proof. reflexivity. Qed.
Lemma prec_pos : 0 < prec.
Proof. reflexivity. Qed.
Lemma prec_two_half : prec = 2 * half.
Proof. reflexivity. Qed.

(** * chopPrecisionAndRound *)

Lemma chop_nonneg_error x : 0 <= x -> 2 * Z.abs (chop_nonneg x * prec - x) <= prec.
Proof.
  intros Hx. unfold chop_nonneg.
  destruct (Z.eqb_spec (x mod prec) 0); [unf; lia|].
  destruct (Z.ltb_spec (x mod prec) half); [unf; lia|].
  destruct (Z.ltb_spec half (x mod prec)); [unf; lia|].
  destruct (Z.even (x / prec)); unf; lia.
Qed.

Lemma chop_nonneg_range x : 0 <= x -> x / prec <= chop_nonneg x <= x / prec + 1.
Proof.
  intros Hx. unfold chop_nonneg.
  destruct (x mod prec =? 0), (x mod prec <? half), (half <? x mod prec), (Z.even (x / prec)); lia.
Qed.

Lemma chop_nonneg_nonneg x : 0 <= x -> 0 <= chop_nonneg x.
Proof. intros Hx. pose proof (chop_nonneg_range x Hx). unf. lia. Qed.

Lemma chop_nonneg_exact n : 0 <= n -> chop_nonneg (n * prec) = n.
Proof.
  intros Hn. unfold chop_nonneg.
  replace ((n * prec) mod prec) with 0 by (unf; lia).
  cbn. unf. lia.
Qed.

(** the rounding decision is monotone in the removed digits *)
Lemma chop_nonneg_mono x y : 0 <= x -> x <= y -> chop_nonneg x <= chop_nonneg y.
Proof.
  intros Hx Hxy.
  destruct (Z.eq_dec (x / prec) (y / prec)) as [E|NE].
  - assert (Hr : x mod prec <= y mod prec) by (unf; lia).
    unfold chop_nonneg. rewrite <- E.
    destruct (Z.eqb_spec (x mod prec) 0), (Z.eqb_spec (y mod prec) 0),
             (Z.ltb_spec (x mod prec) half), (Z.ltb_spec (y mod prec) half),
             (Z.ltb_spec half (x mod prec)), (Z.ltb_spec half (y mod prec)),
             (Z.even (x / prec)); unf; lia.
  - pose proof (chop_nonneg_range x Hx). pose proof (chop_nonneg_range y ltac:(lia)).
    assert (x / prec < y / prec) by (unf; lia). lia.
Qed.

Lemma chop_0 : chop 0 = 0.
Proof. reflexivity. Qed.

Lemma chop_neg x : chop (- x) = - chop x.
Proof.
  unfold chop.
  destruct (Z.ltb_spec (- x) 0), (Z.ltb_spec x 0); try lia.
  - rewrite Z.opp_involutive. reflexivity.
  - replace x with 0 by lia. reflexivity.
Qed.

Lemma chop_of_nonneg x : 0 <= x -> chop x = chop_nonneg x.
Proof. intros. unfold chop. destruct (Z.ltb_spec x 0); [lia|reflexivity]. Qed.

Lemma chop_of_neg x : x <= 0 -> chop x = - chop_nonneg (- x).
Proof.
  intros. rewrite <- (Z.opp_involutive x) at 1. rewrite chop_neg, chop_of_nonneg by lia. reflexivity.
Qed.

(** |chop x * 10^18 - x| <= 10^18 / 2: round to nearest *)
Theorem chop_error x : 2 * Z.abs (chop x * prec - x) <= prec.
Proof.
  destruct (Z.le_ge_cases 0 x) as [H|H].
  - rewrite chop_of_nonneg by assumption. apply chop_nonneg_error; assumption.
  - rewrite chop_of_neg by assumption. pose proof (chop_nonneg_error (- x) ltac:(lia)). lia.
Qed.

(** exact on integers *)
Theorem chop_exact n : chop (n * prec) = n.
Proof.
  destruct (Z.le_ge_cases 0 n) as [H|H].
  - rewrite chop_of_nonneg by (unf; lia). apply chop_nonneg_exact; assumption.
  - rewrite chop_of_neg by (unf; lia). replace (- (n * prec)) with ((- n) * prec) by ring.
    rewrite chop_nonneg_exact by lia. lia.
Qed.

Theorem chop_mono x y : x <= y -> chop x <= chop y.
Proof.
  intros Hxy.
  destruct (Z.le_ge_cases 0 x) as [Hx|Hx].
  - rewrite !chop_of_nonneg by lia. apply chop_nonneg_mono; assumption.
  - destruct (Z.le_ge_cases 0 y) as [Hy|Hy].
    + rewrite (chop_of_neg x), (chop_of_nonneg y) by lia.
      pose proof (chop_nonneg_nonneg (- x) ltac:(lia)). pose proof (chop_nonneg_nonneg y Hy). lia.
    + rewrite !chop_of_neg by lia.
      pose proof (chop_nonneg_mono (- y) (- x) ltac:(lia) ltac:(lia)). lia.
Qed.

Lemma chop_nonneg_sign x : 0 <= x -> 0 <= chop x.
Proof. intros. rewrite chop_of_nonneg by assumption. apply chop_nonneg_nonneg; assumption. Qed.

Lemma chop_nonpos_sign x : x <= 0 -> chop x <= 0.
Proof. intros H. pose proof (chop_mono x 0 H) as M. rewrite chop_0 in M. exact M. Qed.

(** chop never passes an integer: n*10^18 <= x  ->  n <= chop x, and dually *)
Lemma chop_ge_int n x : n * prec <= x -> n <= chop x.
Proof. intros H. rewrite <- (chop_exact n). apply chop_mono; assumption. Qed.
Lemma chop_le_int n x : x <= n * prec -> chop x <= n.
Proof. intros H. rewrite <- (chop_exact n). apply chop_mono; assumption. Qed.

Lemma chop_abs x : chop (Z.abs x) = Z.abs (chop x).
Proof.
  destruct (Z.le_ge_cases 0 x) as [H|H].
  - pose proof (chop_nonneg_sign x H). rewrite !Z.abs_eq by assumption. reflexivity.
  - pose proof (chop_nonpos_sign x H). rewrite !Z.abs_neq by assumption. apply chop_neg.
Qed.

(** * truncation and round-up *)

Lemma chop_trunc_nonneg x : 0 <= x -> chop_trunc x = x / prec.
Proof. intros. unfold chop_trunc. unf. lia. Qed.

Theorem chop_trunc_spec x :
  Z.abs (chop_trunc x * prec) <= Z.abs x /\ Z.abs (x - chop_trunc x * prec) < prec /\
  0 <= chop_trunc x * x.
Proof. unfold chop_trunc. unf. nia. Qed.

Lemma chop_trunc_exact n : chop_trunc (n * prec) = n.
Proof. unfold chop_trunc. unf. lia. Qed.

Lemma chop_trunc_mono x y : x <= y -> chop_trunc x <= chop_trunc y.
Proof. unfold chop_trunc. unf. lia. Qed.

Lemma chop_trunc_neg x : chop_trunc (- x) = - chop_trunc x.
Proof. unfold chop_trunc. apply Z.quot_opp_l. unf. lia. Qed.

Theorem chop_up_spec x : 0 <= x -> x <= chop_up x * prec < x + prec.
Proof.
  intros Hx. unfold chop_up. destruct (Z.ltb_spec x 0); [lia|].
  destruct (Z.eqb_spec (x mod prec) 0); unf; lia.
Qed.

Lemma chop_up_neg x : x < 0 -> chop_up x = chop_trunc x.
Proof. intros. unfold chop_up, chop_trunc. destruct (Z.ltb_spec x 0); [reflexivity|lia]. Qed.

(** * of_int *)
Lemma of_int_inj a b : of_int a = of_int b -> a = b.
Proof. unfold of_int. unf. lia. Qed.
Lemma of_int_le a b : a <= b <-> of_int a <= of_int b.
Proof. unfold of_int. unf. lia. Qed.
Lemma of_int_lt a b : a < b <-> of_int a < of_int b.
Proof. unfold of_int. unf. lia. Qed.
Lemma of_int_add a b : of_int (a + b) = dadd (of_int a) (of_int b).
Proof. unfold of_int, dadd. ring. Qed.
Lemma of_int_sub a b : of_int (a - b) = dsub (of_int a) (of_int b).
Proof. unfold of_int, dsub. ring. Qed.

(** * Mul *)

Theorem dmul_error a b : 2 * Z.abs (dmul a b * prec - a * b) <= prec.
Proof. apply chop_error. Qed.

Lemma dmul_comm a b : dmul a b = dmul b a.
Proof. unfold dmul. rewrite Z.mul_comm. reflexivity. Qed.

(** multiplying by an integer-valued decimal is exact *)
Theorem dmul_of_int_l n b : dmul (of_int n) b = n * b.
Proof. unfold dmul, of_int. replace (n * prec * b) with ((n * b) * prec) by ring. apply chop_exact. Qed.
Theorem dmul_of_int_r a n : dmul a (of_int n) = a * n.
Proof. rewrite dmul_comm, dmul_of_int_l. ring. Qed.
Lemma dmul_of_int_both a b : dmul (of_int a) (of_int b) = of_int (a * b).
Proof. rewrite dmul_of_int_l. unfold of_int. ring. Qed.
Lemma dmul_0_l b : dmul 0 b = 0.
Proof. reflexivity. Qed.
Lemma dmul_0_r a : dmul a 0 = 0.
Proof. rewrite dmul_comm. reflexivity. Qed.
Lemma dmul_1_r a : dmul a prec = a.
Proof. unfold dmul. apply chop_exact. Qed.

Lemma dmul_neg_l a b : dmul (- a) b = - dmul a b.
Proof. unfold dmul. rewrite Z.mul_opp_l. apply chop_neg. Qed.
Lemma dmul_neg_r a b : dmul a (- b) = - dmul a b.
Proof. unfold dmul. rewrite Z.mul_opp_r. apply chop_neg. Qed.

Theorem dmul_mono_l a b c : 0 <= c -> a <= b -> dmul a c <= dmul b c.
Proof. intros Hc Hab. unfold dmul. apply chop_mono. nia. Qed.
Theorem dmul_mono_r a b c : 0 <= c -> a <= b -> dmul c a <= dmul c b.
Proof. intros. rewrite !(dmul_comm c). apply dmul_mono_l; assumption. Qed.

Lemma dmul_nonneg a b : 0 <= a -> 0 <= b -> 0 <= dmul a b.
Proof. intros. apply chop_nonneg_sign. nia. Qed.
Lemma dmul_nonpos_l a b : a <= 0 -> 0 <= b -> dmul a b <= 0.
Proof. intros. apply chop_nonpos_sign. nia. Qed.
Lemma dmul_nonpos_r a b : 0 <= a -> b <= 0 -> dmul a b <= 0.
Proof. intros. apply chop_nonpos_sign. nia. Qed.

Lemma dmul_int_of_int a i : dmul_int a i = dmul a (of_int i).
Proof. rewrite dmul_of_int_r. reflexivity. Qed.

Theorem dmul_trunc_spec a b :
  Z.abs (dmul_trunc a b * prec) <= Z.abs (a * b) /\ Z.abs (a * b - dmul_trunc a b * prec) < prec.
Proof. unfold dmul_trunc. pose proof (chop_trunc_spec (a * b)). tauto. Qed.

Lemma dmul_trunc_of_int_l n b : dmul_trunc (of_int n) b = n * b.
Proof. unfold dmul_trunc, of_int. replace (n * prec * b) with ((n * b) * prec) by ring. apply chop_trunc_exact. Qed.

(** * Quo *)

(** the big.Int.Quo step: towards zero, less than one unit of 10^-36 off *)
Lemma quot_error n b : b <> 0 -> Z.abs (Z.quot n b * b - n) < Z.abs b.
Proof. intros Hb. nia. Qed.

(** Quo is within (1/2 + 10^-18) units of 10^-18 of the exact quotient:
      2 * |dquo a b * b - a * 10^18| * 10^18 <= |b| * (10^18 + 2) *)
Lemma dquo_arith D X W Y P : D <= X * Y + W -> 2 * (X * Y) <= P * Y -> W < Y -> 2 * D <= Y * (P + 2).
Proof. intros. lia. Qed.

Theorem dquo_error a b : b <> 0 ->
  2 * Z.abs (dquo a b * b - a * prec) * prec <= Z.abs b * (prec + 2).
Proof.
  intros Hb. unfold dquo.
  set (n := a * prec * prec). set (q := Z.quot n b).
  pose proof (chop_error q) as Hc. pose proof (quot_error n b Hb) as Hq. fold q in Hq.
  pose proof prec_pos as Hp.
  assert (E : (chop q * b - a * prec) * prec = (chop q * prec - q) * b + (q * b - n)) by (unfold n; ring).
  assert (H1 : Z.abs (chop q * b - a * prec) * prec = Z.abs ((chop q * prec - q) * b + (q * b - n))).
  { rewrite <- E, Z.abs_mul. rewrite (Z.abs_eq prec) by lia. reflexivity. }
  pose proof (Z.abs_triangle ((chop q * prec - q) * b) (q * b - n)) as Ht.
  rewrite Z.abs_mul in Ht.
  assert (H2 : 2 * (Z.abs (chop q * prec - q) * Z.abs b) <= prec * Z.abs b).
  { rewrite Z.mul_assoc. apply Z.mul_le_mono_nonneg_r; [apply Z.abs_nonneg|exact Hc]. }
  rewrite <- Z.mul_assoc, H1.
  exact (dquo_arith _ _ _ _ _ Ht H2 Hq).
Qed.

(** exact when the divisor divides: (q * b) / b *)
Theorem dquo_exact q b : b <> 0 -> dquo (dmul_int q b) (of_int b) = q.
Proof.
  intros Hb. unfold dquo, dmul_int, of_int.
  replace (q * b * prec * prec) with ((q * prec) * (b * prec)) by ring.
  rewrite Z.quot_mul by (unf; lia). apply chop_exact.
Qed.

Lemma dquo_of_int_div a b : b <> 0 -> dquo (of_int (a * b)) (of_int b) = of_int a.
Proof.
  intros Hb. unfold of_int. replace (a * b * prec) with (dmul_int (a * prec) b) by (unfold dmul_int; ring).
  apply dquo_exact; assumption.
Qed.

Lemma dquo_1_r a : dquo a prec = a.
Proof.
  unfold dquo. replace (a * prec * prec) with ((a * prec) * prec) by ring.
  rewrite Z.quot_mul by (unf; lia). apply chop_exact.
Qed.

Lemma dquo_0_l b : dquo 0 b = 0.
Proof. unfold dquo. reflexivity. Qed.

Lemma dquo_neg_l a b : b <> 0 -> dquo (- a) b = - dquo a b.
Proof.
  intros Hb. unfold dquo. rewrite !Z.mul_opp_l, Z.quot_opp_l by assumption. apply chop_neg.
Qed.

Lemma quot_mono_l x y b : 0 < b -> x <= y -> Z.quot x b <= Z.quot y b.
Proof. intros. apply Z.quot_le_mono; assumption. Qed.

(** monotone in the numerator for a positive divisor *)
Theorem dquo_mono_l a a' b : 0 < b -> a <= a' -> dquo a b <= dquo a' b.
Proof.
  intros Hb Ha. unfold dquo. apply chop_mono. apply quot_mono_l; [assumption|]. unf. nia.
Qed.

Lemma dquo_nonneg a b : 0 <= a -> 0 < b -> 0 <= dquo a b.
Proof. intros. rewrite <- (dquo_0_l b). apply dquo_mono_l; assumption. Qed.
Lemma dquo_nonpos a b : a <= 0 -> 0 < b -> dquo a b <= 0.
Proof. intros. rewrite <- (dquo_0_l b). apply dquo_mono_l; assumption. Qed.

(** a positive numerator that is smaller than the divisor gives at most 1 *)
Lemma dquo_le_1 a b : 0 < b -> a <= b -> dquo a b <= prec.
Proof.
  intros Hb Hab. unfold dquo. apply (chop_le_int prec).
  assert (H : Z.quot (a * prec * prec) b <= Z.quot ((prec * prec) * b) b).
  { apply quot_mono_l; [assumption|]. unf. nia. }
  rewrite Z.quot_mul in H by lia. exact H.
Qed.

Lemma dquo_int_spec a i : 0 < i -> 0 <= a -> dquo_int a i = a / i.
Proof. intros. unfold dquo_int. apply Z.quot_div_nonneg; assumption. Qed.

(** * TruncateInt, RoundInt, Ceil *)

Lemma truncate_nonneg a : 0 <= a -> truncate a = a / prec.
Proof. apply chop_trunc_nonneg. Qed.

Theorem truncate_spec a :
  Z.abs (truncate a * prec) <= Z.abs a /\ Z.abs (a - truncate a * prec) < prec /\ 0 <= truncate a * a.
Proof. apply chop_trunc_spec. Qed.

(** for a non-negative decimal: the integer part *)
Theorem truncate_floor a : 0 <= a -> truncate a * prec <= a < (truncate a + 1) * prec.
Proof. intros. rewrite truncate_nonneg by assumption. unf. lia. Qed.

Theorem truncate_of_int n : truncate (of_int n) = n.
Proof. apply chop_trunc_exact. Qed.

Theorem truncate_mono a b : a <= b -> truncate a <= truncate b.
Proof. apply chop_trunc_mono. Qed.

Lemma truncate_ge_int n a : of_int n <= a -> n <= truncate a.
Proof. intros. rewrite <- (truncate_of_int n). apply truncate_mono; assumption. Qed.

Lemma truncate_neg a : truncate (- a) = - truncate a.
Proof. apply chop_trunc_neg. Qed.

Theorem round_int_error a : 2 * Z.abs (round_int a * prec - a) <= prec.
Proof. apply chop_error. Qed.
Theorem round_int_of_int n : round_int (of_int n) = n.
Proof. apply chop_exact. Qed.
Theorem round_int_mono a b : a <= b -> round_int a <= round_int b.
Proof. apply chop_mono. Qed.
Lemma round_int_nonneg a : 0 <= a -> 0 <= round_int a.
Proof. apply chop_nonneg_sign. Qed.
Lemma round_int_neg a : round_int (- a) = - round_int a.
Proof. apply chop_neg. Qed.
(** rounding never passes an integer *)
Lemma round_int_le_int a n : a <= of_int n -> round_int a <= n.
Proof. apply chop_le_int. Qed.
Lemma round_int_ge_int a n : of_int n <= a -> n <= round_int a.
Proof. apply chop_ge_int. Qed.

(** Ceil is the least integer not below the decimal, for either sign *)
Theorem ceil_int_spec a : a <= ceil_int a * prec < a + prec.
Proof.
  unfold ceil_int.
  destruct (Z.eqb_spec (Z.rem a prec) 0); [unf; lia|].
  destruct (Z.ltb_spec (Z.rem a prec) 0); unf; lia.
Qed.

Theorem ceil_int_least a n : a <= n * prec -> ceil_int a <= n.
Proof. intros H. pose proof (ceil_int_spec a). unf. lia. Qed.

Theorem ceil_int_of_int n : ceil_int (of_int n) = n.
Proof. pose proof (ceil_int_spec (of_int n)). unfold of_int in *. unf. lia. Qed.

Theorem ceil_int_mono a b : a <= b -> ceil_int a <= ceil_int b.
Proof. intros. pose proof (ceil_int_spec a). pose proof (ceil_int_spec b). unf. lia. Qed.

Lemma truncate_le_ceil a : truncate a <= ceil_int a.
Proof. pose proof (ceil_int_spec a). pose proof (truncate_spec a). unfold truncate in *. unf. lia. Qed.

(** * max / min, comparison *)
Lemma dmax_spec a b : dmax a b = Z.max a b.
Proof. unfold dmax. destruct (Z.ltb_spec a b); lia. Qed.
Lemma dmin_spec a b : dmin a b = Z.min a b.
Proof. unfold dmin. destruct (Z.ltb_spec a b); lia. Qed.

Lemma is_integer_spec a : is_integer a = true <-> exists n, a = of_int n.
Proof.
  unfold is_integer, of_int. rewrite Z.eqb_eq. split.
  - intros H. exists (Z.quot a prec). unf. lia.
  - intros [n ->]. unf. lia.
Qed.

(** * overflow tests *)
Lemma fits_spec x : fits x = true <-> Z.abs x < 2 ^ 315.
Proof. unfold fits, max_dec_bits. apply Z.ltb_lt. Qed.

Lemma fits_mono x y : Z.abs x <= Z.abs y -> fits y = true -> fits x = true.
Proof. rewrite !fits_spec. lia. Qed.

(** bit length: |x| < 2^n iff x has at most n bits *)
Lemma fits_log2 x : x <> 0 -> (fits x = true <-> Z.log2 (Z.abs x) < 315).
Proof.
  intros Hx. rewrite fits_spec. apply Z.log2_lt_pow2. lia.
Qed.
