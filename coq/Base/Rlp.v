(** RLP (recursive length prefix) encoding exactly as go-ethereum's [rlp]
    package writes it (rlp/encode.go, rlp/encbuffer.go):

    - a byte string of length 1 whose byte is below 0x80 is itself;
    - a byte string of length < 56 is [0x80 + length] followed by the bytes;
    - a longer byte string is [0xB7 + k], the length as [k] big-endian bytes
      (minimal, [putint]), then the bytes;
    - a list whose concatenated payload has length < 56 is [0xC0 + length]
      followed by the payload, otherwise [0xF7 + k], length, payload;
    - unsigned integers and [big.Int]s are the byte string of their minimal
      big-endian representation (zero = empty string = 0x80).

    Definitions only; the theorems are in RlpProofs.v. *)
From Coq Require Import NArith List.
From HV Require Import Base.Bytes.
Import ListNotations.
Local Open Scope N_scope.

Inductive item :=
| Str (b : bytes)
| Lst (l : list item).

(** length header: [off] = 0x80 for strings, 0xC0 for lists *)
Definition enc_len (off : N) (n : N) : bytes :=
  if n <? 56 then [off + n]
  else let lb := be_encode n in (off + 55 + len lb) :: lb.

Definition encode_str (b : bytes) : bytes :=
  match b with
  | [c] => if c <? 128 then [c] else enc_len 128 1 ++ b
  | _ => enc_len 128 (len b) ++ b
  end.

Fixpoint encode (x : item) : bytes :=
  match x with
  | Str b => encode_str b
  | Lst l =>
      let payload := (fix enc_all (l : list item) : bytes :=
                        match l with [] => [] | y :: r => encode y ++ enc_all r end) l in
      enc_len 192 (len payload) ++ payload
  end.

(** the payload of a list: concatenated encodings *)
Fixpoint encode_all (l : list item) : bytes :=
  match l with [] => [] | y :: r => encode y ++ encode_all r end.

(** integers ([uint64], non-negative [big.Int]) *)
Definition rlp_n (n : N) : item := Str (be_encode n).

(** ---- a decoder (proof device for injectivity and prefix-freeness; it also
    runs) ---- *)
Definition split_at (n : N) (bs : bytes) : option (bytes * bytes) :=
  let k := N.to_nat n in
  if Nat.ltb (length bs) k then None else Some (firstn k bs, skipn k bs).

Fixpoint decode (fuel : nat) (bs : bytes) {struct fuel} : option (item * bytes) :=
  match fuel with
  | O => None
  | S f =>
    match bs with
    | [] => None
    | b :: r =>
      if b <? 128 then Some (Str [b], r)
      else if b <? 184 then
        match split_at (b - 128) r with
        | Some (s, rest) => Some (Str s, rest)
        | None => None
        end
      else if b <? 192 then
        match split_at (b - 183) r with
        | Some (lb, r1) =>
            match split_at (be_decode lb) r1 with
            | Some (s, rest) => Some (Str s, rest)
            | None => None
            end
        | None => None
        end
      else if b <? 248 then
        match split_at (b - 192) r with
        | Some (p, rest) =>
            match decode_seq f p with Some l => Some (Lst l, rest) | None => None end
        | None => None
        end
      else
        match split_at (b - 247) r with
        | Some (lb, r1) =>
            match split_at (be_decode lb) r1 with
            | Some (p, rest) =>
                match decode_seq f p with Some l => Some (Lst l, rest) | None => None end
            | None => None
            end
        | None => None
        end
    end
  end
with decode_seq (fuel : nat) (bs : bytes) {struct fuel} : option (list item) :=
  match fuel with
  | O => None
  | S f =>
    match bs with
    | [] => Some []
    | _ =>
      match decode f bs with
      | Some (x, r) => match decode_seq f r with Some l => Some (x :: l) | None => None end
      | None => None
      end
    end
  end.

(** fuel that always suffices for [encode x] *)
Fixpoint cost (x : item) : nat :=
  match x with
  | Str _ => 1%nat
  | Lst l => S ((fix cost_all (l : list item) : nat :=
                   match l with [] => 1%nat | y :: r => S (cost y + cost_all r) end) l)
  end.
Fixpoint cost_all (l : list item) : nat :=
  match l with [] => 1%nat | y :: r => S (cost y + cost_all r) end.

(** well-formed = every length fits the 8 length bytes RLP allows (go-ethereum
    cannot even allocate more: lengths are [uint64]) *)
Fixpoint wf (x : item) : Prop :=
  match x with
  | Str b => len b < 256 ^ 8
  | Lst l => (fix wf_all (l : list item) : Prop :=
                match l with [] => True | y :: r => wf y /\ wf_all r end) l
             /\ len (encode_all l) < 256 ^ 8
  end.
Fixpoint wf_all (l : list item) : Prop :=
  match l with [] => True | y :: r => wf y /\ wf_all r end.
