(** Theorems about Base/Rlp.v: the decoder inverts the encoder on every
    well-formed item, whatever follows it; hence the encoding is injective and
    prefix-free.  Nothing here is specific to transactions. *)
From Coq Require Import NArith List Lia.
From HV Require Import Base.Bytes Base.Rlp.
Import ListNotations.
Local Open Scope N_scope.

(** * structure *)
Lemma item_ind2 (P : item -> Prop)
  (HS : forall b, P (Str b)) (HL : forall l, Forall P l -> P (Lst l)) : forall x, P x.
Proof.
  fix IH 1. intros [b|l]; [apply HS|]. apply HL.
  induction l as [|y r IHl]; constructor; [apply IH|exact IHl].
Qed.

Lemma encode_Lst l : encode (Lst l) = enc_len 192 (len (encode_all l)) ++ encode_all l.
Proof. reflexivity. Qed.
Lemma cost_Lst l : cost (Lst l) = S (cost_all l).
Proof. reflexivity. Qed.
Lemma wf_Lst l : wf (Lst l) <-> wf_all l /\ len (encode_all l) < 256 ^ 8.
Proof. reflexivity. Qed.
Lemma wf_Str b : wf (Str b) <-> len b < 256 ^ 8.
Proof. reflexivity. Qed.

Lemma wf_all_Forall l : wf_all l <-> Forall wf l.
Proof.
  induction l as [|y r IH]; cbn [wf_all].
  - split; intros; [constructor|exact I].
  - split.
    + intros [H1 H2]. constructor; [exact H1|apply IH, H2].
    + intros H. inversion H; subst. split; [assumption|apply IH; assumption].
Qed.

Lemma encode_all_app l1 l2 : encode_all (l1 ++ l2) = encode_all l1 ++ encode_all l2.
Proof. induction l1 as [|y r IH]; cbn [encode_all app]; [reflexivity|]. rewrite IH, app_assoc. reflexivity. Qed.

(** * headers *)
Lemma enc_len_nonempty off n : enc_len off n <> [].
Proof. unfold enc_len. destruct (n <? 56); discriminate. Qed.

Lemma encode_str_nonempty b : encode_str b <> [].
Proof.
  unfold encode_str. destruct b as [|c [|d r]].
  - cbn. discriminate.
  - destruct (c <? 128); [discriminate|]. cbn. discriminate.
  - intros H. apply app_eq_nil in H as [H _]. exact (enc_len_nonempty _ _ H).
Qed.

Lemma encode_nonempty x : encode x <> [].
Proof.
  destruct x as [b|l]; [apply encode_str_nonempty|].
  rewrite encode_Lst. intros H. apply app_eq_nil in H as [H _]. exact (enc_len_nonempty _ _ H).
Qed.

Lemma split_at_app a b : split_at (len a) (a ++ b) = Some (a, b).
Proof.
  unfold split_at, len. rewrite Nat2N.id.
  assert (E : Nat.ltb (length (a ++ b)) (length a) = false).
  { apply PeanoNat.Nat.ltb_ge. rewrite app_length. lia. }
  rewrite E. rewrite firstn_app, skipn_app, PeanoNat.Nat.sub_diag, firstn_all, skipn_all.
  cbn [firstn skipn]. rewrite app_nil_r. reflexivity.
Qed.

(** the length bytes of a long item: between 1 and 8 of them *)
Lemma lenlen_bounds n : 56 <= n -> n < 256 ^ 8 -> 1 <= len (be_encode n) <= 8.
Proof.
  intros H1 H2. unfold len. split.
  - destruct (be_encode n) eqn:E; [|cbn [length]; lia].
    exfalso. apply (be_encode_nonempty n); [lia|exact E].
  - pose proof (be_encode_length n 8 H2). lia.
Qed.

(** the first byte of a header *)
Lemma enc_len_head off n : n < 256 ^ 8 ->
  exists h t, enc_len off n = h :: t /\ off <= h <= off + 63.
Proof.
  intros Hn. unfold enc_len. destruct (N.ltb_spec n 56).
  - exists (off + n), []. split; [reflexivity|lia].
  - destruct (lenlen_bounds n H Hn). eexists _, _. split; [reflexivity|lia].
Qed.

Lemma ltb_false a b : b <= a -> (a <? b) = false.
Proof. intros. apply N.ltb_ge. assumption. Qed.
Lemma ltb_true a b : a < b -> (a <? b) = true.
Proof. intros. apply N.ltb_lt. assumption. Qed.

(** decoding a string header followed by its bytes *)
Lemma decode_str_general f b rest : len b < 256 ^ 8 ->
  decode (S f) (enc_len 128 (len b) ++ b ++ rest) = Some (Str b, rest).
Proof.
  intros Hb. unfold enc_len. destruct (N.ltb_spec (len b) 56) as [Hs|Hl].
  - cbn [app decode].
    rewrite (ltb_false (128 + len b) 128), (ltb_true (128 + len b) 184) by lia.
    replace (128 + len b - 128) with (len b) by lia.
    rewrite split_at_app. reflexivity.
  - destruct (lenlen_bounds _ Hl Hb) as [K1 K2].
    set (lb := be_encode (len b)) in *.
    cbn [app decode].
    rewrite (ltb_false (128 + 55 + len lb) 128), (ltb_false (128 + 55 + len lb) 184),
            (ltb_true (128 + 55 + len lb) 192) by lia.
    replace (128 + 55 + len lb - 183) with (len lb) by lia.
    rewrite split_at_app. unfold lb at 1. rewrite be_decode_encode, split_at_app. reflexivity.
Qed.

Lemma decode_str f b rest : len b < 256 ^ 8 ->
  decode (S f) (encode_str b ++ rest) = Some (Str b, rest).
Proof.
  intros Hb. unfold encode_str.
  destruct b as [|c [|d r]]; try (rewrite <- app_assoc; apply decode_str_general; exact Hb).
  destruct (N.ltb_spec c 128) as [Hc|Hc].
  - cbn [app decode]. rewrite (ltb_true c 128) by exact Hc. reflexivity.
  - rewrite <- app_assoc. apply (decode_str_general f [c] rest). exact Hb.
Qed.

(** decoding a list header followed by its payload *)
Lemma decode_list_header f p rest l : len p < 256 ^ 8 -> decode_seq f p = Some l ->
  decode (S f) (enc_len 192 (len p) ++ p ++ rest) = Some (Lst l, rest).
Proof.
  intros Hb Hd. unfold enc_len. destruct (N.ltb_spec (len p) 56) as [Hs|Hl].
  - cbn [app decode].
    rewrite (ltb_false (192 + len p) 128), (ltb_false (192 + len p) 184),
            (ltb_false (192 + len p) 192), (ltb_true (192 + len p) 248) by lia.
    replace (192 + len p - 192) with (len p) by lia.
    rewrite split_at_app, Hd. reflexivity.
  - destruct (lenlen_bounds _ Hl Hb) as [K1 K2].
    set (lb := be_encode (len p)) in *.
    cbn [app decode].
    rewrite (ltb_false (192 + 55 + len lb) 128), (ltb_false (192 + 55 + len lb) 184),
            (ltb_false (192 + 55 + len lb) 192), (ltb_false (192 + 55 + len lb) 248) by lia.
    replace (192 + 55 + len lb - 247) with (len lb) by lia.
    rewrite split_at_app. unfold lb at 1. rewrite be_decode_encode, split_at_app, Hd. reflexivity.
Qed.

(** * the decoder inverts the encoder *)
Definition dec_ok (x : item) : Prop :=
  wf x -> forall fuel rest, (cost x <= fuel)%nat -> decode fuel (encode x ++ rest) = Some (x, rest).

Lemma decode_seq_all l : Forall dec_ok l -> wf_all l ->
  forall fuel, (cost_all l <= fuel)%nat -> decode_seq fuel (encode_all l) = Some l.
Proof.
  induction 1 as [|y r Hy Hr IH]; intros Hw fuel Hf.
  - cbn [cost_all] in Hf. destruct fuel as [|f]; [lia|]. reflexivity.
  - cbn [cost_all] in Hf. destruct fuel as [|f]; [lia|].
    destruct Hw as [Hwy Hwr]. cbn [encode_all decode_seq].
    destruct (encode y ++ encode_all r) eqn:E.
    { apply app_eq_nil in E as [E _]. destruct (encode_nonempty _ E). }
    rewrite <- E. rewrite (Hy Hwy f (encode_all r)) by lia.
    rewrite (IH Hwr f) by lia. reflexivity.
Qed.

Theorem decode_encode : forall x, dec_ok x.
Proof.
  apply item_ind2.
  - intros b Hw fuel rest Hf. cbn [cost] in Hf. destruct fuel as [|f]; [lia|].
    cbn [encode]. apply decode_str. exact Hw.
  - intros l IH Hw fuel rest Hf. rewrite cost_Lst in Hf. destruct fuel as [|f]; [lia|].
    apply wf_Lst in Hw as [Hwa Hlen].
    rewrite encode_Lst, <- app_assoc.
    apply decode_list_header; [exact Hlen|].
    apply decode_seq_all; [exact IH|exact Hwa|lia].
Qed.

(** * consequences *)

(** prefix-freeness: an encoding followed by anything determines the item and
    what follows *)
Theorem rlp_prefix_free a b r1 r2 : wf a -> wf b ->
  encode a ++ r1 = encode b ++ r2 -> a = b /\ r1 = r2.
Proof.
  intros Ha Hb E.
  pose proof (decode_encode a Ha (cost a + cost b)%nat r1 ltac:(lia)) as Da.
  pose proof (decode_encode b Hb (cost a + cost b)%nat r2 ltac:(lia)) as Db.
  rewrite E, Db in Da. inversion Da. split; reflexivity.
Qed.

(** injectivity on items *)
Theorem rlp_encode_inj a b : wf a -> wf b -> encode a = encode b -> a = b.
Proof.
  intros Ha Hb E. apply (rlp_prefix_free a b [] [] Ha Hb). rewrite E. reflexivity.
Qed.

(** a concatenation of encodings determines the sequence *)
Theorem encode_all_inj l1 l2 : wf_all l1 -> wf_all l2 -> encode_all l1 = encode_all l2 -> l1 = l2.
Proof.
  intros H1 H2 E.
  assert (A : forall l, Forall dec_ok l) by (intros l; apply Forall_forall; intros; apply decode_encode).
  pose proof (decode_seq_all l1 (A l1) H1 (cost_all l1 + cost_all l2)%nat ltac:(lia)) as D1.
  pose proof (decode_seq_all l2 (A l2) H2 (cost_all l1 + cost_all l2)%nat ltac:(lia)) as D2.
  rewrite E, D2 in D1. inversion D1. reflexivity.
Qed.

(** the encoding of a list starts with a byte >= 0xC0, that of a string with a
    byte < 0xC0: the two never collide, and a typed-transaction envelope byte
    (0x01, 0x02) is never the first byte of a list. *)
Lemma encode_Lst_head l : wf (Lst l) -> exists h t, encode (Lst l) = h :: t /\ 192 <= h.
Proof.
  intros Hw. apply wf_Lst in Hw as [_ Hl]. rewrite encode_Lst.
  destruct (enc_len_head 192 _ Hl) as (h & t & E & Hh). rewrite E.
  exists h, (t ++ encode_all l). split; [reflexivity|lia].
Qed.

(** integers *)
Lemma rlp_n_inj a b : rlp_n a = rlp_n b -> a = b.
Proof. unfold rlp_n. intros H. inversion H. apply be_encode_inj. assumption. Qed.

(** integers below 2^256 (every amount, chain id, nonce, gas, signature value) *)
Lemma wf_rlp_n_256 n : n < 2 ^ 256 -> wf (rlp_n n).
Proof.
  intros H. unfold rlp_n. apply wf_Str. unfold len.
  assert (K : n < 256 ^ N.of_nat 32) by (change (256 ^ N.of_nat 32) with (2 ^ 256); exact H).
  pose proof (be_encode_length n 32 K).
  assert (N.of_nat (length (be_encode n)) <= 32) by lia.
  assert (32 < 256 ^ 8) by (vm_compute; reflexivity). lia.
Qed.

(** * the standard test vectors (ethereum/tests RLPTests), evaluated *)
Example rlp_dog : encode (Str [100; 111; 103]) = [131; 100; 111; 103].
Proof. reflexivity. Qed.
Example rlp_cat_dog : encode (Lst [Str [99; 97; 116]; Str [100; 111; 103]]) = [200; 131; 99; 97; 116; 131; 100; 111; 103].
Proof. reflexivity. Qed.
Example rlp_empty_string : encode (Str []) = [128].
Proof. reflexivity. Qed.
Example rlp_empty_list : encode (Lst []) = [192].
Proof. reflexivity. Qed.
Example rlp_zero : encode (rlp_n 0) = [128].
Proof. reflexivity. Qed.
Example rlp_15 : encode (rlp_n 15) = [15].
Proof. reflexivity. Qed.
Example rlp_128 : encode (rlp_n 128) = [129; 128].
Proof. reflexivity. Qed.
Example rlp_1024 : encode (rlp_n 1024) = [130; 4; 0].
Proof. reflexivity. Qed.
Example rlp_set_theory :
  encode (Lst [Lst []; Lst [Lst []]; Lst [Lst []; Lst [Lst []]]]) = [199; 192; 193; 192; 195; 192; 193; 192].
Proof. reflexivity. Qed.
Example rlp_long_string :
  firstn 3 (encode (Str (repeat 97 56))) = [184; 56; 97] /\ length (encode (Str (repeat 97 56))) = 58%nat.
Proof. split; reflexivity. Qed.
Example rlp_long_list :
  firstn 4 (encode (Lst (repeat (Str (repeat 97 3)) 300))) = [249; 4; 176; 131].
Proof. vm_compute. reflexivity. Qed.
Example rlp_decode_runs :
  decode 10 (encode (Lst [Str [1]; Lst [Str []; Str (repeat 7 60)]]) ++ [5; 6])
  = Some (Lst [Str [1]; Lst [Str []; Str (repeat 7 60)]], [5; 6]).
Proof. vm_compute. reflexivity. Qed.
